------------------------------- MODULE Assemble -------------------------------
(* C23 - pkg/services/object/get: reading a whole object or any payload range of an object stored whole,
   size-split (v1 = split ID, v2 = first-part ID; through the link object or by walking back from the last
   part) or erasure-coded with up to parity-count parts missing.

   A payload of length L is the byte positions 0..L-1. What a read returns is modelled as a list of PIECES
   <<absolute offset, length>> in the order they are written to the client; the property is that the pieces
   are exactly the requested interval (contiguous, right start, right length) or that an unsatisfiable
   range is reported as out of range.

   Implementation-shaped operators (one per code path, same arithmetic as the Go code):
     Resolve          blobstor/common.PayloadRange.Resolve (all range modes)
     ReadV1           assemble.go: initFromChild + buildChainInReverse + copy of the last child / link
     ReadV2Link       assembly_v2.go: processV2Link + rangeFromLink + requiredChildrenIter
     ReadV2NoLink     assembly_v2.go: processV2Last + buildChainInReverse
     ReadEC           ec.go: copyECObjectRangeByRule / copyECObjectRangeByParts / copyECPartsRanges + recovery
   Declarative reference: Want / RefRead.

   Deviation switches (TRUE = the code as it is in the tree, FALSE = repaired code, see fixes/C23-*.diff):
     BugV1NoLinkExtra  the last child is copied with range (0,0) = "whole payload" when the requested range
                       ends before the last child: its whole payload is appended to the answer;
     BugV2NoLinkEmpty  processV2Last never sets curOff, buildChainInReverse stops at once: empty answer;
     BugECFirstPart    the parent header of a ranged EC read is taken from part #0 only: not found when
                       part #0 is missing although enough parts are available;
     BugECNoDataHeader restoreFromECPartsByRule takes the parent header from DATA parts only: when all k data
                       parts are unavailable (possible iff k <= m) the full GET decodes with payload length 0
                       and answers OK with a zero header and an empty payload (for an empty object: not found,
                       the nil parity payloads are counted as missing parts).                           *)
EXTENDS Integers, Sequences, FiniteSets, TLC

CONSTANTS BugV1NoLinkExtra, BugV2NoLinkEmpty, BugECFirstPart, BugECNoDataHeader

Min(a, b) == IF a < b THEN a ELSE b
CeilDiv(a, b) == (a + b - 1) \div b

\* results
OOR == [st |-> "oor", pieces |-> <<>>]
NotFound == [st |-> "notfound", pieces |-> <<>>]
Failed == [st |-> "err", pieces |-> <<>>]
Ok(ps) == [st |-> "ok", pieces |-> ps]

RECURSIVE SumLen(_)
SumLen(ps) == IF ps = <<>> THEN 0 ELSE ps[1][2] + SumLen(Tail(ps))
NonEmpty(ps) == SelectSeq(ps, LAMBDA p : p[2] > 0)
Contiguous(ps) == LET q == NonEmpty(ps) IN \A i \in 1..(Len(q) - 1) : q[i + 1][1] = q[i][1] + q[i][2]
StartOf(ps) == LET q == NonEmpty(ps) IN IF q = <<>> THEN 0 ELSE q[1][1]

-----------------------------------------------------------------------------
(* Declarative reference. r = [mode, a, b]. *)
WantRange(r, L) ==
  CASE r.mode = "none"   -> <<TRUE, 0, L>>
    [] r.mode = "offlen" -> IF r.b = 0 THEN (IF r.a = 0 THEN <<TRUE, 0, L>> ELSE <<FALSE, 0, 0>>)   \* zero length = whole payload
                            ELSE IF r.a + r.b > L THEN <<FALSE, 0, 0>> ELSE <<TRUE, r.a, r.b>>
    [] r.mode = "bounds" -> IF r.a > r.b \/ r.a >= L THEN <<FALSE, 0, 0>>                            \* first..last inclusive, last clipped
                            ELSE <<TRUE, r.a, Min(r.b, L - 1) - r.a + 1>>
    [] r.mode = "from"   -> IF r.a # 0 /\ r.a >= L THEN <<FALSE, 0, 0>> ELSE <<TRUE, r.a, L - r.a>>   \* "from 0" = whole payload, also when empty
    [] r.mode = "suffix" -> IF r.a = 0 THEN <<FALSE, 0, 0>> ELSE <<TRUE, L - Min(r.a, L), Min(r.a, L)>>  \* last a bytes, clipped
RefRead(r, L) == LET w == WantRange(r, L) IN
                 IF w[1] THEN [st |-> "ok", off |-> w[2], n |-> w[3]] ELSE [st |-> "oor", off |-> 0, n |-> 0]

\* a code result satisfies the reference
Satisfies(res, ref) ==
  /\ res.st = ref.st
  /\ ref.st = "ok" => /\ SumLen(res.pieces) = ref.n
                      /\ Contiguous(res.pieces)
                      /\ ref.n > 0 => StartOf(res.pieces) = ref.off

-----------------------------------------------------------------------------
(* common.PayloadRange.Resolve(payloadLen): <<ok, off, ln>> *)
Resolve(r, L) ==
  LET Final(off, ln) == IF ln # 0 /\ (off >= L \/ L - off < ln) THEN <<FALSE, 0, 0>> ELSE <<TRUE, off, ln>>
  IN CASE r.mode = "none"   -> Final(0, L)
       [] r.mode = "offlen" -> IF r.b = 0 THEN (IF r.a # 0 THEN <<FALSE, 0, 0>> ELSE Final(0, L)) ELSE Final(r.a, r.b)
       [] r.mode = "bounds" -> IF r.a > r.b \/ r.a >= L THEN <<FALSE, 0, 0>> ELSE Final(r.a, Min(r.b, L - 1) - r.a + 1)
       [] r.mode = "from"   -> IF r.a # 0 /\ r.a >= L THEN <<FALSE, 0, 0>> ELSE Final(r.a, L - r.a)
       [] r.mode = "suffix" -> IF r.a = 0 THEN <<FALSE, 0, 0>> ELSE Final(L - Min(r.a, L), Min(r.a, L))

\* children of a size-split object: sizes[i], absolute start of child i
RECURSIVE StartAt(_, _)
StartAt(sizes, i) == IF i = 1 THEN 0 ELSE StartAt(sizes, i - 1) + sizes[i - 1]
SplitSizes(L, S) == LET n == CeilDiv(L, S) IN [i \in 1..n |-> IF i < n THEN S ELSE L - (n - 1) * S]

\* reading child i (absolute start st, payload size sz) with an optional offset/length range (<<>> = no range):
\* the child is a stored object, so its own Resolve applies - in particular (0, 0) means the WHOLE child
ChildPieces(st, sz, rng) ==
  IF rng = <<>> THEN <<TRUE, <<st, sz>>>>
  ELSE LET x == Resolve([mode |-> "offlen", a |-> rng[1], b |-> rng[2]], sz)
       IN IF x[1] THEN <<TRUE, <<st + x[2], x[3]>>>> ELSE <<FALSE, <<0, 0>>>>

\* plan = sequence of <<child index, rng>>; emits the pieces or fails
Emit(sizes, plan) ==
  LET ps == [j \in 1..Len(plan) |-> ChildPieces(StartAt(sizes, plan[j][1]), sizes[plan[j][1]], plan[j][2])]
  IN IF \E j \in 1..Len(ps) : ~ps[j][1] THEN Failed ELSE Ok([j \in 1..Len(ps) |-> ps[j][2]])

\* assemble.go buildChainInReverse: walk from child i towards the first one; result in forward order
RECURSIVE Chain(_, _, _, _, _, _)
Chain(sizes, i, curOff, ranged, from, to) ==
  IF i = 0 THEN <<>>
  ELSE IF ranged /\ curOff <= from THEN <<>>
  ELSE LET sz == sizes[i]
           c2 == curOff - sz
           off == IF from > c2 THEN from - c2 ELSE 0
           sz1 == IF from > c2 THEN sz - (from - c2) ELSE sz
           sz2 == IF to < c2 + off + sz1 THEN to - off - c2 ELSE sz1
           rest == Chain(sizes, i - 1, c2, ranged, from, to)
       IN IF ~ranged THEN Append(rest, <<i, <<>>>>)
          ELSE IF c2 < to THEN Append(rest, <<i, <<off, sz2>>>>) ELSE rest

AllChildren(sizes) == [i \in 1..Len(sizes) |-> <<i, <<>>>>]

\* ---- split v1 (assemble.go): link = TRUE: split info has the link object, else only the last part
ReadV1(L, sizes, link, r) ==
  LET n == Len(sizes) IN
  IF r.mode = "none" THEN
       IF link THEN Emit(sizes, AllChildren(sizes))                                  \* overtakePayloadDirectly(children)
       ELSE Emit(sizes, Append(Chain(sizes, n - 1, 0, FALSE, 0, 0), <<n, <<>>>>))      \* chain in reverse, then the last child
  ELSE
  LET res == Resolve(r, L) IN
  IF ~res[1] THEN OOR
  ELSE
  LET seekOff == res[2]
      seekLen == IF res[3] = 0 THEN L - seekOff ELSE res[3]
      seekTo == seekOff + seekLen
  IN IF L < seekOff \/ L < seekTo THEN OOR
     ELSE
     LET childSize == IF link THEN 0 ELSE sizes[n]           \* initFromChild(link | last child)
         startRight == L - childSize
         from == IF startRight < seekOff THEN seekOff - startRight ELSE 0
         to == IF seekOff + seekLen > startRight + from THEN Min(seekOff + seekLen - startRight, childSize) ELSE 0
         segLen == IF to > from THEN to - from ELSE 0
         lastRng == IF segLen > 0 THEN <<from, segLen>> ELSE <<0, 0>>
         \* buildChainInReverse reads the resolved request range again (rng.SetLength in initFromChild acts on a temporary)
         chain == Chain(sizes, IF link THEN n ELSE n - 1, startRight, TRUE, res[2], res[2] + res[3])
         lastPlan == IF link THEN <<>>                                               \* the link has no payload
                     ELSE IF segLen = 0 /\ ~BugV1NoLinkExtra THEN <<>>               \* repaired: nothing requested from the last child
                     ELSE << <<n, lastRng>> >>                                       \* as is: (0,0) = whole last child
     IN Emit(sizes, chain \o lastPlan)

\* ---- requiredChildrenIter (assembly_v2.go), 1-based indexes: <<first, firstOffset, last, lastBound>>
RECURSIVE ReqFrom(_, _, _, _, _, _, _)
ReqFrom(sizes, i, seen, left, right, first, firstOff) ==
  IF i > Len(sizes) THEN <<first, firstOff, 1, 0>>          \* Go zero values: lastChildIndex = 0, bound = 0
  ELSE LET seen2 == seen + sizes[i] IN
       IF seen2 <= left THEN ReqFrom(sizes, i + 1, seen2, left, right, first, firstOff)
       ELSE LET f == IF first = 0 THEN i ELSE first
                fo == IF first = 0 THEN sizes[i] - (seen2 - left) ELSE firstOff
            IN IF right <= seen2 THEN <<f, fo, i, sizes[i] - (seen2 - right)>>
               ELSE ReqFrom(sizes, i + 1, seen2, left, right, f, fo)
RequiredChildren(off, ln, sizes) == ReqFrom(sizes, 1, 0, off, off + ln, 0, 0)

\* ---- split v2 through the link object (processV2Link + rangeFromLink)
ReadV2Link(L, sizes, r) ==
  IF r.mode = "none" THEN Emit(sizes, AllChildren(sizes))
  ELSE
  LET res == Resolve(r, L) IN
  IF ~res[1] THEN OOR
  ELSE
  LET seekOff == res[2]
      seekLen == IF res[3] = 0 THEN L ELSE res[3]
      seekTo == seekOff + seekLen
  IN IF L < seekOff \/ L < seekTo THEN OOR
     ELSE
     LET rc == RequiredChildren(res[2], res[3], sizes)
         first == rc[1]
         last == rc[3]
         RngOf(idx) == IF idx # first /\ idx # last THEN <<>>
                       ELSE LET o == IF idx = first THEN rc[2] ELSE 0
                                l0 == IF idx = first THEN sizes[idx] - rc[2] ELSE 0
                                l1 == IF idx = last THEN rc[4] - o ELSE l0
                            IN <<o, l1>>
     IN IF first = 0 THEN Failed
        ELSE Emit(sizes, [j \in 1..(last - first + 1) |-> <<first + j - 1, RngOf(first + j - 1)>>])

\* ---- split v2 without the link object (processV2Last)
ReadV2NoLink(L, sizes, r) ==
  LET n == Len(sizes) IN
  IF r.mode = "none" THEN Emit(sizes, Chain(sizes, n, 0, FALSE, 0, 0))
  ELSE
  LET res == Resolve(r, L) IN
  IF ~res[1] THEN OOR
  ELSE LET curOff == IF BugV2NoLinkEmpty THEN 0 ELSE L        \* as is: exec.curOff is never initialised on this path
       IN Emit(sizes, Chain(sizes, n, curOff, TRUE, res[2], res[2] + res[3]))

\* ---- whole object: the storage engine resolves the range itself
ReadWhole(L, r) == LET res == Resolve(r, L) IN IF res[1] THEN Ok(<< <<res[2], res[3]>> >>) ELSE OOR

\* ---- erasure-coded object, rule k/m, miss = set of 1-based indexes of unavailable parts
ReadEC(L, k, m, miss, r) ==
  IF Cardinality(miss) > m THEN NotFound
  ELSE IF r.mode = "none" THEN                                    \* restoreFromECPartsByRule + Decode (C21)
       IF BugECNoDataHeader /\ (1..k) \subseteq miss                \* header (payload length) known from data parts only:
       THEN (IF L = 0 THEN NotFound ELSE Ok(<<>>))                  \* empty object: nil parity parts count as missing
       ELSE Ok(<< <<0, L>> >>)
  ELSE IF BugECFirstPart /\ 1 \in miss THEN NotFound              \* copyECObjectRangeByRule: header from part #0 only
  ELSE
  LET res == Resolve(r, L) IN                                     \* resolveRange(parentHdr)
  IF ~res[1] THEN OOR
  ELSE IF L = 0 THEN Ok(<<>>)
  ELSE
  LET off == res[2]
      ln == res[3]
      P == CeilDiv(L, k)                                          \* fullPartLen
  IN IF off >= L \/ L - off < ln THEN OOR
     ELSE
     LET rc == RequiredChildren(off, ln, [i \in 1..(k + m) |-> P])
         first == rc[1]
         last == rc[3]
         \* the streaming stage (copyECPartsRanges) writes parts first..f-1, the recovery stage (DecodeRange) the parts
         \* f..last where f is the first unavailable requested part; both use the same per-part slice bounds
         FromOf(idx) == IF idx = first THEN rc[2] ELSE 0
         ToOf(idx) == IF idx = last THEN rc[4] ELSE P
     IN IF first = 0 THEN Failed
        ELSE Ok([j \in 1..(last - first + 1) |->
                   LET idx == first + j - 1 IN <<(idx - 1) * P + FromOf(idx), ToOf(idx) - FromOf(idx)>>])

\* ---- dispatch. c = [layout, L, sizes, k, m, miss]
Read(c, r) ==
  CASE c.layout = "whole"    -> ReadWhole(c.L, r)
    [] c.layout = "v1"       -> ReadV1(c.L, c.sizes, TRUE, r)
    [] c.layout = "v1nolink" -> ReadV1(c.L, c.sizes, FALSE, r)
    [] c.layout = "v2"       -> ReadV2Link(c.L, c.sizes, r)
    [] c.layout = "v2nolink" -> ReadV2NoLink(c.L, c.sizes, r)
    [] c.layout = "ec"       -> ReadEC(c.L, c.k, c.m, c.miss, r)

\* every piece lies inside the payload (no read beyond a child / into EC padding)
InBounds(res, L) == \A i \in 1..Len(res.pieces) : res.pieces[i][1] >= 0 /\ res.pieces[i][1] + res.pieces[i][2] <= L
=============================================================================
