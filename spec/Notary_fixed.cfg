SPECIFICATION Spec
CONSTANTS
  BugH14 = FALSE
INVARIANTS PropertyHolds
CHECK_DEADLOCK FALSE
