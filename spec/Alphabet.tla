------------------------------ MODULE Alphabet ------------------------------
(* C35 - inner ring nodes outside the alphabet never act with alphabet authority.

   Guards as they are in the code:
     IsAlphabet()            = AlphabetIndex() >= 0            pkg/innerring/state.go
     AlphabetIndex()/InnerRingIndex() = -1 when innerRingIndexer.update fails (one failing lookup -
                               inner ring list OR committee - fails both)   state.go, indexer.go
     alphabet emission        0 <= AlphabetIndex() < len(alphabet contracts)  processors/alphabet/process_emit.go
     voteForFSChainValidator  only InnerRingIndex() >= len(alphabet contracts) is rejected (H8: -1 and
                              every small index of a non-alphabet inner ring node pass)  state.go
     processNewEpoch          no guard before updatePlacementInContract     processors/netmap/process_epoch.go
     everything else          IsAlphabet()                                  processors/*
   and one fact of the morph client: a transaction that carries the alphabet multi-signature can only be
   built when the committee list can be fetched and contains the node's own key
   (notaryMultisigAccount -> wallet.Account.ConvertMultisig). ClientChecksMembership = TRUE models that;
   with FALSE the invariant below fails for the vote and the placement update (that is H8 as a weak
   guard; on real code the client check holds, so H8 is not a violation of C35).

   An event is a set of components (one delivery of NewEpoch reaches the netmap processor, the alphabet
   processor and the chained notary-deposit handler). State of the node:
     alphaIdx  true position of the node's key in the committee (-1 = not a member)
     irIdx     true position in the inner ring list (-1 = absent)
     lookup    "ok" | "irErr" | "cmErr"   which chain lookup fails
     again     the same notary request delivered a second time                                   *)
EXTENDS Integers, Sequences, FiniteSets, TLC

CONSTANTS N,                       \* number of alphabet contracts
          ClientChecksMembership

Events == {
  "fsn:netmap.addNode", "fsn:netmap.updateState",
  "fsn:container.put", "fsn:container.putNamed", "fsn:container.create", "fsn:container.createV2",
  "fsn:container.delete", "fsn:container.remove", "fsn:container.setEACL", "fsn:container.putEACL",
  "fsn:container.putReport", "fsn:container.setAttribute", "fsn:container.removeAttribute",
  "fsn:reputation.put",
  "fs:netmap.NewEpoch", "fs:netmap.NewEpoch/mapChanged", "fs:balance.Lock",
  "main:neofs.Deposit", "main:neofs.Withdraw", "main:neofs.Cheque", "main:neofs.SetConfig",
  "main:designate.Designation",
  "timer:epoch", "timer:basicIncome", "start:vote", "ctl:RequestNotary" }

IsNotary(ev) == SubSeq(ev, 1, 4) = "fsn:"

\* components of an event
Components(ev) ==
  CASE ev = "fs:netmap.NewEpoch" -> {"emit", "deposit"}
    [] ev = "fs:netmap.NewEpoch/mapChanged" -> {"emit", "deposit", "placement"}
    [] ev \in {"fsn:container.create", "fsn:container.createV2", "fsn:container.put", "fsn:container.putNamed"}
         -> {"alphaNotary", "placementOfNew"}
    [] ev = "main:neofs.Deposit" -> {"alphaNotary", "mintGas"}
    [] ev = "main:designate.Designation" -> {"sync"}
    [] ev = "start:vote" -> {"vote"}
    [] OTHER -> {"alphaNotary"}

States == [alphaIdx : -1..N, irIdx : -1..(N + 1), lookup : {"ok", "irErr", "cmErr"}, again : BOOLEAN]

Member(st) == st.alphaIdx >= 0
\* what the Server getters answer
\* (a state may carry the field `view` = what the indexer answers from its cache, see AlphabetHist.tla;
\*  without it every query goes to the chain)
HasView(st) == "view" \in DOMAIN st
AlphabetIndex(st) == IF HasView(st) THEN st.view.alpha ELSE IF st.lookup = "ok" THEN st.alphaIdx ELSE -1
InnerRingIndex(st) == IF HasView(st) THEN st.view.ir ELSE IF st.lookup = "ok" THEN st.irIdx ELSE -1
IsAlphabet(st) == AlphabetIndex(st) >= 0
\* morph client: alphabet-signed transaction can be produced
CanSign(st) == ~ClientChecksMembership \/ (st.lookup # "cmErr" /\ Member(st))

\* number of alphabet-authority transactions a component sends (harness fixture: 2 netmap nodes, 1 container)
Auth(c, st) ==
  CASE c = "alphaNotary" -> IF IsAlphabet(st) /\ CanSign(st) THEN 1 ELSE 0
    [] c = "emit" -> IF AlphabetIndex(st) >= 0 /\ AlphabetIndex(st) < N THEN 3 ELSE 0        \* emit + one transfer per node
    [] c = "placement" -> IF CanSign(st) THEN 1 ELSE 0                                       \* no guard
    [] c = "placementOfNew" -> IF IsAlphabet(st) /\ CanSign(st) THEN 1 ELSE 0                \* approvePutContainer: after the approval
    [] c = "vote" -> IF InnerRingIndex(st) < N /\ CanSign(st) THEN N ELSE 0                  \* H8 guard
    [] c = "sync" -> IF IsAlphabet(st) /\ CanSign(st)
                       THEN 3 + (IF InnerRingIndex(st) < N THEN N ELSE 0) ELSE 0             \* role x2, neofs + votes
    [] c = "mintGas" -> IF IsAlphabet(st) THEN 1 ELSE 0                                      \* TransferGas from the node's wallet
    [] c = "deposit" -> 0                                                                    \* own notary deposit: no authority
\* transactions that need no alphabet authority (own notary deposit)
Own(c, st) == IF c = "deposit" /\ IsAlphabet(st) THEN 2 ELSE 0                                \* main chain + FS chain

RECURSIVE SumOver(_, _, _)
SumOver(F(_, _), S, st) == IF S = {} THEN 0 ELSE LET c == CHOOSE x \in S : TRUE IN F(c, st) + SumOver(F, S \ {c}, st)

AuthCount(ev, st) == IF IsNotary(ev) /\ st.again THEN 0 ELSE SumOver(Auth, Components(ev), st)
\* the placement update that follows the approval of a new container is sent only when the network map can
\* satisfy the policy: optional
AuthCountMin(ev, st) == IF IsNotary(ev) /\ st.again THEN 0 ELSE SumOver(Auth, Components(ev) \ {"placementOfNew"}, st)
OwnCount(ev, st) == IF IsNotary(ev) /\ st.again THEN 0 ELSE SumOver(Own, Components(ev), st)

\* C35
Prop(st, auth, dups) == (auth > 0 => Member(st)) /\ dups = 0

VARIABLES ev, st, auth
vars == <<ev, st, auth>>
Init == ev \in Events /\ st \in States /\ auth = -1
Next == auth = -1 /\ auth' = AuthCount(ev, st) /\ UNCHANGED <<ev, st>>
Spec == Init /\ [][Next]_vars
NonMembersSilent == auth >= 0 => Prop(st, auth, 0)
\* non-vacuity: members do act
MembersAct == (auth >= 0 /\ st.lookup = "ok" /\ st.alphaIdx \in 0..(N - 1) /\ st.irIdx \in 0..(N - 1) /\ ~st.again) => auth > 0
=============================================================================
