---------------------------- MODULE FSTreeScanMC ----------------------------
(* C10 - exhaustive check of the combined-file header scan of spec/FSTreeScan.tla over all files of up
   to MaxMembers members with data lengths in Lens. With scaled constants (BufN, Pref) every relative
   position of a prefix to a buffer boundary is covered; with the real constants and a boundary family
   of lengths the *_asis cfgs yield counterexamples that are replayed on the real FSTree. *)
EXTENDS FSTreeScan
CONSTANTS Lens, MaxMembers, BugRefill, BugExactLimit, BugPrefixEOF
VARIABLE file
ScanInit == file = <<>>
ScanNext == /\ Len(file) < MaxMembers
            /\ \E l \in Lens : file' = Append(file, l)
ScanSpec == ScanInit /\ [][ScanNext]_file

ScanOK == \A k \in 1..Len(file) : \A c \in BOOLEAN : Outcome(BugRefill, BugExactLimit, file, k, c) = "ok"
PrefixedOK == \A p \in 0..5 : \A q \in 0..5 : \A c \in 1..4 : \A k \in {"file", "eof0"} : Drain(BugPrefixEOF, p, q, k, c) = p + q
DrainFastOK == \A b \in BOOLEAN : \A p \in 0..5 : \A q \in 0..5 : \A c \in 1..4 : \A k \in {"file", "eof0"} :
                 DrainFast(b, p, q, k, c) = Drain(b, p, q, k, c)
\* the deviations are real deviations of the model: used with the *_asis cfgs, where TLC must find them
NoPanic == \A k \in 1..Len(file) : Outcome(BugRefill, BugExactLimit, file, k, TRUE) # "panic"
NoOverrun == \A k \in 1..Len(file) : Outcome(BugRefill, BugExactLimit, file, k, FALSE) \in {"ok", "panic"}
=============================================================================
