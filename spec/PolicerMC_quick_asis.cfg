SPECIFICATION Spec
CONSTANTS
  L = L
  n1 = n1
  n2 = n2
  n3 = n3
  n4 = n4
  n5 = n5
  Nodes = {L, n1, n2, n3}
  Local = L
  RuleShapes <- ShapesQuick
  EcCnrRepLen = 0
  EcLens = {3}
  Families = {"rep", "eccnr", "ecpart"}
  BugMaintRebalance = TRUE
SYMMETRY Sym3
INVARIANTS TypeOK C26 MachineIsF ConfirmedAreReal StoredAreReal KfOnlyWithMaint LockLinkKept
CHECK_DEADLOCK FALSE
