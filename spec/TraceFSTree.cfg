SPECIFICATION TraceSpec
CONSTANTS
  BufN = 20480
  Pref = 38
  NA = 20
  VLen = 0
  Thrs = {}
  CountLimits = {}
  Writers = {}
  MaxItems = 0
  ZMems = {}
  UZ = 0
  Chunk = 512
  BugPrefixEOF = FALSE
  BugRefill = FALSE
  BugExactLimit = FALSE
  AllowAsIs = TRUE
INVARIANTS ResOK ScriptOK LayOK
CHECK_DEADLOCK FALSE
