------------------------------- MODULE WireMC -------------------------------
(* C41 model check: small layouts (field order permutations, missing / duplicate / unknown fields, 1- and 2-byte
   tag and length varints, a wrong wire type, empty values) and EVERY truncation point.
     * on canonical complete object messages the implementation-shaped fast paths return exactly the declarative
       bounds / payload prefix;
     * on every truncation of a canonical message they fail or return bounds of the complete message (a field cut
       off may be reported missing);
     * on every layout and truncation no returned bound leaves the buffer;
     * header level: parent bounds, payload length and type.                                                *)
EXTENDS Wire
CONSTANTS MaxFields      \* object-level layouts have up to MaxFields fields
VARIABLES lay, pc
vars == <<lay, pc>>

F(num, wt, tl, ll, n, v, sub) == [num |-> num, wt |-> wt, tl |-> tl, ll |-> ll, n |-> n, v |-> v, sub |-> sub]
Leaf(num) == F(num, 2, 1, 1, 2, 0, <<>>)
\* variants of one field: plain, wide tag, wide length, empty value, wrong wire type (varint)
Variants(num) == {Leaf(num), F(num, 2, 2, 1, 2, 0, <<>>), F(num, 2, 1, 2, 2, 0, <<>>), F(num, 2, 1, 1, 0, 0, <<>>),
                  F(num, 0, 1, 0, 1, 7, <<>>)}
ObjNums == 1..5                                      \* 5 = unknown field number
PlainSeqs(n) == [1..n -> ObjNums]
\* object-level layouts: every number sequence, with at most one field in a non-plain variant
ObjLayouts == UNION {{[i \in 1..n |-> Leaf(s[i])] : s \in PlainSeqs(n)} : n \in 0..MaxFields}
              \cup UNION {{[i \in 1..n |-> IF i = k THEN x ELSE Leaf(s[i])] :
                              s \in PlainSeqs(n), k \in 1..n, x \in UNION {Variants(m) : m \in ObjNums}} : n \in 1..MaxFields}

\* header-level layouts: payload length (5, varint), type (7, varint), attributes (10), split (11, nested), 12
SplitSubs == {<<Leaf(1), Leaf(2), Leaf(3), Leaf(4)>>, <<Leaf(1), Leaf(3), Leaf(4)>>, <<Leaf(4)>>, <<>>,
              <<Leaf(2), Leaf(1)>>, <<Leaf(1), Leaf(1)>>, <<Leaf(5), Leaf(1)>>, <<Leaf(1), Leaf(2), Leaf(3), Leaf(4), Leaf(7)>>,
              <<Leaf(1), F(3, 0, 1, 0, 1, 3, <<>>)>>, <<F(1, 2, 2, 2, 2, 0, <<>>), Leaf(4)>>}
SubSize(sub) == Total(sub)
HdrFields == {F(5, 0, 1, 0, 1, 9, <<>>), F(5, 0, 2, 0, 2, 300, <<>>), F(7, 0, 1, 0, 1, 3, <<>>), Leaf(10), Leaf(12), F(7, 2, 1, 1, 1, 0, <<>>)}
             \cup {F(11, 2, 1, 1, SubSize(sub), 0, sub) : sub \in SplitSubs}
HdrLayouts == UNION {[1..n -> HdrFields] : n \in 0..2}

\* object layouts with a nested header holding a split header, followed (or not) by a payload field
HdrWith(sub) == {<<F(11, 2, 1, 1, SubSize(sub), 0, sub)>>, <<F(5, 0, 1, 0, 1, 9, <<>>), F(11, 2, 1, 1, SubSize(sub), 0, sub)>>}
NestedObjLayouts == UNION {{ <<Leaf(1), F(3, 2, 1, 1, Total(h), 0, h)>>, <<F(3, 2, 1, 1, Total(h), 0, h), Leaf(4)>>,
                             <<Leaf(1), Leaf(2), F(3, 2, 1, 1, Total(h), 0, h), F(4, 2, 1, 1, 3, 0, <<>>)>> } :
                           h \in UNION {HdrWith(sub) : sub \in SplitSubs}}

Init == lay = <<>> /\ pc = "start"
PickNested == pc = "start" /\ \E x \in NestedObjLayouts : lay' = x /\ pc' = "nested"
PickObj == pc = "start" /\ \E x \in ObjLayouts : lay' = x /\ pc' = "obj"
PickHdr == pc = "start" /\ \E x \in HdrLayouts : lay' = x /\ pc' = "hdr"
Next == PickObj \/ PickHdr \/ PickNested
Spec == Init /\ [][Next]_vars

Cuts == 0..Total(lay)
Lenient(got, want) == got = want \/ got = Missing          \* a cut-off field may be reported missing

ObjCanonicalComplete ==
  pc = "obj" /\ CanonObj(lay) /\ Total(lay) > 0 =>
    LET nb == NonPayloadBounds(lay, Total(lay))
        ex == Extract(lay, Total(lay))
    IN /\ ~nb.err /\ nb.id = RefBounds(lay, 1) /\ nb.sig = RefBounds(lay, 2) /\ nb.hdr = RefBounds(lay, 3)
       /\ ~ex[1] /\ ex[2] = RefPrefix(lay)
ObjCanonicalTruncated ==
  pc = "obj" /\ CanonObj(lay) =>
    \A cut \in Cuts :
      LET nb == NonPayloadBounds(lay, cut)
          ex == Extract(lay, cut)
      IN /\ nb.err \/ (Lenient(nb.id, RefBounds(lay, 1)) /\ Lenient(nb.sig, RefBounds(lay, 2)) /\ Lenient(nb.hdr, RefBounds(lay, 3)))
         /\ ex[1] \/ ex[2] <= cut
ObjNeverOutOfBuffer ==
  pc = "obj" => \A cut \in Cuts :
                  LET nb == NonPayloadBounds(lay, cut)
                      ex == Extract(lay, cut)
                  IN (nb.err \/ AllWithin(nb, cut)) /\ (ex[1] \/ ex[2] <= cut)
\* documented contract: unordered or repeated non-payload fields are an error, never a wrong answer
ObjUnorderedIsError ==
  pc = "obj" /\ Total(lay) > 0 /\ (\E i \in 1..(Len(lay) - 1) : lay[i].num <= 3 /\ lay[i + 1].num <= lay[i].num /\ \A j \in 1..i : lay[j].num < 3 /\ lay[j].wt = 2)
    => NonPayloadBounds(lay, Total(lay)).err

SubCanon(sub) == Ascending(sub) /\ \A i \in 1..Len(sub) : sub[i].wt = 2
\* the parent walk of GetParentNonPayloadFieldBounds never leaves the split header, whatever follows it (payload!)
NestedParentInsideSplit ==
  pc = "nested" =>
    LET hi == CHOOSE j \in 1..Len(lay) : lay[j].num = 3
        h == lay[hi].sub
        si == CHOOSE j \in 1..Len(h) : h[j].num = 11
        sFrom == Start(lay, hi) + lay[hi].tl + lay[hi].ll + Start(h, si) + h[si].tl + h[si].ll
        sTo == sFrom + h[si].n
        Inside(b) == b = Missing \/ (b[1] >= sFrom /\ b[3] <= sTo)
    IN \A cut \in Cuts :
         LET pb == ParentBoundsObj(lay, cut) IN
         pb.err \/ (Inside(pb.id) /\ Inside(pb.sig) /\ Inside(pb.hdr) /\ AllWithin(pb, cut))
NestedParentCanonical ==
  pc = "nested" =>
    LET hi == CHOOSE j \in 1..Len(lay) : lay[j].num = 3
        h == lay[hi].sub
        si == CHOOSE j \in 1..Len(h) : h[j].num = 11
        sub == h[si].sub
        vfrom == Start(lay, hi) + lay[hi].tl + lay[hi].ll + Start(h, si) + h[si].tl + h[si].ll
        Shift(b) == IF b = Missing THEN Missing ELSE <<b[1] + vfrom, b[2] + vfrom, b[3] + vfrom>>
        pb == ParentBoundsObj(lay, Total(lay))
    IN (SubCanon(sub) /\ sub # <<>>) =>
         ~pb.err /\ pb.id = Shift(RefBounds(sub, 1)) /\ pb.sig = Shift(RefBounds(sub, 3)) /\ pb.hdr = Shift(RefBounds(sub, 4))
\* head buffer of fstree: an object whose non-payload part fits the buffer is always readable by the head paths
HeadBufferSuffices == pc \in {"obj", "nested"} /\ CanonObj(lay) /\ Total(lay) > 0 /\ NonPayloadSize(lay) <= HeadBufLen => ~HeadRead(lay)[1]

HdrAsc == \A i \in 1..(Len(lay) - 1) : lay[i].num <= lay[i + 1].num
HdrNum(num) == \E i \in 1..Len(lay) : lay[i].num = num
HdrFirst(num) == lay[CHOOSE i \in 1..Len(lay) : lay[i].num = num /\ \A j \in 1..(i - 1) : lay[j].num # num]
HdrValues ==
  pc = "hdr" /\ HdrAsc /\ (\A i \in 1..Len(lay) : lay[i].num \in {5, 7} => lay[i].wt = 0) =>
    LET p == VarintField(lay, Total(lay), 5)
        t == VarintField(lay, Total(lay), 7)
    IN /\ ~p[1] /\ p[2] = (IF HdrNum(5) THEN HdrFirst(5).v ELSE 0)
       /\ ~t[1] /\ t[2] = (IF HdrNum(7) THEN HdrFirst(7).v ELSE 0)
HdrParent ==
  pc = "hdr" /\ Total(lay) > 0 /\ HdrAsc /\ HdrNum(11) /\ (\A i \in 1..Len(lay) : lay[i].num = 11 => SubCanon(lay[i].sub) /\ lay[i].sub # <<>>)
             /\ (\A i \in 1..Len(lay) : lay[i].num \in {5, 7} => lay[i].wt = 0) /\ Cardinality({i \in 1..Len(lay) : lay[i].num = 11}) = 1 =>
    LET i == CHOOSE j \in 1..Len(lay) : lay[j].num = 11
        vfrom == Start(lay, i) + lay[i].tl + lay[i].ll
        sub == lay[i].sub
        Shift(b) == IF b = Missing THEN Missing ELSE <<b[1] + vfrom, b[2] + vfrom, b[3] + vfrom>>
        pb == ParentBoundsHdr(lay, Total(lay))
    IN ~pb.err /\ pb.id = Shift(RefBounds(sub, 1)) /\ pb.sig = Shift(RefBounds(sub, 3)) /\ pb.hdr = Shift(RefBounds(sub, 4))
HdrNeverOutOfBuffer ==
  pc = "hdr" => \A cut \in Cuts : LET pb == ParentBoundsHdr(lay, cut) IN pb.err \/ AllWithin(pb, cut)
=============================================================================
