-------------------------- MODULE TraceAlphabetHist --------------------------
(* C->M validation of index-cache histories (C35): Boot / Chain / Expire / Deliver events recorded on a fully
   wired node whose indexer has a long cache time-out. Bound: the indices the real Server answers after the
   delivery (e.ans) and the number of authority transactions; HistProp is evaluated at every step. A mismatch
   that does not break the property is printed as <<"DRIFT", l>>.                                   *)
EXTENDS AlphabetHist, Json
Trace == ndJsonDeserialize("trace.ndjson")
VARIABLES l, hdups
TraceInit == /\ l = 1 /\ hdups = 0
             /\ chain = [alphaIdx |-> -1, irIdx |-> -1, lookup |-> "ok"] /\ cache = NoCache /\ hauth = 0 /\ hmember = FALSE
             /\ hview = [alpha |-> -1, ir |-> -1]
             /\ ev = "timer:epoch" /\ st = [alphaIdx |-> -1, irIdx |-> -1, lookup |-> "ok", again |-> FALSE] /\ auth = -1
TraceNext ==
  /\ l <= Len(Trace)
  /\ l' = l + 1
  /\ UNCHANGED vars
  /\ LET e == Trace[l] IN
       CASE e.ev = "Boot" -> chain' = e.st /\ cache' = NoCache /\ hauth' = 0 /\ hmember' = FALSE /\ hview' = hview /\ hdups' = 0
         [] e.ev = "Chain" -> DoChain(e.st) /\ hdups' = hdups
         [] e.ev = "Expire" -> DoExpire /\ hdups' = hdups
         [] e.ev = "Deliver" ->
              LET v == View(chain, cache) IN
                /\ cache' = CacheAfter(chain, cache)
                /\ hauth' = e.out.auth /\ hdups' = e.out.dups
                /\ hview' = v /\ hmember' = Member(chain) /\ UNCHANGED chain
                /\ \/ /\ e.ans.alpha = v.alpha /\ e.ans.ir = v.ir
                      /\ e.out.auth <= AuthCount(e.name, WithView(chain, v))
                      /\ e.out.auth >= AuthCountMin(e.name, WithView(chain, v))
                   \/ PrintT(<<"DRIFT", l>>)
TraceSpec == TraceInit /\ [][TraceNext]_<<vars, hvars, l, hdups>>
TraceNotStuck == l <= Len(Trace) => ENABLED TraceNext
NoRepeats == hdups = 0
=============================================================================
