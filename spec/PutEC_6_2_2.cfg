SPECIFICATION Spec
CONSTANTS
  N = 6
  D = 2
  P = 2
INVARIANTS SuccessIffEnoughNodes DistinctAcceptingNodes PlacedOnAccepting OneTryPerNode
CHECK_DEADLOCK FALSE
