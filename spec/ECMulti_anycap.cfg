SPECIFICATION Spec
CONSTANTS
  MRules <- RulesSmall
  MaxRuleSeq = 2
  MaxLen = 5
  PoolCap = 4
  CapMode = "any"
INVARIANTS CorruptionNeedsSpareCapacity PredictionAgrees PayloadIntact
CHECK_DEADLOCK FALSE
