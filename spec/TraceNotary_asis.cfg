SPECIFICATION TraceSpec
CONSTANTS
  BugH14 = TRUE
INVARIANTS RecProp RecCode
CHECK_DEADLOCK FALSE
