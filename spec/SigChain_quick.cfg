SPECIFICATION Spec
CONSTANTS
  MaxLayers = 3
  MaxSteps = 2
INVARIANTS InvLegacyAcceptIffHonest InvNewAcceptIffOuterCovers InvSignedPartsCovered
CHECK_DEADLOCK FALSE
