SPECIFICATION Spec
CONSTANTS
  NRec = 2
  MaxCuts = 4
  BugH4 = FALSE
INVARIANTS TypeOK RestoreExact
CHECK_DEADLOCK FALSE
