------------------------------- MODULE FSTree -------------------------------
(* C10 - pkg/local_object_storage/blobstor/fstree: the file tree behaves as a map address -> bytes.

   Two layers:
     store  the declarative map of the property: address -> version id of the bytes last stored (0 = absent)
     loc    the implementation-shaped layout: address -> the file its directory entry points to.
            A file is plain (the stored blob itself) or combined (a sequence of members
            <prefix, data>; several directory entries are hard links to one combined file).
   One action per public call. The writers are modelled as the code behaves:
     linux writer   Put: stored length > Thr or count limit < 2 => plain O_TMPFILE file, else appended to
                    the current batch file; linkat and EEXIST is success (the existing link stays);
                    PutBatch: ONE combined file with all items in map-iteration order;
                    concurrent Puts share batch files of at most `cnt` members.
     generic writer every object is written to "<path>#i" and renamed over the path (replaces).
     Delete         unlinks the directory entry only; other members keep the shared inode.
   Readers: Get/GetBytes/Iterate look the member up by OID scanning the prefixes with Seek
   (ReadMap); Head/GetStream/ReadObject/ReadHeader use the buffered scan of spec/FSTreeScan.tla.
   Versions: the bytes of an address are fixed while it is present (objects are content addressed;
   the writers rely on it: EEXIST = success), a new version may appear only after a Delete.
   Results: v > 0 exactly version v; 0 not found; -1 other bytes / unexpected error; -2 clean mutator
   error; -3 listed twice; -4 panic.                                                                *)
EXTENDS FSTreeScan

CONSTANTS NA,            \* addresses 1..NA
          VLen,          \* VLen[a][v]: stored length of version v of address a (model runs; traces log real lengths)
          Thrs,          \* choices of combinedSizeThreshold
          CountLimits,   \* choices of combinedCountLimit
          Writers,       \* subset of {"linux", "generic"}
          MaxItems,      \* max items of PutBatch / concurrent Put events in model runs
          ZMems, UZ,     \* model runs: the <<a, v>> stored zstd-compressed, and their uncompressed length
          Chunk,         \* read size of the stream consumer (io.ReadAll starts with 512 bytes)
          BugRefill, BugExactLimit, BugPrefixEOF   \* deviation switches of FSTreeScan (TRUE = code as found)

Addrs == 1..NA
Vers(a) == 1..Len(VLen[a])

VARIABLES store, loc, cnt, thr, writer
vars == <<store, loc, cnt, thr, writer>>

NoFile == [comb |-> FALSE, mem |-> <<>>]
Mem(a, v) == [a |-> a, v |-> v, l |-> VLen[a][v], z |-> <<a, v>> \in ZMems, u |-> IF <<a, v>> \in ZMems THEN UZ ELSE VLen[a][v]]
Plain(m) == [comb |-> FALSE, mem |-> <<m>>]
Comb(ms) == [comb |-> TRUE, mem |-> ms]
Range(s) == {s[i] : i \in 1..Len(s)}
Lens3(f) == [i \in 1..Len(f.mem) |-> f.mem[i].l]

IsPlain(m) == m.l > thr \/ cnt < 2 \/ writer = "generic"

\* index of the first member of f with address a (0 = none)
FirstIdx(f, a) == IF \E i \in 1..Len(f.mem) : f.mem[i].a = a
                    THEN CHOOSE i \in 1..Len(f.mem) : f.mem[i].a = a /\ \A j \in 1..(i - 1) : f.mem[j].a # a
                    ELSE 0

\* extractCombinedObject: a plain file is returned whatever it holds; a combined one is searched by OID
ReadMap(f, a) == IF f = NoFile THEN 0
                 ELSE IF ~f.comb THEN f.mem[1].v
                 ELSE LET i == FirstIdx(f, a) IN IF i = 0 THEN 0 ELSE f.mem[i].v

StreamAPIs == {"stream", "readobj"}
CloseAPIs == {"head", "readhdr"}
MapAPIs == {"get", "bytes", "exists"}
APIs == StreamAPIs \cup CloseAPIs \cup MapAPIs

\* readHeader + stream (closeOnly: Head / ReadHeader)
ScanMember(bR, bE, f, a, closeOnly) ==       \* <<result, member>>
  IF f = NoFile THEN <<0, 0>>
  ELSE IF ~f.comb THEN <<f.mem[1].v, f.mem[1]>>
  ELSE LET i == FirstIdx(f, a) IN
       IF i = 0 THEN <<-1, 0>>
       ELSE LET o == Outcome(bR, bE, Lens3(f), i, closeOnly) IN
            <<CASE o = "ok" -> f.mem[i].v [] o = "panic" -> -4 [] OTHER -> -1, f.mem[i]>>

\* ReadObject copies the buffered bytes into the caller's buffer (BufLen) and returns what does not fit
\* - only possible for a blob decompressed in memory - as a prefixed stream over an empty rest
ReadScan(bR, bE, bP, f, a, api) ==
  LET sm == ScanMember(bR, bE, f, a, api \in CloseAPIs)
      r  == sm[1]
      m  == sm[2]
  IN IF r > 0 /\ api = "readobj" /\ m.z /\ m.l < BufN /\ m.u > BufLen
          /\ DrainFast(bP, m.u - BufLen, 0, "eof0", Chunk) # m.u - BufLen
       THEN -1 ELSE r

ReadImpl(bR, bE, bP, api, f, a) == IF api \in MapAPIs THEN ReadMap(f, a) ELSE ReadScan(bR, bE, bP, f, a, api)

-----------------------------------------------------------------------------
(* Events. Members are records [a, v, l, z, u] (stored length, compressed, uncompressed length).
   Put(m) PutEmpty(a) Delete(a) PutBatch(file: members in written order)
   ParPut(items, groups: the combined files the concurrent small Puts ended up in)          *)
Link(L, a, f) == IF writer = "linux" /\ L[a] # NoFile THEN L[a] ELSE f

GroupOf(groups, m) == IF \E i \in 1..Len(groups) : m \in Range(groups[i])
                        THEN Comb(groups[CHOOSE i \in 1..Len(groups) : m \in Range(groups[i])])
                        ELSE NoFile

NewFile(e, m) == CASE e.ev = "Put" -> IF IsPlain(m) THEN Plain(m) ELSE Comb(<<m>>)
                   [] e.ev = "PutBatch" -> IF writer = "linux" THEN Comb(e.file) ELSE Plain(m)
                   [] e.ev = "ParPut" -> IF IsPlain(m) THEN Plain(m) ELSE GroupOf(e.groups, m)

Items(e) == CASE e.ev = "Put" -> {e.m}
              [] e.ev = "PutBatch" -> Range(e.file)
              [] e.ev = "ParPut" -> Range(e.items)
              [] OTHER -> {}

ItemOf(e, a) == CHOOSE m \in Items(e) : m.a = a

NextLoc(L, e) ==
  CASE e.ev \in {"Put", "PutBatch", "ParPut"} ->
         [a \in Addrs |-> IF \E m \in Items(e) : m.a = a THEN Link(L, a, NewFile(e, ItemOf(e, a))) ELSE L[a]]
    [] e.ev = "Delete" -> [L EXCEPT ![e.a] = NoFile]
    [] OTHER -> L

NextStore(S, e) ==
  CASE e.ev \in {"Put", "PutBatch", "ParPut"} ->
         [a \in Addrs |-> IF \E m \in Items(e) : m.a = a THEN ItemOf(e, a).v ELSE S[a]]
    [] e.ev = "Delete" -> [S EXCEPT ![e.a] = 0]
    [] OTHER -> S

\* result of a mutator as the property demands it (healthy file system)
MutRes(S, e) == CASE e.ev = "Delete" -> IF S[e.a] = 0 THEN 0 ELSE 1
                  [] e.ev = "PutEmpty" -> -2
                  [] OTHER -> 1

\* script validity: the bytes of a present address never change, addresses of one call are distinct
Valid(S, e) == /\ \A m \in Items(e) : S[m.a] \in {0, m.v}
               /\ \A m1, m2 \in Items(e) : m1.a = m2.a => m1 = m2

\* the combined files of concurrent Puts: every small item in exactly one group of at most cnt members
ValidGroups(e) ==
  LET small == {m \in Items(e) : ~IsPlain(m)} IN
  /\ \A i \in 1..Len(e.groups) : Len(e.groups[i]) \in 1..cnt /\ Range(e.groups[i]) \subseteq small
  /\ \A m \in small : Cardinality({i \in 1..Len(e.groups) : m \in Range(e.groups[i])}) = 1
  /\ \A i \in 1..Len(e.groups) : \A j, k \in 1..Len(e.groups[i]) : j # k => e.groups[i][j] # e.groups[i][k]

(* Declarative statement of the layouts a call may leave behind. Model runs choose the layout
   generatively (NextLoc) and assert that it satisfies this predicate; recorded traces adopt the layout
   read back from the disk and evaluate the predicate on it, so the order of a batch and the grouping of
   concurrent Puts need not be guessed. *)
Touched(e) == {m.a : m \in Items(e)} \cup (IF e.ev \in {"Delete", "PutEmpty"} THEN {e.a} ELSE {})

ValidLayout(L, e, L2) ==
  /\ \A a \in Addrs \ Touched(e) : L2[a] = L[a]
  /\ CASE e.ev = "Delete" -> L2[e.a] = NoFile
       [] e.ev = "PutEmpty" -> L2[e.a] = L[e.a]
       [] e.ev = "Put" -> L2[e.m.a] = Link(L, e.m.a, IF IsPlain(e.m) THEN Plain(e.m) ELSE Comb(<<e.m>>))
       [] e.ev = "PutBatch" ->
            \A m \in Items(e) :
              IF writer = "linux" /\ L[m.a] # NoFile THEN L2[m.a] = L[m.a]
              ELSE IF writer = "generic" THEN L2[m.a] = Plain(m)
              ELSE /\ L2[m.a].comb /\ Len(L2[m.a].mem) = Cardinality(Items(e)) /\ Range(L2[m.a].mem) = Items(e)
                   /\ \A m2 \in Items(e) : L[m2.a] = NoFile => L2[m2.a] = L2[m.a]
       [] e.ev = "ParPut" ->
            \A m \in Items(e) :
              IF writer = "linux" /\ L[m.a] # NoFile THEN L2[m.a] = L[m.a]
              ELSE IF IsPlain(m) THEN L2[m.a] = Plain(m)
              ELSE /\ L2[m.a].comb /\ Len(L2[m.a].mem) \in 1..cnt
                   /\ m \in Range(L2[m.a].mem) /\ Range(L2[m.a].mem) \subseteq Items(e)
                   /\ \A m2 \in Range(L2[m.a].mem) : (L[m2.a] = NoFile /\ ~IsPlain(m2)) => L2[m2.a] = L2[m.a]
       [] OTHER -> TRUE

-----------------------------------------------------------------------------
(* Model runs: all events over the small universe. *)
Perms(S) == {f \in [1..Cardinality(S) -> S] : \A i, j \in 1..Cardinality(S) : i # j => f[i] # f[j]}
AllMems == UNION {{Mem(a, v) : v \in Vers(a)} : a \in Addrs}
ItemSets == {s \in SUBSET AllMems : Cardinality(s) \in 1..MaxItems /\ \A x, y \in s : x.a = y.a => x = y}

RECURSIVE Groupings(_)      \* all ways to split a set of members into ordered groups (set of sequences)
Groupings(S) ==
  IF S = {} THEN {{}}
  ELSE LET x == CHOOSE x \in S : TRUE IN
       UNION {UNION {{{p} \cup G : G \in Groupings(S \ (T \cup {x}))} : p \in Perms(T \cup {x})} : T \in SUBSET (S \ {x})}

SetToSeq(S) == CHOOSE f \in Perms(S) : TRUE

\* constant-level (evaluated once): ParPut carries every grouping of every subset of its items; the
\* guard ValidGroups keeps the ones that cover exactly the items written through batch files
MutEvents ==
  [ev : {"Put"}, m : AllMems] \cup [ev : {"Delete", "PutEmpty"}, a : Addrs]
  \cup UNION {[ev : {"PutBatch"}, file : Perms(s)] : s \in ItemSets}
  \cup UNION {UNION {UNION {[ev : {"ParPut"}, items : {SetToSeq(s)}, groups : {SetToSeq(g)}] :
                       g \in Groupings(t)} : t \in SUBSET s} : s \in {t \in ItemSets : Cardinality(t) >= 2}}

Init == /\ store = [a \in Addrs |-> 0] /\ loc = [a \in Addrs |-> NoFile]
        /\ cnt \in CountLimits /\ thr \in Thrs /\ writer \in Writers

Step(e) == /\ Valid(store, e)
           /\ e.ev = "ParPut" => ValidGroups(e)
           /\ Assert(ValidLayout(loc, e, NextLoc(loc, e)), <<"generative and declarative layouts disagree", e>>)
           /\ loc' = NextLoc(loc, e) /\ store' = NextStore(store, e)
           /\ UNCHANGED <<cnt, thr, writer>>

Next == \E e \in MutEvents : Step(e)
Spec == Init /\ [][Next]_vars

-----------------------------------------------------------------------------
(* C10 on the model *)
TypeOK == /\ \A a \in Addrs : store[a] \in {0} \cup Vers(a)
          /\ \A a \in Addrs : loc[a].comb \in BOOLEAN

\* every reader returns, for every address, exactly the bytes last stored there, or not-found
Refines == \A a \in Addrs : \A api \in APIs : ReadImpl(BugRefill, BugExactLimit, BugPrefixEOF, api, loc[a], a) = store[a]
\* iteration lists an address iff its entry exists and the member is found: exactly the stored ones, once
IterOK == \A a \in Addrs : (loc[a] # NoFile /\ ReadMap(loc[a], a) # 0) <=> store[a] # 0
\* deviations, for the *_asis cfgs (TLC must find them)
NoPanic == \A a \in Addrs : \A api \in APIs : ReadImpl(BugRefill, BugExactLimit, BugPrefixEOF, api, loc[a], a) # -4
=============================================================================
