-------------------------- MODULE TraceWriteCache --------------------------
(* C->M validation of logs of the REAL write-cache / shard (cmd/shardb) against WriteCache.
   One log line per visible event; everything the Go code does between two log lines is a hidden step
   of the spec, so acceptance is a search (linearizability-style): the log is accepted iff some
   interleaving of hidden steps explains every record.
     reset                          new behaviour (fresh instance)
     cs p op a m / ce p res         client call start / end with its result
     round                          hook writecache.sched.round   (scheduler passed its select)
     sent b                         hook writecache.sched.sent    (batch handed to a worker)
     done                           hook writecache.worker.done   (a worker finished its batch)
     g k p a                        hooks put.afterFS / delete.afterFS / get.afterHas: process p (0 = a flush
                                    worker) is exactly between the FS step and the counter step on address a
     bp k b ok                      main-storage Put / PutBatch seen by the storage decorator (exact step:
                                    logged under the same mutex as the inner call)
     br a found / bd a              main-storage read / delete seen by the decorator (exact steps)
     obs ...                        projection of the real state at a quiescent point: must equal the model's
   The log is accepted iff l reaches Len(Trace)+1 (invariant Accept prints ACCEPTED and stops TLC). *)
EXTENDS WriteCache, Json
CONSTANT LiveK     \* fault-free scheduler rounds after which a quiescent read-write cache must be empty
Trace == ndJsonDeserialize("trace.ndjson")
VARIABLES l,       \* next record
          clean    \* -1, or the number of round records since the last quiescent observation without a
                   \* pending error token, with no call and no storage failure since (function of the log only)
tvars == <<vars, l, clean>>

(* Property predicates evaluated on the OBSERVED data of a record (so they do not depend on how the
   hidden steps were ordered); a failure is printed with the model's history classes and decided by the
   check (known finding or violation). *)
PropFail(what, e) == PrintT(<<"PROPFAIL", what, l, hist>>)
ObsProps(e) ==
  /\ (e.csize # Sum(SetOf(e.files))) => PropFail("size", e)
  /\ (e.live /\ clean >= LiveK /\ e.mode = "rw" /\ e.files # <<>>) => PropFail("live", e)
  /\ (\E a \in Addrs : acked[a] /\ a \notin SetOf(e.files) /\ a \notin SetOf(e.blob)) => PropFail("lost", e)
CeProps(e) ==
  (cl[e.p].op = "get" /\ cl[e.p].must /\ e.res # "ok") => PropFail("ryw", e)

\* a goroutine is exactly between two steps (the record is written by a hook inside the code)
GMark(e) ==
  IF e.k = "pfs" THEN cl[e.p].op = "put" /\ cl[e.p].pc = "putcnt" /\ cl[e.p].a = e.a
  ELSE IF e.k = "has" THEN cl[e.p].op = "get" /\ cl[e.p].pc = "read" /\ cl[e.p].a = e.a
  ELSE IF e.k = "dfs" THEN
       IF e.p = 0 THEN \E w \in Workers : wk[w].pc = "delcnt" /\ wk[w].cur = e.a
       ELSE /\ cl[e.p].a = e.a
            /\ \/ cl[e.p].op = "del" /\ cl[e.p].pc = "delcnt"
               \/ IsFl(e.p) /\ cl[e.p].pc = "fldcnt"
  ELSE FALSE

Vis(e) ==
  CASE e.e = "reset" -> SetAll(InitVals)
    [] e.e = "cs"    -> Begin(e.p, e.op, e.a, e.m)
    [] e.e = "ce"    -> cl[e.p].res = e.res /\ CeProps(e) /\ Ret(e.p)
    [] e.e = "round" -> RoundMark
    [] e.e = "sent"  -> Batch(sch) = e.b /\ SentMark
    [] e.e = "done"  -> \E w \in Workers : DoneMark(w)
    [] e.e = "g"     -> GMark(e) /\ UNCHANGED vars
    [] e.e = "bp"    -> \/ \E w \in Workers : /\ wk[w].objs = SetOf(e.b)
                                              /\ (Len(wk[w].batch) = 1) = (e.k = "single")
                                              /\ BlobPutW(w, e.ok)
                        \/ \E p \in Procs : /\ e.k = "single" /\ Len(e.b) = 1 /\ cl[p].a = e.b[1]
                                            /\ (BlobPutC(p, e.ok) \/ BlobPutF(p, e.ok))
    [] e.e = "br"    -> \E p \in Procs : cl[p].a = e.a /\ blob[e.a] = e.found /\ BlobRead(p)
    [] e.e = "bd"    -> \E p \in Procs : cl[p].a = e.a /\ BlobDel(p)
    [] e.e = "obs"   -> /\ Quiescent
                        /\ Files = SetOf(e.files) /\ CMap = SetOf(e.cmap) /\ csize = e.csize
                        /\ Blob = SetOf(e.blob) /\ inflight = SetOf(e.inflight) /\ errq = e.errq
                        /\ mode = e.mode /\ ((Shard /\ ~e.metaskip) => Meta = SetOf(e.meta))
                        /\ ObsProps(e)
                        /\ UNCHANGED vars
    [] OTHER -> FALSE

Clean(e) == CASE e.e = "obs" -> IF e.errq THEN -1 ELSE 0
               [] e.e = "round" -> IF clean >= 0 THEN clean + 1 ELSE clean
               [] e.e \in {"reset", "cs", "ce"} -> -1
               [] e.e = "bp" -> IF e.ok THEN clean ELSE -1
               [] OTHER -> clean
TraceInit == Init /\ l = 1 /\ clean = -1
TraceNext == /\ l <= Len(Trace)
             /\ \/ Vis(Trace[l]) /\ l' = l + 1 /\ clean' = Clean(Trace[l])
                \/ Hidden /\ UNCHANGED <<l, clean>>
TraceSpec == TraceInit /\ [][TraceNext]_tvars

\* accepted <=> the end of the log is reached: TLC is stopped at once (no counterexample printing)
Accept == l > Len(Trace) => PrintT(<<"ACCEPTED", Len(Trace)>>) /\ TLCSet("exit", TRUE)
NotDone == l <= Len(Trace)
\* diagnostics for rejected logs: prints the furthest record reached (run with -workers 1)
ASSUME TLCSet(1, 0)
MaxL == l > TLCGet(1) => TLCSet(1, l) /\ PrintT(<<"MAXL", l>>)
=============================================================================
