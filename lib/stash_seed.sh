#!/bin/sh
# usage: lib/stash_seed.sh <Cnn>...   copy /tmp/mut-<Cnn>/OUT/{1,2} into seeded/ and drop the scratch worktree
cd "$(dirname "$0")/.."
for m in "$@"; do
  for n in 1 2; do
    [ -f /tmp/mut-$m/OUT/$n/patch.diff ] || continue
    d=seeded/$m-$n; mkdir -p $d
    cp /tmp/mut-$m/OUT/$n/patch.diff /tmp/mut-$m/OUT/$n/README.md $d/ 2>/dev/null
    cp /tmp/mut-$m/OUT/$n/*_test.go $d/ 2>/dev/null
    if [ -d /tmp/mut-$m/OUT/$n/_demo ]; then find /tmp/mut-$m/OUT/$n/_demo -name '*_test.go' -exec cp {} $d/ \; ; fi
  done
  git -C /repo worktree remove --force /tmp/mut-$m 2>/dev/null
done
git -C /repo worktree prune
ls seeded | wc -l
