#!/bin/sh
# usage: lib/apply_fix.sh <fix.diff> "<commit message starting with fix:>"
# Applies the non-test hunks of the diff to /repo, builds, runs the tests of the touched packages, commits only
# the touched files. Leaves /repo untouched (reverts the files) if anything fails.
set -u
D=$(readlink -f "$1"); MSG=$2
cd /repo
FILES=$(git apply --numstat --exclude='*_test.go' "$D" | awk '{print $3}')
[ -n "$FILES" ] || { echo "no non-test files in patch"; exit 3; }
git apply --exclude='*_test.go' "$D" || { echo "PATCH-DOES-NOT-APPLY"; exit 3; }
PKGS=$(for f in $FILES; do echo "./$(dirname $f)/"; done | sort -u)
revert() { git checkout -- $FILES; }
go build ./... > /tmp/applyfix-build.log 2>&1 || { echo "BUILD FAILED"; tail -5 /tmp/applyfix-build.log; revert; exit 1; }
go vet $PKGS > /tmp/applyfix-vet.log 2>&1 || { echo "VET FAILED"; tail -5 /tmp/applyfix-vet.log; revert; exit 1; }
go test -count=1 $PKGS > /tmp/applyfix-test.log 2>&1
grep -E "^(--- FAIL|FAIL|ok)" /tmp/applyfix-test.log | head -20
NEWFAIL=$(grep -E "^--- FAIL" /tmp/applyfix-test.log | grep -vE "TestShardOpen|TestDumpIgnoreErrors|TestExists|TestInitializationFailure|TestErrorReporting|TestFlush" | head -5)
if [ -n "$NEWFAIL" ]; then echo "NEW TEST FAILURES: $NEWFAIL"; revert; exit 1; fi
git add $FILES && git commit -q -m "$MSG" -- $FILES && git log --oneline | head -1
