"""Helpers of the `ec` family (C22, C21, C23, C41)."""
import os
import re
import vkit


def last_l(r):
    """Index l of the state in which an invariant failed (record number, 1-based)."""
    ms = re.findall(r"/\\ l = (\d+)", r.out)
    if ms:
        return int(ms[-1])
    ms = re.findall(r"^l = (\d+)", r.out, re.M)      # single-variable specs print `l = N`
    return int(ms[-1]) if ms else None


def drift_index(r):
    """Value of the variable `drift` in the last printed state."""
    ms = re.findall(r"/\\ drift = (\d+)", r.out)
    return int(ms[-1]) if ms else None


def validate_chunks(ck, module, cfg, path, chunk=150000, timeout=1500, heap="8g", files=None):
    """Validate an NDJSON record file in chunks. Returns None if every record is accepted, else
    (record_index_0based, record_line, TLCResult) of the first failure. A CodeIsSpec (model drift) failure
    does not stop the validation of later chunks and is returned only if no other failure exists, so that
    a property violation is never masked by an earlier drift."""
    with open(path) as fh:
        lines = [ln for ln in fh if ln.strip()]
    if not lines:
        raise vkit.Infra("no records in %s" % path)
    drift = None
    for start in range(0, len(lines), chunk):
        part = os.path.join(ck.tmp, "chunk-%d.ndjson" % start)
        with open(part, "w") as fh:
            fh.writelines(lines[start:start + chunk])
        v = ck.tlc_validate(module, cfg, part, timeout=timeout, heap=heap, files=files)
        os.unlink(part)
        if not v.ok:
            pos = last_l(v) or 1
            is_drift = v.kind == "invariant" and v.name == "CodeIsSpec"
            if is_drift:
                pos = drift_index(v) or pos
            idx = start + min(pos, len(lines) - start) - 1
            if not is_drift:
                return idx, lines[idx], v
            if drift is None:
                drift = (idx, lines[idx], v)
    return drift
