"""Helpers of the engine family (C08, C20, C19): compact rendering of TLC counterexamples."""
import re


def split_states(text):
    """Split a TLC counterexample into [(header, {var: value_text})]."""
    out = []
    for m in re.finditer(r"State (\d+): ([^\n]*)\n(.*?)(?=\nState \d+:|\n\n\d+ states generated|\Z)", text, re.S):
        body = m.group(3)
        vs = {}
        for vm in re.finditer(r"/\\ (\w+) = (.*?)(?=\n/\\ |\Z)", body, re.S):
            vs[vm.group(1)] = re.sub(r"\s+", " ", vm.group(2)).strip()
        out.append((m.group(2), vs))
    return out


def diff_states(text, skip=("cat",)):
    sts = split_states(text)
    lines = []
    prev = {}
    for i, (hdr, vs) in enumerate(sts):
        ch = ["%s=%s" % (k, v) for k, v in vs.items() if k not in skip and prev.get(k) != v]
        lines.append("%2d: %s" % (i + 1, " | ".join(ch)))
        prev = vs
    return "\n".join(lines)


if __name__ == "__main__":
    import sys
    print(diff_states(sys.stdin.read()))


# --------------------------------------------------------------------------- engine family pipeline
import json
import os
import vkit

# the machine is shared: keep every TLC JVM of this family small (TLC's default heap is 25% of the RAM)
os.environ.setdefault("JAVA_TOOL_OPTIONS", "-Xmx3g")

TRACE_CFG = """SPECIFICATION TraceSpec
CONSTANTS
  NS = %(ns)d
  MaxEpoch = 1000
  BugH6 = %(bug)s
  CatSet = "none"
  Ops = {}
  Modes = {}
  HealthyLock = FALSE
  MaxInFlight = 2
  Scenario = "none"
  Loose = %(loose)s
  PrintAt = %(printat)d
  Prop = "%(prop)s"
INVARIANTS %(inv)s Report
POSTCONDITION Accepted
CHECK_DEADLOCK FALSE
"""

GEN_CFG = """SPECIFICATION GenSpec
CONSTANTS
  NS = %(ns)d
  MaxEpoch = %(maxepoch)d
  BugH6 = %(bug)s
  CatSet = "%(cat)s"
  Ops = {%(ops)s}
  Modes = {%(modes)s}
  HealthyLock = FALSE
  MaxInFlight = %(inflight)d
  Scenario = "none"
  GenLen = %(genlen)d
  Witness = "%(witness)s"
INVARIANTS Emit EmitWitness
CHECK_DEADLOCK FALSE
"""


def tla_set(items):
    return ", ".join('"%s"' % i for i in items)


def gen_scripts(ck, ns, cat, ops, modes, genlen, num, seed, maxepoch=3, bug=True, witness="none", keep_variants=False, inflight=2):
    """TLC -simulate on EngineGen; returns (scripts, witness_scripts)."""
    cfg = GEN_CFG % dict(ns=ns, maxepoch=maxepoch, bug="TRUE" if bug else "FALSE", cat=cat, ops=tla_set(ops),
                         modes=tla_set(modes), genlen=genlen, witness=witness, inflight=inflight)
    name = "EngineGen_run.cfg"
    beh = ck.tlc_scripts("EngineGen", name, num=num, depth=genlen + 4 * ns + 6, seed=seed, timeout=3000, files={name: cfg})
    plain, wit = [], []
    seen = set()
    for b in beh:
        if b.get("tag", "") != "":
            wit.append(b)
            continue
        # TLC checks the invariant on every candidate successor: several variants of the last step are
        # printed per behaviour; keep one per prefix unless asked otherwise
        key = json.dumps(b["steps"][:-1])
        if key in seen and not keep_variants:
            continue
        seen.add(key)
        plain.append(b)
    # witnesses: keep only scripts that do not extend an already kept witness
    wit.sort(key=lambda b: len(b["steps"]))
    kept = []
    for b in wit:
        s = json.dumps(b["steps"])[:-1]
        if any(s.startswith(json.dumps(k["steps"])[:-1]) for k in kept):
            continue
        kept.append(b)
    return plain, kept


def run_scripts(ck, binp, scripts, procs=4, timeout=3000):
    """Run the scripts on the real engine (several harness processes); returns list of per-script event lists."""
    import subprocess
    procs = max(1, min(procs, len(scripts)))
    chunks = [scripts[i::procs] for i in range(procs)]
    ps = []
    for i, ch in enumerate(chunks):
        sp = os.path.join(ck.tmp, "scripts%d_%d.ndjson" % (ck._n, i))
        tp = os.path.join(ck.tmp, "trace%d_%d.ndjson" % (ck._n, i))
        vkit.write_ndjson(sp, ch)
        env = dict(os.environ)
        env.update(VERIF_SEED=str(ck.seed), VERIF_TIER=ck.tier, TMPDIR=ck.tmp)
        ps.append((subprocess.Popen([binp, "run", sp, tp], cwd=ck.tmp, env=env, stdout=subprocess.PIPE,
                                    stderr=subprocess.PIPE, text=True), tp, i))
    ck._n += 1
    per = [None] * len(scripts)
    for p, tp, i in ps:
        try:
            out, err = p.communicate(timeout=timeout)
        except subprocess.TimeoutExpired:
            p.kill()
            raise vkit.Infra("engine harness timed out")
        if p.returncode != 0:
            raise vkit.Infra("engine harness failed rc=%d\n%s\n%s" % (p.returncode, out[-2000:], err[-4000:]))
        evs = vkit.read_ndjson(tp)
        cur = -1
        for e in evs:
            if e["ev"] == "Init":
                cur += 1
                per[i + cur * len(chunks)] = []
            per[i + cur * len(chunks)].append(e)
    if any(x is None for x in per):
        raise vkit.Infra("harness did not produce a trace for every script")
    return per


class Verdict:
    def __init__(self):
        self.world = None        # "asis" | "fixed" | None (rejected by both)
        self.kf = []             # [(class, script index)]
        self.bad = None          # (script index, event index in script (0-based), reason, detail)


def _tlc_trace(ck, events, ns, prop, bug, loose=False, printat=0, inv="", tag="v"):
    cfg = TRACE_CFG % dict(ns=ns, bug="TRUE" if bug else "FALSE", loose="TRUE" if loose else "FALSE", printat=printat,
                           prop=prop, inv=inv)
    name = "TraceEngine_run.cfg"
    import threading
    import uuid
    tp = os.path.join(ck.tmp, "tr_%s_ns%d_%s_%s.ndjson" % (tag, ns, threading.get_ident(), uuid.uuid4().hex[:8]))
    vkit.write_ndjson(tp, events)
    r = ck.tlc_validate("TraceEngine", name, tp, files={name: cfg}, timeout=3000, heap="3g")
    m = re.search(r'<<"DEPTH", (\d+)>>', r.out)
    r.depth_reached = int(m.group(1)) if m else 0
    m = re.search(r'<<"KF", "(.*)">>', r.out)
    r.kf = []
    if m:
        r.kf = json.loads(json.loads('"' + m.group(1) + '"'))["kf"]
    r.expect = None
    m = re.search(r'<<"EXPECT", "(.*)">>', r.out)
    if m:
        r.expect = json.loads(json.loads('"' + m.group(1) + '"'))
    return r


def validate(ck, per_script, ns, prop, inv):
    """Validate the concatenated traces of scripts with ns shards against the as-is model, and - if that rejects -
    against the repaired model. Returns Verdict."""
    v = Verdict()
    events = []
    index = []          # event position -> (script idx, event idx)
    for si, evs in per_script:
        for ei, e in enumerate(evs):
            e = dict(e)
            if e["ev"] == "Init":
                e["script"] = si
            events.append(e)
            index.append((si, ei))
    if not events:
        return v
    results = {}
    for world, bug in (("asis", True), ("fixed", False)):
        r = _tlc_trace(ck, events, ns, prop, bug, inv=inv, tag=world)
        results[world] = r
        if r.ok:
            v.world = world
            v.kf = [tuple(x) for x in r.kf]
            return v
        if r.kind not in ("postcondition", "invariant"):
            raise vkit.Infra("trace validation ended with %s\n%s" % (r.kind, vkit.tail(r.out, 4000)))
    # rejected in both worlds: report the one that got further
    world = max(results, key=lambda w: (results[w].depth_reached if results[w].kind == "postcondition"
                                        else (vkit.stuck_position(results[w]) or 0)))
    r = results[world]
    if r.kind == "invariant":
        pos = (vkit.stuck_position(r) or 2) - 1      # l points to the next event
        si, ei = index[pos - 1]
        v.bad = (si, ei, "property %s false on the recorded state (model world %s)" % (r.name, world),
                 {"event": events[pos - 1], "tlc": r.trace_text[-2500:]})
        return v
    pos = r.depth_reached + 1                        # 1-based index of the rejected event
    si, ei = index[pos - 1]
    # ask the model what it expected there
    first = pos - 1
    while events[first]["ev"] != "Init":
        first -= 1
    sub = events[first:pos]
    rr = _tlc_trace(ck, sub, ns, prop, world == "asis", loose=True, printat=len(sub), tag="explain")
    obs = events[pos - 1]
    detail = {"event": {k: x for k, x in obs.items() if k != "obs"}, "world": world}
    reason = "real engine deviates from the model"
    if rr.expect:
        diff = {}
        exp_obs, real_obs = rr.expect.get("obs", {}), obs.get("obs", {})
        for k in ("get", "head", "lk", "sh"):
            if exp_obs.get(k) != real_obs.get(k):
                diff[k] = {"model": exp_obs.get(k), "real": real_obs.get(k)}
        if (rr.expect["res"].get("c") == "ok") != (obs.get("res") == "ok"):
            diff["res"] = {"model": rr.expect["res"], "real": obs.get("res")}
        for k in ("cnt", "handled", "rem"):
            if k in obs and rr.expect["res"].get(k) != obs.get(k) and not (k == "rem" and obs.get("res") != "ok"):
                diff[k] = {"model": rr.expect["res"].get(k), "real": obs.get(k)}
        if obs.get("srcsame") is False:
            diff["srcsame"] = {"model": True, "real": False}
        detail["diff"] = diff
        reason += " at " + ",".join(sorted(diff)) if diff else " (step not enabled in the model)"
    v.bad = (si, ei, reason, detail)
    return v


def stats(per_script):
    kinds, rollbacks, refused, accepted = {}, 0, 0, 0
    for evs in per_script:
        for e in evs:
            kinds[e["ev"]] = kinds.get(e["ev"], 0) + 1
            if e.get("mid"):
                rollbacks += 1
            if e["ev"] in ("BStep", "BStart") and e.get("res") not in ("started", None):
                if e["res"] == "ok":
                    accepted += 1
                else:
                    refused += 1
    return kinds, rollbacks, refused, accepted


# --------------------------------------------------------------------------- witnesses from TLC counterexamples
WITNESS_CFG = """SPECIFICATION SpecR
CONSTANTS
  NS = %(ns)d
  MaxEpoch = %(maxepoch)d
  BugH6 = TRUE
  CatSet = "%(cat)s"
  Ops = {%(ops)s}
  Modes = {%(modes)s}
  HealthyLock = FALSE
  MaxInFlight = %(inflight)d
  Scenario = "%(scenario)s"
INVARIANTS NoScenario
CHECK_DEADLOCK FALSE
"""


def tla_to_py(txt):
    """Parse the TLA+ values TLC prints for our simple records / tuples / sets of ints, strings, booleans."""
    t = txt.replace("<<", "\x01").replace(">>", "\x02")
    t = t.replace("[", "{").replace("]", "}").replace("\x01", "[").replace("\x02", "]")
    t = re.sub(r"(\w+) \|->", r'"\1":', t)
    t = re.sub(r"\bTRUE\b", "true", t)
    t = re.sub(r"\bFALSE\b", "false", t)
    return json.loads(t)


def witness(ck, scenario, ns=2, cat="c08", ops=("Put", "Bcast", "GC", "SetMode"), modes=("rw", "ro"), inflight=2, maxepoch=1,
            timeout=3000, tag="", required=True):
    """Ask TLC for the shortest replayable behaviour of the AS-IS model violating `inv` (expected to fail).
    Returns a script or None when the model has no such behaviour."""
    name = "Engine_witness_%s.cfg" % re.sub(r"\W", "_", scenario)
    cfg = WITNESS_CFG % dict(ns=ns, maxepoch=maxepoch, cat=cat, ops=tla_set(ops), modes=tla_set(modes), inflight=inflight, scenario=scenario)
    r = ck.tlc("Engine", name, files={name: cfg}, timeout=timeout, workers=4, count=False)
    ck.log("TLC witness search %s (inflight=%d): %s" % (scenario, inflight, r.summary()))
    if r.ok:
        if required:
            raise vkit.Infra("the as-is model has no behaviour for scenario %s: model and check out of sync" % scenario)
        return None
    if r.kind != "invariant":
        raise vkit.Infra("witness search ended with %s\n%s" % (r.kind, vkit.tail(r.out, 3000)))
    sts = split_states(r.trace_text)
    steps = []
    for _, vs in sts[1:]:
        steps.append(tla_to_py(vs["lastev"]))
    catv = tla_to_py(sts[0][1]["cat"])
    return {"n": ns, "cat": catv, "steps": steps, "tag": tag or ("witness:" + scenario)}


def parallel(ck, jobs, workers=4):
    """Run independent TLC jobs (callables) concurrently; results in order. Infra errors are re-raised."""
    import threading
    from concurrent.futures import ThreadPoolExecutor
    if not hasattr(ck, "_eng_lock"):
        ck._eng_lock = threading.Lock()
        orig = ck.scratch_spec

        def locked(files=None):
            with ck._eng_lock:
                return orig(files)
        ck.scratch_spec = locked
    with ThreadPoolExecutor(max_workers=workers) as ex:
        futs = [ex.submit(j) for j in jobs]
        return [f.result() for f in futs]


# --------------------------------------------------------------------------- generic property runner (C20, C19)
def run_property(ck, prop, model_cfgs, witnesses, gens, classes_what, procs=4, par=4, timeout=7200):
    """model_cfgs: exhaustive cfgs that must pass; witnesses: kwargs of witness(); gens: kwargs of gen_scripts();
    runs everything on the real engine, validates, reports classes. Returns (scripts, per, hit)."""
    skip_model = bool(ck.replay) or bool(os.environ.get("VERIF_ENGINE_SKIP_MODEL"))   # (env = mutation-testing shortcut only)
    jobs = []
    if not skip_model:
        for cfg in model_cfgs:
            jobs.append(lambda cfg=cfg: ck.tlc_model("Engine", cfg, timeout=timeout, workers=4))
        ck.setcov("exhaustive", True)
    scripts = []
    if ck.replay:
        scripts = [json.load(open(ck.replay))["replay"]["script"]]
    else:
        for w in witnesses:
            jobs.append(lambda w=w: witness(ck, **w))
        for g in gens:
            jobs.append(lambda g=g: gen_scripts(ck, **g))
    binp = ck.gobuild("engine")
    for r in parallel(ck, jobs, workers=par):
        if isinstance(r, dict):
            scripts.append(r)
        elif isinstance(r, tuple):
            scripts += r[0] + r[1][:50]
    per = run_scripts(ck, binp, scripts, procs=procs)
    kinds, rollbacks, refused, accepted = stats(per)
    ck.setcov("traces_validated_against_impl", len(scripts))
    ck.setcov("trace_events", sum(len(p) for p in per))
    ck.setcov("event_kinds", kinds)
    ck.setcov("broadcasts_accepted", accepted)
    ck.setcov("broadcasts_refused", refused)
    ck.sample({"script": scripts[0], "trace_head": [{k: v for k, v in e.items() if k != "obs"} for e in per[0][:10]]})
    hit = set()
    groups = sorted({s["n"] for s in scripts})
    vs = parallel(ck, [lambda ns=ns: validate(ck, [(i, per[i]) for i, s in enumerate(scripts) if s["n"] == ns], ns, prop, "TraceProp")
                       for ns in groups], workers=2)
    worlds = set()
    for v in vs:
        if v.bad:
            si, ei, reason, detail = v.bad
            ck.violation("%s: %s; script %d (%s) event %d: %s" % (prop, reason, si, scripts[si].get("tag", ""), ei, json.dumps(detail)[:1500]),
                         {"script": scripts[si], "event_index": ei, "detail": detail})
            continue
        worlds.add(v.world)
        for cls, si in v.kf:
            if cls in hit:
                continue
            hit.add(cls)
            ck.report(cls, "%s violated on the real engine, class %s: %s" % (prop, cls, classes_what.get(cls, "")),
                      {"script": scripts[si], "class": cls})
    ck.setcov("model_world_matched", sorted(worlds))
    ck.setcov("known_finding_classes_seen", sorted(hit))
    return scripts, per, hit
