"""Helpers of the family putpol (C24-C27): parallel TLC runs, parsing of classification lines."""
import json
import re
import threading
from concurrent.futures import ThreadPoolExecutor

import vkit


class Models:
    """Exhaustive TLC runs that MUST pass, started in background threads so that the harness part of a
    check can proceed meanwhile. jobs: list of (module, cfg, kwargs). Accounting happens in finish()."""

    def __init__(self, ck, jobs, max_workers=2):
        self.ck, self.jobs = ck, jobs
        lock = threading.Lock()
        orig = ck.scratch_spec

        def locked(files=None):
            with lock:
                return orig(files)

        ck.scratch_spec = locked
        self.ex = ThreadPoolExecutor(max_workers=max_workers)
        self.futs = [self.ex.submit(ck.tlc, m, c, count=False, **kw) for (m, c, kw) in jobs]

    def finish(self):
        ck = self.ck
        res = [f.result() for f in self.futs]
        self.ex.shutdown()
        for (m, c, _), r in zip(self.jobs, res):
            ck.log("TLC %s/%s: %s" % (m, c, r.summary()))
            if not r.ok:
                raise vkit.Infra("model check %s/%s did not pass (%s %s) - model-only counterexamples are never verdicts\n%s"
                                 % (m, c, r.kind, r.name, vkit.tail(r.out, 6000)))
            if r.distinct < 1:
                raise vkit.Infra("model check %s/%s explored no states" % (m, c))
            ck.add("states", r.distinct)
            ck.add("transitions", r.generated)
        return res


def rec_classes(r):
    """Parse <<"REC", index, "class">> lines printed by a Trace*.tla record walk -> {index: class}."""
    out = {}
    for ln in r.out.splitlines():
        m = re.match(r'<<"REC", (\d+), "(\w+)">>', ln.strip())
        if m:
            out[int(m.group(1))] = m.group(2)
    return out


def dedupe(items):
    seen, res = set(), []
    for it in items:
        k = json.dumps(it, sort_keys=True)
        if k not in seen:
            seen.add(k)
            res.append(it)
    return res
