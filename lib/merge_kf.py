#!/usr/bin/env python3
"""Merge known_findings.d/*.json into known_findings.json (the single committed file) and empty the staging dir."""
import glob, json, os
V = os.path.dirname(os.path.dirname(os.path.abspath(__file__)))
main = os.path.join(V, "known_findings.json")
d = json.load(open(main))
seenF = {(x["property"], x["signature"]) for x in d["findings"]}
seenX = {(x["property"], x["signature"]) for x in d["fixed"]}
for f in sorted(glob.glob(os.path.join(V, "known_findings.d", "*.json"))):
    x = json.load(open(f))
    for e in x.get("findings", []):
        if (e["property"], e["signature"]) not in seenF:
            d["findings"].append(e); seenF.add((e["property"], e["signature"]))
    for e in x.get("fixed", []):
        if (e["property"], e["signature"]) not in seenX:
            d["fixed"].append(e); seenX.add((e["property"], e["signature"]))
    os.remove(f)
d["findings"].sort(key=lambda e: (e["property"], e["signature"]))
d["fixed"].sort(key=lambda e: (e["property"], e["signature"]))
json.dump(d, open(main, "w"), indent=1)
print("findings:", len(d["findings"]), "fixed:", len(d["fixed"]))
