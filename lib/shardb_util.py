"""Helpers of family shardb (C16, C17, C46): background TLC runs, world search for the deviation
switches of spec/WriteCache.tla, canned probe scripts (derived from TLC counterexamples)."""
import json
import os
import re
import shutil
import subprocess
import tempfile
import threading
import time

import vkit

SPEC = vkit.SPEC

# ----------------------------------------------------------------------------------------- cfg

def cfg_constants(cfg_name):
    """CONSTANTS of a cfg file as a dict of raw strings."""
    txt = open(os.path.join(SPEC, cfg_name)).read()
    out = {}
    for m in re.finditer(r"^\s*(\w+)\s*=\s*(.+?)\s*$", txt, re.M):
        out[m.group(1)] = m.group(2)
    return out


def harness_params(cfg_name, level, livek=2):
    c = cfg_constants(cfg_name)
    naddr = max(int(x) for x in re.findall(r"\d+", c["Addrs"]))
    return {"level": level, "naddr": naddr, "threshold": int(c["Threshold"]), "maxcount": int(c["MaxCount"]),
            "maxbsize": int(c["MaxBSize"]), "maxcache": int(c["MaxCache"]), "nw": int(c["NW"]), "livek": livek}


def cfg_with(cfg_name, repl, invariants=None):
    """Text of spec/<cfg_name> with constants replaced (repl: name -> TLA value text)."""
    txt = open(os.path.join(SPEC, cfg_name)).read()
    for k, v in repl.items():
        txt, n = re.subn(r"^(\s*%s\s*=\s*).+$" % re.escape(k), lambda m: m.group(1) + v, txt, flags=re.M)
        if n != 1:
            raise vkit.Infra("constant %s not found in %s" % (k, cfg_name))
    if invariants is not None:
        txt = re.sub(r"^INVARIANTS.*$", "INVARIANTS " + invariants, txt, flags=re.M)
    return txt


# ----------------------------------------------------------------------------------------- TLC runner

JTO_FAST = "-XX:TieredStopAtLevel=1"      # short runs: C1 only (JIT warm-up dominates otherwise)
JTO_DFS = "-Dtlc2.tool.queue.IStateQueue=StateDeque"


def run_tlc(ck, module, cfg, cfg_text=None, files=None, workers=1, timeout=900, dfs=False, fast=True,
            label=None, extra=None):
    """Run TLC in a private scratch copy of spec/ (thread-safe: does not use ck's scratch counter).
    cfg_text: contents written as <cfg> in the scratch dir. Returns vkit.TLCResult (with .out)."""
    d = tempfile.mkdtemp(prefix="tlc-", dir=ck.tmp)
    sd = os.path.join(d, "spec")
    shutil.copytree(SPEC, sd)
    for name, src in (files or {}).items():
        dst = os.path.join(sd, name)
        if isinstance(src, (bytes, bytearray)):
            open(dst, "wb").write(src)
        elif os.path.exists(str(src)):
            shutil.copyfile(src, dst)
        else:
            open(dst, "w").write(src)
    if cfg_text is not None:
        open(os.path.join(sd, cfg), "w").write(cfg_text)
    meta = os.path.join(d, "meta")
    argv = ["timeout", "-k", "5", str(timeout), "tlc", "-metadir", meta, "-config", cfg, "-workers", str(workers)]
    argv += list(extra or []) + [module + ".tla"]
    env = dict(os.environ)
    jto = []
    if dfs:
        jto.append(JTO_DFS)
    if fast:
        jto.append(JTO_FAST)
    if jto:
        env["JAVA_TOOL_OPTIONS"] = " ".join(jto)
    t = time.time()
    try:
        p = subprocess.run(argv, cwd=sd, env=env, capture_output=True, text=True, timeout=timeout + 30)
        rc, out = p.returncode, p.stdout + "\n" + p.stderr
    except subprocess.TimeoutExpired as e:
        rc, out = 124, (e.stdout or b"").decode("utf-8", "replace") if isinstance(e.stdout, bytes) else (e.stdout or "")
    r = vkit.TLCResult(rc, out, time.time() - t)
    r.label = label or cfg
    shutil.rmtree(d, ignore_errors=True)
    return r


def record_run(ck, r, module, cfg, mode, count):
    ck.cov.setdefault("tlc_runs", []).append({"module": module, "cfg": cfg, "mode": mode, "generated": r.generated,
                                              "distinct": r.distinct, "depth": r.depth, "result": r.kind,
                                              "wall_s": round(r.wall, 1)})
    if count and r.kind == "ok":
        ck.add("states", r.distinct)
        ck.add("transitions", r.generated)


class BgModel:
    """Exhaustive model check in a background thread (the harness mostly sleeps on 1 s scheduler ticks,
    so the model runs are overlapped with it). join() applies vkit's rule: a failing model check is an
    infrastructure error, never a verdict."""

    def __init__(self, ck, module, cfg, workers=4, timeout=1500, cfg_text=None):
        self.ck, self.module, self.cfg = ck, module, cfg
        self.r = None
        self.t = threading.Thread(target=self._run, args=(workers, timeout, cfg_text), daemon=True)
        self.t.start()

    def _run(self, workers, timeout, cfg_text):
        for attempt in range(2):
            self.r = run_tlc(self.ck, self.module, self.cfg, cfg_text=cfg_text, workers=workers, timeout=timeout, fast=False)
            # a JVM that died without exploring anything (killed on the shared machine) is retried once
            if not (self.r.kind == "error" and self.r.distinct == 0 and "Error:" not in self.r.out):
                break

    def join(self):
        self.t.join()
        r = self.r
        record_run(self.ck, r, self.module, self.cfg, "exhaustive", True)
        self.ck.log("TLC %s/%s: %s" % (self.module, self.cfg, r.summary()))
        if not r.ok:
            raise vkit.Infra("model check %s/%s did not pass (%s %s) - model-only counterexamples are never verdicts\n%s"
                             % (self.module, self.cfg, r.kind, r.name, vkit.tail(r.out, 5000)))
        if r.distinct < 1:
            raise vkit.Infra("model check %s/%s explored no states" % (self.module, self.cfg))
        return r


def beh_lines(out):
    beh = []
    for ln in out.splitlines():
        if ln.startswith('<<"BEH", '):
            s = ln[len('<<"BEH", '):].rstrip()
            if s.endswith(">>"):
                s = s[:-2]
            beh.append(json.loads(json.loads(s)))
    return beh


def derive_probe(ck, cfg, name, nw=1, timeout=600):
    """Shortest counterexample of a strict property on the generator spec with ONE deviation switch on
    (breadth-first, VIEW without the log): the script that reproduces the finding on real code."""
    r = run_tlc(ck, "WriteCacheGen", cfg, workers=1, timeout=timeout, fast=True)
    record_run(ck, r, "WriteCacheGen", cfg, "counterexample", False)
    b = beh_lines(r.out)
    if r.kind != "invariant" or not b:
        raise vkit.Infra("no counterexample from %s (%s): the model does not exhibit the finding\n%s"
                         % (cfg, r.kind, vkit.tail(r.out, 3000)))
    s = b[0]
    s["nw"] = nw
    s["name"] = name
    return s


# ----------------------------------------------------------------------------------------- validation

SWITCHES = ["BugH3", "BugAlias", "BugErrLeak"]       # switches with a proposed fix (BugSplit has none: always as-is)


def worlds_in_order():
    """as-is first, then all fixes applied, then the mixed assignments (fewest fixes first)."""
    n = len(SWITCHES)
    masks = sorted(range(1 << n), key=lambda m: (bin(m).count("1"), m))
    masks = [0, (1 << n) - 1] + [m for m in masks if m not in (0, (1 << n) - 1)]
    return [{SWITCHES[i]: not (m >> i) & 1 for i in range(n)} for m in masks]


def tla_bool(b):
    return "TRUE" if b else "FALSE"


class Validation:
    def __init__(self):
        self.accepted = False
        self.world = None
        self.propfail = []      # (what, record index, tags)
        self.stuck = None       # record index (1-based) of the rejected record under `stuck_world`
        self.stuck_world = None
        self.runs = 0
        self.states = 0


def parse_propfail(out):
    res = []
    for m in re.finditer(r'<<"PROPFAIL", "(\w+)", (\d+), \{([^}]*)\}>>', out):
        tags = sorted(t.strip().strip('"') for t in m.group(3).split(",") if t.strip())
        res.append((m.group(1), int(m.group(2)), tuple(tags)))
    return sorted(set(res))


def validate(ck, trace_path, cfg_name, only_world=None, timeout=900):
    """Validate a log of the real code against TraceWriteCache under the deviation-switch assignments
    ("worlds") in order, as-is first; the first world that accepts the whole log is the behaviour the
    tree has. A log no world accepts is a conformance failure of the real code."""
    v = Validation()
    nrec = sum(1 for _ in open(trace_path))
    worlds = [only_world] if only_world else worlds_in_order()
    best = (-1, None)
    for w in worlds:
        txt = cfg_with(cfg_name, {k: tla_bool(b) for k, b in w.items()})
        r = run_tlc(ck, "TraceWriteCache", cfg_name, cfg_text=txt, files={"trace.ndjson": trace_path}, workers=1,
                    timeout=timeout, dfs=True)
        v.runs += 1
        v.states += r.distinct
        record_run(ck, r, "TraceWriteCache", cfg_name + " " + ",".join(k for k, b in w.items() if b), "validate", False)
        if r.kind in ("error", "timeout") or "Parsing or semantic analysis failed" in r.out:
            raise vkit.Infra("trace validation failed to run (%s)\n%s" % (r.kind, vkit.tail(r.out, 5000)))
        if '<<"ACCEPTED", %d>>' % nrec in r.out:
            v.accepted, v.world = True, w
            v.propfail = parse_propfail(r.out)
            ck.log("trace %s accepted under world %s (%d records, %d states, %.1fs)" % (
                os.path.basename(trace_path), w, nrec, r.distinct, r.wall))
            return v
        ck.log("trace %s rejected under world %s (%d states, %.1fs)" % (os.path.basename(trace_path), w, r.distinct, r.wall))
    # rejected by every world: locate the furthest record reached (as-is world and all-fixed world)
    for w in (worlds[:2] if len(worlds) > 1 else worlds):
        txt = cfg_with(cfg_name, {k: tla_bool(b) for k, b in w.items()}, invariants="Accept MaxL")
        r = run_tlc(ck, "TraceWriteCache", cfg_name, cfg_text=txt, files={"trace.ndjson": trace_path}, workers=1,
                    timeout=timeout, dfs=True)
        ms = re.findall(r'<<"MAXL", (\d+)>>', r.out)
        pos = int(ms[-1]) if ms else 1
        if pos > best[0]:
            best = (pos, w)
    v.stuck, v.stuck_world = best
    return v


def behaviour_of(index, pos):
    for r in index:
        if r["start"] <= pos <= r["end"]:
            return r["idx"]
    return None


def slice_trace(trace_path, rec):
    ev = vkit.read_ndjson(trace_path)
    return ev[rec["start"] - 1:rec["end"]]


# ----------------------------------------------------------------------------------------- probes
# Canned probe scripts = shortest counterexamples TLC finds on spec/WriteCacheGen.tla with ONE deviation
# switch on (cfgs WriteCacheGen_cex*.cfg); the thorough tier re-derives them with TLC (derive_probe).

def _steps(lst):
    return [{"s": s, "p": p, "a": a, "x": x, "b": b} for (s, p, a, x, b) in lst]


PROBES = {
    # put(1); put(1): counters.Add counts the address twice
    "H3": _steps([("Begin", 1, 1, "put:", []), ("PutAdmit", 1, 0, "", []), ("PutFS", 1, 0, "", []), ("Ret", 1, 0, "", []),
                  ("Begin", 1, 1, "put:", []), ("PutAdmit", 1, 0, "", []), ("PutFS", 1, 0, "", []), ("Ret", 1, 0, "", [])]),
    # two objects above the batch threshold in one scheduler round: the second is never sent
    "Alias": _steps([("Begin", 1, 3, "put:", []), ("PutAdmit", 1, 0, "", []), ("PutFS", 1, 0, "", []), ("Ret", 1, 0, "", []),
                     ("Begin", 1, 4, "put:", []), ("PutAdmit", 1, 0, "", []), ("PutFS", 1, 0, "", []), ("Ret", 1, 0, "", []),
                     ("SchedWake", 0, 0, "", []), ("RoundMark", 0, 0, "", []), ("SchedSnap", 0, 0, "", []),
                     ("SchedSend", 1, 0, "", []), ("SentMark", 0, 0, "", []), ("WRead", 1, 0, "", []),
                     ("BlobPutW", 1, 0, "ok", [3]), ("WDelFS", 1, 3, "", []), ("WFin", 1, 0, "", []),
                     ("DoneMark", 1, 0, "", []), ("SchedSend", 1, 0, "", []), ("SentMark", 0, 0, "", []),
                     ("WRead", 1, 0, "", []), ("WFin", 1, 0, "", []), ("DoneMark", 1, 0, "", [])]),
    # a failed flush reported while the scheduler is about to send the batch preceding a big object
    "ErrLeak": _steps([("Begin", 1, 1, "put:", []), ("PutAdmit", 1, 0, "", []), ("PutFS", 1, 0, "", []), ("Ret", 1, 0, "", []),
                       ("Begin", 1, 3, "put:", []), ("SchedWake", 0, 0, "", []), ("RoundMark", 0, 0, "", []),
                       ("SchedSnap", 0, 0, "", []), ("PutAdmit", 1, 0, "", []), ("PutFS", 1, 0, "", []), ("Ret", 1, 0, "", []),
                       ("SchedSend", 1, 0, "", []), ("SentMark", 0, 0, "", []), ("SchedWake", 0, 0, "", []),
                       ("RoundMark", 0, 0, "", []), ("WRead", 1, 0, "", []), ("BlobPutW", 1, 0, "fail", [1]),
                       ("WFin", 1, 0, "", []), ("SchedSnap", 0, 0, "", []), ("SchedSendErr", 0, 0, "", []),
                       ("DoneMark", 1, 0, "", [])]),
    # re-put of an address whose flush deletes file and counter between the put's FS step and counter step
    "Split": _steps([("Begin", 1, 1, "put:", []), ("PutAdmit", 1, 0, "", []), ("PutFS", 1, 0, "", []), ("PutCount", 1, 0, "", []),
                     ("Ret", 1, 0, "", []), ("Begin", 1, 1, "put:", []), ("PutAdmit", 1, 0, "", []), ("PutFS", 1, 0, "", []),
                     ("SchedWake", 0, 0, "", []), ("RoundMark", 0, 0, "", []), ("SchedSnap", 0, 0, "", []),
                     ("SchedSend", 1, 0, "", []), ("SentMark", 0, 0, "", []), ("WRead", 1, 0, "", []),
                     ("BlobPutW", 1, 0, "ok", [1]), ("WDelFS", 1, 1, "", []), ("WDelCount", 1, 0, "", []),
                     ("PutCount", 1, 0, "", []), ("Ret", 1, 0, "", []), ("WFin", 1, 0, "", []),
                     ("DoneMark", 1, 0, "", [])]),
    # (shard) Shard.Delete removes the storage copy between a flusher's storage put and its cache delete;
    # the object is put again and acknowledged; the flusher then deletes the new cache copy
    "Stale": _steps([("Begin", 1, 1, "put:", []), ("PutAdmit", 1, 0, "", []), ("PutFS", 1, 0, "", []), ("Begin", 2, 1, "del:", []),
                     ("PutCount", 1, 0, "", []), ("SchedWake", 0, 0, "", []), ("RoundMark", 0, 0, "", []),
                     ("SchedSnap", 0, 0, "", []), ("SchedSend", 1, 0, "", []), ("WRead", 1, 0, "", []),
                     ("DelFS", 2, 0, "", []), ("DelCount", 2, 0, "", []), ("MetaDel", 2, 0, "", []),
                     ("BlobPutW", 1, 0, "ok", [1]), ("BlobDel", 2, 0, "", []), ("Ret", 2, 0, "", []),
                     ("Begin", 2, 1, "put:", []), ("PutAdmit", 2, 0, "", []), ("PutFS", 2, 0, "", []), ("PutCount", 2, 0, "", []),
                     ("MetaPut", 2, 0, "", []), ("Ret", 2, 0, "", []), ("WDelFS", 1, 1, "", [])]),
}
# Coverage scenarios (no finding expected): schedules every run must contain whatever the random walk does.
_PUT = lambda p, a: [("Begin", p, a, "put:", []), ("PutAdmit", p, 0, "", []), ("PutFS", p, 0, "", []),
                     ("PutCount", p, 0, "", []), ("MetaPut", p, 0, "", []), ("Ret", p, 0, "", [])]
_ROUND = [("SchedWake", 0, 0, "", []), ("RoundMark", 0, 0, "", []), ("SchedSnap", 0, 0, "", [])]
COVER = {
    # two small objects flushed as ONE batch whose storage write fails with a generic I/O error:
    # nothing may leave the cache
    "BatchFail": _steps(_PUT(1, 1) + _PUT(1, 2) + _ROUND + [
        ("SchedSend", 1, 0, "", []), ("SentMark", 0, 0, "", []), ("WRead", 1, 0, "", []),
        ("BlobPutW", 1, 0, "fail", [1, 2]), ("WFin", 1, 0, "", []), ("DoneMark", 1, 0, "", [])]),
    # the same batch succeeding, with a read of each object between the storage write and the cache deletes
    "BatchOk": _steps(_PUT(1, 1) + _PUT(1, 2) + _ROUND + [
        ("SchedSend", 1, 0, "", []), ("SentMark", 0, 0, "", []), ("WRead", 1, 0, "", []),
        ("BlobPutW", 1, 0, "ok", [1, 2]),
        ("Begin", 2, 1, "get:", []), ("GetMeta", 2, 0, "", []), ("GetHas", 2, 0, "", []), ("GetRead", 2, 0, "", []),
        ("BlobRead", 2, 0, "", []), ("Ret", 2, 0, "", []),
        ("WDelFS", 1, 1, "", []), ("WDelCount", 1, 0, "", []), ("WDelFS", 1, 2, "", []), ("WDelCount", 1, 0, "", []),
        ("WFin", 1, 0, "", []), ("DoneMark", 1, 0, "", []),
        ("Begin", 2, 2, "get:", []), ("GetMeta", 2, 0, "", []), ("GetHas", 2, 0, "", []), ("BlobRead", 2, 0, "", []),
        ("Ret", 2, 0, "", [])]),
    # explicit Flush while a background worker holds the same (big) object between scheduler marking and its
    # storage write: the flush must write it itself before it returns success
    "FlushInflight": _steps(_PUT(1, 3) + _ROUND + [
        ("SchedSend", 1, 0, "", []), ("SentMark", 0, 0, "", []), ("WRead", 1, 0, "", []),
        ("Begin", 2, 0, "flush:", []), ("FlushStart", 2, 0, "", []), ("FlushPick", 2, 3, "", []),
        ("BlobPutF", 2, 3, "ok", []), ("FlushDelFS", 2, 0, "", []), ("FlushDelCount", 2, 0, "", []),
        ("FlushEnd", 2, 0, "", []), ("Ret", 2, 0, "", []),
        ("BlobPutW", 1, 0, "ok", [3]), ("WDelFS", 1, 3, "", []), ("WFin", 1, 0, "", []), ("DoneMark", 1, 0, "", [])]),
    # explicit Flush after a background flush of the object failed (object unmarked again, error token pending)
    "FlushAfterFail": _steps(_PUT(1, 3) + _ROUND + [
        ("SchedSend", 1, 0, "", []), ("SentMark", 0, 0, "", []), ("WRead", 1, 0, "", []),
        ("BlobPutW", 1, 0, "fail", [3]), ("WFin", 1, 0, "", []), ("DoneMark", 1, 0, "", []),
        ("Begin", 2, 0, "flush:", []), ("FlushStart", 2, 0, "", []), ("FlushPick", 2, 3, "", []),
        ("BlobPutF", 2, 3, "ok", []), ("FlushDelFS", 2, 0, "", []), ("FlushDelCount", 2, 0, "", []),
        ("FlushEnd", 2, 0, "", []), ("Ret", 2, 0, "", [])]),
    # a failed flush reported while the scheduler is about to send the batch preceding the FIRST of two big
    # objects: every address of the abandoned round (sent, current and not reached yet) must be unmarked
    "ErrRoundAbandoned": _steps(_PUT(1, 1) + [("Begin", 1, 3, "put:", [])] + _ROUND + [
        ("PutAdmit", 1, 0, "", []), ("PutFS", 1, 0, "", []), ("PutCount", 1, 0, "", []), ("MetaPut", 1, 0, "", []),
        ("Ret", 1, 0, "", [])] + _PUT(1, 4) + [
        ("SchedSend", 1, 0, "", []), ("SentMark", 0, 0, "", []), ("SchedWake", 0, 0, "", []), ("RoundMark", 0, 0, "", []),
        ("WRead", 1, 0, "", []), ("BlobPutW", 1, 0, "fail", [1]), ("WFin", 1, 0, "", []),
        ("SchedSnap", 0, 0, "", []), ("SchedSendErr", 0, 0, "", []), ("DoneMark", 1, 0, "", [])]),
    # explicit Flush of a read-only cache: the object reaches the main storage, the cache delete is refused,
    # file and counters must stay consistent
    "FlushReadOnly": _steps(_PUT(1, 1) + [
        ("Begin", 1, 0, "setmode:ro", []), ("SetModeStart", 1, 0, "", []), ("Ret", 1, 0, "", []),
        ("Begin", 1, 0, "flush:", []), ("FlushStart", 1, 0, "", []), ("FlushPick", 1, 1, "", []),
        ("BlobPutF", 1, 1, "ok", []), ("FlushDelFS", 1, 0, "", []), ("FlushEnd", 1, 0, "", []), ("Ret", 1, 0, "", []),
        ("Begin", 1, 0, "setmode:rw", []), ("SetModeStart", 1, 0, "", []), ("Ret", 1, 0, "", [])]),
}


def cover(name):
    return {"steps": COVER[name], "nw": 1, "name": "cover-" + name}


def realised(name, ev):
    """Did the real execution go through the schedule the coverage scenario is about? (steering is best
    effort on a loaded machine; an unrealised scenario is run again, it is never a verdict)"""
    def idx(pred):
        return [i for i, e in enumerate(ev) if pred(e)]
    bpfail = idx(lambda e: e["e"] == "bp" and not e["ok"])
    flush = idx(lambda e: e["e"] == "cs" and e["op"] == "flush")
    if name == "BatchFail":
        return any(ev[i]["k"] == "batch" and len(ev[i]["b"]) >= 2 for i in bpfail)
    if name == "BatchOk":
        return any(e["e"] == "bp" and e["ok"] and e["k"] == "batch" and len(e["b"]) >= 2 for e in ev)
    if name == "FlushInflight":
        for f in flush:
            sent = sum(1 for e in ev[:f] if e["e"] == "sent")
            done = sum(1 for e in ev[:f] if e["e"] == "done")
            bp = sum(1 for e in ev[:f] if e["e"] == "bp")
            if sent > done and bp == 0:
                return True
        return False
    if name == "FlushAfterFail":
        return bool(bpfail) and bool(flush) and bpfail[0] < flush[0]
    if name == "ErrRoundAbandoned":
        # the failure is reported, then a round starts with three counted objects and sends nothing
        for i in bpfail:
            rounds = [j for j in idx(lambda e: e["e"] == "round") if j > i]
            if rounds:
                nxt = [e["e"] for e in ev[rounds[0] + 1:rounds[0] + 3]]
                puts = sum(1 for e in ev[:rounds[0]] if e["e"] == "ce" and e["res"] == "ok")
                if puts >= 3 and "sent" not in nxt:
                    return True
        return False
    if name == "FlushReadOnly":
        ro = idx(lambda e: e["e"] == "cs" and e["op"] == "setmode" and e["m"] == "ro")
        return bool(ro) and any(f > ro[0] for f in flush)
    return True


PROBE_CFG = {"H3": "WriteCacheGen_cexH3.cfg", "Alias": "WriteCacheGen_cexAlias.cfg",
             "ErrLeak": "WriteCacheGen_cexErrLeak.cfg", "Split": "WriteCacheGen_cexSplit.cfg",
             "Stale": "WriteCacheGen_cexStale.cfg"}


def probe(name):
    return {"steps": PROBES[name], "nw": 1, "name": name}


# history class (tag in the model's `hist`) -> (property, signature in known_findings.d/shardb.json)
SIG = {
    "h3": ("C17", "counters-add-double-counts-reput"),
    "alias": ("C17", "sched-batch-window-alias-after-send"),
    "errleak": ("C17", "sched-error-branch-leaks-current-address"),
    "ghost": ("C17", "put-delete-fs-counter-split-race"),
    "hidden": ("C17", "put-delete-fs-counter-split-race"),
    "bdflush": ("C16", "stale-flush-delete-after-delete-and-reput"),
}
# which history classes can explain which observed property failure
EXPLAINS = {"size": {"h3", "ghost", "hidden"}, "live": {"alias", "errleak", "hidden"},
            "lost": {"bdflush"}, "ryw": {"bdflush"}}


def run_harness_bg(ck, binp, args, timeout=1500):
    """Harness invocation in a thread (several instances mostly sleep on the 1 s scheduler tick)."""
    box = {}

    def go():
        try:
            box["p"] = ck.harness(binp, args, timeout=timeout)
        except Exception as e:  # noqa
            box["e"] = e
    t = threading.Thread(target=go, daemon=True)
    t.start()

    def join():
        t.join()
        if "e" in box:
            raise box["e"]
        return box["p"]
    return join


def check_index(index_path, what):
    idx = json.load(open(index_path))
    bad = [r for r in idx if r.get("err")]
    if bad:
        raise vkit.Infra("%s: harness could not complete %d behaviours, e.g. %s" % (what, len(bad), bad[0]))
    return idx


def judge(ck, pid, v, trace_path, index, scripts, level, props, sample_key):
    """Turn a Validation into verdicts for property pid. props: the observed-property classes that belong
    to pid (e.g. {"size","live"} for C17). scripts: list parallel to the behaviours (None for stress)."""
    if not v.accepted:
        bi = behaviour_of(index, v.stuck)
        rec = index[bi] if bi is not None else index[0]
        ev = slice_trace(trace_path, rec)
        rel = v.stuck - rec["start"]
        bad = ev[rel] if 0 <= rel < len(ev) else None
        replay = {"level": level, "script": scripts[bi] if scripts and bi is not None and scripts[bi] else None,
                  "events": ev, "rejected_record": bad, "rejected_at": rel + 1, "world": v.stuck_world}
        ck.violation("log of the real %s rejected by spec WriteCache under every assignment of the deviation switches: "
                     "behaviour %s, record %d %s is not a step of the model" % (level, bi, rel + 1, json.dumps(bad)), replay)
        return
    for what, pos, tags in v.propfail:
        if what not in props:
            continue
        expl = [t for t in tags if t in EXPLAINS[what]]
        bi = behaviour_of(index, pos)
        rec = index[bi] if bi is not None else index[0]
        replay = {"level": level, "script": scripts[bi] if scripts and bi is not None and scripts[bi] else None,
                  "events": slice_trace(trace_path, rec), "failed_property": what, "at_record": pos - rec["start"] + 1}
        if not expl:
            ck.violation("real %s violates %s (%s) at record %d of behaviour %s with no known history class (hist=%s)"
                         % (level, pid, what, pos - rec["start"] + 1, bi, list(tags)), replay)
            continue
        for t in expl:
            spid, sig = SIG[t]
            if spid != pid:
                continue
            ck.add("known_deviation_observations")
            ck.report(sig, "real %s: property failure '%s' explained by history class %s" % (level, what, t), replay)
