"""Shared kit for the /verif checks.

Every check is a python module checks/<Cnn>.py exposing run(ck) where ck is a Check.
The kit provides: scratch dirs, Go harness build against /repo's working tree,
TLC / Apalache runners with output parsing, trace validation, evidence writing,
the known-findings protocol and the exit protocol required by MANIFEST.json:

  exit 0  property held on everything explored (KNOWN-FINDING lines allowed)
  exit 1  + "VIOLATION property=<id> replay=<path>"  real code falsified the property
  exit 2  infrastructure problem / vacuous run / model-only counterexample (never a verdict)
"""
import fcntl
import json
import os
import re
import shutil
import subprocess
import sys
import tempfile
import time

VERIF = os.path.dirname(os.path.dirname(os.path.abspath(__file__)))
REPO = os.environ.get("VERIF_REPO", "/repo")
SPEC = os.path.join(VERIF, "spec")
HARNESS = os.path.join(VERIF, "harness")
BIN = os.path.join(VERIF, "bin")
GO125 = "/root/go/pkg/mod/golang.org/toolchain@v0.0.1-go1.25.0.linux-amd64/bin/go"
NCPU = os.cpu_count() or 4


class Infra(Exception):
    """Raised for anything that is not a verdict (exit 2)."""


def go_bin():
    if os.path.exists(GO125):
        return GO125
    for c in ("go1.26", "go"):
        p = shutil.which(c)
        if p:
            return p
    raise Infra("no go toolchain")


def go_env():
    env = dict(os.environ)
    env.update(GOFLAGS="-mod=mod", GOPROXY="off", GOSUMDB="off", GOTOOLCHAIN="local",
               CGO_ENABLED=env.get("CGO_ENABLED", "1"))
    return env


class TLCResult:
    def __init__(self, rc, out, wall):
        self.rc = rc
        self.out = out
        self.wall = wall
        self.generated = 0
        self.distinct = 0
        self.depth = 0
        self.kind = "ok"         # ok | invariant | assumption | property | deadlock | postcondition | error | timeout
        self.name = None         # violated invariant / property name
        self.printed = []        # values printed with PrintT / Print
        self.trace_text = ""     # counterexample text (states)
        self.cov_zero = []
        self._parse()

    def _parse(self):
        out = self.out
        m = None
        for m in re.finditer(r"(\d+) states generated, (\d+) distinct states found", out):
            pass
        if m:
            self.generated, self.distinct = int(m.group(1)), int(m.group(2))
        m = re.search(r"The depth of the complete state graph search is (\d+)", out)
        if m:
            self.depth = int(m.group(1))
        if self.rc == 124 or self.rc == 137:
            self.kind = "timeout"
        m = re.search(r"Error: Invariant (\S+) is violated", out)
        if m:
            self.kind, self.name = "invariant", m.group(1)
        elif re.search(r"Error: Action property (\S+)", out):
            self.kind = "property"
            self.name = re.search(r"Error: Action property (\S+)", out).group(1)
        elif "Temporal properties were violated" in out:
            self.kind = "property"
        elif re.search(r"Error: Assumption .* is false", out):
            self.kind = "assumption"
            self.name = re.search(r"Error: Assumption (.*) is false", out).group(1)
        elif "Error: Deadlock reached" in out:
            self.kind = "deadlock"
        elif re.search(r"Error: .*[Pp]ost.?condition", out) or "POSTCONDITION" in out and "violated" in out:
            self.kind = "postcondition"
        elif "Error:" in out or (self.rc != 0 and self.kind == "ok"):
            if self.kind == "ok":
                self.kind = "error"
        i = out.find("Error: The behavior up to this point is")
        if i < 0:
            i = out.find("Error: The following behavior constitutes a counter-example")
        if i >= 0:
            self.trace_text = out[i:i + 20000]

    @property
    def ok(self):
        return self.kind == "ok"

    def summary(self):
        return "kind=%s name=%s generated=%d distinct=%d depth=%d wall=%.1fs" % (
            self.kind, self.name, self.generated, self.distinct, self.depth, self.wall)


class Check:
    def __init__(self, pid, level, tier="quick", seed=1, replay=None):
        self.pid = pid
        self.level = level
        self.tier = tier
        self.seed = seed
        self.replay = replay
        self.t0 = time.time()
        self.tmp = tempfile.mkdtemp(prefix="verif-%s-" % pid)
        self.cov = {}
        self.assumptions = []
        self.violations = []
        self.known_hit = []
        self.notes = []
        self._n = 0
        self._kf = None

    # ---------------------------------------------------------------- logging
    def log(self, *a):
        print("[%s %6.1fs]" % (self.pid, time.time() - self.t0), *a, flush=True)

    # ---------------------------------------------------------------- counters
    def add(self, key, n=1):
        self.cov[key] = self.cov.get(key, 0) + n

    def setcov(self, key, v):
        self.cov[key] = v

    def sample(self, s, limit=3):
        lst = self.cov.setdefault("samples", [])
        if len(lst) < limit:
            lst.append(s)

    # ---------------------------------------------------------------- processes
    def sh(self, argv, timeout=600, cwd=None, env=None, stdin=None, check=False, quiet=True):
        t = time.time()
        try:
            p = subprocess.run(argv, cwd=cwd, env=env, input=stdin, capture_output=True, text=True,
                               timeout=timeout)
        except subprocess.TimeoutExpired as e:
            out = (e.stdout or b"")
            if isinstance(out, bytes):
                out = out.decode("utf-8", "replace")
            p = subprocess.CompletedProcess(argv, 124, out, "timeout")
        p.wall = time.time() - t
        if check and p.returncode != 0:
            raise Infra("command failed rc=%d: %s\n%s\n%s" % (p.returncode, " ".join(map(str, argv)),
                                                          p.stdout[-3000:], p.stderr[-3000:]))
        return p

    def gobuild(self, cmd, tags="verif"):
        """Build harness/cmd/<cmd> against /repo's current working tree. Returns binary path."""
        hdir, bdir = HARNESS, BIN
        if os.path.realpath(REPO) != "/repo":
            # alternative tree (mutation testing in a scratch worktree): private copy of the harness
            hdir, bdir = os.path.join(self.tmp, "harness"), os.path.join(self.tmp, "bin")
            if not os.path.exists(hdir):
                shutil.copytree(HARNESS, hdir)
        os.makedirs(bdir, exist_ok=True)
        lock = open(os.path.join(bdir, ".lock-" + cmd), "w")
        fcntl.flock(lock, fcntl.LOCK_EX)
        try:
            sync_gomod(hdir)
            out = os.path.join(bdir, cmd)
            p = self.sh([go_bin(), "build", "-tags", tags, "-o", out, "./cmd/" + cmd], cwd=hdir,
                        env=go_env(), timeout=1500)
            if p.returncode != 0:
                raise Infra("go build %s failed:\n%s\n%s" % (cmd, p.stdout[-4000:], p.stderr[-4000:]))
            self.log("built harness %s in %.1fs" % (cmd, p.wall))
            return out
        finally:
            fcntl.flock(lock, fcntl.LOCK_UN)
            lock.close()

    def harness(self, binary, args, timeout=900, stdin=None, env_extra=None, ok_codes=(0,)):
        env = dict(os.environ)
        env["VERIF_SEED"] = str(self.seed)
        env["VERIF_TIER"] = self.tier
        env["TMPDIR"] = self.tmp
        if env_extra:
            env.update(env_extra)
        p = self.sh([binary] + list(map(str, args)), timeout=timeout, env=env, stdin=stdin, cwd=self.tmp)
        if p.returncode not in ok_codes:
            raise Infra("harness %s %s rc=%d\nstdout: %s\nstderr: %s" % (
                os.path.basename(binary), " ".join(map(str, args)), p.returncode, p.stdout[-3000:], p.stderr[-5000:]))
        return p

    # ---------------------------------------------------------------- TLC
    def scratch_spec(self, files=None):
        self._n += 1
        d = os.path.join(self.tmp, "spec%d" % self._n)
        os.makedirs(d)
        for fn in os.listdir(SPEC):
            # specs, configs and catalogue data only; stray TLC litter (states/, *_TTrace_*) is not copied
            if fn.endswith((".tla", ".cfg", ".json")) and "_TTrace_" not in fn:
                try:
                    shutil.copyfile(os.path.join(SPEC, fn), os.path.join(d, fn))
                except OSError:
                    pass
        for name, src in (files or {}).items():
            dst = os.path.join(d, name)
            if isinstance(src, (bytes, bytearray)):
                open(dst, "wb").write(src)
            elif os.path.exists(str(src)):
                shutil.copyfile(src, dst)
            else:
                open(dst, "w").write(src)
        return d

    def tlc(self, module, cfg, simulate=None, depth=None, workers=None, timeout=600, files=None,
            coverage=False, dfs=False, seed=None, deadlock=True, xss=False, heap=None, count=True,
            extra=None):
        """Run TLC on spec/<module>.tla with spec/<cfg> in a scratch copy. simulate = num behaviours."""
        d = self.scratch_spec(files)
        meta = os.path.join(d, "_meta")
        argv = ["timeout", "-k", "5", str(timeout), "tlc", "-metadir", meta, "-config", cfg]
        if simulate is not None:
            argv += ["-workers", "1", "-simulate", "num=%d" % simulate, "-depth", str(depth or 20),
                     "-seed", str(seed if seed is not None else self.seed)]
        else:
            argv += ["-workers", str(workers or "auto")]
        if coverage:
            argv += ["-coverage", "1"]
        if not deadlock:
            argv += ["-deadlock"]
        argv += list(extra or [])
        argv += [module + ".tla"]
        env = dict(os.environ)
        jto = []
        if dfs:
            jto.append("-Dtlc2.tool.queue.IStateQueue=StateDeque")
        if xss:
            jto.append("-Xss512m")
        if heap:
            jto.append("-Xmx%s" % heap)
        if jto:
            env["JAVA_TOOL_OPTIONS"] = " ".join(jto)
        p = self.sh(argv, cwd=d, env=env, timeout=timeout + 30)
        r = TLCResult(p.returncode, p.stdout + "\n" + p.stderr, p.wall)
        r.dir = d
        r.printed = [ln for ln in p.stdout.splitlines() if ln.startswith("<<") or ln.startswith('"') or ln.startswith("[") or ln.startswith("{")]
        if coverage:
            r.cov_zero = parse_cov_zero(p.stdout)
        if count and simulate is None and r.kind in ("ok",):
            self.add("states", r.distinct)
            self.add("transitions", r.generated)
        cfgs = self.cov.setdefault("tlc_runs", [])
        cfgs.append({"module": module, "cfg": cfg, "mode": "simulate" if simulate is not None else "exhaustive",
                     "generated": r.generated, "distinct": r.distinct, "depth": r.depth, "result": r.kind,
                     "wall_s": round(r.wall, 1)})
        shutil.rmtree(meta, ignore_errors=True)
        return r

    def tlc_model(self, module, cfg, **kw):
        """Exhaustive model check that must pass; a failure here is a model problem (exit 2), not a verdict."""
        r = self.tlc(module, cfg, **kw)
        self.log("TLC %s/%s: %s" % (module, cfg, r.summary()))
        if not r.ok:
            raise Infra("model check %s/%s did not pass (%s %s) - model-only counterexamples are never verdicts\n%s"
                        % (module, cfg, r.kind, r.name, tail(r.out, 6000)))
        if r.distinct < 1:
            raise Infra("model check %s/%s explored no states" % (module, cfg))
        return r

    def tlc_scripts(self, module, cfg, num, depth, seed=None, timeout=600, files=None):
        """Run TLC -simulate on a Gen spec that prints <<"BEH", json>> once per behaviour; returns list of parsed json."""
        r = self.tlc(module, cfg, simulate=num, depth=depth, seed=seed, timeout=timeout, files=files, deadlock=False)
        beh = []
        for ln in r.out.splitlines():
            if ln.startswith('<<"BEH", '):
                s = ln[len('<<"BEH", '):].rstrip()
                if s.endswith(">>"):
                    s = s[:-2]
                try:
                    js = json.loads(s)          # the TLA+ string literal
                    beh.append(json.loads(js))
                except Exception as e:  # noqa
                    raise Infra("cannot parse behaviour line: %s (%s)" % (ln[:300], e))
        if r.kind not in ("ok",) or not beh:
            raise Infra("simulate %s/%s produced %d behaviours, result %s\n%s" % (module, cfg, len(beh), r.kind, tail(r.out, 4000)))
        self.log("TLC simulate %s/%s: %d behaviours in %.1fs" % (module, cfg, len(beh), r.wall))
        return beh

    def tlc_validate(self, module, cfg, trace_path, timeout=900, files=None, workers=1, dfs=False, xss=True, heap="4g"):
        """Trace / record validation. Returns TLCResult; kind ok = accepted."""
        f = dict(files or {})
        f["trace.ndjson"] = trace_path
        r = self.tlc(module, cfg, files=f, timeout=timeout, workers=workers, deadlock=False, count=False, dfs=dfs, xss=xss, heap=heap)
        self.log("TLC validate %s/%s on %s: %s" % (module, cfg, os.path.basename(trace_path), r.summary()))
        if r.kind in ("error", "timeout"):
            raise Infra("trace validation %s/%s failed to run (%s)\n%s" % (module, cfg, r.kind, tail(r.out, 6000)))
        return r

    # ---------------------------------------------------------------- Apalache
    def apalache(self, module, args, timeout=900, files=None):
        d = self.scratch_spec(files)
        argv = ["timeout", "-k", "5", str(timeout), "apalache-mc", "check", "--out-dir=" + os.path.join(d, "_apa"),
                "--run-dir=" + os.path.join(d, "_apa_run")] + list(args) + [module + ".tla"]
        p = self.sh(argv, cwd=d, timeout=timeout + 30)
        out = p.stdout + p.stderr
        ok = "The outcome is: NoError" in out
        bad = "The outcome is: Error" in out
        runs = self.cov.setdefault("apalache_runs", [])
        runs.append({"module": module, "args": list(args), "outcome": "NoError" if ok else ("Error" if bad else "fail"), "wall_s": round(p.wall, 1)})
        self.log("apalache %s %s: %s in %.1fs" % (module, " ".join(args), runs[-1]["outcome"], p.wall))
        return ok, bad, out

    # ---------------------------------------------------------------- verdicts
    def known_findings(self):
        if self._kf is None:
            p = os.path.join(VERIF, "known_findings.json")
            self._kf = json.load(open(p)) if os.path.exists(p) else {"findings": [], "fixed": []}
            dd = os.path.join(VERIF, "known_findings.d")     # per-family staging files, merged at commit time
            if os.path.isdir(dd):
                for fn in sorted(os.listdir(dd)):
                    if fn.endswith(".json"):
                        x = json.load(open(os.path.join(dd, fn)))
                        self._kf.setdefault("findings", []).extend(x.get("findings", []))
                        self._kf.setdefault("fixed", []).extend(x.get("fixed", []))
        return self._kf

    def report(self, signature, what, replay):
        """Report an observed real-code violation. If signature matches a listed known finding of this
        property -> KNOWN-FINDING line, else VIOLATION."""
        for f in self.known_findings().get("findings", []):
            if f["property"] == self.pid and f["signature"] == signature:
                if signature not in self.known_hit:
                    self.known_hit.append(signature)
                    print("KNOWN-FINDING: property=%s %s" % (self.pid, f["what"]), flush=True)
                return False
        self.violation(what, replay)
        return True

    def violation(self, what, replay):
        rdir = os.path.join(VERIF, "replays")
        if os.path.realpath(REPO) != "/repo":
            rdir = os.path.join(VERIF, "replays", "alt")
        os.makedirs(rdir, exist_ok=True)
        path = os.path.join(rdir, "%s-%s-%d-%d.json" % (self.pid, self.tier, self.seed, len(self.violations)))
        doc = {"property": self.pid, "what": what, "tier": self.tier, "seed": self.seed, "replay": replay}
        with open(path, "w") as fh:
            json.dump(doc, fh, indent=1, default=str)
        self.violations.append(path)
        print("VIOLATION property=%s replay=%s" % (self.pid, path), flush=True)
        print("  what: %s" % (what[:2000],), flush=True)

    def write_evidence(self):
        cov = dict(self.cov)
        cov.setdefault("samples", [])
        if not cov["samples"]:
            cov["samples"] = ["(no sample recorded)"]
        if self.known_hit:
            cov["known_findings_hit"] = self.known_hit
        if self.notes:
            cov["notes"] = self.notes
        ev = {"property_id": self.pid, "tier": self.tier, "seed": self.seed, "level": self.level,
              "coverage": cov, "assumptions": self.assumptions, "wall_s": round(time.time() - self.t0, 2),
              "violations": len(self.violations)}
        evdir = os.path.join(VERIF, "evidence")
        if os.path.realpath(REPO) != "/repo":
            evdir = os.environ.get("VERIF_EVIDENCE_DIR", os.path.join(tempfile.gettempdir(), "verif-evidence-alt"))
        os.makedirs(evdir, exist_ok=True)
        with open(os.path.join(evdir, self.pid + ".json"), "w") as fh:
            json.dump(ev, fh, indent=1, default=str)

    def cleanup(self):
        if os.environ.get("VERIF_KEEP"):
            self.log("keeping scratch", self.tmp)
            return
        shutil.rmtree(self.tmp, ignore_errors=True)


# -------------------------------------------------------------------- helpers
def tail(s, n):
    return s if len(s) <= n else "...\n" + s[-n:]


def parse_cov_zero(out):
    """Names of top-level actions with zero taken states in a -coverage run."""
    z = []
    for m in re.finditer(r"^<(\w+) line \d+, col \d+ to line \d+, col \d+ of module (\w+)>: (\d+):(\d+)", out, re.M):
        if int(m.group(4)) == 0 and m.group(1) not in ("Init",):
            z.append(m.group(1))
    return sorted(set(z))


_GOMOD_DONE = False


def sync_gomod(hdir=None):
    """harness/go.mod is regenerated from /repo/go.mod so dependency versions always follow the tree."""
    hdir = hdir or HARNESS
    src = open(os.path.join(REPO, "go.mod")).read()
    src = re.sub(r"^module .*$", "module verifharness", src, count=1, flags=re.M)
    src += "\nrequire github.com/nspcc-dev/neofs-node v0.0.0\nreplace github.com/nspcc-dev/neofs-node => %s\n" % REPO
    extra = os.path.join(hdir, "go.mod.extra")
    if os.path.exists(extra):
        src += open(extra).read()
    dst = os.path.join(hdir, "go.mod")
    if not os.path.exists(dst) or open(dst).read() != src:
        open(dst, "w").write(src)
    sums = open(os.path.join(REPO, "go.sum")).read()
    extra = os.path.join(hdir, "go.sum.extra")
    if os.path.exists(extra):
        sums += open(extra).read()
    dsts = os.path.join(hdir, "go.sum")
    if not os.path.exists(dsts) or open(dsts).read() != sums:
        open(dsts, "w").write(sums)


def write_ndjson(path, items):
    with open(path, "w") as fh:
        for it in items:
            fh.write(json.dumps(it, separators=(",", ":")) + "\n")


def read_ndjson(path):
    out = []
    with open(path) as fh:
        for ln in fh:
            ln = ln.strip()
            if ln:
                out.append(json.loads(ln))
    return out


def stuck_position(r):
    """From a TraceNotStuck counterexample extract the value of l (1-based index of the rejected event)."""
    i = r.out.find("Error: The behavior up to this point is")
    ms = re.findall(r"/\\ l = (\d+)", r.out[i:] if i >= 0 else r.out)
    return int(ms[-1]) if ms else None


def main(argv):
    import argparse
    import importlib
    ap = argparse.ArgumentParser()
    ap.add_argument("pid")
    ap.add_argument("--tier", default=os.environ.get("VERIF_TIER", "quick"), choices=["quick", "thorough"])
    ap.add_argument("--seed", type=int, default=int(os.environ.get("VERIF_SEED", "1") or 1))
    ap.add_argument("--replay", default=None)
    a = ap.parse_args(argv)
    sys.path.insert(0, os.path.join(VERIF, "checks"))
    sys.path.insert(0, os.path.join(VERIF, "lib"))
    try:
        mod = importlib.import_module(a.pid)
    except ModuleNotFoundError:
        print("no such check: %s" % a.pid)
        return 2
    ck = Check(a.pid, getattr(mod, "LEVEL", "model_checking"), a.tier, a.seed, a.replay)
    rc = 0
    try:
        mod.run(ck)
        rc = 1 if ck.violations else 0
    except Infra as e:
        print("INFRA-ERROR property=%s: %s" % (a.pid, e), flush=True)
        ck.notes.append("infra error: %s" % str(e)[:500])
        rc = 1 if ck.violations else 2
    except Exception as e:  # noqa
        import traceback
        traceback.print_exc()
        ck.notes.append("exception: %r" % (e,))
        rc = 1 if ck.violations else 2
    finally:
        try:
            ck.write_evidence()
        finally:
            ck.cleanup()
    ck.log("exit %d (violations=%d known=%d)" % (rc, len(ck.violations), len(ck.known_hit)))
    return rc
