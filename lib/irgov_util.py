"""Helpers of family irgov (C36, C39, C47): record validation in "two worlds".

The record specs Trace<Module>.tla have one INITIAL state per record (variable l = 1-based record
index) and invariants RecOK (real output = spec function) and RecProp (property predicate on the
recorded output). Each spec has a deviation switch; <cfg_fixed> models the repaired code, <cfg_asis>
the code as it is, where RecProp additionally admits exactly the known-finding class.
"""
import re
import vkit


def bad_index(r):
    """1-based index of the record on which TLC reported an invariant violation."""
    ms = re.findall(r"/\\ l = (\d+)", r.out)
    return int(ms[-1]) if ms else None


def decide(ck, module, cfg_fixed, cfg_asis, path, recs, signature, what, replay_of, timeout=1500, heap=None):
    """Returns "repaired" | "as-is" | "violation".
    1. validate with the repaired-code cfg; accepted -> nothing to report.
    2. rejected -> validate with the as-is cfg (code = as-is function, property or known-finding class on
       every record). Accepted -> the tree shows exactly the known finding -> ck.report(signature).
       Rejected -> a record that neither world explains -> VIOLATION with that record."""
    v1 = ck.tlc_validate(module, cfg_fixed, path, timeout=timeout, heap=heap)
    if v1.ok:
        return "repaired"
    if v1.kind != "invariant":
        raise vkit.Infra("record validation %s/%s: unexpected result %s\n%s" % (module, cfg_fixed, v1.kind, vkit.tail(v1.out, 3000)))
    i1 = bad_index(v1)
    if not i1 or i1 > len(recs):
        raise vkit.Infra("cannot locate rejected record\n%s" % vkit.tail(v1.out, 3000))
    rec1 = recs[i1 - 1]
    v2 = ck.tlc_validate(module, cfg_asis, path, timeout=timeout, heap=heap)
    if v2.ok:
        ck.setcov("first_record_showing_finding", rec1)
        ck.report(signature, "%s; first such record #%d: %s" % (what, i1, rec1),
                  {"in": replay_of(rec1), "record": rec1, "invariant": v1.name, "cfg": cfg_fixed})
        return "as-is"
    if v2.kind != "invariant":
        raise vkit.Infra("record validation %s/%s: unexpected result %s\n%s" % (module, cfg_asis, v2.kind, vkit.tail(v2.out, 3000)))
    i2 = bad_index(v2)
    if not i2 or i2 > len(recs):
        raise vkit.Infra("cannot locate rejected record\n%s" % vkit.tail(v2.out, 3000))
    rec2 = recs[i2 - 1]
    ck.violation("record #%d of the real code rejected by %s (%s, as-is and repaired model): %s" % (i2, module, v2.name, rec2),
                 {"in": replay_of(rec2), "record": rec2, "invariant": v2.name, "cfg": cfg_asis})
    return "violation"


# --------------------------------------------------------------------------- C39 (Apalache records)
def _lit(v):
    return str(v) if v >= 0 else "(-%d)" % (-v)


def precision_recs_module(recs, name="PrecisionRecs"):
    """TLA+ module with one literal definition per record of the real converter. The factor 10^|p-8| is
    passed as a literal hint (keeps every formula ground/linear); Rec() itself checks f = Factor(p).
    One definition per record and chunked disjunctions: Apalache's type checker is super-linear in the
    size of a single definition (a 400-way disjunction of applications: 65 s; this form: 4 s)."""
    out = ["---- MODULE %s ----" % name, "EXTENDS Precision", "VARIABLE", "  \\* @type: Int;", "  l",
           "RecInit == l \\in 1..%d /\\ p = 0 /\\ n = 0" % len(recs), "RecNext == UNCHANGED <<p, n, l>>"]
    for i, r in enumerate(recs):
        f = 10 ** abs(int(r["p"]) - 8) if 0 <= int(r["p"]) <= 30 else 1
        out.append("R%d == Rec(%s, %d, %s, %s, %s, %s)" % (i + 1, _lit(int(r["p"])), f, _lit(r["n"]), _lit(r["tb"]),
                                                       _lit(r["tf"]), _lit(r["rt"])))
    chunks = []
    for c in range(0, len(recs), 20):
        chunks.append("Chunk%d" % (c // 20))
        out.append(chunks[-1] + " ==")
        for i in range(c, min(c + 20, len(recs))):
            out.append("  \\/ (l = %d /\\ R%d)" % (i + 1, i + 1))
    out.append("RecInv ==")
    out += ["  \\/ " + c for c in chunks]
    out.append("====")
    return "\n".join(out) + "\n"


def apalache_records(ck, recs, cinit, timeout=3600):
    """Validate records with Apalache. Returns (ok, index_of_rejected_record or None)."""
    import glob, os
    text = precision_recs_module(recs)
    ok, bad, out = ck.apalache("PrecisionRecs", ["--cinit=" + cinit, "--init=RecInit", "--next=RecNext", "--inv=RecInv",
                                                 "--length=0"], timeout=timeout, files={"PrecisionRecs.tla": text})
    if ok:
        return True, None
    if not bad:
        raise vkit.Infra("apalache record validation failed to run (%s)\n%s" % (cinit, vkit.tail(out, 4000)))
    m = re.search(r"Check the trace in: (\S+?violation1\.tla)", out)
    idx = None
    if m and os.path.exists(m.group(1)):
        mm = re.findall(r"\bl = (\d+)", open(m.group(1)).read())
        if mm:
            idx = int(mm[0])
    if not idx or idx > len(recs):
        raise vkit.Infra("apalache reported a rejected record but it cannot be located\n%s" % vkit.tail(out, 3000))
    return False, idx


def decide_apalache(ck, recs, signature, what, replay_of, known_asis=False):
    """Same two-world protocol as decide(), with Apalache as the validator (C39).
    known_asis: an earlier chunk already showed (and reported) the as-is behaviour; then the as-is cfg
    (which accepts both the ideal outputs and the known-finding class) is tried first and alone."""
    i1 = None
    if not known_asis:
        ok, i1 = apalache_records(ck, recs, "CInitIdeal")
        if ok:
            return "repaired"
    ok, i2 = apalache_records(ck, recs, "CInitAsIs")
    if ok:
        if i1 is not None:
            rec1 = recs[i1 - 1]
            ck.setcov("first_record_showing_finding", rec1)
            ck.report(signature, "%s; first such record #%d: %s" % (what, i1, rec1), {"in": replay_of(rec1), "record": rec1})
        return "as-is"
    rec2 = recs[i2 - 1]
    ck.violation("record #%d of the real converter rejected by Precision.tla (RecOK / C39 property; as-is and ideal model): %s" % (i2, rec2),
                 {"in": replay_of(rec2), "record": rec2})
    return "violation"
