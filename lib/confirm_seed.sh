#!/bin/sh
# usage: lib/confirm_seed.sh <seed dir> <package dir relative to repo> <demo test file(s)...>
# Confirms in a scratch worktree: demo passes without the patch, patch applies, build ok, demo fails with it.
set -u
D=$(readlink -f "$1"); PKG=$2; shift 2
WT=$(mktemp -d /tmp/confirm-XXXXXX); rmdir "$WT"
git -C /repo worktree add --detach "$WT" HEAD -q || exit 3
for f in "$@"; do cp "$D/$f" "$WT/$PKG/"; done
cd "$WT"
go test -count=1 -run 'Demo|demo' ./$PKG/ > /tmp/confirm-without.log 2>&1; echo "demo WITHOUT patch: rc=$?"
git apply "$D/patch.diff" && echo "patch applies"
go build ./... > /tmp/confirm-build.log 2>&1; echo "go build ./...: rc=$?"
go test -count=1 -run 'Demo|demo' ./$PKG/ > /tmp/confirm-with.log 2>&1; echo "demo WITH patch: rc=$?"
cd /; git -C /repo worktree remove --force "$WT"
