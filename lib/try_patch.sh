#!/bin/sh
# usage: lib/try_patch.sh <patch.diff> <Cnn> [more check ids...]
# Applies the patch to a scratch worktree of /repo's HEAD (outside /repo and /verif), runs the given checks
# (quick tier) against it with VERIF_REPO, prints one line per check, removes the worktree.
set -u
PATCH=$(readlink -f "$1"); shift
WT=$(mktemp -d /tmp/trypatch-XXXXXX)
rmdir "$WT"
git -C /repo worktree add --detach "$WT" HEAD -q || exit 3
if ! git -C "$WT" apply "$PATCH"; then echo "PATCH-DOES-NOT-APPLY"; git -C /repo worktree remove --force "$WT"; exit 3; fi
cd "$(dirname "$0")/.."
for c in "$@"; do
  LOG=$(mktemp /tmp/trypatch-log-XXXXXX)
  VERIF_REPO="$WT" ./check "$c" --tier "${TIER:-quick}" > "$LOG" 2>&1
  rc=$?
  echo "check=$c rc=$rc $(grep -m1 '^VIOLATION' "$LOG" | cut -c1-80) log=$LOG"
  grep -A1 '^VIOLATION' "$LOG" | grep 'what:' | head -1 | cut -c1-300
done
git -C /repo worktree remove --force "$WT"
