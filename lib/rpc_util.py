"""Helpers of family `rpc` (C45, C29, C31, C32): judging recorded call traces with TLC.

A trace file is the concatenation of call traces (each starts with Recv / Call). `calls` is the parallel list
written by the harness: {"i", "m", "cls", "first", "last", "raw"} with 1-based event positions."""
import json
import os
import re

import vkit


def last_l(r):
    """Value of the trace position variable l in the LAST state printed by TLC (whole output, not the 20k excerpt)."""
    ms = re.findall(r"/\\ l = (\d+)", r.out)
    return int(ms[-1]) if ms else None


def call_at(calls, pos):
    for c in calls:
        if c["first"] <= pos <= c["last"]:
            return c
    return None


def write_trace(path, calls, key="events"):
    """Writes the projected events of the given calls, returns the calls with recomputed positions."""
    n = 0
    out = []
    with open(path, "w") as fh:
        for c in calls:
            first = n + 1
            for e in c[key]:
                fh.write(json.dumps(e, separators=(",", ":")) + "\n")
                n += 1
            d = dict(c)
            d["first"], d["last"] = first, n
            out.append(d)
    return out


def judge(ck, module, cfg_loose, cfg_strict, calls, stuck_inv="TraceNotStuck", max_findings=3, tag="trace"):
    """Validates the calls' events with the loose cfg (property invariants judge) and the strict cfg (implementation
    model). Returns a list of findings {"call", "invariant", "event_index", "tlc"} for property invariants that are
    false on the recorded trace. A trace that only the strict model rejects is a model/implementation drift
    (vkit.Infra), not a verdict."""
    findings = []
    rest = list(calls)
    for _ in range(max_findings + 1):
        path = os.path.join(ck.tmp, "%s-%d.ndjson" % (tag, len(findings)))
        placed = write_trace(path, rest)
        r = ck.tlc_validate(module, cfg_loose, path)
        if r.ok:
            break
        pos = last_l(r)
        if r.kind != "invariant" or pos is None:
            raise vkit.Infra("trace validation %s/%s: unexpected result %s %s\n%s" % (module, cfg_loose, r.kind, r.name, vkit.tail(r.out, 3000)))
        if r.name == stuck_inv:
            c = call_at(placed, pos)
            raise vkit.Infra("recorded trace is structurally malformed at event %d (%s) of call %s" % (
                pos, json.dumps(c["events"][pos - c["first"]]) if c else "?", json.dumps({k: c[k] for k in ("m", "cls")}) if c else "?"))
        c = call_at(placed, pos - 1)       # the state that falsified the invariant is the one AFTER event l-1
        if c is None:
            raise vkit.Infra("cannot map position %d to a call" % pos)
        # compact counterexample: the offending call alone
        single = os.path.join(ck.tmp, "%s-single-%d.ndjson" % (tag, len(findings)))
        write_trace(single, [c])
        rs = ck.tlc_validate(module, cfg_loose, single)
        findings.append({"call": c, "invariant": r.name, "event_index": pos - 1 - c["first"],
                         "event": c["events"][pos - 1 - c["first"]], "tlc": (rs.trace_text or r.trace_text)[-6000:]})
        rest = [x for x in rest if x["i"] != c["i"]]
        if len(findings) >= max_findings:
            break
    if not findings:
        path = os.path.join(ck.tmp, "%s-strict.ndjson" % tag)
        placed = write_trace(path, calls)
        r = ck.tlc_validate(module, cfg_strict, path)
        if not r.ok:
            pos = last_l(r)
            c = call_at(placed, pos) if pos else None
            raise vkit.Infra("no property invariant is false, but the implementation model (%s) rejects the recorded trace "
                             "(%s %s) at event %s of call %s - the model has to follow the code" % (
                                 cfg_strict, r.kind, r.name, json.dumps(c["events"][pos - c["first"]]) if c else pos,
                                 json.dumps({k: c[k] for k in ("m", "cls")}) if c else "?"))
    return findings


def load_calls(calls_path, trace_path):
    """Joins the harness's calls file with the projected events of the trace file."""
    calls = vkit.read_ndjson(calls_path)
    ev = vkit.read_ndjson(trace_path)
    for c in calls:
        c["events"] = ev[c["first"] - 1:c["last"]]
    return calls


def abstract_class(c, fields):
    return tuple([c["m"]] + [json.dumps(c["cls"].get(f)) for f in fields])
