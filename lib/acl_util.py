"""Helpers shared by the `acl` family checks (C28, C30, C33): record validation with TLC."""
import json
import os
import re

import vkit


def slim(path_in, path_out):
    """Write {in,out} only (TLC parses every byte of the file; descriptions stay on the python side)."""
    recs = vkit.read_ndjson(path_in)
    with open(path_out, "w") as fh:
        for r in recs:
            fh.write(json.dumps({"in": r["in"], "out": r["out"]}, separators=(",", ":")) + "\n")
    return recs


def validate(ck, module, cfg, recs_path, timeout=1200):
    """Record validation: Trace<Module> has one step per record and the invariants `RecOK...`; TLC
    accepts iff every record satisfies verdict = SpecF(in) (and the property on the verdict).
    On a rejection a second pass (cfg *_bad.cfg, ListBad = TRUE) makes TLC list ALL disagreeing records.
    Returns (recs, bad): bad = sorted 0-based indices."""
    slim_path = os.path.join(ck.tmp, "slim-%s.ndjson" % module)
    recs = slim(recs_path, slim_path)
    if not recs:
        raise vkit.Infra("no records produced")
    r = ck.tlc_validate(module, cfg, slim_path, timeout=timeout, heap="6g")
    ck.add("evaluations", len(recs))
    if r.ok:
        if r.distinct != len(recs) + 1:
            raise vkit.Infra("record validation visited %d states for %d records" % (r.distinct, len(recs)))
        return recs, []
    if r.kind != "invariant":
        raise vkit.Infra("record validation failed to run: %s %s\n%s" % (r.kind, r.name, vkit.tail(r.out, 3000)))
    ls = re.findall(r"/\\ l = (\d+)", r.out)
    first = int(ls[-1]) - 1 if ls else None
    r2 = ck.tlc_validate(module, cfg.replace(".cfg", "_bad.cfg"), slim_path, timeout=timeout, heap="6g")
    m = re.search(r'<<\s*"BADRECS",\s*\{([^}]*)\}\s*>>', r2.out)
    if m is None:
        raise vkit.Infra("second validation pass printed no BADRECS line\n" + vkit.tail(r2.out, 3000))
    bad = sorted(int(x) - 1 for x in re.sub(r"\s", "", m.group(1)).split(",") if x)
    if not bad or (first is not None and first != bad[0]):
        raise vkit.Infra("inconsistent validation: invariant %s failed at record %s, BADRECS %s" % (r.name, first, bad[:10]))
    return recs, bad
