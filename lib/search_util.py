"""Helpers of family `search` (C03, C04, C05): parallel tool runs, cfg rendering, record classification."""
import fnmatch
import os
import re
import shutil
import threading

import vkit

_lock = threading.Lock()


FAMILY_FILES = ["IntStr.tla", "Signed256*.tla", "Signed256*.cfg", "TraceSigned256*", "Search*.tla", "Search*.cfg",
                "TraceSearch*", "Merge*.tla", "Merge*.cfg", "TraceMerge*"]


def install_scratch(ck):
    """Replace ck.scratch_spec by a version that copies only this family's spec files: /verif/spec is shared
    and other people's TLC runs create and delete files there while we copy (copytree would fail)."""
    if getattr(ck, "_search_scratch", False):
        return

    def scratch(files=None):
        with _lock:
            ck._n += 1
            d = os.path.join(ck.tmp, "spec%d" % ck._n)
        os.makedirs(d)
        for fn in os.listdir(vkit.SPEC):
            if any(fnmatch.fnmatch(fn, pat) for pat in FAMILY_FILES):
                try:
                    shutil.copyfile(os.path.join(vkit.SPEC, fn), os.path.join(d, fn))
                except FileNotFoundError:
                    pass
        for name, src in (files or {}).items():
            dst = os.path.join(d, name)
            if isinstance(src, (bytes, bytearray)):
                open(dst, "wb").write(src)
            elif os.path.exists(str(src)):
                shutil.copyfile(src, dst)
            else:
                open(dst, "w").write(src)
        return d

    ck.scratch_spec = scratch
    ck._search_scratch = True


def parallel(ck, jobs):
    """Run callables concurrently (each typically one TLC/Apalache process). Returns results in order;
    the first exception (e.g. vkit.Infra) is re-raised after all jobs finished."""
    install_scratch(ck)
    res = [None] * len(jobs)
    errs = [None] * len(jobs)

    def runner(i, f):
        try:
            res[i] = f()
        except BaseException as e:  # noqa
            errs[i] = e

    ths = [threading.Thread(target=runner, args=(i, f)) for i, f in enumerate(jobs)]
    for t in ths:
        t.start()
    for t in ths:
        t.join()
    for e in errs:
        if e is not None:
            raise e
    return res


def cfg_with(base_text, **consts):
    """Replace `NAME = value` lines of a TLC cfg."""
    out = base_text
    for k, v in consts.items():
        val = {True: "TRUE", False: "FALSE"}.get(v, v) if isinstance(v, bool) else v
        out, n = re.subn(r"^(\s*%s\s*=\s*).*$" % re.escape(k), r"\g<1>%s" % val, out, flags=re.M)
        if n != 1:
            raise vkit.Infra("cfg has no constant %s" % k)
    return out


def last_l(r):
    """Value of the single trace variable l in the last state of a TLC counterexample (1-based record index)."""
    ms = re.findall(r"^(?:/\\ )?l = (\d+)", r.trace_text or r.out, re.M)
    return int(ms[-1]) if ms else None


def bstr(codes):
    return bytes(codes).decode("latin1")


def split_records(recs, k):
    """Independent records -> k interleaved parts (each part keeps a mix of record kinds)."""
    k = max(1, min(k, len(recs)))
    return [recs[i::k] for i in range(k)]


def split_trace(events, k):
    """Search traces: blocks = one Corpus event + its Search events (field c = 1-based line of the corpus).
    Returns k lists with c re-indexed. Blocks are dealt round-robin."""
    blocks = []
    for e in events:
        if e["ev"] == "Corpus":
            blocks.append([e])
        else:
            blocks[-1].append(e)
    k = max(1, min(k, len(blocks)))
    parts = [[] for _ in range(k)]
    order = sorted(range(len(blocks)), key=lambda i: -len(blocks[i]))   # big blocks first, then greedy by size
    for i in order:
        tgt = min(range(k), key=lambda j: len(parts[j]))
        line = len(parts[tgt]) + 1
        for e in blocks[i]:
            e = dict(e)
            if e["ev"] != "Corpus":
                e["c"] = line
            parts[tgt].append(e)
    return parts


def tlc_corpora_to_scenarios(behs, rnd, per_corpus, name, with_shards=False, ns=(1, 2, 3)):
    """TLC behaviours [objs, q] (SearchGen / MergeGen) -> harness scenarios: one per distinct corpus with a
    sample of its queries. Unavailable objects become garbage-marked / expired / tombstoned in turn."""
    import json
    by = {}
    for b in behs:
        by.setdefault(json.dumps(b["objs"], sort_keys=True), []).append(b["q"])
    out = []
    for ci, (key, qs) in enumerate(sorted(by.items())):
        objs = json.loads(key)
        sobjs = []
        nxt = max(o["id"] for o in objs) + 1
        for o in objs:
            so = dict(id=o["id"], owner=1 + o["id"] % 3, cs=1 + o["id"] % 5, epoch=o["id"] % 2, size=10 * (o["id"] % 3),
                      attrs=[[a["k"], bstr(a["str"])] for a in o["attrs"]])
            if with_shards:
                so["shards"] = sorted(o["shards"])
            if not o["avail"]:
                how = (o["id"] + ci) % 5
                if how == 0:
                    so["fate"] = "gc"
                elif how == 1:
                    so["exp"] = 12           # put at epoch 10, queried at epoch 20
                elif how == 2:
                    so["fate"] = "del"       # physically deleted from every shard holding a copy
                elif how == 3:
                    so["fate"] = "gcdel"
                else:
                    ts = dict(id=nxt, typ="TOMBSTONE", target=o["id"], owner=1, cs=1, epoch=0, size=0)
                    if with_shards:
                        ts["shards"] = sorted(o["shards"])
                    sobjs.append(ts)
                    nxt += 1
            sobjs.append(so)
        seen, uq = set(), []
        for q in qs:
            k = json.dumps(q, sort_keys=True)
            if k not in seen:
                seen.add(k)
                uq.append(q)
        rnd.shuffle(uq)
        queries = [dict(fs=[dict(k=f["k"], op=f["op"], v=bstr(f["val"])) for f in q["fs"]], attrs=q["attrs"], ns=list(ns))
                   for q in uq[:per_corpus]]
        for k in ("$Object:payloadLength", "$Object:creationEpoch"):     # numeric walks over header fields
            queries.append(dict(fs=[dict(k=k, op="GE", v="0")], attrs=[k], ns=list(ns)))
        scn = dict(name="%s%d" % (name, ci), put_epoch=10, cur_epoch=20, pool_seed=2000 + ci, objs=sobjs, queries=queries)
        if with_shards:
            scn["nshards"] = 2
        out.append(scn)
    return out
