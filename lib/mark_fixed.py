#!/usr/bin/env python3
"""usage: lib/mark_fixed.py <commit> <signature> [<signature>...]  - moves findings to 'fixed' in known_findings(.d)"""
import glob, json, os, sys
V = os.path.dirname(os.path.dirname(os.path.abspath(__file__)))
commit, sigs = sys.argv[1], sys.argv[2:]
files = [os.path.join(V, "known_findings.json")] + sorted(glob.glob(os.path.join(V, "known_findings.d", "*.json")))
done = set()
for f in files:
    d = json.load(open(f))
    keep = []
    for x in d.get("findings", []):
        if x["signature"] in sigs:
            d.setdefault("fixed", []).append({"property": x["property"], "signature": x["signature"], "commit": commit, "what": x["what"],
                                              "line": "fixed: property=%s %s %s" % (x["property"], commit, x["what"])})
            done.add(x["signature"])
        else:
            keep.append(x)
    d["findings"] = keep
    json.dump(d, open(f, "w"), indent=1)
print("moved:", sorted(done), "missing:", sorted(set(sigs) - done))
