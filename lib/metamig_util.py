"""Family metamig helpers (C42): worlds for schedule generation, schedule selection, job construction,
trace splitting and the three validations (repaired model, as-is model, free observation spec)."""
import json, os, re
import vkit

CATALOGS = os.path.join(vkit.SPEC, "catalogs.json")
KF_LEAK = "cursor-leak-after-container-removal"


def tla_tuple(xs):
    def one(x):
        if isinstance(x, bool):
            return "TRUE" if x else "FALSE"
        return str(x)
    return "<<" + ", ".join(one(x) for x in xs) + ">>"


def genw_module(worlds):
    """worlds: list of dict(nc,nA,nH,budget) - every format (9, 10) and both counter-drift variants are added."""
    parts = []
    for w in worlds:
        nc = w["nc"]
        parts.append(
            "{ [nc |-> %d, nA |-> %s, nH |-> %s, budget |-> %d, ver0 |-> v, drift |-> [c \\in 1..%d |-> v = 9 \\/ (d /\\ c = 1)], gone0 |-> g] :\n"
            "      v \\in {9, 10}, d \\in BOOLEAN, g \\in %s }" % (
                nc, tla_tuple(w["nA"]), tla_tuple(w["nH"]), w["budget"], nc, w.get("gone0", "{{}}")))
    return ("-------------------------- MODULE MetaMigrationGenW --------------------------\nEXTENDS Integers\n"
            "GenWorlds ==\n  " + "\n  \\cup ".join(parts) +
            "\n=============================================================================\n")


def features(beh):
    """Event trigrams with context: what a schedule exercises."""
    evs = []
    for s in beh["steps"]:
        e = s["ev"]
        if e == "Open":
            e += "c" if s.get("cc") else ""
        evs.append(e)
    f = set()
    since = total = 0
    for e in evs:              # where in the upgrade an interrupt falls
        if e == "Tx":
            since += 1
            total += 1
        elif e.startswith("Open"):
            since = 0
        if e in ("Cancel", "Crash", "Gone", "Fail", "Openc"):
            f.add((e, since, min(total, 6)))
    pad = ["^"] + evs + ["$"]
    for i in range(len(pad) - 2):
        f.add((pad[i], pad[i + 1], pad[i + 2]))
    f.add(("ver0", beh["w"]["ver0"]))
    f.add(("drift", json.dumps(beh["w"]["drift"])))
    f.add(("gone0", json.dumps(sorted(beh["w"]["gone0"]))))
    f.add(("ntx", sum(1 for e in evs if e == "Tx")))
    return f


def select(behs, k):
    """Greedy cover of features; deterministic."""
    seen = {}
    for b in behs:
        seen.setdefault(json.dumps(b, sort_keys=True), b)
    pool = [(features(b), b) for b in seen.values()]
    chosen, covered = [], set()
    while pool and len(chosen) < k:
        best = max(range(len(pool)), key=lambda i: (len(pool[i][0] - covered), -len(pool[i][1]["steps"])))
        f, b = pool.pop(best)
        if not (f - covered) and len(chosen) >= 1:
            # nothing new: fill with the remaining ones in order
            chosen.append(b)
            continue
        covered |= f
        chosen.append(b)
    return chosen


def mk_job(jid, cat, hist, beh, unit, free=False):
    w = beh["w"]
    j = {"id": jid, "cat": cat, "hist": hist, "nc": w["nc"], "unit": unit,
            "nA": list(w["nA"]) if unit else [], "nH": list(w["nH"]) if unit else [],
            "ver0": w["ver0"], "drift": list(w["drift"]), "gone0": sorted(w["gone0"]), "steps": beh["steps"]}
    if free:
        j["free"] = True
    return j


def split_jobs(events):
    """-> list of (start, end) index ranges (0-based, end exclusive), one per job."""
    starts = [i for i, e in enumerate(events) if e["ev"] == "Init"]
    return [(s, (starts[k + 1] if k + 1 < len(starts) else len(events))) for k, s in enumerate(starts)]


def depth_of(r):
    m = re.search(r'<<"DEPTH", (\d+), (\d+)>>', r.out)
    return (int(m.group(1)), int(m.group(2))) if m else (None, None)


def strict(ck, events, cfg, tag):
    tp = os.path.join(ck.tmp, "trace-%s.ndjson" % tag)
    vkit.write_ndjson(tp, events)
    r = ck.tlc_validate("TraceMetaMigration", cfg, tp, timeout=3000)
    d, n = depth_of(r)
    if r.kind not in ("ok", "postcondition"):
        raise vkit.Infra("strict validation %s ended with %s %s\n%s" % (cfg, r.kind, r.name, vkit.tail(r.out, 3000)))
    if d is None:
        raise vkit.Infra("strict validation %s printed no depth\n%s" % (cfg, vkit.tail(r.out, 3000)))
    return r, d


def observe(ck, events, tag):
    tp = os.path.join(ck.tmp, "trace-obs-%s.ndjson" % tag)
    vkit.write_ndjson(tp, events)
    return ck.tlc_validate("TraceMetaMigrationObs", "TraceMetaMigrationObs.cfg", tp, timeout=1500)


def brief(e):
    return {k: v for k, v in e.items() if k not in ("w",)}


def world_key(b):
    return json.dumps([b["w"]["nA"], b["w"]["nH"], b["w"]["budget"]])


def all_behaviours(ck, module, cfg, files, timeout=900):
    """Exhaustive (BFS) run of a Gen spec: every behaviour its Emit invariant prints."""
    r = ck.tlc(module, cfg, files=files, timeout=timeout, deadlock=False, count=False)
    if r.kind != "ok":
        raise vkit.Infra("exhaustive generation %s/%s ended with %s\n%s" % (module, cfg, r.kind, vkit.tail(r.out, 3000)))
    beh = []
    for ln in r.out.splitlines():
        if ln.startswith('<<"BEH", '):
            t = ln[len('<<"BEH", '):].rstrip()
            if t.endswith(">>"):
                t = t[:-2]
            beh.append(json.loads(json.loads(t)))
    ck.log("TLC exhaustive %s/%s: %d behaviours, %d states in %.1fs" % (module, cfg, len(beh), r.distinct, r.wall))
    return beh
