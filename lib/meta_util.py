"""Family A helpers (C01, C02, C06, C07, C18): scripts -> real shard -> trace -> TraceMetabase validation."""
import json, os, re
import vkit

CATALOGS = os.path.join(vkit.SPEC, "catalogs.json")


def check_catalog_sync(ck):
    """spec/MetaCatalogs.tla and spec/catalogs.json must be what lib/gen_catalog.py generates."""
    import importlib.util, io
    a = open(os.path.join(vkit.SPEC, "MetaCatalogs.tla")).read()
    b = open(CATALOGS).read()
    spec = importlib.util.spec_from_file_location("gen_catalog", os.path.join(vkit.VERIF, "lib", "gen_catalog.py"))
    m = importlib.util.module_from_spec(spec)
    spec.loader.exec_module(m)
    if json.loads(b) != m.CATS:
        raise vkit.Infra("spec/catalogs.json is out of sync with lib/gen_catalog.py")
    for name in m.CATS:
        if ("  %s |-> [nc" % name) not in a:
            raise vkit.Infra("spec/MetaCatalogs.tla lacks catalogue %s" % name)


def trace_cfg(cat, invariants, properties=()):
    s = "SPECIFICATION TraceSpec\nCONSTANTS\n  CatName = \"%s\"\n  MaxEpoch = 1000000\n  MarkPairs = TRUE\n" % cat
    s += "INVARIANTS " + " ".join(invariants) + "\n"
    if properties:
        s += "PROPERTIES " + " ".join(properties) + "\n"
    s += "CHECK_DEADLOCK FALSE\n"
    return s


def gen_scripts(ck, binp, cat, n_sim, n_rnd, depth=16, seeds=1):
    beh = []
    if n_sim:
        for s in range(seeds):
            cfg = ("SPECIFICATION GenSpec\nCONSTANTS\n  CatName = \"%s\"\n  MaxEpoch = 4\n  MarkPairs = FALSE\n  GenLen = %d\n"
                   "INVARIANTS Emit\nCHECK_DEADLOCK FALSE\n") % (cat, depth)
            beh += ck.tlc_scripts("MetabaseGen", "MetabaseGen_run.cfg", num=n_sim, depth=depth + 1, seed=ck.seed * 100 + s,
                                  files={"MetabaseGen_run.cfg": cfg})
    if n_rnd:
        out = os.path.join(ck.tmp, "rnd-%s.ndjson" % cat)
        ck.harness(binp, ["gen", CATALOGS, cat, n_rnd, depth, out])
        beh += vkit.read_ndjson(out)
    return beh


def split_scripts(events):
    """Indexes of Init events -> list of (start, end) per script."""
    starts = [i for i, e in enumerate(events) if e["ev"] == "Init"]
    return starts


def _validate_chunk(ck, cat, chunk_scripts, events, invariants, properties, tag):
    """Fast pass (POSTCONDITION, no ENABLED); on rejection a second pass with TraceNotStuck gives diagnostics."""
    tp = os.path.join(ck.tmp, "trace-%s%s.ndjson" % (cat, tag))
    vkit.write_ndjson(tp, events)
    fast_inv = [i for i in invariants if i != "TraceNotStuck"]
    cfg = trace_cfg(cat, fast_inv, properties).replace("CHECK_DEADLOCK FALSE", "POSTCONDITION TraceAccepted\nCHECK_DEADLOCK FALSE")
    if not fast_inv:
        cfg = cfg.replace("INVARIANTS \n", "")
    name = "TraceMetabase_run%s.cfg" % tag
    r = ck.tlc_validate("TraceMetabase", name, tp, files={name: cfg}, timeout=1800)
    if not r.ok:
        r2 = ck.tlc_validate("TraceMetabase", name, tp, files={name: trace_cfg(cat, invariants, properties)}, timeout=1800)
        if r2.ok:
            raise vkit.Infra("fast validation pass rejected (%s %s) but diagnostic pass accepted" % (r.kind, r.name))
        r2.out = r.out + "\n" + r2.out
        r = r2
    return r


def run_validate(ck, binp, cat, scripts, invariants, properties=(), tag="", chunks=4):
    """Execute scripts on the real shard, validate the trace. Returns dict(r, events, scripts, expected, kf, drift);
    events/scripts are those of the first rejected chunk (or all, when accepted)."""
    from concurrent.futures import ThreadPoolExecutor
    sp = os.path.join(ck.tmp, "scripts-%s%s.ndjson" % (cat, tag))
    tp = os.path.join(ck.tmp, "trace-all-%s%s.ndjson" % (cat, tag))
    vkit.write_ndjson(sp, scripts)
    ck.harness(binp, ["run", CATALOGS, sp, tp], timeout=1800)
    events = vkit.read_ndjson(tp)
    starts = [i for i, e in enumerate(events) if e["ev"] == "Init"]
    if len(starts) != len(scripts):
        raise vkit.Infra("harness produced %d traces for %d scripts" % (len(starts), len(scripts)))
    if ck.tier == "thorough":
        chunks = 12
    chunks = max(1, min(chunks, len(scripts) // 20 or 1))
    per = (len(scripts) + chunks - 1) // chunks
    jobs = []
    for c in range(chunks):
        a, b = c * per, min((c + 1) * per, len(scripts))
        if a >= b:
            continue
        ea = starts[a]
        eb = starts[b] if b < len(scripts) else len(events)
        jobs.append((scripts[a:b], events[ea:eb], "%s-%d" % (tag, c)))
    with ThreadPoolExecutor(max_workers=len(jobs)) as ex:
        futs = [ex.submit(_validate_chunk, ck, cat, j[0], j[1], invariants, properties, j[2]) for j in jobs]
        results = [f.result() for f in futs]
    kf = set()
    drift = []
    for r in results:
        for m in re.finditer(r'^"KF \{(.*)\}"$', r.out, re.M):
            for name in re.findall(r'\\"([^"\\]+)\\"', m.group(1)):
                kf.add(name)
        drift += re.findall(r'^"DRIFT (.*)"$', r.out, re.M)
    ck.add("traces_validated_against_impl", len(scripts))
    ck.add("trace_events", len(events))
    bad = [(r, j) for r, j in zip(results, jobs) if not r.ok]
    if not bad:
        return dict(r=results[0], events=events, kf=kf, expected=None, drift=drift, scripts=scripts)
    r, j = bad[0]
    expected = None
    m = re.search(r'^"EXPECT (.*)"$', r.out, re.M)
    if m:
        try:
            expected = json.loads(json.loads('"' + m.group(1) + '"'))
        except Exception:
            expected = None
    return dict(r=r, events=j[1], kf=kf, expected=expected, drift=drift, scripts=j[0])


def script_of_event(events, scripts, pos):
    """pos = 1-based index of an event; returns (script, index of event inside script, the event)."""
    idx = -1
    first = 0
    for i, e in enumerate(events[:pos]):
        if e["ev"] == "Init":
            idx += 1
            first = i
    return scripts[max(idx, 0)], pos - 1 - first, events[pos - 1]


def view_diff(expected, event):
    """Fields on which the real view/result differs from what the model expected."""
    d = {}
    if expected is None:
        return d
    if expected.get("res") != event.get("res"):
        d["res"] = [expected.get("res"), event.get("res")]
    ev = expected.get("v", {})
    rv = event.get("v", {})
    for k in ("ex", "get", "lk", "ec", "blob", "list", "expd", "srch", "garb", "cnrs"):
        if ev.get(k) != rv.get(k):
            d[k] = [ev.get(k), rv.get(k)]
    if event.get("ev") == "List":
        flat = [x for pg in event.get("pages", []) for x in pg]
        if flat != expected.get("pages") or any(len(pg) == 0 for pg in event["pages"]) or any(len(pg) != event["n"] for pg in event["pages"][:-1]):
            d["pages"] = [expected.get("pages"), event.get("pages")]
    return d
