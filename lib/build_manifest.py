#!/usr/bin/env python3
"""Assemble MANIFEST.json from checks/<Cnn>.manifest.json (+ checks/<Cnn>.not_applicable.json)."""
import glob, json, os, subprocess, sys
V = os.path.dirname(os.path.dirname(os.path.abspath(__file__)))
props = [json.loads(l)["id"] for l in open(os.path.join(V, "properties.jsonl"))]
only = set(sys.argv[1:])
checks, na = [], []
for pid in props:
    mf = os.path.join(V, "checks", pid + ".manifest.json")
    nf = os.path.join(V, "checks", pid + ".not_applicable.json")
    if os.path.exists(mf) and os.path.exists(os.path.join(V, "checks", pid + ".py")) and (not only or pid in only):
        checks.append(json.load(open(mf)))
    elif os.path.exists(nf):
        na.append(json.load(open(nf)))
    else:
        na.append({"property_id": pid, "reason": "check not finished in this round (specification or conformance binding incomplete); see DESIGN.md section 6 for the plan"})
commits = subprocess.run(["git", "-C", "/repo", "log", "--format=%h %s", "60b87e2..HEAD"], capture_output=True, text=True).stdout.strip().splitlines()
hooks = [c.split()[0] for c in commits if " verif:" in c or c.split(" ", 1)[1].startswith("verif")]
man = {
 "version": 1,
 "setup_cmd": "./setup.sh",
 "hooks": {"guard": "verif (Go build tag)", "enable": "go build -tags verif (the harness module /verif/harness is built against /repo with this tag by every check)",
           "baseline_off_cmd": "cd /repo && go build ./... && go test -vet=off -count=1 -timeout 25m ./...",
           "source_commits": hooks, "add_only": True},
 "engines": [{"name": "tlc+go-harness", "path": "check", "serves_properties": [c["property_id"] for c in checks],
              "kind_free_text": "explicit TLA+ specifications (spec/*.tla) checked with TLC/Apalache; Go conformance harnesses (harness/cmd/*) replay TLC behaviours into the real code and record traces/records validated by TLC"}],
 "checks": checks,
 "not_applicable": na,
 "notes": "All checks: exit 0 held / exit 1 + VIOLATION line / exit 2 infrastructure (never a verdict). known_findings.json lists genuine defects recorded or fixed.",
}
json.dump(man, open(os.path.join(V, "MANIFEST.json"), "w"), indent=1)
print("checks:", len(checks), "not_applicable:", len(na))
