"""Helpers shared by the checks of family `sharda` (C09, C15, C44, C14, C43): script generation with
spec/ShardGen.tla, execution on the real shard (harness/cmd/sharda), validation with spec/TraceShard.tla and
the known-finding protocol on top of it."""
import json
import os
import re

import vkit

KF_RE = re.compile(r'^<<"KF", "(\w+)", (\d+), \{(.*)\}\s*>>\s*$')
STUCK_RE = re.compile(r'^<<"STUCK", (\d+), \{(.*)\}\s*>>\s*$')


def printed_values(out):
    """values printed by PrintT, re-joined when TLC wrapped them over several lines"""
    vals, cur, depth = [], None, 0
    for ln in out.splitlines():
        if cur is None:
            if re.match(r'^<<\s*"(KF|STUCK)"', ln):
                cur, depth = "", 0
            else:
                continue
        cur += (" " if cur else "") + ln.strip()
        depth += ln.count("<<") - ln.count(">>")
        if depth <= 0:
            vals.append(re.sub(r"\s+", " ", cur).replace("<< ", "<<").replace(" >>", ">>").replace("{ ", "{").replace(" }", "}"))
            cur = None
    return vals
TUP_RE = re.compile(r'<<([^<>]*)>>')


def _tuples(body):
    out = []
    for m in TUP_RE.finditer(body):
        out.append([x.strip().strip('"') for x in m.group(1).split(",")])
    return out


def script_of_event(events, pos):
    """index (0-based, in the list of behaviours that produced events) of the behaviour containing the
    1-based event position pos, and the events of that behaviour"""
    idx, start = -1, 0
    for i, e in enumerate(events[:pos]):
        if e["ev"] == "Init":
            idx, start = e.get("script", idx + 1), i
    end = start + 1
    while end < len(events) and events[end]["ev"] != "Init":
        end += 1
    return idx, events[start:end]


def strip_st(ev):
    e = dict(ev)
    e.pop("st", None)
    return e


class Validation:
    def __init__(self, r, events):
        self.r = r
        self.events = events
        self.kf = []      # (prop, event position, [[obj, cause], ...])
        self.stuck = None  # (event position, [[field, idx, model, real], ...])
        for ln in printed_values(r.out):
            m = KF_RE.match(ln)
            if m:
                self.kf.append((m.group(1), int(m.group(2)), _tuples(m.group(3))))
            m = STUCK_RE.match(ln)
            if m:
                self.stuck = (int(m.group(1)), _tuples(m.group(2)))


WORLD_PROBE = [{"wc": False, "batch": 2, "steps": [
    {"op": "Put", "a": 3, "c": 0, "ids": [], "crash": 0, "fail": 0},
    {"op": "Mark", "c": 1, "ids": [3], "mk": "def"},
    {"op": "Delete", "a": 0, "c": 1, "ids": [1], "crash": 0, "fail": 0},
    {"op": "Put", "a": 3, "c": 0, "ids": [], "crash": 0, "fail": 0}]},
    {"wc": False, "batch": 2, "steps": [
    {"op": "SetMode", "m": "RO", "fault": "meta"},
    {"op": "SetMode", "m": "RW", "fault": "none"},
    {"op": "Put", "a": 1, "c": 0, "ids": [], "crash": 0, "fail": 0}]}]


def detect_world(ck, binp):
    """Which of the already repaired / still as-is variants of unrelated, separately tracked defects does this tree have?
    BugH11 (C02, family A): does DB.put re-index an already stored garbage-marked object?  Probe on real code: put a
    tombstone, garbage-mark it, delete its target's metadata (drops the target's garbage key), put the tombstone again:
    the target's garbage key is back iff the tree re-indexes."""
    tp, info = run_scripts(ck, binp, WORLD_PROBE, name="worldprobe")
    ev = vkit.read_ndjson(tp)
    inits = [i for i, e in enumerate(ev) if e["ev"] == "Init"]
    first, second = ev[:inits[1]], ev[inits[1]:]
    # BugMetaStale: does a failed DB.SetMode leave a nil bolt under a non-degraded mode (Exists panics)?
    # BugH10: is the blobstor still read-only after the re-issued, successful SetMode(RW) (put rejected)?
    world = {"BugH11": bool(first[-1]["st"]["g"][0]),
             "BugMetaStale": second[1]["st"]["x"][0] == "panic",
             "BugH10": second[-1].get("res") == "ro"}
    ck.setcov("tree_variant", world)
    ck.log("tree variant: %s" % world)
    return world


def cfg_files(world, *cfgs):
    """scratch copies of the cfg files with the deviation switches of `world` (the committed cfgs carry the defaults)"""
    out = {}
    for c in cfgs:
        t = open(os.path.join(vkit.SPEC, c)).read()
        for k, v in world.items():
            t = re.sub(r"(?m)^(\s*%s\s*=\s*)\w+" % k, lambda m: m.group(1) + ("TRUE" if v else "FALSE"), t)
        out[c] = t
    return out


def validate(ck, cfg, trace_path, timeout=1500, world=None):
    files = cfg_files(world, cfg) if world else None
    r = ck.tlc_validate("TraceShard", cfg, trace_path, timeout=timeout, files=files)
    return Validation(r, vkit.read_ndjson(trace_path))


def run_scripts(ck, binp, scripts, name="scripts", sub="run", timeout=1500):
    sp = os.path.join(ck.tmp, name + ".ndjson")
    tp = os.path.join(ck.tmp, name + ".trace.ndjson")
    vkit.write_ndjson(sp, scripts)
    p = ck.harness(binp, [sub, sp, tp], timeout=timeout)
    info = {"panics": []}
    for ln in p.stdout.splitlines():
        m = re.match(r"scripts=(\d+) skipped_bg=(\d+) events=(\d+)", ln)
        if m:
            info.update(scripts=int(m.group(1)), skipped=int(m.group(2)), events=int(m.group(3)))
        if ln.startswith("REAL-PANIC"):
            info["panics"].append(ln)
    return tp, info


def judge(ck, prop, v, scripts, what_prefix, kf_signature, kf_describe):
    """Turn a Validation into verdicts.
    - rejected event (model cannot follow real code / projection differs)  -> VIOLATION (conformance)
    - violated *ModKF invariant (property false on a recorded real state, not a listed finding class) -> VIOLATION
    - KF notes (strict property false, cause is a known-finding class) -> ck.report(signature)            """
    ev = v.events
    if not v.r.ok:
        if v.stuck:
            pos, mm = v.stuck
        else:
            pos, mm = max(vkit.stuck_position(v.r) or 1, 1), []
        idx, sev = script_of_event(ev, pos)
        what = "%s: real shard trace rejected by spec (%s %s) at event %d %s; differences (field, id, model, real): %s" % (
            what_prefix, v.r.kind, v.r.name, pos, json.dumps(strip_st(ev[pos - 1])), json.dumps(mm))
        ck.violation(what, {"script": scripts[idx] if 0 <= idx < len(scripts) else None,
                            "rejected_event": ev[pos - 1], "trace": [strip_st(e) for e in sev][:80],
                            "tlc": v.r.trace_text[-1500:]})
        return False
    seen = set()
    for (p, pos, objs) in v.kf:
        if p != prop:
            continue
        idx, sev = script_of_event(ev, pos)
        for (obj, cause) in objs:
            sig = kf_signature(cause)
            if (idx, sig) in seen:
                continue
            seen.add((idx, sig))
            ck.add("known_finding_traces", 1)
            ck.report(sig, "%s: %s (object %s, behaviour %d, event %d)" % (what_prefix, kf_describe(cause), obj, idx, pos),
                      {"script": scripts[idx] if 0 <= idx < len(scripts) else None, "object": obj, "cause": cause,
                       "trace": [strip_st(e) for e in sev][:80]})
    return True
