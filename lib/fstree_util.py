"""Helpers of the fstree family (C10-C13): parallel TLC / harness runs on top of vkit.Check."""
import concurrent.futures
import json
import os
import re
import threading

import vkit


def make_threadsafe(ck):
    """vkit.Check.scratch_spec uses a plain counter; serialise it so that ck.tlc may be called from threads."""
    if getattr(ck, "_fst_lock", None):
        return
    ck._fst_lock = threading.Lock()
    orig = ck.scratch_spec

    def locked(files=None):
        with ck._fst_lock:
            return orig(files)
    ck.scratch_spec = locked


def pmap(fn, items, workers=4):
    """Run fn(item) in threads, keep order, re-raise the first exception."""
    items = list(items)
    if not items:
        return []
    with concurrent.futures.ThreadPoolExecutor(max_workers=max(1, min(workers, len(items)))) as ex:
        futs = [ex.submit(fn, it) for it in items]
        return [f.result() for f in futs]


def last_value(trace_text, var):
    """Last value of a variable printed in a TLC counterexample (single-line values)."""
    ms = re.findall(r"^(?:/\\ )?%s = (.*)$" % re.escape(var), trace_text, re.M)
    return ms[-1].strip() if ms else None


def last_l(r):
    """Value of the trace index l in the last state TLC printed (the full output: vkit truncates trace_text)."""
    ms = re.findall(r"^(?:/\\ )?l = (\d+)", r.out, re.M)      # a spec with a single variable prints "l = 5"
    return int(ms[-1]) if ms else 2


def tla_int_tuple(s):
    return [int(x) for x in re.findall(r"-?\d+", s or "")]


def kf_lines(out):
    """<<"KF", "signature", index, ...>> lines printed by a trace spec -> list of (signature, index, rest)."""
    res = []
    for m in re.finditer(r'<<"KF", "([^"]+)", (\d+)(.*?)>>', out):
        res.append((m.group(1), int(m.group(2)), m.group(3).strip(", ")))
    return res


def split_chunks(items, n):
    n = max(1, min(n, len(items)))
    k = (len(items) + n - 1) // n
    return [items[i:i + k] for i in range(0, len(items), k)]


def jdump(path, obj):
    with open(path, "w") as fh:
        json.dump(obj, fh)
    return path


def ncpu_share():
    """Processes to run in parallel: the machine is shared, stay at <= 8."""
    return max(2, min(8, (os.cpu_count() or 4) // 2))


# ------------------------------------------------------------------------------------------------
# C12 / C13: worker runs under strace, strace log -> events of spec/TraceFSTreeSys.tla

STRACE_CALLS = "openat,write,pwrite64,writev,linkat,renameat,renameat2,rename,fdatasync,fsync,close,unlinkat,unlink,mkdirat,mkdir"
_HEX = re.compile(r"\\x([0-9a-f]{2})")


def _unhex(s):
    """strace string (-x: non-ASCII strings fully in \\xHH, ASCII ones with C escapes) -> bytes."""
    out = bytearray()
    i = 0
    esc = {"n": 10, "t": 9, "r": 13, "\\": 92, '"': 34, "0": 0, "v": 11, "f": 12}
    while i < len(s):
        c = s[i]
        if c == "\\" and i + 1 < len(s):
            n = s[i + 1]
            if n == "x" and i + 3 < len(s):
                out.append(int(s[i + 2:i + 4], 16))
                i += 4
                continue
            out.append(esc.get(n, ord(n)))
            i += 2
            continue
        out.append(ord(c) & 0xFF)
        i += 1
    return bytes(out)


def strace_cmd(log, binary, args, inject=None):
    cmd = ["strace", "-f", "-o", log, "-s", "48", "-x", "-e", "trace=" + STRACE_CALLS]
    for inj in ([inject] if isinstance(inject, str) else (inject or [])):
        cmd += ["-e", "inject=" + inj]
    return cmd + [binary] + list(args)


def parse_strace(log_path, root, ack_path, names):
    """Returns (events, counts, start_counts): events for the trace spec in completion order; counts = number of
    calls per syscall name in the whole log; start_counts = the same at the START marker of the worker."""
    ev = []
    pend = {}
    tracked = {}            # fd -> "tmp" | "excl" | "ack"
    counts, start_counts = {}, None
    exit_st = None
    inj = []
    pertid, cur_pid = {}, [""]
    owner, stale = {}, {}
    dirfds = {}

    def reopen(fd):
        # strace logs calls of different threads in the order it handles their exit stops: the close(N) of one thread
        # may be logged after the open of another thread that already got N again. Close N first, drop the late close.
        if tracked.get(fd) in ("tmp", "excl"):
            ev.append({"ev": "sys", "sc": "close", "fd": fd, "ret": "ok"})
            stale[fd] = stale.get(fd, 0) + 1

    def name_of(path):
        if path in names:
            return {"k": "obj", "a": names[path], "i": 0}
        if "#" in path:
            base, _, i = path.rpartition("#")
            if base in names and i.isdigit():
                return {"k": "tmp", "a": names[base], "i": int(i)}
        return None

    def oid_addr(oidb):
        return names.get("oid:" + oidb.hex())

    def ret_of(r, okname="ok"):
        r = r.strip()
        if r.startswith("?"):
            return "unknown", None
        if r.startswith("-1"):
            if "EEXIST" in r:
                return "eexist", None
            if "ENOENT" in r:
                return "enoent", None
            return "err", None
        m = re.match(r"(\d+)", r)
        return okname, int(m.group(1)) if m else None

    def handle(call, args, ret):
        nonlocal start_counts
        counts[call] = counts.get(call, 0) + 1
        pertid[(cur_pid[0], call)] = pertid.get((cur_pid[0], call), 0) + 1
        rk, rv = ret_of(ret)
        if "(INJECTED)" in ret:
            n0 = len(ev)
            _handle(call, args, ret, rk, rv)
            inj.append({"call": call, "on_tree": len(ev) > n0 and ev[-1]["ev"] == "sys", "after_start": start_counts is not None})
            return
        _handle(call, args, ret, rk, rv)

    def _handle(call, args, ret, rk, rv):
        nonlocal start_counts
        if call == "openat":
            m = re.match(r'AT_FDCWD, "([^"]*)", ([A-Z_|0-9]+)', args)
            if not m:
                return
            path, flags = m.group(1), m.group(2)
            if path == ack_path:
                if rk == "ok":
                    tracked[rv] = "ack"
                return
            if path == root and "O_TMPFILE" in flags:
                if rk == "ok":
                    reopen(rv)
                    tracked[rv] = "tmp"
                    owner[rv] = cur_pid[0]
                ev.append({"ev": "sys", "sc": "opentmp", "fd": rv if rv is not None else 0, "ret": "ok" if rk == "ok" else ("unknown" if rk == "unknown" else "err"),
                           "batch": "O_DSYNC" not in flags})
                return
            if rk == "ok" and path.startswith(root) and "O_CREAT" not in flags and "O_TMPFILE" not in flags:
                dirfds[rv] = path          # a directory of the tree opened by os.RemoveAll (unlinkat relative to it)
            nm = name_of(path)
            if nm and "O_CREAT" in flags:
                if rk == "ok":
                    reopen(rv)
                    tracked[rv] = "excl"
                    owner[rv] = cur_pid[0]
                ev.append({"ev": "sys", "sc": "openexcl", "fd": rv if rv is not None else 0, "name": nm, "ret": rk})
            return
        if call in ("write", "writev", "pwrite64"):
            m = re.match(r"(\d+), ", args)
            if not m:
                return
            fd = int(m.group(1))
            kind = tracked.get(fd)
            if call == "pwrite64" and kind != "ack":
                return
            if kind == "ack":
                m2 = re.search(r'"((?:[^"\\]|\\.)*)"', args)
                txt = _unhex(m2.group(1)).decode("ascii", "replace").strip() if m2 else ""
                if rk != "ok":
                    return
                if txt == "START":
                    start_counts = dict(counts)
                elif txt.startswith("B ") or txt.startswith("R "):
                    p = txt.split()
                    as_ = [int(x) for x in p[3].split(",")]
                    if p[0] == "B":
                        ev.append({"ev": "begin", "k": p[2], "as": as_})
                    else:
                        ev.append({"ev": "res", "k": p[2], "as": as_, "r": p[4]})
                elif txt == "HANG":
                    ev.append({"ev": "exit", "st": "hang"})
                return
            if kind not in ("tmp", "excl"):
                return
            if call == "writev":
                m2 = re.search(r'iov_base="((?:[^"\\]|\\.)*)"(?:\.\.\.)?, iov_len=(\d+)\}, \{iov_base="(?:[^"\\]|\\.)*"(?:\.\.\.)?, iov_len=(\d+)\}', args)
                if not m2:
                    raise vkit.Infra("cannot parse writev: " + args[:200])
                pref = _unhex(m2.group(1))
                want = int(m2.group(2)) + int(m2.group(3))
                a = oid_addr(pref[2:34]) or 0
            else:
                m2 = re.match(r'\d+, "((?:[^"\\]|\\.)*)"(?:\.\.\.)?, (\d+)', args)
                if not m2:
                    raise vkit.Infra("cannot parse write: " + args[:200])
                data = _unhex(m2.group(1))
                want = int(m2.group(2))
                a = oid_addr(data[4:36]) or 0
            e = {"ev": "sys", "sc": call, "fd": fd, "a": a, "len": rv if rv is not None else 0,
                 "full": rv == want, "ret": "ok" if rk == "ok" else ("unknown" if rk == "unknown" else "err")}
            ev.append(e)
            return
        if call == "linkat":
            m = re.match(r'AT_FDCWD, "/proc/self/fd/(\d+)", AT_FDCWD, "([^"]*)"', args)
            if not m:
                return
            nm = name_of(m.group(2))
            if nm:
                ev.append({"ev": "sys", "sc": "link", "fd": int(m.group(1)), "name": nm, "ret": rk})
            return
        if call in ("renameat", "renameat2", "rename"):
            m = re.match(r'(?:AT_FDCWD, )?"([^"]*)", (?:AT_FDCWD, )?"([^"]*)"', args)
            if not m:
                return
            n1, n2 = name_of(m.group(1)), name_of(m.group(2))
            if n1 and n2:
                ev.append({"ev": "sys", "sc": "rename", "from": n1, "to": n2, "ret": rk})
            return
        if call in ("unlinkat", "unlink"):
            m = re.match(r'(?:(AT_FDCWD|\d+), )?"([^"]*)"(?:, (\w+))?', args)
            if not m or (m.group(3) and "REMOVEDIR" in m.group(3)):
                return
            upath = m.group(2)
            if m.group(1) and m.group(1).isdigit():
                upath = os.path.join(dirfds.get(int(m.group(1)), ""), upath)
            nm = name_of(upath)
            if nm:
                ev.append({"ev": "sys", "sc": "unlink", "name": nm, "ret": rk})
            return
        if call in ("fdatasync", "fsync", "close"):
            m = re.match(r"(\d+)", args)
            if not m:
                return
            fd = int(m.group(1))
            if call == "close" and stale.get(fd, 0) > 0 and owner.get(fd) != cur_pid[0]:
                stale[fd] -= 1          # the close of the previous use of this number, logged late (see reopen)
                return
            if tracked.get(fd) in ("tmp", "excl"):
                ev.append({"ev": "sys", "sc": "close" if call == "close" else "fdatasync", "fd": fd,
                           "ret": "ok" if rk == "ok" else ("unknown" if rk == "unknown" else "err")})
                if call == "close" and rk != "unknown":
                    tracked.pop(fd, None)
            elif call == "close" and rk == "ok":
                tracked.pop(fd, None)

    line_re = re.compile(r"^(\d+)\s+(.*)$")
    with open(log_path, errors="replace") as fh:
        for ln in fh:
            m = line_re.match(ln.rstrip("\n"))
            if not m:
                continue
            pid, rest = m.group(1), m.group(2)
            cur_pid[0] = pid
            if rest.startswith("+++ exited with"):
                code = int(re.search(r"exited with (\d+)", rest).group(1))
                exit_st = exit_st or {0: "ok", 2: "panic", 3: "hang"}.get(code, "other%d" % code)
                continue
            if rest.startswith("+++ killed by"):
                exit_st = exit_st or "killed"
                continue
            if rest.startswith("---"):
                continue
            mu = re.match(r"(\w+)\((.*) <unfinished \.\.\.>$", rest)
            if mu:
                pend[pid] = (mu.group(1), mu.group(2))
                continue
            mr = re.match(r"<\.\.\. (\w+) resumed>(.*)$", rest)
            if mr:
                call, head = pend.pop(pid, (mr.group(1), ""))
                mt = re.match(r"^(.*)\)\s+= (.*)$", mr.group(2))
                if not mt:
                    continue
                handle(call, head + mt.group(1), mt.group(2))
                continue
            mc = re.match(r"(\w+)\((.*)\)\s+= (.*)$", rest)
            if mc:
                handle(mc.group(1), mc.group(2), mc.group(3))
    # calls still in flight when the process was killed: effect unknown
    for pid, (call, head) in pend.items():
        cur_pid[0] = pid
        handle(call, head, "?")
    if not any(e["ev"] == "exit" for e in ev):
        ev.append({"ev": "exit", "st": exit_st or "killed"})
    else:
        # HANG marker already produced the exit event; keep a single one at the end
        ev = [e for e in ev if e["ev"] != "exit"] + [{"ev": "exit", "st": "hang"}]
    counts["_injected"] = inj
    mt = {}
    for (pid, call), n in pertid.items():       # strace counts `when=k` per thread
        mt[call] = max(mt.get(call, 0), n)
    counts["_max_per_thread"] = mt
    return ev, counts, start_counts or {}


def _run_group(argv, timeout, env, cwd):
    """subprocess.run with the child in its own process group, killed as a group on timeout (strace + tracees)."""
    import signal
    import subprocess
    pr = subprocess.Popen(argv, cwd=cwd, env=env, stdout=subprocess.PIPE, stderr=subprocess.PIPE, text=True, start_new_session=True)
    try:
        out, err = pr.communicate(timeout=timeout)
        return subprocess.CompletedProcess(argv, pr.returncode, out, err)
    except subprocess.TimeoutExpired:
        try:
            os.killpg(pr.pid, signal.SIGKILL)
        except ProcessLookupError:
            pass
        out, err = pr.communicate()
        return subprocess.CompletedProcess(argv, 124, out or "", err or "")


def run_sys_job(ck, binary, job, tag, inject=None, timeout=60):
    """Run one worker job under strace (optionally with an injection), then the verifier. Returns the event list
    (Init ... exit, verify), the call counts of the run and the counts at the START marker."""
    d = os.path.join(ck.tmp, "sys-" + tag)
    os.makedirs(d, exist_ok=True)
    job = dict(job)
    job["root"] = os.path.join(d, "tree")
    job["ack"] = os.path.join(d, "ack")
    jp = jdump(os.path.join(d, "job.json"), job)
    log = os.path.join(d, "strace.log")
    # strace counts `when=k` per thread: keep the Go scheduler on one P so that nearly all calls of the writers
    # come from one thread and k enumerates the calls of the process (goroutines still interleave at blocking points)
    env = dict(os.environ, VERIF_SEED=str(ck.seed), TMPDIR=d, GOMAXPROCS=os.environ.get("VERIF_GOMAXPROCS", "1"))
    p = _run_group(strace_cmd(log, binary, ["worker", jp], inject), timeout, env, d)
    timed_out = p.returncode == 124
    if timed_out and not inject:
        raise vkit.Infra("worker %s timed out under strace without any injection" % tag)
    if not os.path.exists(job["ack"] + ".names"):
        # killed before the worker wrote its name table: nothing was written to the tree
        names = {}
    else:
        try:
            names = json.load(open(job["ack"] + ".names"))
        except ValueError:          # killed while writing the name table, i.e. before the tree was touched
            names = {}
    ev, counts, start = parse_strace(log, job["root"], job["ack"], names)
    if timed_out:
        # the whole process group was killed by us: before the start marker the fault hit the runtime / set-up
        # (discarded by the callers as a misfire), after it the writers hung without the watchdog firing
        counts["_timeout"] = True
        if start:
            # the worker's own watchdog decides about hangs; an outer timeout after the start marker is the machine
            raise vkit.Infra("worker %s exceeded %d s under strace after its start marker (overloaded machine?)" % (tag, timeout))
        ev = [e for e in ev if e["ev"] != "exit"] + [{"ev": "exit", "st": "killed"}]
        if not start:
            counts["_injected"] = [dict(x, after_start=False) for x in counts.get("_injected", [])] or [{"call": "?", "on_tree": False, "after_start": False}]
    stderr_tail = p.stderr[-1500:] if p.stderr else ""
    outp = os.path.join(d, "verify.json")
    pv = ck.sh([binary, "verify", jp, outp], timeout=timeout, env=env, cwd=d)
    if pv.returncode != 0 or not os.path.exists(outp):
        raise vkit.Infra("verifier failed for %s: rc=%d %s" % (tag, pv.returncode, pv.stderr[-2000:]))
    v = json.load(open(outp))
    ev.append({"ev": "verify", "before": v["before"], "retry": v["retry"], "after": v["after"], "cleanup": v["cleanup"]})
    init = {"ev": "Init", "n": job["n"], "szlim": job["cfg"]["szlim"], "cnt": job["cfg"]["cnt"], "tag": tag,
            "inject": (inject if isinstance(inject, str) else "+".join(inject or [])), "writer": job["cfg"]["writer"]}
    import shutil
    shutil.rmtree(d, ignore_errors=True)
    return [init] + ev, counts, start, stderr_tail
