#!/usr/bin/env python3
"""Fill seeded/<id>/meta.json from the run results in /tmp/mutres (kept when already hand-written with a 'breaks' key).
Also prints a markdown table for DESIGN.md."""
import glob, json, os, re
V = os.path.dirname(os.path.dirname(os.path.abspath(__file__)))
rows = []
for d in sorted(glob.glob(os.path.join(V, "seeded", "C*-*"))):
    sid = os.path.basename(d)
    pid = sid.split("-")[0]
    mp = os.path.join(d, "meta.json")
    meta = json.load(open(mp)) if os.path.exists(mp) else {}
    res_file = "/tmp/mutres2/%s.txt" % sid          # final sweep on the strengthened checks
    first_file = "/tmp/mutres/%s.txt" % sid       # first run (before any strengthening)
    if os.path.exists(first_file) and "first_run" not in meta:
        t0 = open(first_file).read()
        c0 = re.findall(r"check=(C\d+) rc=(\d+)", t0)
        if c0:
            meta["first_run"] = ["%s rc=%s" % x for x in c0]
    if not os.path.exists(res_file):
        res_file = first_file
    outcome = meta.get("outcome")
    if os.path.exists(res_file):
        txt = open(res_file).read()
        checks = re.findall(r"check=(C\d+) rc=(\d+)", txt)
        what = re.findall(r"what: (.*)", txt)
        caught = [c for c, rc in checks if rc == "1"]
        outcome = {"checks_run": ["%s rc=%s" % x for x in checks], "caught_by": caught, "detail": (what[0][:400] if what else "")}
    readme = open(os.path.join(d, "README.md")).read() if os.path.exists(os.path.join(d, "README.md")) else ""
    meta.setdefault("property", pid)
    meta.setdefault("source", "independent sub-agent given only the property text and a scratch worktree of /repo")
    meta.setdefault("description", "see README.md (what the change is, why it breaks the property, what it needs to manifest, commands run by its author)")
    meta["demonstration"] = sorted(f for f in os.listdir(d) if f.endswith("_test.go"))
    meta["ran"] = "lib/try_patch.sh seeded/%s/patch.diff %s  (scratch worktree of /repo HEAD + patch, VERIF_REPO)" % (sid, pid)
    if outcome:
        meta["outcome"] = outcome
    json.dump(meta, open(mp, "w"), indent=1)
    first = ""
    for ln in readme.splitlines():
        ln = ln.strip()
        if ln and not ln.startswith("#"):
            first = ln
            break
    fr = meta.get("first_run")
    if fr is None:
        frs = "run by the family's implementer (see notes)"
    else:
        frs = "caught" if any(x.endswith("rc=1") for x in fr) else ("exit 2" if any(x.endswith("rc=2") for x in fr) else "missed")
        if meta.get("note"):
            frs += " (" + meta["note"] + ")"
    fin = ", ".join(sorted(set(outcome["caught_by"]))) if outcome and outcome.get("caught_by") else ("MISSED" if outcome else "not run yet")
    desc = meta.get("breaks", first).replace("|", "/")[:150]
    rows.append((sid, desc, frs, "caught by " + fin if fin not in ("MISSED", "not run yet") else fin))
print("| seed | change (see seeded/<id>/README.md) | first run | final sweep |")
print("|---|---|---|---|")
for r in rows:
    print("| %s | %s | %s | %s |" % r)
