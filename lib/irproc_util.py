"""Helpers of the irproc family (C34, C35, C37, C38)."""
import re


def last_l(r):
    """Index (1-based) of the record/event at which a trace spec with variable `l` was rejected.
    vkit.stuck_position works on the truncated counterexample text; long traces need the full output."""
    ms = re.findall(r"/\\ l = (\d+)", r.out)
    return int(ms[-1]) if ms else None


def drifts(r):
    """Indices printed by a trace spec as <<"DRIFT", l>> (record differs from the code-shaped decision
    without breaking the property)."""
    return sorted({int(x) for x in re.findall(r'<<"DRIFT", (\d+)>>', r.out)})
