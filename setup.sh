#!/bin/sh
# Offline setup: warm the Go build cache by building every harness command against /repo (tag verif).
set -e
cd "$(dirname "$0")"
export GOFLAGS=-mod=mod GOPROXY=off GOSUMDB=off GOTOOLCHAIN=local
python3 - <<'PY'
import sys, os
sys.path.insert(0, "lib")
import vkit
ck = vkit.Check("setup", "other")
ok = True
for d in sorted(os.listdir("harness/cmd")):
    try:
        ck.gobuild(d)
    except Exception as e:
        print("setup: build of", d, "failed:", str(e)[:2000])
        ok = False
ck.cleanup()
sys.exit(0 if ok else 1)
PY
