// Package fix builds the shared fixture of the irproc harness: a fake chain, REAL morph clients and
// contract wrappers bound to it, deterministic keys and contract hashes.
package fix

import (
	"context"
	"crypto/sha256"
	"encoding/binary"
	"fmt"
	"math/big"
	"sort"

	"github.com/nspcc-dev/neo-go/pkg/core/native/nativehashes"
	"github.com/nspcc-dev/neo-go/pkg/core/native/noderoles"
	"github.com/nspcc-dev/neo-go/pkg/crypto/keys"
	"github.com/nspcc-dev/neo-go/pkg/smartcontract/scparser"
	"github.com/nspcc-dev/neo-go/pkg/util"
	"github.com/nspcc-dev/neo-go/pkg/vm/stackitem"
	"github.com/nspcc-dev/neofs-node/pkg/morph/client"
	"go.uber.org/zap"
	"verifharness/internal/irproc/fakechain"
)

// Key derives a deterministic P-256 private key from a label.
func Key(label string) *keys.PrivateKey {
	for i := 0; ; i++ {
		h := sha256.Sum256([]byte(fmt.Sprintf("irproc-key/%s/%d", label, i)))
		k, err := keys.NewPrivateKeyFromBytes(h[:])
		if err == nil {
			return k
		}
	}
}

// Hash160 derives a deterministic contract hash from a label.
func Hash160(label string) util.Uint160 {
	h := sha256.Sum256([]byte("irproc-contract/" + label))
	var u util.Uint160
	copy(u[:], h[:20])
	return u
}

// Contracts are the script hashes of the NeoFS contracts on the fake FS chain.
type Contracts struct {
	Netmap, Container, Balance, Reputation, Proxy, NeoFS, Processing, NNS util.Uint160
	Alphabet                                                              []util.Uint160
}

// Env is one node's view: its key, the chain, the real client.
type Env struct {
	Ctx    context.Context
	Chain  *fakechain.Chain
	Key    *keys.PrivateKey
	Cli    *client.Client
	C      Contracts
	Log    *zap.Logger
	Reads  map[string]func(c fakechain.Call) ([]stackitem.Item, string) // "<contractLE>/<method>" -> answer
	IRList keys.PublicKeys                                              // NeoFSAlphabet role (inner ring list) on the FS chain
	// RoleErr makes getDesignatedByRole FAULT.
	RoleErr bool
}

// NewEnv creates the chain (committee = alphabet keys) and a real morph client for key `me` with
// notary support enabled (proxy contract given explicitly, like the IR does).
// Extra notary options (e.g. another proxy contract / alphabet source for the main chain client) may follow.
func NewEnv(ctx context.Context, me *keys.PrivateKey, committee keys.PublicKeys, nAlphabetContracts int, log *zap.Logger, nopts ...client.NotaryOption) (*Env, error) {
	e := &Env{Ctx: ctx, Key: me, Log: log, Reads: map[string]func(fakechain.Call) ([]stackitem.Item, string){}}
	e.C = Contracts{
		Netmap: Hash160("netmap"), Container: Hash160("container"), Balance: Hash160("balance"),
		Reputation: Hash160("reputation"), Proxy: Hash160("proxy"), NeoFS: Hash160("neofs"),
		Processing: Hash160("processing"), NNS: Hash160("nns"),
	}
	for i := 0; i < nAlphabetContracts; i++ {
		e.C.Alphabet = append(e.C.Alphabet, Hash160(fmt.Sprintf("alphabet%d", i)))
	}
	cm := make(keys.PublicKeys, len(committee))
	copy(cm, committee)
	e.Chain = fakechain.New(cm)
	e.IRList = cm
	e.Chain.OnCall = e.onCall
	ws, err := e.Chain.WSClient(ctx)
	if err != nil {
		return nil, fmt.Errorf("ws client: %w", err)
	}
	e.Cli, err = client.New(me, client.WithContext(ctx), client.WithLogger(log), client.WithSingleClient(ws))
	if err != nil {
		return nil, fmt.Errorf("morph client: %w", err)
	}
	if err = e.Cli.EnableNotarySupport(append([]client.NotaryOption{client.WithProxyContract(e.C.Proxy)}, nopts...)...); err != nil {
		return nil, fmt.Errorf("notary support: %w", err)
	}
	return e, nil
}

// OnRead registers the answer for a test invocation of contract.method.
func (e *Env) OnRead(contract util.Uint160, method string, f func(c fakechain.Call) ([]stackitem.Item, string)) {
	e.Chain.Lock()
	e.Reads[contract.StringLE()+"/"+method] = f
	e.Chain.Unlock()
}

// Const registers a constant answer.
func (e *Env) Const(contract util.Uint160, method string, items ...stackitem.Item) {
	e.OnRead(contract, method, func(fakechain.Call) ([]stackitem.Item, string) { return items, "" })
}

func (e *Env) onCall(c fakechain.Call) ([]stackitem.Item, string) {
	e.Chain.Lock()
	f := e.Reads[c.Contract.StringLE()+"/"+c.Method]
	ir, roleErr := e.IRList, e.RoleErr
	cm := e.Chain.Committee
	e.Chain.Unlock()
	if f != nil {
		return f(c)
	}
	switch {
	case c.Contract == nativehashes.RoleManagement && c.Method == "getDesignatedByRole":
		if roleErr {
			return nil, "fakechain: role lookup failure"
		}
		var role int64
		if len(c.Args) > 0 {
			role, _ = scparser.GetInt64FromInstr(c.Args[0].Instruction)
		}
		var list keys.PublicKeys
		switch noderoles.Role(role) {
		case noderoles.NeoFSAlphabet:
			list = ir
		case noderoles.P2PNotary:
			list = cm
		}
		s := make(keys.PublicKeys, len(list))
		copy(s, list)
		sort.Sort(s)
		items := make([]stackitem.Item, len(s))
		for i := range s {
			items[i] = stackitem.NewByteArray(s[i].Bytes())
		}
		return []stackitem.Item{stackitem.NewArray(items)}, ""
	case c.Contract == nativehashes.GasToken && c.Method == "balanceOf":
		return []stackitem.Item{stackitem.NewBigInteger(big.NewInt(1000_0000_0000))}, ""
	case c.Contract == nativehashes.GasToken && c.Method == "transfer":
		return []stackitem.Item{stackitem.NewBool(true)}, ""
	case c.Contract == nativehashes.Notary && (c.Method == "balanceOf" || c.Method == "expirationOf"):
		return []stackitem.Item{stackitem.NewBigInteger(big.NewInt(1000))}, ""
	case c.Contract == nativehashes.NeoToken && c.Method == "getAccountState":
		return []stackitem.Item{stackitem.Null{}}, ""
	}
	return []stackitem.Item{}, ""
}

// U64 is a little helper for epoch-like arguments of recorded calls.
func U64(it scparser.PushedItem) (uint64, bool) {
	v, err := scparser.GetBigIntFromInstr(it.Instruction)
	if err != nil || v.Sign() < 0 || !v.IsUint64() {
		return 0, false
	}
	return v.Uint64(), true
}

// Nonce derives deterministic 4-byte values.
func Nonce(s string) uint32 {
	h := sha256.Sum256([]byte(s))
	return binary.LittleEndian.Uint32(h[:4])
}
