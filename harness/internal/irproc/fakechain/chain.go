// Package fakechain is an in-process stand-in for a Neo RPC node. It plugs into the REAL
// neo-go rpcclient through rpcclient.NewInternal (the same door neofs-ir uses for its embedded
// chain), so the whole pkg/morph/client stack (actors, notary actor, signing, fee calculation,
// script building) runs unmodified and without sockets. Reads are answered from harness-supplied
// stack items, every chain-mutating RPC (sendrawtransaction / submitnotaryrequest) is recorded.
package fakechain

import (
	"context"
	"encoding/json"
	"errors"
	"fmt"
	"strconv"
	"sync"

	"github.com/nspcc-dev/neo-go/pkg/config"
	"github.com/nspcc-dev/neo-go/pkg/config/netmode"
	"github.com/nspcc-dev/neo-go/pkg/core/block"
	"github.com/nspcc-dev/neo-go/pkg/core/native/nativehashes"
	"github.com/nspcc-dev/neo-go/pkg/core/native/nativenames"
	"github.com/nspcc-dev/neo-go/pkg/core/state"
	"github.com/nspcc-dev/neo-go/pkg/core/transaction"
	"github.com/nspcc-dev/neo-go/pkg/crypto/keys"
	"github.com/nspcc-dev/neo-go/pkg/io"
	"github.com/nspcc-dev/neo-go/pkg/neorpc"
	"github.com/nspcc-dev/neo-go/pkg/neorpc/result"
	"github.com/nspcc-dev/neo-go/pkg/network/payload"
	"github.com/nspcc-dev/neo-go/pkg/rpcclient"
	"github.com/nspcc-dev/neo-go/pkg/services/rpcsrv/params"
	"github.com/nspcc-dev/neo-go/pkg/smartcontract/manifest"
	"github.com/nspcc-dev/neo-go/pkg/smartcontract/scparser"
	"github.com/nspcc-dev/neo-go/pkg/smartcontract/trigger"
	"github.com/nspcc-dev/neo-go/pkg/util"
	"github.com/nspcc-dev/neo-go/pkg/vm/stackitem"
	"github.com/nspcc-dev/neo-go/pkg/vm/vmstate"
)

// Call is one contract call of a script.
type Call struct {
	Contract util.Uint160
	Method   string
	Args     []scparser.PushedItem
}

// Sent is one recorded chain-mutating RPC.
type Sent struct {
	Kind     string // "tx" (sendrawtransaction) | "notary" (submitnotaryrequest)
	Tx       *transaction.Transaction
	Fallback *transaction.Transaction
	Calls    []Call // calls of Tx.Script (nil when the script is not a sequence of contract calls)
	ParseErr string
}

// Chain is the fake node state. All exported fields may be changed between driver steps
// (use Lock/Unlock when handlers may be running).
type Chain struct {
	sync.Mutex
	Magic       netmode.Magic
	Height      uint32
	MsPerBlock  int
	Committee   keys.PublicKeys
	FailMethods map[string]bool // RPC method -> answer with an internal error
	// OnCall answers test invocations (invokefunction and single-call invokescript).
	// fault != "" => FAULT state with that exception.
	OnCall func(c Call) (stack []stackitem.Item, fault string)
	// ScriptState optionally overrides the VM state answered for an invokescript of exactly this script
	// ("HALT"/"FAULT"); used for Client.IsValidScript.
	ScriptState func(script []byte) string
	TxHeights   map[util.Uint256]uint32
	HeaderTime  func(index uint32) uint64
	// Accepted holds the hashes of every transaction the node "accepted" (raw, main, fallback):
	// getapplicationlog answers HALT for them, so awaiting callers return at once.
	Accepted map[util.Uint256]bool

	Sent     []Sent
	Requests map[string]int
	Unknown  map[string]int

	events chan<- neorpc.Notification
	subID  int
}

// DefaultMsPerBlock is the block time reported by chains created afterwards.
var DefaultMsPerBlock = 1000

// New creates a chain with sane defaults.
func New(committee keys.PublicKeys) *Chain {
	return &Chain{
		Magic:       netmode.UnitTestNet,
		Height:      100,
		MsPerBlock:  DefaultMsPerBlock,
		Committee:   committee,
		FailMethods: map[string]bool{},
		TxHeights:   map[util.Uint256]uint32{},
		Accepted:    map[util.Uint256]bool{},
		Requests:    map[string]int{},
		Unknown:     map[string]int{},
	}
}

// WSClient returns an initialised neo-go WS client bound to the fake.
func (c *Chain) WSClient(ctx context.Context) (*rpcclient.WSClient, error) {
	ic, err := rpcclient.NewInternal(ctx, func(_ context.Context, ch chan<- neorpc.Notification) func(*neorpc.Request) (*neorpc.Response, error) {
		c.events = ch
		return c.handle
	})
	if err != nil {
		return nil, err
	}
	if err = ic.Init(); err != nil {
		return nil, err
	}
	return &ic.WSClient, nil
}

// TakeSent returns and clears the recorded mutating calls.
func (c *Chain) TakeSent() []Sent {
	c.Lock()
	defer c.Unlock()
	s := c.Sent
	c.Sent = nil
	return s
}

// ParseCalls splits a script into its contract calls the same way the IR notary preparator does.
func ParseCalls(script []byte) ([]Call, error) {
	var (
		res []Call
		ctx = scparser.NewContext(script, 0)
	)
	for ctx.NextIP() < len(script) {
		sh, m, _, args, err := scparser.GetAppCallFromContext(ctx)
		if err != nil {
			return res, err
		}
		res = append(res, Call{Contract: sh, Method: m, Args: args})
	}
	if len(res) == 0 {
		return nil, errors.New("no calls")
	}
	return res, nil
}

func parseOneCall(script []byte) (Call, bool) {
	sh, m, _, args, err := scparser.ParseAppCallWithASSERT(script, false)
	if err != nil {
		cs, err2 := ParseCalls(script)
		if err2 != nil || len(cs) != 1 {
			return Call{}, false
		}
		return cs[0], true
	}
	return Call{Contract: sh, Method: m, Args: args}, true
}

func (c *Chain) handle(req *neorpc.Request) (*neorpc.Response, error) {
	resp := &neorpc.Response{HeaderAndError: neorpc.HeaderAndError{Header: neorpc.Header{
		JSONRPC: req.JSONRPC, ID: json.RawMessage(strconv.FormatUint(req.ID, 10))}}}
	ps, err := params.FromAny(req.Params)
	if err != nil {
		return nil, err
	}
	c.Lock()
	c.Requests[req.Method]++
	fail := c.FailMethods[req.Method]
	c.Unlock()
	if fail {
		resp.Error = neorpc.NewInternalServerError("fakechain: injected failure of " + req.Method)
		return resp, nil
	}
	res, rerr := c.dispatch(req.Method, ps)
	if rerr != nil {
		resp.Error = rerr
		return resp, nil
	}
	b, err := json.Marshal(res)
	if err != nil {
		return nil, fmt.Errorf("fakechain: marshal %s result: %w", req.Method, err)
	}
	resp.Result = b
	return resp, nil
}

func (c *Chain) version() *result.Version {
	return &result.Version{
		TCPPort: 1, Nonce: 1, UserAgent: "/fakechain/",
		RPC: result.RPC{MaxIteratorResultItems: 100, SessionEnabled: true},
		Protocol: result.Protocol{
			AddressVersion:              0x35,
			Network:                     c.Magic,
			MillisecondsPerBlock:        c.MsPerBlock,
			MaxTraceableBlocks:          2102400,
			MaxValidUntilBlockIncrement: 5760,
			MaxTransactionsPerBlock:     512,
			MemoryPoolMaxTransactions:   50000,
			ValidatorsCount:             byte(max(1, len(c.Committee))),
			InitialGasDistribution:      5200000000000000,
			Hardforks:                   map[config.Hardfork]uint32{},
			StandbyCommittee:            c.Committee,
			P2PSigExtensions:            true,
		},
	}
}

func natives() []state.Contract {
	names := []string{nativenames.Management, nativenames.Ledger, nativenames.Neo, nativenames.Gas, nativenames.Policy,
		nativenames.Oracle, nativenames.Designation, nativenames.Notary, nativenames.CryptoLib, nativenames.StdLib}
	hashes := []util.Uint160{nativehashes.ContractManagement, nativehashes.LedgerContract, nativehashes.NeoToken, nativehashes.GasToken,
		nativehashes.PolicyContract, nativehashes.OracleContract, nativehashes.RoleManagement, nativehashes.Notary,
		nativehashes.CryptoLib, nativehashes.StdLib}
	res := make([]state.Contract, len(names))
	for i := range names {
		m := manifest.NewManifest(names[i])
		res[i] = state.Contract{ContractBase: state.ContractBase{ID: int32(-1 - i), Hash: hashes[i], Manifest: *m}}
	}
	return res
}

func (c *Chain) invoke(script []byte) *result.Invoke {
	inv := &result.Invoke{State: "HALT", GasConsumed: 1_0000000, Script: script, Stack: []stackitem.Item{}}
	c.Lock()
	ss, oc := c.ScriptState, c.OnCall
	c.Unlock()
	if ss != nil {
		if st := ss(script); st != "" {
			inv.State = st
			if st != "HALT" {
				inv.FaultException = "fakechain: script marked " + st
			}
			return inv
		}
	}
	call, ok := parseOneCall(script)
	if !ok && oc != nil {
		// smartcontract.CreateCallAndPrefetchIteratorScript: PUSH<max> + contract call + iterator unwrapping;
		// answered with the array of all items (no iterator left)
		ctx := scparser.NewContext(script, 0)
		if _, _, err := ctx.Next(); err == nil {
			if sh, m, _, args, err := scparser.GetAppCallFromContext(ctx); err == nil {
				stack, fault := oc(Call{Contract: sh, Method: m, Args: args})
				if fault != "" {
					inv.State = "FAULT"
					inv.FaultException = fault
					return inv
				}
				if len(stack) == 1 {
					if it, isIter := stack[0].Value().(result.Iterator); isIter {
						vals := it.Values
						if vals == nil {
							vals = []stackitem.Item{}
						}
						inv.Stack = []stackitem.Item{stackitem.NewArray(vals)}
					}
				}
				return inv
			}
		}
	}
	if ok && oc != nil {
		stack, fault := oc(call)
		if fault != "" {
			inv.State = "FAULT"
			inv.FaultException = fault
			return inv
		}
		if stack != nil {
			inv.Stack = stack
		}
	}
	return inv
}

func (c *Chain) header(index uint32) *block.Header {
	h := &block.Header{Version: 0, Index: index, Timestamp: 1_700_000_000_000 + uint64(index)*1000}
	c.Lock()
	if c.HeaderTime != nil {
		h.Timestamp = c.HeaderTime(index)
	}
	c.Unlock()
	h.Script = transaction.Witness{InvocationScript: []byte{}, VerificationScript: []byte{0x11}}
	return h
}

func (c *Chain) dispatch(method string, ps params.Params) (any, *neorpc.Error) {
	switch method {
	case "getversion":
		c.Lock()
		defer c.Unlock()
		return c.version(), nil
	case "getnativecontracts":
		return natives(), nil
	case "getblockcount":
		c.Lock()
		defer c.Unlock()
		return c.Height, nil
	case "getcommittee":
		c.Lock()
		defer c.Unlock()
		return c.Committee, nil
	case "invokefunction":
		sh, err := ps.Value(0).GetUint160FromHex()
		if err != nil {
			return nil, neorpc.NewInvalidParamsError(err.Error())
		}
		m, err := ps.Value(1).GetString()
		if err != nil {
			return nil, neorpc.NewInvalidParamsError(err.Error())
		}
		var args *params.Param
		if len(ps) > 2 {
			args = ps.Value(2)
		}
		script, err := params.CreateFunctionInvocationScript(sh, m, args)
		if err != nil {
			return nil, neorpc.NewInvalidParamsError(err.Error())
		}
		return c.invoke(script), nil
	case "invokescript":
		script, err := ps.Value(0).GetBytesBase64()
		if err != nil {
			return nil, neorpc.NewInvalidParamsError(err.Error())
		}
		return c.invoke(script), nil
	case "calculatenetworkfee":
		return result.NetworkFee{Value: 1_000000}, nil
	case "sendrawtransaction":
		raw, err := ps.Value(0).GetBytesBase64()
		if err != nil {
			return nil, neorpc.NewInvalidParamsError(err.Error())
		}
		tx, err := transaction.NewTransactionFromBytes(raw)
		if err != nil {
			return nil, neorpc.NewInvalidParamsError(err.Error())
		}
		s := Sent{Kind: "tx", Tx: tx}
		var perr error
		if s.Calls, perr = ParseCalls(tx.Script); perr != nil {
			if one, ok := parseOneCall(tx.Script); ok {
				s.Calls = []Call{one}
			} else {
				s.ParseErr = perr.Error()
			}
		}
		c.Lock()
		c.Sent = append(c.Sent, s)
		c.Accepted[tx.Hash()] = true
		c.Unlock()
		return result.RelayResult{Hash: tx.Hash()}, nil
	case "submitnotaryrequest":
		raw, err := ps.Value(0).GetBytesBase64()
		if err != nil {
			return nil, neorpc.NewInvalidParamsError(err.Error())
		}
		nr, err := payload.NewP2PNotaryRequestFromBytes(raw)
		if err != nil {
			return nil, neorpc.NewInvalidParamsError(err.Error())
		}
		s := Sent{Kind: "notary", Tx: nr.MainTransaction, Fallback: nr.FallbackTransaction}
		var perr error
		if s.Calls, perr = ParseCalls(nr.MainTransaction.Script); perr != nil {
			s.ParseErr = perr.Error()
		}
		c.Lock()
		c.Sent = append(c.Sent, s)
		c.Accepted[nr.MainTransaction.Hash()] = true
		c.Unlock()
		return result.RelayResult{Hash: nr.FallbackTransaction.Hash()}, nil
	case "gettransactionheight":
		h, err := ps.Value(0).GetUint256()
		if err != nil {
			return nil, neorpc.NewInvalidParamsError(err.Error())
		}
		c.Lock()
		defer c.Unlock()
		if v, ok := c.TxHeights[h]; ok {
			return v, nil
		}
		return nil, neorpc.ErrUnknownTransaction
	case "getapplicationlog":
		h, err := ps.Value(0).GetUint256()
		if err != nil {
			return nil, neorpc.NewInvalidParamsError(err.Error())
		}
		c.Lock()
		ok := c.Accepted[h]
		c.Unlock()
		if !ok {
			return nil, neorpc.ErrUnknownScriptContainer
		}
		return &result.ApplicationLog{Container: h, Executions: []state.Execution{{
			Trigger: trigger.Application, VMState: vmstate.Halt, GasConsumed: 1, Stack: []stackitem.Item{}, Events: []state.NotificationEvent{}}}}, nil
	case "getblockheader":
		idx, err := ps.Value(0).GetInt()
		if err != nil {
			return nil, neorpc.NewInvalidParamsError(err.Error())
		}
		w := io.NewBufBinWriter()
		c.header(uint32(idx)).EncodeBinary(w.BinWriter)
		return w.Bytes(), nil
	case "subscribe":
		c.Lock()
		defer c.Unlock()
		c.subID++
		return strconv.Itoa(c.subID), nil
	case "unsubscribe":
		return true, nil
	case "terminatesession":
		return true, nil
	case "traverseiterator":
		return []json.RawMessage{}, nil
	}
	c.Lock()
	c.Unknown[method]++
	c.Unlock()
	return nil, neorpc.NewMethodNotFoundError("fakechain: method " + method + " not supported")
}
