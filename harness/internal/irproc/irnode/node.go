// Package irnode assembles the inner-ring application parts under test the way innerring.New does:
// the REAL Server global state (verif export), the REAL processors with REAL contract wrappers, the
// REAL event listener with notary support - all bound to the fake chain of package fix.
package irnode

import (
	"context"
	"fmt"
	"sync"
	"time"

	"github.com/nspcc-dev/neo-go/pkg/core/mempoolevent"
	"github.com/nspcc-dev/neo-go/pkg/core/state"
	"github.com/nspcc-dev/neo-go/pkg/crypto/keys"
	"github.com/nspcc-dev/neo-go/pkg/neorpc/result"
	"github.com/nspcc-dev/neo-go/pkg/network/payload"
	"github.com/nspcc-dev/neo-go/pkg/util"
	"github.com/nspcc-dev/neo-go/pkg/vm/stackitem"
	netmaprpc "github.com/nspcc-dev/neofs-contract/rpc/netmap"
	"github.com/nspcc-dev/neofs-node/pkg/innerring"
	"github.com/nspcc-dev/neofs-node/pkg/innerring/processors/netmap"
	cntClient "github.com/nspcc-dev/neofs-node/pkg/morph/client/container"
	nmClient "github.com/nspcc-dev/neofs-node/pkg/morph/client/netmap"
	"github.com/nspcc-dev/neofs-node/pkg/morph/event"
	"github.com/nspcc-dev/neofs-node/pkg/timers"
	"go.uber.org/zap"
	"verifharness/internal/irproc/fakechain"
	"verifharness/internal/irproc/fix"
)

// ContractProcessor is innerring.ContractProcessor.
type ContractProcessor = innerring.ContractProcessor

// Node is one inner ring node under test.
type Node struct {
	*fix.Env
	Srv      *innerring.Server
	Listener event.Listener // FS chain listener with notary support
	Netmap   *nmClient.Client
	Cnr      *cntClient.Client

	NetmapProc *netmap.Processor

	drains []func()

	Mu            sync.Mutex
	TimerResets   []uint32
	AlphaSyncs    int
	NotaryDeposit int

	// Nodes is the network map the fake Netmap contract reports.
	Nodes []netmaprpc.NetmapNode2
	Epoch uint64
	// FailRead makes the named Netmap contract read ("listNodes", "config") FAULT.
	FailRead map[string]bool
}

// IndexerTimeout is the cache time-out of the innerRingIndexer of nodes created afterwards (0 = every query
// goes to the chain).
var IndexerTimeout time.Duration

// Iter wraps items as an inline-expanded iterator result.
func Iter(items ...stackitem.Item) stackitem.Item {
	if items == nil {
		items = []stackitem.Item{}
	}
	return stackitem.NewInterop(result.Iterator{Values: items})
}

type timerReseter struct{ n *Node }

func (t timerReseter) ResetEpochTimer(h uint32) error {
	t.n.Mu.Lock()
	t.n.TimerResets = append(t.n.TimerResets, h)
	t.n.Mu.Unlock()
	return nil
}

// New builds the node for key `me`. committee = FS chain committee (alphabet), the inner ring list
// initially equals it.
func New(ctx context.Context, me *keys.PrivateKey, committee keys.PublicKeys, nAlphabetContracts int, log *zap.Logger) (*Node, error) {
	env, err := fix.NewEnv(ctx, me, committee, nAlphabetContracts, log)
	if err != nil {
		return nil, err
	}
	n := &Node{Env: env, Epoch: 10, FailRead: map[string]bool{}}
	n.Netmap, err = nmClient.NewFromMorph(env.Cli, env.C.Netmap, nmClient.AsAlphabet())
	if err != nil {
		return nil, err
	}
	n.Cnr, err = cntClient.NewFromMorph(env.Cli, env.C.Container, cntClient.AsAlphabet())
	if err != nil {
		return nil, err
	}
	n.Srv = innerring.NewVerifServer(innerring.VerifServerPrm{
		Log: log, Key: me, FSChain: env.Cli, Mainnet: env.Cli, Netmap: n.Netmap,
		AlphabetContracts: env.C.Alphabet, IndexerTimeout: IndexerTimeout, MainNotaryDisabled: true,
		EpochTimers: timers.NewTimers(timers.EpochTicks{}),
	})
	n.Listener, err = event.NewListener(event.ListenerParams{Logger: log, Client: env.Cli})
	if err != nil {
		return nil, err
	}
	n.Listener.EnableNotarySupport(env.C.Proxy, me.PublicKey().GetScriptHash(), env.Cli.Committee, env.Cli)

	// default Netmap contract reads
	env.OnRead(env.C.Netmap, "listNodes", func(fakechain.Call) ([]stackitem.Item, string) {
		n.Mu.Lock()
		defer n.Mu.Unlock()
		if n.FailRead["listNodes"] {
			return nil, "fakechain: netmap read failure"
		}
		items := make([]stackitem.Item, len(n.Nodes))
		for i := range n.Nodes {
			items[i], _ = n.Nodes[i].ToStackItem()
		}
		return []stackitem.Item{Iter(items...)}, ""
	})
	env.OnRead(env.C.Netmap, "epoch", func(fakechain.Call) ([]stackitem.Item, string) {
		n.Mu.Lock()
		defer n.Mu.Unlock()
		return []stackitem.Item{stackitem.Make(n.Epoch)}, ""
	})
	env.OnRead(env.C.Netmap, "config", func(fakechain.Call) ([]stackitem.Item, string) {
		n.Mu.Lock()
		defer n.Mu.Unlock()
		if n.FailRead["config"] {
			return nil, "fakechain: config read failure"
		}
		return []stackitem.Item{stackitem.Make(240)}, ""
	})
	env.Const(env.C.Netmap, "lastEpochBlock", stackitem.Make(50))
	return n, nil
}

// Bind registers the processor's parsers and handlers in the listener (innerring.connectListenerWithProcessor).
func (n *Node) Bind(p ContractProcessor, drain func()) {
	for _, x := range p.ListenerNotificationParsers() {
		n.Listener.SetNotificationParser(x)
	}
	for _, x := range p.ListenerNotificationHandlers() {
		n.Listener.RegisterNotificationHandler(x)
	}
	for _, x := range p.ListenerNotaryParsers() {
		n.Listener.SetNotaryParser(x)
	}
	for _, x := range p.ListenerNotaryHandlers() {
		n.Listener.RegisterNotaryHandler(x)
	}
	if drain != nil {
		n.drains = append(n.drains, drain)
	}
}

// Drain waits until every processor finished the submitted events.
func (n *Node) Drain() {
	for _, d := range n.drains {
		d()
	}
}

// WithNetmapProcessor creates and binds the netmap processor with the given node validator.
func (n *Node) WithNetmapProcessor(v netmap.NodeValidator) error {
	var err error
	n.NetmapProc, err = netmap.New(&netmap.Params{
		Log: n.Log, PoolSize: 4, NetmapClient: n.Netmap, EpochTimer: timerReseter{n}, EpochState: n.Srv,
		AlphabetState: n.Srv, ContainerWrapper: n.Cnr,
		AlphabetSyncHandler:  func(event.Event) { n.Mu.Lock(); n.AlphaSyncs++; n.Mu.Unlock() },
		NotaryDepositHandler: func(event.Event) { n.Mu.Lock(); n.NotaryDeposit++; n.Mu.Unlock() },
		NodeValidator:        v,
	})
	if err != nil {
		return fmt.Errorf("netmap processor: %w", err)
	}
	n.Bind(n.NetmapProc, n.NetmapProc.VerifDrain)
	return nil
}

// FeedNotary pushes a notary request through the listener pipeline (synchronously) and waits for
// the processors.
func (n *Node) FeedNotary(nr *payload.P2PNotaryRequest) {
	event.VerifHandleNotary(n.Listener, &result.NotaryRequestEvent{Type: mempoolevent.TransactionAdded, NotaryRequest: nr})
	n.Drain()
}

// FeedNotification pushes a contract notification through the listener pipeline and waits.
func (n *Node) FeedNotification(contract util.Uint160, name string, txHash util.Uint256, items ...stackitem.Item) {
	event.VerifHandleNotification(n.Listener, &state.ContainedNotificationEvent{
		Container: txHash,
		NotificationEvent: state.NotificationEvent{
			ScriptHash: contract, Name: name, Item: stackitem.NewArray(items),
		},
	})
	n.Drain()
}

// Requester is a non-IR party (storage node / user) with its own REAL morph client on its own fake
// chain view; whatever it submits is captured and can be fed to an IR node.
type Requester struct {
	*fix.Env
}

// NewRequester creates a requester that sees the same committee.
func NewRequester(ctx context.Context, key *keys.PrivateKey, committee keys.PublicKeys, log *zap.Logger) (*Requester, error) {
	env, err := fix.NewEnv(ctx, key, committee, 0, log)
	if err != nil {
		return nil, err
	}
	return &Requester{env}, nil
}

// Capture runs f and returns the single notary request it submitted.
func (r *Requester) Capture(f func() error) (*payload.P2PNotaryRequest, error) {
	r.Chain.TakeSent()
	if err := f(); err != nil {
		return nil, err
	}
	s := r.Chain.TakeSent()
	if len(s) != 1 || s[0].Kind != "notary" {
		return nil, fmt.Errorf("requester submitted %d items", len(s))
	}
	return &payload.P2PNotaryRequest{MainTransaction: s[0].Tx, FallbackTransaction: s[0].Fallback}, nil
}
