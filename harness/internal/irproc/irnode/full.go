package irnode

import (
	"context"
	"fmt"
	"math/big"

	"github.com/nspcc-dev/neo-go/pkg/crypto/keys"
	"github.com/nspcc-dev/neo-go/pkg/encoding/fixedn"
	"github.com/nspcc-dev/neo-go/pkg/vm/stackitem"
	"github.com/nspcc-dev/neofs-node/pkg/innerring"
	"github.com/nspcc-dev/neofs-node/pkg/innerring/processors/alphabet"
	"github.com/nspcc-dev/neofs-node/pkg/innerring/processors/balance"
	"github.com/nspcc-dev/neofs-node/pkg/innerring/processors/container"
	"github.com/nspcc-dev/neofs-node/pkg/innerring/processors/governance"
	"github.com/nspcc-dev/neofs-node/pkg/innerring/processors/neofs"
	"github.com/nspcc-dev/neofs-node/pkg/innerring/processors/netmap"
	"github.com/nspcc-dev/neofs-node/pkg/innerring/processors/reputation"
	"github.com/nspcc-dev/neofs-node/pkg/innerring/processors/settlement"
	"github.com/nspcc-dev/neofs-node/pkg/morph/client"
	balanceClient "github.com/nspcc-dev/neofs-node/pkg/morph/client/balance"
	neofsClient "github.com/nspcc-dev/neofs-node/pkg/morph/client/neofs"
	repClient "github.com/nspcc-dev/neofs-node/pkg/morph/client/reputation"
	"github.com/nspcc-dev/neofs-node/pkg/morph/event"
	reputationcommon "github.com/nspcc-dev/neofs-node/pkg/services/reputation/common"
	"github.com/nspcc-dev/neofs-node/pkg/timers"
	"github.com/nspcc-dev/neofs-node/pkg/util/precision"
	"go.uber.org/zap"
	"verifharness/internal/irproc/fakechain"
	"verifharness/internal/irproc/fix"
)

// Full is an inner ring node with every processor of innerring.New bound to the FS chain and main
// chain listeners (main chain enabled, governance sync enabled, notary on both chains).
type Full struct {
	*Node
	Main         *fix.Env
	MainListener event.Listener
	Balance      *balanceClient.Client
	Rep          *repClient.Client
	NeoFS        *neofsClient.Client

	Alphabet   *alphabet.Processor
	BalanceP   *balance.Processor
	Container  *container.Processor
	Governance *governance.Processor
	NeoFSP     *neofs.Processor
	Reputation *reputation.Processor
	Settlement *settlement.Processor

	mainDrains []func()
}

// NewFull wires the node the way innerring.New does.
func NewFull(ctx context.Context, me *keys.PrivateKey, committee keys.PublicKeys, nAlphabetContracts int, log *zap.Logger,
	chainTime container.TimeProvider, validator netmap.NodeValidator) (*Full, error) {
	n, err := New(ctx, me, committee, nAlphabetContracts, log)
	if err != nil {
		return nil, err
	}
	f := &Full{Node: n}
	// main chain: own fake node; notary paid by the Processing contract, alphabet keys taken from the FS chain
	f.Main, err = fix.NewEnv(ctx, me, committee, 0, log, client.WithProxyContract(n.C.Processing), client.WithAlphabetSource(n.Cli.Committee))
	if err != nil {
		return nil, fmt.Errorf("main chain env: %w", err)
	}
	f.Main.C = n.C
	f.MainListener, err = event.NewListener(event.ListenerParams{Logger: log, Client: f.Main.Cli})
	if err != nil {
		return nil, err
	}
	// the Server global state again, now with the real main chain client and main notary enabled
	n.Srv = innerring.NewVerifServer(innerring.VerifServerPrm{
		Log: log, Key: me, FSChain: n.Cli, Mainnet: f.Main.Cli, Netmap: n.Netmap,
		AlphabetContracts: n.C.Alphabet, IndexerTimeout: IndexerTimeout, MainNotaryDisabled: false,
		EpochTimers: timers.NewTimers(timers.EpochTicks{}),
	})
	if f.Balance, err = balanceClient.NewFromMorph(n.Cli, n.C.Balance, balanceClient.AsAlphabet()); err != nil {
		return nil, err
	}
	if f.Rep, err = repClient.NewFromMorph(n.Cli, n.C.Reputation, repClient.AsAlphabet()); err != nil {
		return nil, err
	}
	if f.NeoFS, err = neofsClient.NewFromMorph(f.Main.Cli, n.C.NeoFS, fixedn.Fixed8(0), neofsClient.TryNotary(), neofsClient.AsAlphabet()); err != nil {
		return nil, err
	}
	n.Env.Const(n.C.Balance, "decimals", stackitem.NewBigInteger(big.NewInt(12)))

	f.Settlement = settlement.New(settlement.Prm{State: n.Srv, ContainerClient: n.Cnr, NetmapClient: n.Netmap, BalanceClient: f.Balance},
		settlement.WithLogger(log))

	f.Governance, err = governance.New(&governance.Params{
		Log: log, NeoFSClient: f.NeoFS, NetmapClient: n.Netmap, AlphabetState: n.Srv, EpochState: n.Srv, Voter: n.Srv,
		IRFetcher: innerring.NewIRFetcherWithNotary(n.Cli), FSChainClient: n.Cli, MainnetClient: f.Main.Cli,
	})
	if err != nil {
		return nil, err
	}
	f.bindMain(f.Governance, f.Governance.VerifDrain)

	n.NetmapProc, err = netmap.New(&netmap.Params{
		Log: log, PoolSize: 4, NetmapClient: n.Netmap, EpochTimer: timerReseter{n}, EpochState: n.Srv, AlphabetState: n.Srv,
		ContainerWrapper: n.Cnr, NotaryDepositHandler: n.Srv.VerifNotaryDepositHandler(),
		AlphabetSyncHandler: f.Governance.HandleAlphabetSync, NodeValidator: validator,
	})
	if err != nil {
		return nil, err
	}
	n.Bind(n.NetmapProc, n.NetmapProc.VerifDrain)

	f.Container, err = container.New(&container.Params{
		Log: log, PoolSize: 4, AlphabetState: n.Srv, ContainerClient: n.Cnr, NetworkState: n.Netmap, ChainTime: chainTime,
	})
	if err != nil {
		return nil, err
	}
	n.Bind(f.Container, f.Container.VerifDrain)

	conv := precision.NewConverter(12)
	f.BalanceP, err = balance.New(&balance.Params{Log: log, PoolSize: 4, NeoFSClient: f.NeoFS, BalanceSC: n.C.Balance, AlphabetState: n.Srv, Converter: conv})
	if err != nil {
		return nil, err
	}
	n.Bind(f.BalanceP, f.BalanceP.VerifDrain)

	f.NeoFSP, err = neofs.New(&neofs.Params{
		Log: log, PoolSize: 4, NeoFSContract: n.C.NeoFS, BalanceClient: f.Balance, NetmapClient: n.Netmap, FSChainClient: n.Cli,
		EpochState: n.Srv, AlphabetState: n.Srv, Converter: conv, MintEmitCacheSize: 100, MintEmitThreshold: 0,
		MintEmitValue: fixedn.Fixed8(1000), GasBalanceThreshold: 0,
	})
	if err != nil {
		return nil, err
	}
	f.bindMain(f.NeoFSP, f.NeoFSP.VerifDrain)

	f.Alphabet, err = alphabet.New(&alphabet.Params{
		Log: log, PoolSize: 4, AlphabetContracts: n.C.Alphabet, NetmapClient: n.Netmap, FSChainClient: n.Cli, IRList: n.Srv, StorageEmission: 2000,
	})
	if err != nil {
		return nil, err
	}
	n.Bind(f.Alphabet, f.Alphabet.VerifDrain)

	f.Reputation, err = reputation.New(&reputation.Params{
		Log: log, PoolSize: 4, EpochState: n.Srv, AlphabetState: n.Srv, ReputationWrapper: f.Rep,
		ManagerBuilder: reputationcommon.NewManagerBuilder(reputationcommon.ManagersPrm{NetMapSource: n.Netmap}),
	})
	if err != nil {
		return nil, err
	}
	n.Bind(f.Reputation, f.Reputation.VerifDrain)
	return f, nil
}

func (f *Full) bindMain(p ContractProcessor, drain func()) {
	for _, x := range p.ListenerNotificationParsers() {
		f.MainListener.SetNotificationParser(x)
	}
	for _, x := range p.ListenerNotificationHandlers() {
		f.MainListener.RegisterNotificationHandler(x)
	}
	for _, x := range p.ListenerNotaryParsers() {
		f.MainListener.SetNotaryParser(x)
	}
	for _, x := range p.ListenerNotaryHandlers() {
		f.MainListener.RegisterNotaryHandler(x)
	}
	f.mainDrains = append(f.mainDrains, drain)
}

// DrainAll waits for every processor; twice, because the netmap processor chains into governance.
func (f *Full) DrainAll() {
	for i := 0; i < 2; i++ {
		f.Node.Drain()
		for _, d := range f.mainDrains {
			d()
		}
	}
}

// TakeAllSent returns what both fake nodes recorded.
func (f *Full) TakeAllSent() (fs, main []fakechain.Sent) {
	return f.Chain.TakeSent(), f.Main.Chain.TakeSent()
}
