// Package kit is the shared part of the conformance harnesses: seeds, NDJSON trace I/O.
package kit

import (
	"bufio"
	"encoding/json"
	"fmt"
	"math/rand"
	"os"
	"strconv"
)

// Seed returns VERIF_SEED (default 1).
func Seed() int64 {
	if s := os.Getenv("VERIF_SEED"); s != "" {
		if v, err := strconv.ParseInt(s, 10, 64); err == nil {
			return v
		}
	}
	return 1
}

// Rand returns a deterministic generator derived from VERIF_SEED and a salt.
func Rand(salt int64) *rand.Rand { return rand.New(rand.NewSource(Seed()*1000003 + salt)) }

// Thorough reports whether VERIF_TIER=thorough.
func Thorough() bool { return os.Getenv("VERIF_TIER") == "thorough" }

// W writes one JSON document per line.
type W struct {
	f *os.File
	b *bufio.Writer
	N int
}

func NewW(path string) *W {
	f, err := os.Create(path)
	Must(err)
	return &W{f: f, b: bufio.NewWriterSize(f, 1<<20)}
}

func (w *W) Emit(v any) {
	d, err := json.Marshal(v)
	Must(err)
	w.b.Write(d)
	w.b.WriteByte('\n')
	w.N++
}

func (w *W) Close() {
	Must(w.b.Flush())
	Must(w.f.Close())
}

// ReadNDJSON decodes every line of path into T.
func ReadNDJSON[T any](path string) []T {
	f, err := os.Open(path)
	Must(err)
	defer f.Close()
	var out []T
	sc := bufio.NewScanner(f)
	sc.Buffer(make([]byte, 1<<20), 1<<28)
	for sc.Scan() {
		if len(sc.Bytes()) == 0 {
			continue
		}
		var v T
		Must(json.Unmarshal(sc.Bytes(), &v))
		out = append(out, v)
	}
	Must(sc.Err())
	return out
}

func Must(err error) {
	if err != nil {
		fmt.Fprintln(os.Stderr, "harness fatal:", err)
		panic(err)
	}
}

// M is a shorthand for JSON objects.
type M = map[string]any
