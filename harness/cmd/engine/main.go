// Command engine drives a REAL engine.StorageEngine (2-4 real shards in temp dirs: fstree + metabase,
// no write-cache) with scripts produced by TLC from spec/Engine.tla (EngineGen.tla) or by the seeded
// generator below, and records one trace event per spec action (validated by TraceEngine.tla).
//
//	engine run <scripts.ndjson> <trace.ndjson>    execute scripts, write events
//	engine gen <n> <len> <profile> <out.ndjson>   seeded random scripts (C->M direction; profiles: c08 c20 c19)
//
// Script: {"n":3,"cat":[{"kind":"reg","tgt":0,"exp":0,"ord":[1,2,3],"pord":[1,2,3]},...],"steps":[{"ev":"Put","o":1},...]}
// Shards are numbered 1..n (creation order), objects 1..len(cat) (numeric order = OID byte order).
//
// Bindings:
//   - HRW order of every object: OIDs are drawn until hrw.Sort over the real shard IDs yields cat[i].ord
//     (EC parts: the parent ID realises pord).
//   - visiting order of broadcast / isLocked loops: verifhook point "engine.unsortedShards"
//     (engine.VerifPermuteShards).
//   - put / read failures: fault-injecting common.Storage decorator around the shard's fstree.
//   - shard-step interleaving of two broadcasts: the decorator's Put blocks (gate) for objects whose
//     broadcast is in flight; event BStep releases exactly one shard step.
//   - GC pass / epoch: (*shard.Shard).VerifRunGC / VerifHandleEpoch.
package main

import (
	"bytes"
	"context"
	"crypto/sha256"
	"encoding/binary"
	"errors"
	"fmt"
	"io"
	"math/rand"
	"os"
	"path/filepath"
	"slices"
	"sort"
	"strconv"
	"sync"
	"sync/atomic"
	"time"

	"github.com/nspcc-dev/bbolt"
	"github.com/nspcc-dev/hrw/v2"
	"github.com/nspcc-dev/neo-go/pkg/util"
	"github.com/nspcc-dev/neofs-node/pkg/local_object_storage/blobstor/common"
	"github.com/nspcc-dev/neofs-node/pkg/local_object_storage/blobstor/fstree"
	"github.com/nspcc-dev/neofs-node/pkg/local_object_storage/engine"
	meta "github.com/nspcc-dev/neofs-node/pkg/local_object_storage/metabase"
	"github.com/nspcc-dev/neofs-node/pkg/local_object_storage/shard"
	"github.com/nspcc-dev/neofs-node/pkg/local_object_storage/shard/mode"
	"github.com/nspcc-dev/neofs-node/pkg/util/verifhook"
	"github.com/nspcc-dev/neofs-sdk-go/checksum"
	apistatus "github.com/nspcc-dev/neofs-sdk-go/client/status"
	cid "github.com/nspcc-dev/neofs-sdk-go/container/id"
	"github.com/nspcc-dev/neofs-sdk-go/object"
	oid "github.com/nspcc-dev/neofs-sdk-go/object/id"
	"github.com/nspcc-dev/neofs-sdk-go/user"
	"github.com/nspcc-dev/neofs-sdk-go/version"
	"go.uber.org/zap"
	"verifharness/internal/kit"
)

// ---------------------------------------------------------------- script format

type catObj struct {
	Kind string `json:"kind"` // reg | lock | ts | ec
	Tgt  int    `json:"tgt"`  // target object (lock, ts), 0 otherwise
	Exp  uint64 `json:"exp"`  // expiration epoch, 0 = none
	Ord  []int  `json:"ord"`  // HRW order of shards for the object's own ID
	POrd []int  `json:"pord"` // HRW order of shards for the parent ID (ec); = ord otherwise
}

type step struct {
	Ev   string `json:"ev"`
	O    int    `json:"o,omitempty"`
	S    int    `json:"s,omitempty"`
	M    string `json:"m,omitempty"`    // SetMode: rw | ro | dro ; Delete: def | red
	Ord  []int  `json:"ord,omitempty"`  // visiting order of unsorted loops
	E    uint64 `json:"ep,omitempty"`   // Epoch
	FP   bool   `json:"fp,omitempty"`   // Fail: put fault
	FG   bool   `json:"fg,omitempty"`   // Fail: read fault
	Srcs []int  `json:"srcs,omitempty"` // Evacuate
	Ign  bool   `json:"ign,omitempty"`  // Evacuate ignoreErrors
	FH   bool   `json:"fh,omitempty"`   // Evacuate with (counting, accepting) fault handler
	FHE  bool   `json:"fhe,omitempty"`  // ... the fault handler returns an error instead
}

type script struct {
	N     int      `json:"n"`
	Cat   []catObj `json:"cat"`
	Steps []step   `json:"steps"`
	Tag   string   `json:"tag,omitempty"`
}

// ---------------------------------------------------------------- fault-injecting storage

var errInjected = errors.New("injected storage fault")

type faultStore struct {
	common.Storage
	idx     int
	failPut atomic.Bool
	failGet atomic.Bool
	w       *world
}

func (f *faultStore) Put(a oid.Address, b []byte) error {
	f.w.gate(f.idx, a)
	if f.failPut.Load() {
		return errInjected
	}
	return f.Storage.Put(a, b)
}

func (f *faultStore) PutBatch(m map[oid.Address][]byte) error {
	if f.failPut.Load() {
		return errInjected
	}
	return f.Storage.PutBatch(m)
}

func (f *faultStore) rd() error {
	if f.failGet.Load() {
		return errInjected
	}
	return nil
}

func (f *faultStore) GetBytes(a oid.Address) ([]byte, error) {
	if err := f.rd(); err != nil {
		return nil, err
	}
	return f.Storage.GetBytes(a)
}
func (f *faultStore) Get(a oid.Address) (*object.Object, error) {
	if err := f.rd(); err != nil {
		return nil, err
	}
	return f.Storage.Get(a)
}
func (f *faultStore) GetRangeStream(a oid.Address, rng common.PayloadRange, rh bool) (*object.Object, uint64, io.ReadCloser, error) {
	if err := f.rd(); err != nil {
		return nil, 0, nil, err
	}
	return f.Storage.GetRangeStream(a, rng, rh)
}
func (f *faultStore) GetStream(a oid.Address) (*object.Object, io.ReadCloser, error) {
	if err := f.rd(); err != nil {
		return nil, nil, err
	}
	return f.Storage.GetStream(a)
}
func (f *faultStore) Head(a oid.Address) (*object.Object, error) {
	if err := f.rd(); err != nil {
		return nil, err
	}
	return f.Storage.Head(a)
}
func (f *faultStore) ReadHeader(a oid.Address, b []byte) (int, error) {
	if err := f.rd(); err != nil {
		return 0, err
	}
	return f.Storage.ReadHeader(a, b)
}
func (f *faultStore) ReadObject(a oid.Address, b []byte) (int, io.ReadCloser, error) {
	if err := f.rd(); err != nil {
		return 0, nil, err
	}
	return f.Storage.ReadObject(a, b)
}
func (f *faultStore) ReadPayloadRange(a oid.Address, o, l uint64, b []byte, fn func([]byte) error) (io.ReadCloser, error) {
	if err := f.rd(); err != nil {
		return nil, err
	}
	return f.Storage.ReadPayloadRange(a, o, l, b, fn)
}
func (f *faultStore) ReadObjectParts(b []byte, a oid.Address, rng common.PayloadRange, fn func([]byte) error) (int, io.ReadCloser, error) {
	if err := f.rd(); err != nil {
		return 0, nil, err
	}
	return f.Storage.ReadObjectParts(b, a, rng, fn)
}
func (f *faultStore) Exists(a oid.Address) (bool, error) {
	if err := f.rd(); err != nil {
		return false, err
	}
	return f.Storage.Exists(a)
}

// ---------------------------------------------------------------- world

type epochState struct{ e atomic.Uint64 }

func (s *epochState) CurrentEpoch() uint64 { return s.e.Load() }

type payStub struct{}

func (payStub) PaymentsDisabled() bool              { return true }
func (payStub) UnpaidSince(cid.ID) (int64, error) { return -1, nil }

type realObj struct {
	obj  *object.Object
	bin  []byte
	addr oid.Address
}

type opRun struct {
	o       int
	arrive  chan int // shard index (1-based) whose Put gate was reached
	release chan struct{}
	done    chan error
	fin     bool
	err     error
	at      int // shard of the pending gate, 0 = none
	lastIdx int // index (in steps) of the last BStep of this op
	ord     []int
	pos     int // number of BStep events consumed
}

type world struct {
	dir    string
	eng    *engine.StorageEngine
	shards []*shard.Shard // index = model shard - 1
	stores []*faultStore
	ids    []string
	es     *epochState
	cnr    cid.ID
	objs   []realObj // index = model object - 1
	cat    []catObj

	mu       sync.Mutex
	gated    map[oid.Address]*opRun
	curOrder []string
	ops      map[int]*opRun
}

func (w *world) gate(shardIdx int, a oid.Address) {
	w.mu.Lock()
	op := w.gated[a]
	w.mu.Unlock()
	if op == nil {
		return
	}
	op.arrive <- shardIdx
	<-op.release
}

type hrwU64 uint64

func (h hrwU64) Hash() uint64 { return uint64(h) }

func (w *world) hrwOrder(id oid.ID) []int {
	hs := make([]hrwNode, len(w.shards))
	for i, sh := range w.shards {
		hs[i] = hrwNode{i + 1, sh.ID().Hash()}
	}
	hrw.Sort(hs, hrwU64(binary.BigEndian.Uint64(id[:8])))
	res := make([]int, len(hs))
	for i := range hs {
		res[i] = hs[i].i
	}
	return res
}

type hrwNode struct {
	i int
	h uint64
}

func (n hrwNode) Hash() uint64 { return n.h }

func newWorld(sc *script, rnd *rand.Rand) *world {
	dir, err := os.MkdirTemp("", "eng")
	kit.Must(err)
	w := &world{dir: dir, es: &epochState{}, gated: map[oid.Address]*opRun{}, ops: map[int]*opRun{}, cat: sc.Cat}
	w.eng = engine.New(engine.WithLogger(zap.NewNop()))
	for i := 0; i < sc.N; i++ {
		fs := &faultStore{Storage: fstree.New(fstree.WithPath(filepath.Join(dir, fmt.Sprintf("fstree%d", i+1))), fstree.WithDepth(1), fstree.WithNoSync(true)), idx: i + 1, w: w}
		id, err := w.eng.AddShard(
			shard.WithLogger(zap.NewNop()),
			shard.WithBlobstor(fs),
			shard.WithMetaBaseOptions(
				meta.WithPath(filepath.Join(dir, fmt.Sprintf("meta%d", i+1))),
				meta.WithPermissions(0o700),
				meta.WithEpochState(w.es),
				meta.WithMaxBatchDelay(time.Microsecond),
				meta.WithLogger(zap.NewNop()),
				meta.WithBoltDBOptions(&bbolt.Options{NoSync: true, NoFreelistSync: true, Timeout: time.Second}),
			),
			shard.WithContainerPayments(payStub{}),
			shard.WithGCRemoverSleepInterval(100*time.Hour),
		)
		kit.Must(err)
		w.stores = append(w.stores, fs)
		w.ids = append(w.ids, id.String())
	}
	kit.Must(w.eng.Init())
	byID := map[string]*shard.Shard{}
	for _, sh := range w.eng.VerifShards() {
		byID[sh.ID().String()] = sh
	}
	for _, id := range w.ids {
		w.shards = append(w.shards, byID[id])
	}
	verifhook.Set(func(name string, args ...any) {
		if name != "engine.unsortedShards" || len(args) != 1 {
			return
		}
		w.mu.Lock()
		ord := w.curOrder
		w.mu.Unlock()
		if ord != nil && !engine.VerifPermuteShards(args[0], ord) {
			panic("engine.unsortedShards hook: unexpected argument type")
		}
	})
	w.buildCatalogue(rnd)
	return w
}

func (w *world) close() {
	verifhook.Set(nil)
	_ = w.eng.Close()
	_ = os.RemoveAll(w.dir)
}

// drawID returns an object ID whose first byte lies in [lo, hi] and whose HRW order equals ord.
func (w *world) drawID(rnd *rand.Rand, lo, hi int, ord []int) oid.ID {
	for tries := 0; tries < 1_000_000; tries++ {
		var id oid.ID
		rnd.Read(id[:])
		id[0] = byte(lo + rnd.Intn(hi-lo+1))
		if slices.Equal(w.hrwOrder(id), ord) {
			return id
		}
	}
	panic("cannot realise HRW order")
}

func (w *world) buildCatalogue(rnd *rand.Rand) {
	var cb [32]byte
	rnd.Read(cb[:])
	w.cnr = cid.ID(cb)
	var sh util.Uint160
	rnd.Read(sh[:])
	owner := user.NewFromScriptHash(sh)
	k := len(w.cat)
	if k > 30 {
		panic("catalogue too big")
	}
	ver := version.Current()
	w.objs = make([]realObj, k)
	for i, c := range w.cat {
		// numeric order of model ids = byte order of OIDs: first byte in a per-object band
		lo, hi := 8*(i+1), 8*(i+1)+7
		id := w.drawID(rnd, lo, hi, c.Ord)
		o := object.New(w.cnr, owner)
		o.SetVersion(&ver)
		o.SetID(id)
		o.SetCreationEpoch(0)
		switch c.Kind {
		case "reg", "ec":
			pl := make([]byte, 8+rnd.Intn(40))
			rnd.Read(pl)
			o.SetPayload(pl)
			o.SetPayloadSize(uint64(len(pl)))
			o.SetType(object.TypeRegular)
			if c.Kind == "ec" {
				par := object.New(w.cnr, owner)
				par.SetVersion(&ver)
				par.SetID(w.drawID(rnd, 0xF0, 0xFF, c.POrd))
				par.SetPayloadSize(uint64(3 * len(pl)))
				par.SetPayloadChecksum(checksum.NewSHA256(sha256.Sum256(pl)))
				o.SetParent(par)
				o.SetAttributes(mkAttr("__NEOFS__EC_RULE_IDX", "0"), mkAttr("__NEOFS__EC_PART_IDX", "1"))
			}
		case "lock":
			o.AssociateLocked(w.objs[c.Tgt-1].addr.Object())
		case "ts":
			o.AssociateDeleted(w.objs[c.Tgt-1].addr.Object())
		default:
			panic("bad kind " + c.Kind)
		}
		if c.Exp > 0 {
			o.SetAttributes(append(o.Attributes(), mkAttr(object.AttributeExpirationEpoch, strconv.FormatUint(c.Exp, 10)))...)
		}
		o.SetPayloadChecksum(checksum.NewSHA256(sha256.Sum256(o.Payload())))
		w.objs[i] = realObj{obj: o, bin: o.Marshal(), addr: oid.NewAddress(w.cnr, id)}
	}
}

func mkAttr(k, v string) object.Attribute {
	var a object.Attribute
	a.SetKey(k)
	a.SetValue(v)
	return a
}

func (w *world) orderIDs(ord []int) []string {
	if ord == nil {
		return nil
	}
	res := make([]string, len(ord))
	for i, s := range ord {
		res[i] = w.ids[s-1]
	}
	return res
}

func (w *world) withOrder(ord []int, f func()) {
	w.mu.Lock()
	w.curOrder = w.orderIDs(ord)
	w.mu.Unlock()
	f()
	w.mu.Lock()
	w.curOrder = nil
	w.mu.Unlock()
}

func cls(err error) string {
	switch {
	case err == nil:
		return "ok"
	case errors.Is(err, apistatus.ErrObjectLocked):
		return "locked"
	case errors.Is(err, apistatus.ErrObjectAlreadyRemoved):
		return "removed"
	case errors.Is(err, apistatus.ErrLockNonRegularObject):
		return "nonregular"
	case errors.Is(err, meta.ErrLockObjectRemoval):
		return "lockremoval"
	case shard.IsErrObjectExpired(err):
		return "expired"
	case errors.Is(err, apistatus.ErrObjectNotFound):
		return "notfound"
	case errors.Is(err, shard.ErrReadOnlyMode):
		return "readonly"
	case errors.Is(err, shard.ErrDegradedMode):
		return "degraded"
	case errors.Is(err, shard.ErrMustBeReadOnly):
		return "mustro"
	default:
		return "err"
	}
}

func modeOf(m string) mode.Mode {
	switch m {
	case "rw":
		return mode.ReadWrite
	case "ro":
		return mode.ReadOnly
	case "dro":
		return mode.DegradedReadOnly
	}
	panic("bad mode " + m)
}

func modeName(m mode.Mode) string {
	switch m {
	case mode.ReadWrite:
		return "rw"
	case mode.ReadOnly:
		return "ro"
	case mode.DegradedReadOnly:
		return "dro"
	}
	return "other"
}

// ---------------------------------------------------------------- observation

var ctx = context.Background()

func (w *world) observe() kit.M {
	var res kit.M
	idp := make([]int, len(w.shards))
	for i := range idp {
		idp[i] = i + 1
	}
	w.withOrder(idp, func() { res = w.observe0() })
	return res
}

func (w *world) observe0() kit.M {
	k := len(w.objs)
	get := make([]string, k)
	head := make([]string, k)
	lk := make([]string, k)
	for i, ro := range w.objs {
		o, err := w.eng.Get(ctx, ro.addr)
		get[i] = cls(err)
		if err == nil && !bytes.Equal(o.Marshal(), ro.bin) {
			get[i] = "corrupt"
		}
		h, err := w.eng.Head(ctx, ro.addr, false)
		head[i] = cls(err)
		if err == nil && !bytes.Equal(h.CutPayload().Marshal(), ro.obj.CutPayload().Marshal()) {
			head[i] = "corrupt"
		}
		l, err := w.eng.IsLocked(ctx, ro.addr)
		switch {
		case err != nil:
			lk[i] = "e"
		case l:
			lk[i] = "t"
		default:
			lk[i] = "f"
		}
	}
	shs := make([]kit.M, len(w.shards))
	for si, sh := range w.shards {
		m := modeName(sh.GetMode())
		st := kit.M{"mode": m}
		blob := []int{}
		for i, ro := range w.objs {
			if ok, err := w.stores[si].Storage.Exists(ro.addr); err == nil && ok {
				blob = append(blob, i+1)
			}
		}
		st["blob"] = blob
		metaIDs := []int{}
		mark := make([]string, k)
		for i := range mark {
			mark[i] = "n"
		}
		bkt := false
		if m != "dro" {
			db := sh.VerifEngMeta()
			cs, err := db.Containers()
			kit.Must(err)
			bkt = slices.Contains(cs, w.cnr)
			garb := map[oid.ID]bool{}
			if bkt {
				kit.Must(db.IterateOverGarbage(func(id oid.ID) error { garb[id] = true; return nil }, w.cnr, oid.ID{}))
			}
			for i, ro := range w.objs {
				os, err := db.ObjectStatus(ro.addr)
				kit.Must(err)
				if len(os.HeaderIndex) > 0 {
					metaIDs = append(metaIDs, i+1)
				}
				if garb[ro.addr.Object()] {
					if slices.Contains(os.State, "GC MARKED") || slices.Contains(os.State, "IN GRAVEYARD") {
						mark[i] = "d"
					} else {
						mark[i] = "r"
					}
				}
			}
		}
		st["meta"] = metaIDs
		st["mark"] = mark
		st["bkt"] = bkt
		shs[si] = st
	}
	return kit.M{"get": get, "head": head, "lk": lk, "sh": shs}
}

// dirDigest hashes names and contents of every file below the shard's fstree directory.
func (w *world) dirDigest(si int) string {
	root := filepath.Join(w.dir, fmt.Sprintf("fstree%d", si))
	var names []string
	_ = filepath.Walk(root, func(p string, info os.FileInfo, err error) error {
		if err == nil && info.Mode().IsRegular() {
			names = append(names, p)
		}
		return nil
	})
	sort.Strings(names)
	h := sha256.New()
	for _, p := range names {
		b, err := os.ReadFile(p)
		if err != nil {
			continue
		}
		rel, _ := filepath.Rel(root, p)
		fmt.Fprintf(h, "%s %d\n", rel, len(b))
		h.Write(b)
	}
	return fmt.Sprintf("%x", h.Sum(nil)[:8])
}

// remaining reads object i from the engine while the listed shards are made unreadable
// (blob reads fail and metabase switched off), i.e. "from the remaining shards".
// ---------------------------------------------------------------- execution

func (w *world) inflight() bool {
	for _, op := range w.ops {
		if !op.fin {
			return true
		}
	}
	return false
}

// waitQuiescent blocks until op reaches its next Put gate or terminates.
func (w *world) waitQuiescent(op *opRun) {
	select {
	case s := <-op.arrive:
		op.at = s
	case err := <-op.done:
		op.fin, op.err, op.at = true, err, 0
		w.mu.Lock()
		delete(w.gated, w.objs[op.o-1].addr)
		w.mu.Unlock()
	case <-time.After(20 * time.Minute):
		panic(fmt.Sprintf("operation on object %d neither reached a gate nor finished", op.o))
	}
}

// driveAll lets every real operation that is (unexpectedly) still running finish; returns true if there was one.
func (w *world) driveAll() bool {
	any := false
	for _, op := range w.ops {
		for !op.fin {
			any = true
			if op.at != 0 {
				op.at = 0
				op.release <- struct{}{}
			}
			w.waitQuiescent(op)
		}
	}
	return any
}

func (w *world) exec(sc *script, i int, out kit.M) {
	st := sc.Steps[i]
	out["dev"] = ""
	switch st.Ev {
	case "Put", "Delete", "Drop", "SetMode", "Fail", "Evacuate":
		// the model takes these only when no broadcast is in flight; if the real engine still has one
		// running it deviated from the model: let it finish and flag the event (the trace is rejected here)
		if w.driveAll() {
			out["dev"] = "a broadcast that the model considers finished was still running"
		}
	}
	switch st.Ev {
	case "Put":
		ro := w.objs[st.O-1]
		var err error
		w.withOrder(st.Ord, func() { err = w.eng.Put(ctx, ro.obj, nil) })
		out["res"] = cls(err)
	case "BStart":
		ro := w.objs[st.O-1]
		op := &opRun{o: st.O, arrive: make(chan int), release: make(chan struct{}), done: make(chan error, 1), ord: st.Ord}
		for j := i + 1; j < len(sc.Steps); j++ {
			if sc.Steps[j].Ev == "BStep" && sc.Steps[j].O == st.O {
				op.lastIdx = j
			}
			if sc.Steps[j].Ev == "BStart" && sc.Steps[j].O == st.O {
				break
			}
		}
		w.mu.Lock()
		w.gated[ro.addr] = op
		w.curOrder = w.orderIDs(st.Ord)
		w.mu.Unlock()
		w.ops[st.O] = op
		go func() { op.done <- w.eng.Put(ctx, ro.obj, nil) }()
		w.waitQuiescent(op)
		w.mu.Lock()
		w.curOrder = nil
		w.mu.Unlock()
		out["res"] = "started"
		if op.lastIdx == 0 { // model finished the operation inside BStart (already exists / refused)
			if !op.fin {
				w.driveAll()
				out["dev"] = "the model finishes this Put without visiting shards, the real engine did not"
			}
			out["res"] = cls(op.err)
		}
	case "BStep":
		op := w.ops[st.O]
		if op == nil {
			panic("BStep without BStart")
		}
		if op.pos >= len(op.ord) {
			// rollback steps of the model: the real operation performs the whole rollback right after the
			// fatal shard step (the harness cannot pause there), nothing to do
		} else {
			s := op.ord[op.pos]
			if op.at == s && !op.fin {
				op.at = 0
				op.release <- struct{}{}
				w.waitQuiescent(op)
			}
			// otherwise the real loop passed shard s without reaching its blobstor (read-only shard,
			// object already there, existence check failed): nothing to release; the observation
			// compared after the step tells whether that was right
		}
		op.pos++
		// Scripts contain every shard step of a broadcast (the generator never cuts one): the model finishes
		// the operation at its last BStep. The real loop may have finished earlier: trailing shards that never
		// reach the blobstor change nothing; after a refusal with a fatal status the real loop has already rolled
		// back while the model still steps through the rollback - no state comparison for those events.
		if i == op.lastIdx {
			if !op.fin {
				w.driveAll()
				out["dev"] = "the model finishes the broadcast with this step, the real engine was still visiting shards"
			}
			out["res"] = cls(op.err)
		} else {
			out["res"] = "started"
			if op.fin && slices.Contains([]string{"locked", "removed", "nonregular"}, cls(op.err)) {
				out["mid"] = true
			}
		}
	case "Delete":
		mk := engine.GarbageMarkDefault
		if st.M == "red" {
			mk = engine.GarbageMarkRedundant
		}
		out["res"] = cls(w.eng.Delete(ctx, w.objs[st.O-1].addr, mk))
	case "Drop":
		out["res"] = cls(w.eng.Drop(ctx, w.objs[st.O-1].addr))
	case "GC":
		w.withOrder(st.Ord, func() { w.shards[st.S-1].VerifRunGC() })
		out["res"] = "ok"
	case "Epoch":
		w.es.e.Store(st.E)
		for _, sh := range w.shards {
			sh.VerifHandleEpoch(st.E)
		}
		out["res"] = "ok"
	case "SetMode":
		sid, err := common.NewIDFromBytes(w.shards[st.S-1].ID().Bytes())
		kit.Must(err)
		out["res"] = cls(w.eng.SetShardMode(sid, modeOf(st.M), false))
	case "Fail":
		w.stores[st.S-1].failPut.Store(st.FP)
		w.stores[st.S-1].failGet.Store(st.FG)
		out["res"] = "ok"
	case "Evacuate":
		ids := make([]common.ID, len(st.Srcs))
		dig := make([]string, len(st.Srcs))
		for j, s := range st.Srcs {
			ids[j] = w.shards[s-1].ID()
			dig[j] = w.dirDigest(s)
		}
		var fh func(oid.Address, *object.Object) error
		handled := []int{}
		if st.FH {
			fh = func(a oid.Address, _ *object.Object) error {
				if st.FHE {
					return errors.New("fault handler refuses the object")
				}
				for j, ro := range w.objs {
					if ro.addr == a {
						handled = append(handled, j+1)
					}
				}
				return nil
			}
		}
		cnt, err := w.eng.Evacuate(ctx, ids, st.Ign, fh)
		out["res"] = cls(err)
		out["cnt"] = cnt
		out["handled"] = handled
		same := true
		for j, s := range st.Srcs {
			if w.dirDigest(s) != dig[j] {
				same = false
			}
		}
		out["srcsame"] = same
		rem := []string{}
		if err == nil {
			// what the engine serves when the evacuated shards cannot be read any more
			prev := make([]bool, len(st.Srcs))
			for j, s := range st.Srcs {
				prev[j] = w.stores[s-1].failGet.Load()
				w.stores[s-1].failGet.Store(true)
			}
			for _, ro := range w.objs {
				o, err := w.eng.Get(ctx, ro.addr)
				c := cls(err)
				if err == nil && !bytes.Equal(o.Marshal(), ro.bin) {
					c = "corrupt"
				}
				rem = append(rem, c)
			}
			for j, s := range st.Srcs {
				w.stores[s-1].failGet.Store(prev[j])
			}
		}
		out["rem"] = rem
	default:
		panic("unknown event " + st.Ev)
	}
}

// echo copies the arguments of a step that the trace spec reads (explicitly: no omitted fields).
func echo(st step) kit.M {
	ev := kit.M{"ev": st.Ev}
	ord := st.Ord
	if ord == nil {
		ord = []int{}
	}
	switch st.Ev {
	case "Put", "BStep", "Drop":
		ev["o"] = st.O
	case "BStart":
		ev["o"], ev["ord"] = st.O, ord
	case "Delete":
		ev["o"], ev["m"] = st.O, st.M
	case "GC":
		ev["s"], ev["ord"] = st.S, ord
	case "Epoch":
		ev["ep"] = st.E
	case "SetMode":
		ev["s"], ev["m"] = st.S, st.M
	case "Fail":
		ev["s"], ev["fp"], ev["fg"] = st.S, st.FP, st.FG
	case "Evacuate":
		ev["srcs"], ev["ign"], ev["fh"], ev["fhe"] = st.Srcs, st.Ign, st.FH, st.FHE
	}
	return ev
}

func run(in, outPath string) {
	scripts := kit.ReadNDJSON[script](in)
	out := kit.NewW(outPath)
	for si, sc := range scripts {
		rnd := kit.Rand(int64(1000 + si))
		w := newWorld(&sc, rnd)
		out.Emit(kit.M{"ev": "Init", "n": sc.N, "cat": sc.Cat, "script": si, "obs": w.observe()})
		for i := range sc.Steps {
			ev := echo(sc.Steps[i])
			w.exec(&sc, i, ev)
			if ev["mid"] == nil {
				ev["mid"] = false
			}
			ev["obs"] = w.observe()
			out.Emit(ev)
		}
		// let unfinished operations (scripts cut in the middle of a broadcast) run to completion
		w.driveAll()
		w.close()
	}
	out.Close()
}

func main() {
	if len(os.Args) < 2 {
		fmt.Fprintln(os.Stderr, "usage: engine run|gen ...")
		os.Exit(2)
	}
	switch os.Args[1] {
	case "run":
		run(os.Args[2], os.Args[3])
	default:
		fmt.Fprintln(os.Stderr, "usage: engine run <scripts> <trace>")
		os.Exit(2)
	}
}
