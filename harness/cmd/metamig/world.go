package main

// Catalogue worlds (same catalogues as cmd/meta: spec/catalogs.json), history scripts executed on a real
// shard.Shard, padding associations, and the "view" = everything the property talks about, read through
// the public API of the real meta.DB.

import (
	"crypto/sha256"
	"encoding/base64"
	"encoding/hex"
	"encoding/json"
	"errors"
	"fmt"
	"os"
	"path/filepath"
	"sort"
	"strconv"
	"sync/atomic"
	"time"

	"github.com/nspcc-dev/bbolt"
	"github.com/nspcc-dev/neo-go/pkg/util"
	objectcore "github.com/nspcc-dev/neofs-node/pkg/core/object"
	"github.com/nspcc-dev/neofs-node/pkg/local_object_storage/blobstor/fstree"
	meta "github.com/nspcc-dev/neofs-node/pkg/local_object_storage/metabase"
	"github.com/nspcc-dev/neofs-node/pkg/local_object_storage/shard"
	iec "github.com/nspcc-dev/neofs-node/pkg/util/verifexport"
	"github.com/nspcc-dev/neofs-sdk-go/checksum"
	apistatus "github.com/nspcc-dev/neofs-sdk-go/client/status"
	cid "github.com/nspcc-dev/neofs-sdk-go/container/id"
	"github.com/nspcc-dev/neofs-sdk-go/object"
	oid "github.com/nspcc-dev/neofs-sdk-go/object/id"
	"github.com/nspcc-dev/neofs-sdk-go/user"
	"github.com/nspcc-dev/neofs-sdk-go/version"
	"go.uber.org/zap"
	"verifharness/internal/kit"
)

type catObj struct {
	Cnr   int    `json:"cnr"`
	Typ   string `json:"typ"`
	Par   int    `json:"par"`
	Tgt   int    `json:"tgt"`
	Exp   int    `json:"exp"`
	Sz    int    `json:"sz"`
	EC    int    `json:"ec"`
	First int    `json:"first"`
	Child bool   `json:"child"`
	Virt  bool   `json:"virt"`
	Mk    bool   `json:"mk"`
}
type catalog struct {
	NC   int      `json:"nc"`
	Objs []catObj `json:"objs"`
}

type step struct {
	Ev   string `json:"ev"`
	O    int    `json:"o,omitempty"`
	IDs  []int  `json:"ids,omitempty"`
	Mark string `json:"mark,omitempty"`
	C    int    `json:"c,omitempty"`
	A    int    `json:"a,omitempty"`
	CC   bool   `json:"cc,omitempty"`
}

type epochState struct{ e atomic.Uint64 }

func (s *epochState) CurrentEpoch() uint64 { return s.e.Load() }

type noPayments struct{}

func (noPayments) PaymentsDisabled() bool            { return true }
func (noPayments) UnpaidSince(cid.ID) (int64, error) { return -1, nil }

// world is one materialised catalogue: real ids whose byte order equals the catalogue order, in nc >=
// catalogue.NC containers (sorted), plus padding objects.
type world struct {
	cat   catalog
	nc    int
	cids  []cid.ID // 1-based
	oids  []oid.ID // 1-based
	objs  []*object.Object
	owner user.ID

	pad []padObj // padding associations (LOCK / TOMBSTONE objects with targets that are not stored)
	reg []padReg // padding regular objects (carriers of homomorphic-hash index entries)
}

type padObj struct {
	c      int
	obj    *object.Object
	target oid.ID
}
type padReg struct {
	c   int
	obj *object.Object
}

func homoHash(seed []byte) checksum.Checksum {
	h := sha256.Sum256(seed)
	h2 := sha256.Sum256(h[:])
	v := append(h[:], h2[:]...)
	v[3], v[40] = 0, 0 // zero bytes inside the value: the delimiter must not be searched for
	return checksum.New(checksum.TillichZemor, v)
}

func newWorld(c catalog, nc int, salt int64) *world {
	r := kit.Rand(salt)
	if nc < c.NC {
		nc = c.NC
	}
	w := &world{cat: c, nc: nc}
	var sh util.Uint160
	r.Read(sh[:])
	w.owner = user.NewFromScriptHash(sh)
	cs := make([]cid.ID, nc)
	for i := range cs {
		r.Read(cs[i][:])
	}
	sort.Slice(cs, func(i, j int) bool { return string(cs[i][:]) < string(cs[j][:]) })
	os_ := make([]oid.ID, len(c.Objs))
	for i := range os_ {
		r.Read(os_[i][:])
	}
	sort.Slice(os_, func(i, j int) bool { return string(os_[i][:]) < string(os_[j][:]) })
	w.cids = append([]cid.ID{{}}, cs...)
	w.oids = append([]oid.ID{{}}, os_...)
	w.objs = make([]*object.Object, len(c.Objs)+1)
	for i := range c.Objs {
		w.objs[i+1] = w.build(i+1, true)
	}
	return w
}

func (w *world) addr(i int) oid.Address { return oid.NewAddress(w.cids[w.cat.Objs[i-1].Cnr], w.oids[i]) }

// build constructs the real object of catalogue entry i (full=false for parent headers).
func (w *world) build(i int, full bool) *object.Object {
	c := w.cat.Objs[i-1]
	o := new(object.Object)
	ver := version.Current()
	o.SetVersion(&ver)
	o.SetContainerID(w.cids[c.Cnr])
	o.SetOwner(w.owner)
	o.SetCreationEpoch(0)
	o.SetID(w.oids[i])
	pl := make([]byte, c.Sz)
	for k := range pl {
		pl[k] = byte(i*31 + k)
	}
	o.SetPayloadSize(uint64(c.Sz))
	o.SetPayloadChecksum(checksum.NewSHA256(sha256.Sum256(pl)))
	o.SetPayloadHomomorphicHash(homoHash(w.oids[i][:]))
	var attrs []object.Attribute
	switch c.Typ {
	case "REG":
		o.SetType(object.TypeRegular)
	case "LINK":
		o.SetType(object.TypeLink)
	case "TS":
		o.AssociateDeleted(w.oids[c.Tgt])
	case "LOCK":
		o.AssociateLocked(w.oids[c.Tgt])
	}
	attrs = append(attrs, o.Attributes()...)
	if c.Exp >= 0 {
		attrs = append(attrs, object.NewAttribute(object.AttributeExpirationEpoch, strconv.Itoa(c.Exp)))
	}
	if c.EC >= 0 {
		attrs = append(attrs, object.NewAttribute(iec.ECAttributeRuleIdx, "0"), object.NewAttribute(iec.ECAttributePartIdx, strconv.Itoa(c.EC)))
	}
	attrs = append(attrs, object.NewAttribute("Idx", strconv.Itoa(i)))
	o.SetAttributes(attrs...)
	if full {
		o.SetPayload(pl)
		if c.Par != 0 {
			o.SetParent(w.build(c.Par, false))
			o.SetParentID(w.oids[c.Par])
		} else if c.Child && c.First == 0 {
			ph := new(object.Object)
			ph.SetVersion(&ver)
			ph.SetContainerID(w.cids[c.Cnr])
			ph.SetOwner(w.owner)
			ph.SetType(object.TypeRegular)
			o.SetParent(ph)
		}
		if c.First != 0 {
			o.SetFirstID(w.oids[c.First])
		}
	}
	return o
}

// padAssoc creates one padding association in container c: a LOCK (or TOMBSTONE) object whose target is
// not stored.
func (w *world) padAssoc(r interface{ Read([]byte) (int, error) }, c int, k int) padObj {
	o := new(object.Object)
	ver := version.Current()
	o.SetVersion(&ver)
	o.SetContainerID(w.cids[c])
	o.SetOwner(w.owner)
	var id, tgt oid.ID
	r.Read(id[:])
	r.Read(tgt[:])
	o.SetID(id)
	o.SetPayloadSize(0)
	o.SetPayloadChecksum(checksum.NewSHA256(sha256.Sum256(nil)))
	o.SetPayloadHomomorphicHash(homoHash(id[:]))
	if k%5 == 4 {
		o.AssociateDeleted(tgt)
	} else {
		o.AssociateLocked(tgt)
	}
	attrs := append(o.Attributes(), object.NewAttribute("Pad", strconv.Itoa(k)))
	if k%7 == 3 {
		attrs = append(attrs, object.NewAttribute(object.AttributeExpirationEpoch, strconv.Itoa(1000+k)))
	}
	o.SetAttributes(attrs...)
	return padObj{c: c, obj: o, target: tgt}
}

func (w *world) padRegular(r interface{ Read([]byte) (int, error) }, c int, k int) padReg {
	o := new(object.Object)
	ver := version.Current()
	o.SetVersion(&ver)
	o.SetContainerID(w.cids[c])
	o.SetOwner(w.owner)
	var id oid.ID
	r.Read(id[:])
	o.SetID(id)
	o.SetType(object.TypeRegular)
	pl := []byte{byte(k), byte(k >> 8)}
	o.SetPayload(pl)
	o.SetPayloadSize(2)
	o.SetPayloadChecksum(checksum.NewSHA256(sha256.Sum256(pl)))
	o.SetPayloadHomomorphicHash(homoHash(id[:]))
	o.SetAttributes(object.NewAttribute("PadReg", strconv.Itoa(k)))
	return padReg{c: c, obj: o}
}

// ------------------------------------------------------------------ history on a real shard

type env struct {
	w   *world
	dir string
	sh  *shard.Shard
	es  *epochState
}

func boltOpts() *bbolt.Options {
	return &bbolt.Options{NoSync: true, NoFreelistSync: true, Timeout: 5 * time.Second}
}

func (e *env) metaPath() string { return filepath.Join(e.dir, "meta") }

func (e *env) open() {
	fst := fstree.New(fstree.WithPath(filepath.Join(e.dir, "fstree")), fstree.WithNoSync(true), fstree.WithDepth(1))
	var sh *shard.Shard
	cb := func(addrs []oid.Address) {
		for _, a := range addrs {
			if l, err := sh.IsLocked(a); err == nil && l {
				continue
			}
			_ = sh.Delete(a.Container(), []oid.ID{a.Object()})
		}
	}
	sh = shard.New(
		shard.WithLogger(zap.NewNop()),
		shard.WithBlobstor(fst),
		shard.WithWriteCache(false),
		shard.WithMetaBaseOptions(
			meta.WithPath(e.metaPath()),
			meta.WithEpochState(e.es),
			meta.WithLogger(zap.NewNop()),
			meta.WithMaxBatchDelay(time.Microsecond),
			meta.WithBoltDBOptions(boltOpts()),
		),
		shard.WithGCRemoverSleepInterval(time.Hour),
		shard.WithRemoverBatchSize(1000),
		shard.WithExpiredObjectsCallback(cb),
		shard.WithContainerPayments(noPayments{}),
	)
	kit.Must(sh.Open())
	kit.Must(sh.Init())
	e.sh = sh
}

func (e *env) ids(xs []int) []oid.ID {
	r := make([]oid.ID, len(xs))
	for i, x := range xs {
		r[i] = e.w.oids[x]
	}
	return r
}

// exec runs one history step through the public API of the shard. Results are not compared here (that is
// C01/C02/C07): the history only produces database contents.
func (e *env) exec(st step) {
	switch st.Ev {
	case "Put":
		_ = e.sh.Put(e.w.objs[st.O], nil)
	case "Mark":
		m := meta.GarbageMarkDefault
		if st.Mark == "red" {
			m = meta.GarbageMarkRedundant
		}
		c := e.w.cat.Objs[st.IDs[0]-1].Cnr
		_ = e.sh.MarkGarbage(e.w.cids[c], e.ids(st.IDs), m)
	case "Delete":
		c := e.w.cat.Objs[st.IDs[0]-1].Cnr
		_ = e.sh.Delete(e.w.cids[c], e.ids(st.IDs))
	case "InhumeCnr":
		_ = e.sh.InhumeContainer(e.w.cids[st.C])
	case "Revive":
		_, _ = e.sh.ReviveObject(e.w.addr(st.A))
	case "Tick":
		ne := e.es.e.Add(1)
		e.sh.VerifHandleEpoch(ne)
	case "GC":
		e.sh.VerifRunGC()
	default:
		panic("unknown history step " + st.Ev)
	}
}

// ------------------------------------------------------------------ the view

type probe struct {
	c    int
	addr oid.Address
	tag  string // cat:<i> | pad:<k> | tgt:<k> | reg:<k>
}

func (w *world) probes() []probe {
	var ps []probe
	for i := 1; i <= len(w.cat.Objs); i++ {
		ps = append(ps, probe{c: w.cat.Objs[i-1].Cnr, addr: w.addr(i), tag: "cat:" + strconv.Itoa(i)})
	}
	for k, p := range w.pad {
		ps = append(ps, probe{c: p.c, addr: oid.NewAddress(w.cids[p.c], p.obj.GetID()), tag: "pad:" + strconv.Itoa(k)})
		ps = append(ps, probe{c: p.c, addr: oid.NewAddress(w.cids[p.c], p.target), tag: "tgt:" + strconv.Itoa(k)})
	}
	for k, p := range w.reg {
		ps = append(ps, probe{c: p.c, addr: oid.NewAddress(w.cids[p.c], p.obj.GetID()), tag: "reg:" + strconv.Itoa(k)})
	}
	return ps
}

func errName(err error) string {
	var si *object.SplitInfoError
	switch {
	case err == nil:
		return "ok"
	case errors.Is(err, apistatus.ErrObjectNotFound):
		return "nf"
	case errors.Is(err, apistatus.ErrObjectAlreadyRemoved):
		return "removed"
	case errors.Is(err, meta.ErrObjectIsExpired):
		return "expired"
	case errors.Is(err, iec.ErrParentObject):
		return "parent"
	case errors.As(err, &si):
		return "split"
	}
	return "err:" + err.Error()
}

// searchAll pages through a search and returns "<id-tag>=<attr values>" lines in result order.
func searchAll(mb *meta.DB, cnr cid.ID, fs object.SearchFilters, attrs []string, name func(oid.ID) string) []string {
	var out []string
	cursor := ""
	for guard := 0; guard < 100; guard++ {
		ofs, sc, err := objectcore.PreprocessSearchQuery(fs, attrs, cursor)
		if err != nil {
			return append(out, "preprocess-error:"+err.Error())
		}
		res, next, err := mb.Search(cnr, ofs, attrs, sc, 1000)
		if err != nil {
			return append(out, "search-error:"+err.Error())
		}
		for _, r := range res {
			out = append(out, name(r.ID)+"="+fmt.Sprintf("%q", r.Attributes))
		}
		if len(next) == 0 {
			return out
		}
		cursor = base64.StdEncoding.EncodeToString(next)
	}
	return append(out, "nostop")
}

// view projects everything the property mentions, per container (index 0 = global counters):
// availability (Exists / Get / IsLocked / ResolveECPart of every known address), attributes (the header
// restored by Get, digested), search results (unfiltered, by type with attribute values, by associated
// object, integer attribute), listing, expired iteration, garbage listing, counters.
func view(mb *meta.DB, w *world, epoch uint64) []kit.M {
	ps := w.probes()
	names := map[oid.ID]string{}
	for _, p := range ps {
		names[p.addr.Object()] = p.tag
	}
	name := func(id oid.ID) string {
		if n, ok := names[id]; ok {
			return n
		}
		return "?" + id.EncodeToString()
	}
	per := make([]kit.M, w.nc+1)
	lines := make([][]string, w.nc+1)
	for _, p := range ps {
		a := p.addr
		ok, err := mb.Exists(a, false)
		ex := errName(err)
		if err == nil {
			ex = strconv.FormatBool(ok)
		}
		hdr, err := mb.Get(a, false)
		get := errName(err)
		if err == nil {
			d := sha256.Sum256(hdr.Marshal())
			as := ""
			for _, at := range hdr.Attributes() {
				as += at.Key() + "=" + at.Value() + ";"
			}
			get = "ok:" + hex.EncodeToString(d[:6]) + ":" + hdr.Type().String() + ":" + as
		}
		l, err := mb.IsLocked(a)
		lk := strconv.FormatBool(l)
		if err != nil {
			lk = "err:" + err.Error()
		}
		_, err = mb.ResolveECPart(a.Container(), a.Object(), iec.PartInfo{RuleIndex: 0, Index: 0})
		ec := errName(err)
		lines[p.c] = append(lines[p.c], fmt.Sprintf("%s ex=%s lk=%s ec=%s get=%s", p.tag, ex, lk, ec, get))
	}
	list := make([][]string, w.nc+1)
	var cur *meta.Cursor
	for {
		res, c, err := mb.ListWithCursor(500, cur)
		if errors.Is(err, meta.ErrEndOfListing) {
			break
		}
		kit.Must(err)
		for _, r := range res {
			for c := 1; c <= w.nc; c++ {
				if w.cids[c] == r.Address.Container() {
					list[c] = append(list[c], name(r.Address.Object()))
				}
			}
		}
		cur = c
	}
	expd := make([][]string, w.nc+1)
	kit.Must(mb.IterateExpired(epoch, func(a oid.Address, t object.Type) error {
		for c := 1; c <= w.nc; c++ {
			if w.cids[c] == a.Container() {
				expd[c] = append(expd[c], name(a.Object())+":"+t.String())
			}
		}
		return nil
	}))
	garb := make([][]string, w.nc+1)
	bins, err := mb.GetGarbage(1000000)
	kit.Must(err)
	for _, b := range bins {
		for c := 1; c <= w.nc; c++ {
			if w.cids[c] == b.Container {
				g := []string{"bin"}
				for _, id := range b.Objects {
					g = append(g, name(id))
				}
				sort.Strings(g[1:])
				garb[c] = g
			}
		}
	}
	cs, err := mb.ObjectCounters()
	kit.Must(err)
	per[0] = kit.M{"ctr": fmt.Sprint(cs.Phy, cs.Root, cs.TS, cs.Lock, cs.Link, cs.GC, cs.Payload)}
	for c := 1; c <= w.nc; c++ {
		ci, err := mb.GetContainerInfo(w.cids[c])
		kit.Must(err)
		var fType, fLock, fInt object.SearchFilters
		fType.AddFilter(object.FilterType, object.TypeTombstone.String(), object.MatchStringEqual)
		fLock.AddFilter(object.FilterType, object.TypeLock.String(), object.MatchStringEqual)
		fInt.AddFilter("Idx", "0", object.MatchNumGE)
		srch := kit.M{
			"all":  searchAll(mb, w.cids[c], nil, nil, name),
			"ts":   searchAll(mb, w.cids[c], fType, []string{object.FilterType, object.AttributeAssociatedObject}, name),
			"lock": searchAll(mb, w.cids[c], fLock, []string{object.FilterType, object.AttributeAssociatedObject}, name),
			"idx":  searchAll(mb, w.cids[c], fInt, []string{"Idx"}, name),
		}
		// who is associated with every catalogue object / a sample of padding targets
		var by []string
		k := 0
		for _, p := range ps {
			if p.c != c || (p.tag[:3] != "cat" && p.tag[:3] != "tgt") {
				continue
			}
			if p.tag[:3] == "tgt" {
				k++
				if k%50 != 1 {
					continue
				}
			}
			var f object.SearchFilters
			f.AddFilter(object.AttributeAssociatedObject, p.addr.Object().EncodeToString(), object.MatchStringEqual)
			r := searchAll(mb, w.cids[c], f, []string{object.AttributeAssociatedObject, object.FilterType}, name)
			if len(r) > 0 {
				by = append(by, p.tag+"<-"+fmt.Sprint(r))
			}
		}
		srch["by"] = by
		sort.Strings(list[c])
		sort.Strings(expd[c])
		per[c] = kit.M{"obj": lines[c], "list": list[c], "expd": expd[c], "garb": garb[c], "srch": srch,
			"info": fmt.Sprint(ci.ObjectsNumber, ci.StorageSize)}
	}
	return per
}

func canon(v any) string {
	b, err := json.Marshal(v)
	kit.Must(err)
	return string(b)
}

// viewDiff names the parts of the per-container view that differ.
func viewDiff(a, b kit.M) []string {
	var d []string
	for k := range a {
		if canon(a[k]) != canon(b[k]) {
			if k == "obj" {
				la, _ := a[k].([]string)
				lb, _ := b[k].([]string)
				n := 0
				for i := range la {
					if i >= len(lb) || la[i] != lb[i] {
						if n < 3 {
							x := ""
							if i < len(lb) {
								x = lb[i]
							}
							d = append(d, "obj: want "+trunc(la[i])+" got "+trunc(x))
						}
						n++
					}
				}
				d = append(d, fmt.Sprintf("obj: %d lines differ", n))
			} else {
				d = append(d, k+": want "+trunc(canon(a[k]))+" got "+trunc(canon(b[k])))
			}
		}
	}
	sort.Strings(d)
	return d
}

func trunc(s string) string {
	if len(s) > 300 {
		return s[:300] + "..."
	}
	return s
}

func loadCats(path string) map[string]catalog {
	b, err := os.ReadFile(path)
	kit.Must(err)
	var m map[string]catalog
	kit.Must(json.Unmarshal(b, &m))
	return m
}
