package main

// Fixtures (old-format template files produced from databases written by the real code) and the execution
// of an interrupt schedule on the real meta.DB Open+Init.  Control uses public API only:
//   - meta.WithInitContext(ctx): cancellation,
//   - meta.WithContainers(src): the migration asks src.Exists once per metadata bucket per transaction and
//     walks the buckets in increasing order inside one transaction, so a call for a container that is not
//     greater than the previous one is the FIRST call of a NEW transaction.  The source blocks there (gate):
//     the previous transaction is committed, the new one has not written anything, the file is copied and
//     projected (this copy is also exactly what a crash at this moment leaves behind).
// The context is read by the code only at the top of the transaction loop, therefore "cancel after
// transaction k" is realised by cancelling while transaction k is held at its gate.

import (
	"bytes"
	"context"
	"errors"
	"fmt"
	"os"
	"path/filepath"
	"sort"
	"sync"
	"time"

	"github.com/nspcc-dev/bbolt"
	"github.com/nspcc-dev/neofs-node/pkg/local_object_storage/blobstor/common"
	meta "github.com/nspcc-dev/neofs-node/pkg/local_object_storage/metabase"
	cid "github.com/nspcc-dev/neofs-sdk-go/container/id"
	"github.com/nspcc-dev/neofs-sdk-go/object"
	oid "github.com/nspcc-dev/neofs-sdk-go/object/id"
	"go.uber.org/zap"
	"verifharness/internal/kit"
)

const realBudget = 1000

type job struct {
	ID    int    `json:"id"`
	Cat   string `json:"cat"`
	Hist  []step `json:"hist"`
	NC    int    `json:"nc"`
	Unit  int    `json:"unit"` // 0: counts are whatever the history produced; >0: nA/nH are in units of this many keys
	NA    []int  `json:"nA"`
	NH    []int  `json:"nH"`
	Ver0  int    `json:"ver0"`
	Drift []bool `json:"drift"`
	Gone0 []int  `json:"gone0"`
	Steps []step `json:"steps"`
	// Free: the schedule fixes where the interrupts fall; the number of transactions AFTER the last scripted
	// interrupt is whatever the real run needs (schedules generated from the as-is model are executed on a
	// tree that may be repaired, and then need a different number of batches). Validation is not relaxed.
	Free bool `json:"free,omitempty"`
}

func (j *job) fixtureKey() string {
	return canon(kit.M{"cat": j.Cat, "hist": j.Hist, "nc": j.NC, "unit": j.Unit, "nA": j.NA, "nH": j.NH, "ver0": j.Ver0, "drift": j.Drift})
}

type built struct {
	fx       *fixture
	w        *world
	epoch    uint64
	refView  []string // canonical per-container view of the current-format database after a recount
	refFull  []kit.M
	preDrift bool // the counters kept by the code differed from its own recount before the upgrade
	dir      string
}

func openMeta(path string, es *epochState, extra ...meta.Option) *meta.DB {
	opts := append([]meta.Option{
		meta.WithPath(path),
		meta.WithEpochState(es),
		meta.WithLogger(zap.NewNop()),
		meta.WithMaxBatchDelay(time.Microsecond),
		meta.WithBoltDBOptions(boltOpts()),
	}, extra...)
	return meta.New(opts...)
}

// buildFixture writes a current-format database through the real code, records the reference view and
// turns the file into an old-format template.
func buildFixture(base string, cats map[string]catalog, j *job, salt int64) *built {
	cat, ok := cats[j.Cat]
	if !ok {
		panic("unknown catalogue " + j.Cat)
	}
	nc := j.NC
	if nc < cat.NC {
		nc = cat.NC
	}
	t0 := time.Now()
	lap := func(what string) {
		if os.Getenv("METAMIG_TIMING") != "" {
			fmt.Fprintf(os.Stderr, "fixture %s: %s %v\n", j.Cat, what, time.Since(t0))
		}
	}
	w := newWorld(cat, nc, salt)
	dir, err := os.MkdirTemp(base, "fx-")
	kit.Must(err)
	e := &env{w: w, dir: dir, es: &epochState{}}
	e.open()
	for _, st := range j.Hist {
		if j.Unit > 0 && st.Ev == "InhumeCnr" {
			continue // a container marked for removal refuses the padding objects of the scaled worlds
		}
		e.exec(st)
	}
	kit.Must(e.sh.Close())
	lap("history")
	path := e.metaPath()
	r := kit.Rand(salt*7919 + 13)

	countAssocs := func() [][]assoc {
		res := make([][]assoc, nc+1)
		ro := *boltOpts()
		ro.ReadOnly = true
		db, err := bbolt.Open(path, 0o600, &ro)
		kit.Must(err)
		kit.Must(db.View(func(tx *bbolt.Tx) error {
			for c := 1; c <= nc; c++ {
				res[c] = assocsOf(tx.Bucket(metaBucketName(w.cids[c])))
			}
			return nil
		}))
		kit.Must(db.Close())
		return res
	}
	// one regular object per container, so that every container has a metadata bucket (the container source
	// is then asked about every container in every transaction)
	{
		mb := openMeta(path, e.es)
		kit.Must(mb.Open(false))
		kit.Must(mb.Init(common.ID{}))
		var batch []*object.Object
		for c := 1; c <= nc; c++ {
			p := w.padRegular(r, c, len(w.reg))
			batch = append(batch, p.obj)
			w.reg = append(w.reg, p)
		}
		kit.Must(mb.PutBatch(batch))
		kit.Must(mb.Close())
	}
	// padding through the real metabase
	if j.Unit > 0 {
		have := countAssocs()
		mb := openMeta(path, e.es)
		kit.Must(mb.Open(false))
		kit.Must(mb.Init(common.ID{}))
		for c := 1; c <= nc; c++ {
			want := j.NA[c-1] * j.Unit
			if len(have[c]) > want {
				panic(fmt.Sprintf("history left %d associations in container %d, world wants %d", len(have[c]), c, want))
			}
			var batch []*object.Object
			for k := len(have[c]); k < want; k++ {
				p := w.padAssoc(r, c, len(w.pad))
				batch = append(batch, p.obj)
				w.pad = append(w.pad, p)
			}
			kit.Must(mb.PutBatch(batch)) // the resync path of the real code: one transaction
		}
		kit.Must(mb.Close())
	}
	// candidates for homomorphic index entries: stored objects whose header (with the hash) we know
	known := map[oid.ID][]byte{}
	for i := 1; i < len(w.objs); i++ {
		h, _ := w.objs[i].PayloadHomomorphicHash()
		known[w.oids[i]] = h.Value()
	}
	for _, p := range w.pad {
		h, _ := p.obj.PayloadHomomorphicHash()
		known[p.obj.GetID()] = h.Value()
	}
	for _, p := range w.reg {
		h, _ := p.obj.PayloadHomomorphicHash()
		known[p.obj.GetID()] = h.Value()
	}
	stored := func() [][]homoEntry {
		res := make([][]homoEntry, nc+1)
		ro := *boltOpts()
		ro.ReadOnly = true
		db, err := bbolt.Open(path, 0o600, &ro)
		kit.Must(err)
		kit.Must(db.View(func(tx *bbolt.Tx) error {
			for c := 1; c <= nc; c++ {
				b := tx.Bucket(metaBucketName(w.cids[c]))
				if b == nil {
					continue
				}
				cur := b.Cursor()
				for k, _ := cur.Seek([]byte{pfxID}); k != nil && k[0] == pfxID; k, _ = cur.Next() {
					if len(k) != 1+oid.Size {
						continue
					}
					var id oid.ID
					copy(id[:], k[1:])
					if v, ok := known[id]; ok {
						res[c] = append(res[c], homoEntry{id: id, val: v})
					}
				}
			}
			return nil
		}))
		kit.Must(db.Close())
		return res
	}
	lap("padding")
	cand := stored()
	homo := make([][]homoEntry, nc+1)
	if j.Unit > 0 {
		var need []padReg
		for c := 1; c <= nc; c++ {
			want := j.NH[c-1] * j.Unit
			for k := len(cand[c]); k < want; k++ {
				need = append(need, w.padRegular(r, c, len(w.reg)+len(need)))
			}
		}
		if len(need) > 0 {
			mb := openMeta(path, e.es)
			kit.Must(mb.Open(false))
			kit.Must(mb.Init(common.ID{}))
			var batch []*object.Object
			for _, p := range need {
				batch = append(batch, p.obj)
				h, _ := p.obj.PayloadHomomorphicHash()
				known[p.obj.GetID()] = h.Value()
				w.reg = append(w.reg, p)
			}
			kit.Must(mb.PutBatch(batch))
			kit.Must(mb.Close())
			cand = stored()
		}
		for c := 1; c <= nc; c++ {
			if len(cand[c]) < j.NH[c-1]*j.Unit {
				panic(fmt.Sprintf("container %d: %d carriers of homomorphic entries, world wants %d", c, len(cand[c]), j.NH[c-1]*j.Unit))
			}
			homo[c] = cand[c][:j.NH[c-1]*j.Unit]
		}
	} else {
		for c := 1; c <= nc; c++ {
			for _, h := range cand[c] {
				if r.Intn(10) < 7 {
					homo[c] = append(homo[c], h)
				}
			}
		}
	}

	if j.Unit > 0 {
		for c, as := range countAssocs() {
			if c >= 1 && len(as) != j.NA[c-1]*j.Unit {
				panic(fmt.Sprintf("container %d: %d associations, world wants %d", c, len(as), j.NA[c-1]*j.Unit))
			}
		}
	}
	fx := &fixture{path: path, ver0: j.Ver0, nc: nc, cids: w.cids, assocs: countAssocs(), homo: make([]int, nc+1),
		refCtr: make([]counters, nc+1), hasBkt: make([]bool, nc+1), drift0: make([]bool, nc+1)}
	for c := 1; c <= nc; c++ {
		fx.homo[c] = len(homo[c])
	}
	epoch := e.es.CurrentEpoch()
	lap("homo carriers")

	// the view before the upgrade (current format, current code) ...
	mb := openMeta(path, e.es)
	kit.Must(mb.Open(false))
	kit.Must(mb.Init(common.ID{}))
	v0 := view(mb, w, epoch)
	lap("view0")
	// ... and after the code's own recount: the upgrade resyncs the counters, so this is the reference
	kit.Must(mb.SyncCounters())
	v1 := view(mb, w, epoch)
	kit.Must(mb.Close())
	b := &built{fx: fx, w: w, epoch: epoch, dir: dir, refFull: v1}
	for c := 0; c <= nc; c++ {
		b.refView = append(b.refView, canon(v1[c]))
		if canon(v0[c]) != canon(v1[c]) {
			b.preDrift = true
		}
	}
	st := readRaw(path, nc, w.cids, fx.assocs)
	for c := 1; c <= nc; c++ {
		fx.refCtr[c] = st.ctr[c]
		fx.hasBkt[c] = st.hasBkt[c]
		if st.cn[c].New != len(fx.assocs[c]) || st.cn[c].Bad != 0 {
			panic("current-format database has unexpected association keys")
		}
	}
	drift := make([]bool, nc+1)
	for c := 1; c <= nc; c++ {
		if c-1 < len(j.Drift) {
			drift[c] = j.Drift[c-1] && fx.hasBkt[c] && j.Ver0 == 10
		}
	}
	lap("reference")
	rewrite(path, fx, homo, drift)
	lap("rewrite")
	st = readRaw(path, nc, w.cids, fx.assocs)
	fx.otherSum = st.otherSum
	p := fx.project(path)
	for c := 1; c <= nc; c++ {
		fx.drift0[c] = p.Cn[c-1].Drift
		if p.Cn[c-1].Old != len(fx.assocs[c]) || p.Cn[c-1].HAI != fx.homo[c] || p.Cn[c-1].HIA != fx.homo[c] {
			panic("rewritten template does not have the intended old-format contents")
		}
	}
	if p.Ver != j.Ver0 {
		panic("template version")
	}
	lap("template checked")
	return b
}

// ------------------------------------------------------------------ container source = gate

type cnrSrc struct {
	mu     sync.Mutex
	gone   map[cid.ID]bool
	last   *cid.ID
	gate   chan struct{}
	resume chan struct{}
	calls  int
}

func (s *cnrSrc) Exists(id cid.ID) (bool, error) {
	if s.last == nil || bytes.Compare(id[:], s.last[:]) <= 0 {
		s.gate <- struct{}{}
		<-s.resume
	}
	l := id
	s.last = &l
	s.mu.Lock()
	defer s.mu.Unlock()
	s.calls++
	return !s.gone[id], nil
}

// ------------------------------------------------------------------ schedule execution

type runner struct {
	b     *built
	j     *job
	path  string
	out   emitter
	es    *epochState
	gone  map[cid.ID]bool
	steps []step
	pos   int
	db    *meta.DB // non-nil while open and ready
	last  proj
	stop  bool
}

type emitter interface{ Emit(any) }

func (r *runner) peek() string {
	if r.pos < len(r.steps) {
		return r.steps[r.pos].Ev
	}
	return ""
}

func (r *runner) snapshot() (string, proj) {
	sp := r.path + ".snap"
	copyFile(r.path, sp)
	p := r.b.fx.project(sp)
	r.last = p
	return sp, p
}

func (r *runner) diverged(why string) {
	r.out.Emit(kit.M{"ev": "Diverged", "obs": false, "why": why, "pos": r.pos, "want": r.peek()})
	r.stop = true
}

func (r *runner) applyGone(c int, p proj) {
	r.gone[r.b.w.cids[c]] = true
	r.out.Emit(kit.M{"ev": "Gone", "c": c, "obs": true, "proj": p})
}

// compareView returns per-container equality with the reference (index 0 = global counters).
func (r *runner) compareView(db *meta.DB) ([]bool, bool, []string) {
	v := view(db, r.b.w, r.b.epoch)
	eq := make([]bool, r.b.fx.nc)
	diff := []string{}
	for c := 1; c <= r.b.fx.nc; c++ {
		eq[c-1] = canon(v[c]) == r.b.refView[c]
		if !eq[c-1] && !r.gone[r.b.w.cids[c]] {
			for _, d := range viewDiff(r.b.refFull[c], v[c]) {
				diff = append(diff, fmt.Sprintf("c%d %s", c, d))
			}
		}
	}
	g := canon(v[0]) == r.b.refView[0]
	if !g {
		diff = append(diff, "global counters: want "+r.b.refView[0]+" got "+canon(v[0]))
	}
	if len(diff) > 12 {
		diff = diff[:12]
	}
	return eq, g, diff
}

func (r *runner) doOpen(cc bool) {
	verBefore := r.last.Ver
	ctx, cancel := context.WithCancel(context.Background())
	defer cancel()
	if cc {
		cancel()
	}
	src := &cnrSrc{gone: map[cid.ID]bool{}, gate: make(chan struct{}), resume: make(chan struct{})}
	for k, v := range r.gone {
		src.gone[k] = v
	}
	db := openMeta(r.path, r.es, meta.WithContainers(src), meta.WithInitContext(ctx))
	done := make(chan error, 1)
	go func() {
		if err := db.Open(false); err != nil {
			done <- fmt.Errorf("open: %w", err)
			return
		}
		done <- db.Init(common.ID{})
	}()
	wait := func() (bool, error) { // true = gate
		select {
		case <-src.gate:
			return true, nil
		case err := <-done:
			return false, err
		case <-time.After(120 * time.Second):
			panic("migration hangs")
		}
	}
	if verBefore == 11 {
		g, err := wait()
		if g || err != nil {
			panic(fmt.Sprintf("opening a current-format database: gate=%v err=%v", g, err))
		}
		eq, geq, diff := r.compareView(db)
		sp, p := r.snapshot()
		os.Remove(sp)
		r.out.Emit(kit.M{"ev": "Open", "cc": cc, "obs": true, "proj": p, "viewEq": eq, "ctrEq": geq, "diff": diff})
		r.db = db
		return
	}
	r.out.Emit(kit.M{"ev": "Open", "cc": cc, "obs": false})
	mig9 := verBefore == 9
	pendingTx := false
	cancelled := false // cancelled by a scripted Cancel (not by cc)
	flush := func(obs bool, p proj) {
		if mig9 {
			if r.peek() == "Mig9" {
				r.pos++
			}
			if obs {
				r.out.Emit(kit.M{"ev": "Mig9", "obs": true, "proj": p})
			} else {
				r.out.Emit(kit.M{"ev": "Mig9", "obs": false})
			}
			mig9 = false
		}
		if pendingTx {
			if obs {
				r.out.Emit(kit.M{"ev": "Tx", "obs": true, "proj": p})
			} else {
				r.out.Emit(kit.M{"ev": "Tx", "obs": false})
			}
			pendingTx = false
		}
		if cancelled {
			r.out.Emit(kit.M{"ev": "Cancel", "obs": false})
		}
	}
	for {
		g, err := wait()
		if g {
			sp, p := r.snapshot()
			flush(true, p)
			for r.peek() == "Gone" {
				c := r.steps[r.pos].C
				src.mu.Lock()
				src.gone[r.b.w.cids[c]] = true
				src.mu.Unlock()
				r.applyGone(c, p)
				r.pos++
			}
			switch r.peek() {
			case "Crash":
				// the copy taken at this transaction boundary is what a crash leaves; the abandoned process
				// is wound up on the original file, which is then discarded
				r.pos++
				cancel()
				src.resume <- struct{}{}
				for {
					g2, _ := wait()
					if !g2 {
						break
					}
					src.resume <- struct{}{}
				}
				_ = db.Close()
				kit.Must(os.Remove(r.path))
				kit.Must(os.Rename(sp, r.path))
				r.out.Emit(kit.M{"ev": "Crash", "obs": true, "proj": p})
				return
			case "Tx":
				r.pos++
				pendingTx = true
				if r.peek() == "Cancel" {
					r.pos++
					cancel()
					cancelled = true
				}
			default:
				if r.j.Free && (r.peek() == "Finish" || r.peek() == "Fail") {
					pendingTx = true // one more batch than the generating model needed
					break
				}
				// the real run asks for one more transaction than the schedule foresees
				os.Remove(sp)
				r.diverged("unscheduled transaction")
				cancel()
				src.resume <- struct{}{}
				for {
					g2, _ := wait()
					if !g2 {
						break
					}
					src.resume <- struct{}{}
				}
				_ = db.Close()
				return
			}
			os.Remove(sp)
			src.resume <- struct{}{}
			continue
		}
		// Init returned
		if err != nil {
			kit.Must(db.Close())
			p := r.b.fx.project(r.path)
			r.last = p
			flush(true, p)
			res := "err:" + err.Error()
			if errors.Is(err, context.Canceled) {
				res = "canceled"
			}
			r.out.Emit(kit.M{"ev": "Fail", "obs": true, "proj": p, "res": res})
			if r.peek() == "Fail" {
				r.pos++
			} else {
				r.diverged("initialisation failed: " + res)
			}
			return
		}
		eq, geq, diff := r.compareView(db)
		sp, p := r.snapshot()
		os.Remove(sp)
		flush(false, p)
		r.out.Emit(kit.M{"ev": "Finish", "obs": true, "proj": p, "viewEq": eq, "ctrEq": geq, "diff": diff})
		r.db = db
		for r.j.Free && r.peek() == "Tx" {
			r.pos++ // fewer batches than the generating model needed
		}
		if r.peek() == "Finish" {
			r.pos++
		} else {
			r.diverged("upgrade finished")
		}
		return
	}
}

func (r *runner) run() {
	fx := r.b.fx
	kit.Must(os.MkdirAll(filepath.Dir(r.path), 0o755))
	copyFile(fx.path, r.path)
	p := fx.project(r.path)
	r.last = p
	nA := make([]int, fx.nc)
	nH := make([]int, fx.nc)
	dr := make([]bool, fx.nc)
	for c := 1; c <= fx.nc; c++ {
		nA[c-1], nH[c-1], dr[c-1] = len(fx.assocs[c]), fx.homo[c], fx.drift0[c]
	}
	g0 := []int{}
	for _, c := range r.j.Gone0 {
		r.gone[r.b.w.cids[c]] = true
		g0 = append(g0, c)
	}
	sort.Ints(g0)
	r.out.Emit(kit.M{"ev": "Init", "job": r.j.ID, "obs": true, "proj": p, "preDrift": r.b.preDrift,
		"w": kit.M{"nc": fx.nc, "nA": nA, "nH": nH, "budget": realBudget, "ver0": fx.ver0, "drift": dr, "gone0": g0}})
	for r.pos < len(r.steps) && !r.stop {
		st := r.steps[r.pos]
		switch {
		case st.Ev == "Gone":
			r.pos++
			r.applyGone(st.C, r.last)
		case st.Ev == "Open" && r.db == nil:
			r.pos++
			r.doOpen(st.CC)
		case st.Ev == "Close" && r.db != nil:
			r.pos++
			kit.Must(r.db.Close())
			r.db = nil
			p := fx.project(r.path)
			r.last = p
			r.out.Emit(kit.M{"ev": "Close", "obs": true, "proj": p})
		default:
			r.diverged("step not executable here")
		}
	}
	if r.db != nil {
		kit.Must(r.db.Close())
	}
	os.Remove(r.path)
}

type memW struct{ evs []any }

func (m *memW) Emit(v any) { m.evs = append(m.evs, v) }
