// Command metamig binds spec/MetaMigration.tla (C42) to the real metabase upgrade code.
//
//	metamig run <catalogs.json> <jobs.ndjson> <trace.ndjson>
//	metamig gen <catalogs.json> <cat> <n> <len> <hist.ndjson>      seeded random object histories
//
// A job = a catalogue + an object history (executed on a real shard.Shard, current format) + the old
// format to rewrite the file to (10 or 9, raw bbolt edits as documented in VERSION.md) + an interrupt
// schedule (events of the spec).  The schedule is executed on the real meta.DB Open+Init; one trace event
// per spec action is recorded with the abstract state projected from the file with raw bbolt reads, and at
// the end of the upgrade the full view (availability, attributes, search results, counters) is compared
// with the one recorded before the file was rewritten.
package main

import (
	"fmt"
	"os"
	"path/filepath"
	"runtime/pprof"
	"sort"
	"strconv"
	"sync"
	"sync/atomic"
	"time"

	cid "github.com/nspcc-dev/neofs-sdk-go/container/id"
	"verifharness/internal/kit"
)

func run(catPath, in, out string) {
	cats := loadCats(catPath)
	jobs := kit.ReadNDJSON[job](in)
	base, err := os.MkdirTemp("", "metamig-")
	kit.Must(err)
	defer os.RemoveAll(base)

	// fixtures: one per distinct (catalogue, history, world, format)
	keys := []string{}
	byKey := map[string]*job{}
	for i := range jobs {
		k := jobs[i].fixtureKey()
		if byKey[k] == nil {
			byKey[k] = &jobs[i]
			keys = append(keys, k)
		}
	}
	fixtures := make(map[string]*built, len(keys))
	var mu sync.Mutex
	var wg sync.WaitGroup
	next := atomic.Int64{}
	for range 6 {
		wg.Add(1)
		go func() {
			defer wg.Done()
			for {
				i := int(next.Add(1)) - 1
				if i >= len(keys) {
					return
				}
				b := buildFixture(base, cats, byKey[keys[i]], int64(i)+7)
				mu.Lock()
				fixtures[keys[i]] = b
				mu.Unlock()
			}
		}()
	}
	wg.Wait()

	results := make([][]any, len(jobs))
	next.Store(0)
	for range 6 {
		wg.Add(1)
		go func() {
			defer wg.Done()
			for {
				k := int(next.Add(1)) - 1
				if k >= len(jobs) {
					return
				}
				j := &jobs[k]
				b := fixtures[j.fixtureKey()]
				buf := &memW{}
				es := &epochState{}
				es.e.Store(b.epoch)
				r := &runner{b: b, j: j, path: filepath.Join(base, "job-"+strconv.Itoa(k), "meta"), out: buf, es: es,
					gone: map[cid.ID]bool{}, steps: j.Steps}
				t0 := time.Now()
				r.run()
				if os.Getenv("METAMIG_TIMING") != "" {
					fmt.Fprintf(os.Stderr, "job %d: %v\n", j.ID, time.Since(t0))
				}
				os.RemoveAll(filepath.Dir(r.path))
				results[k] = buf.evs
			}
		}()
	}
	wg.Wait()
	w := kit.NewW(out)
	for _, evs := range results {
		for _, ev := range evs {
			w.Emit(ev)
		}
	}
	w.Close()
}

// gen writes seeded random object histories over a catalogue (same generator as cmd/meta).
func gen(catPath, cat string, n, ln int, out string) {
	cats := loadCats(catPath)
	c := cats[cat]
	r := kit.Rand(11)
	w := kit.NewW(out)
	var putable, all, markable []int
	for i, o := range c.Objs {
		all = append(all, i+1)
		if !o.Virt {
			putable = append(putable, i+1)
		}
		if o.Mk {
			markable = append(markable, i+1)
		}
	}
	pick := func(xs []int) int { return xs[r.Intn(len(xs))] }
	for k := 0; k < n; k++ {
		var steps []step
		for j := 0; j < ln; j++ {
			switch x := r.Intn(100); {
			case x < 50:
				steps = append(steps, step{Ev: "Put", O: pick(putable)})
			case x < 62:
				a := pick(markable)
				ids := []int{a}
				if r.Intn(3) == 0 {
					b := pick(markable)
					if b != a && c.Objs[b-1].Cnr == c.Objs[a-1].Cnr {
						ids = append(ids, b)
						sort.Ints(ids)
					}
				}
				steps = append(steps, step{Ev: "Mark", IDs: ids, Mark: []string{"def", "red"}[r.Intn(2)]})
			case x < 70:
				steps = append(steps, step{Ev: "Delete", IDs: []int{pick(all)}})
			case x < 72:
				steps = append(steps, step{Ev: "InhumeCnr", C: 1 + r.Intn(c.NC)})
			case x < 80:
				steps = append(steps, step{Ev: "Revive", A: pick(all)})
			case x < 92:
				steps = append(steps, step{Ev: "Tick"})
			default:
				steps = append(steps, step{Ev: "GC"})
			}
		}
		w.Emit(kit.M{"cat": cat, "hist": steps})
	}
	w.Close()
}

func main() {
	if p := os.Getenv("METAMIG_PROF"); p != "" {
		f, _ := os.Create(p)
		_ = pprof.StartCPUProfile(f)
		defer pprof.StopCPUProfile()
	}
	switch os.Args[1] {
	case "run":
		run(os.Args[2], os.Args[3], os.Args[4])
	case "gen":
		n, _ := strconv.Atoi(os.Args[4])
		ln, _ := strconv.Atoi(os.Args[5])
		gen(os.Args[2], os.Args[3], n, ln, os.Args[6])
	default:
		fmt.Fprintln(os.Stderr, "usage: metamig run|gen ...")
		os.Exit(2)
	}
}
