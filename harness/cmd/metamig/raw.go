package main

// Raw bbolt access: rewriting a current-format metabase file to the documented layouts of formats 10 and
// 9 (VERSION.md, version.go, TestMigrate9To10 / TestMigrate10To11), and projecting a file to the abstract
// state of spec/MetaMigration.tla.

import (
	"bytes"
	"crypto/sha256"
	"encoding/binary"
	"encoding/hex"
	"io"
	"os"
	"sort"

	"github.com/nspcc-dev/bbolt"
	cid "github.com/nspcc-dev/neofs-sdk-go/container/id"
	"github.com/nspcc-dev/neofs-sdk-go/object"
	oid "github.com/nspcc-dev/neofs-sdk-go/object/id"
	"verifharness/internal/kit"
)

const (
	pfxID        = 0
	pfxAttrID    = 2
	pfxIDAttr    = 3
	pfxCtrFirst  = 6
	pfxCtrLast   = 12
	bktVolume    = 3 // unusedContainerVolumePrefix
	bktInfo      = 5 // shardInfoPrefix
	bktMeta      = 255
	attrAssoc    = object.AttributeAssociatedObject
	attrHomo     = "$Object:homomorphicHash" // object.FilterPayloadHomomorphicHash
	oldPhyKey    = "phy_counter"
	oldLogicKey  = "logic_counter"
	versionKey   = "version"
	numCounters  = pfxCtrLast - pfxCtrFirst + 1
	counterGCIdx = 11 - pfxCtrFirst
)

func aiKey(attr string, val []byte, id oid.ID) []byte {
	k := make([]byte, 0, 1+len(attr)+1+len(val)+1+oid.Size)
	k = append(k, pfxAttrID)
	k = append(k, attr...)
	k = append(k, 0)
	k = append(k, val...)
	k = append(k, 0)
	return append(k, id[:]...)
}

func iaKey(attr string, val []byte, id oid.ID) []byte {
	k := make([]byte, 0, 1+oid.Size+len(attr)+1+len(val))
	k = append(k, pfxIDAttr)
	k = append(k, id[:]...)
	k = append(k, attr...)
	k = append(k, 0)
	return append(k, val...)
}

func metaBucketName(c cid.ID) []byte { return append([]byte{bktMeta}, c[:]...) }

type assoc struct {
	id, target oid.ID
}

func (a assoc) oldVal() []byte { return []byte(a.target.EncodeToString()) }
func (a assoc) newVal() []byte { return a.target[:] }

// assocsOf lists the associations of a CURRENT-format bucket in the byte order of their OLD attr->id keys.
func assocsOf(b *bbolt.Bucket) []assoc {
	var res []assoc
	if b == nil {
		return res
	}
	pref := append(append([]byte{pfxAttrID}, attrAssoc...), 0)
	c := b.Cursor()
	for k, _ := c.Seek(pref); k != nil && bytes.HasPrefix(k, pref); k, _ = c.Next() {
		rest := k[len(pref):]
		if len(rest) != oid.Size+1+oid.Size {
			panic("unexpected association key in a current-format database: " + hex.EncodeToString(k))
		}
		var a assoc
		copy(a.target[:], rest[:oid.Size])
		copy(a.id[:], rest[oid.Size+1:])
		res = append(res, a)
	}
	sort.Slice(res, func(i, j int) bool {
		return bytes.Compare(aiKey(attrAssoc, res[i].oldVal(), res[i].id), aiKey(attrAssoc, res[j].oldVal(), res[j].id)) < 0
	})
	return res
}

func u64(v uint64) []byte {
	b := make([]byte, 8)
	binary.LittleEndian.PutUint64(b, v)
	return b
}

type counters [numCounters]uint64

func readCounters(b *bbolt.Bucket) (counters, bool) {
	var c counters
	all := true
	for i := 0; i < numCounters; i++ {
		v := b.Get([]byte{byte(pfxCtrFirst + i)})
		if len(v) != 8 {
			all = false
			continue
		}
		c[i] = binary.LittleEndian.Uint64(v)
	}
	return c, all
}

// fixture describes one old-format template file and what is needed to project files derived from it.
type fixture struct {
	path     string
	ver0     int
	nc       int
	cids     []cid.ID   // 1-based
	assocs   [][]assoc  // per container (1-based), old-key order
	homo     []int      // per container: number of objects given homomorphic index entries
	refCtr   []counters // per container: recount of the current-format database
	hasBkt   []bool
	drift0   []bool
	otherSum string
}

type homoEntry struct {
	id  oid.ID
	val []byte
}

// rewrite turns the current-format file at path into a format-10 (or 9) file in place.
func rewrite(path string, fx *fixture, homo [][]homoEntry, drift []bool) {
	db, err := bbolt.Open(path, 0o600, boltOpts())
	kit.Must(err)
	kit.Must(db.Update(func(tx *bbolt.Tx) error {
		for c := 1; c <= fx.nc; c++ {
			b := tx.Bucket(metaBucketName(fx.cids[c]))
			if b == nil {
				continue
			}
			// __NEOFS__ASSOCIATE: raw id -> base58 string, both key directions
			for _, a := range fx.assocs[c] {
				kit.Must(b.Delete(aiKey(attrAssoc, a.newVal(), a.id)))
				kit.Must(b.Delete(iaKey(attrAssoc, a.newVal(), a.id)))
				kit.Must(b.Put(aiKey(attrAssoc, a.oldVal(), a.id), nil))
				kit.Must(b.Put(iaKey(attrAssoc, a.oldVal(), a.id), nil))
			}
			// homomorphic hash index of format <= 10 (putPlainAttribute of the raw 64-byte value)
			for _, h := range homo[c] {
				kit.Must(b.Put(aiKey(attrHomo, h.val, h.id), nil))
				kit.Must(b.Put(iaKey(attrHomo, h.val, h.id), nil))
			}
			if fx.ver0 == 9 {
				for i := pfxCtrFirst; i <= pfxCtrLast; i++ {
					kit.Must(b.Delete([]byte{byte(i)}))
				}
			} else if drift[c] {
				// counters that drifted (double counted garbage marks), which format 11 repairs
				cs, _ := readCounters(b)
				kit.Must(b.Put([]byte{pfxCtrFirst}, u64(cs[0]+2)))
				kit.Must(b.Put([]byte{11}, u64(cs[counterGCIdx]+1)))
			}
		}
		info, err := tx.CreateBucketIfNotExists([]byte{bktInfo})
		kit.Must(err)
		if fx.ver0 == 9 {
			kit.Must(info.Put([]byte(oldPhyKey), u64(12345678)))
			kit.Must(info.Put([]byte(oldLogicKey), u64(1234567)))
			vol, err := tx.CreateBucketIfNotExists([]byte{bktVolume})
			kit.Must(err)
			for c := 1; c <= fx.nc; c++ {
				bc, err := vol.CreateBucketIfNotExists(fx.cids[c][:])
				kit.Must(err)
				kit.Must(bc.Put([]byte{0}, u64(uint64(1000+c))))
				kit.Must(bc.Put([]byte{1}, u64(uint64(10+c))))
			}
		}
		return info.Put([]byte(versionKey), u64(uint64(fx.ver0)))
	}))
	kit.Must(db.Close())
}

// ------------------------------------------------------------------ projection

type cproj struct {
	Old   int  `json:"old"`   // associations present in the old format only (both key directions)
	New   int  `json:"new"`   // ... in the new format only (both key directions)
	Bad   int  `json:"bad"`   // anything else: lost, duplicated, directions disagree
	First int  `json:"first"` // smallest index (old-key order) of an association still in the old format; 0 = none
	HAI   int  `json:"hAI"`   // homomorphic attr->id keys
	HIA   int  `json:"hIA"`   // homomorphic id->attr keys
	Drift bool `json:"drift"` // per-container counters differ from the recount
}

type proj struct {
	Ver    int     `json:"ver"`
	OldCtr bool    `json:"oldCtr"`
	Other  bool    `json:"other"`
	Cn     []cproj `json:"cn"`
}

func copyFile(src, dst string) {
	in, err := os.Open(src)
	kit.Must(err)
	defer in.Close()
	out, err := os.Create(dst)
	kit.Must(err)
	_, err = io.Copy(out, in)
	kit.Must(err)
	kit.Must(out.Close())
}

// rawState is what is read from a file before it is compared with the fixture.
type rawState struct {
	ver      int
	oldCtr   bool
	otherSum string
	cn       []cproj
	ctr      []counters
	ctrAll   []bool
	hasBkt   []bool
}

func readRaw(path string, nc int, cids []cid.ID, assocs [][]assoc) rawState {
	ro := *boltOpts()
	ro.ReadOnly = true
	db, err := bbolt.Open(path, 0o600, &ro)
	kit.Must(err)
	defer db.Close()
	st := rawState{cn: make([]cproj, nc+1), ctr: make([]counters, nc+1), ctrAll: make([]bool, nc+1), hasBkt: make([]bool, nc+1)}
	other := sha256.New()
	kit.Must(db.View(func(tx *bbolt.Tx) error {
		assocPrefAI := append(append([]byte{pfxAttrID}, attrAssoc...), 0)
		homoPrefAI := append(append([]byte{pfxAttrID}, attrHomo...), 0)
		return tx.ForEach(func(name []byte, b *bbolt.Bucket) error {
			switch {
			case len(name) == 1 && name[0] == bktVolume:
				st.oldCtr = true
				return nil
			case len(name) == 1 && name[0] == bktInfo:
				other.Write([]byte("B:info"))
				return b.ForEach(func(k, v []byte) error {
					switch string(k) {
					case versionKey:
						if len(v) == 8 {
							st.ver = int(binary.LittleEndian.Uint64(v))
						}
					case oldPhyKey, oldLogicKey:
						st.oldCtr = true
					default:
						other.Write(k)
						other.Write([]byte{0xfe})
						other.Write(v)
						other.Write([]byte{0xff})
					}
					return nil
				})
			}
			other.Write([]byte("B:"))
			other.Write(name)
			ci := 0
			if len(name) == 1+cid.Size && name[0] == bktMeta {
				for c := 1; c <= nc; c++ {
					if bytes.Equal(name[1:], cids[c][:]) {
						ci = c
					}
				}
			}
			known := map[string]bool{}
			if ci != 0 {
				st.hasBkt[ci] = true
				for _, a := range assocs[ci] {
					known[string(aiKey(attrAssoc, a.oldVal(), a.id))] = true
					known[string(aiKey(attrAssoc, a.newVal(), a.id))] = true
					known[string(iaKey(attrAssoc, a.oldVal(), a.id))] = true
					known[string(iaKey(attrAssoc, a.newVal(), a.id))] = true
				}
			}
			return b.ForEach(func(k, v []byte) error {
				switch {
				case v == nil && b.Bucket(k) != nil:
					other.Write([]byte("nested"))
					other.Write(k)
				case ci != 0 && len(k) == 1 && k[0] >= pfxCtrFirst && k[0] <= pfxCtrLast:
					// counters: compared separately
				case ci != 0 && known[string(k)]:
					// associations: classified below
				case ci != 0 && k[0] == pfxAttrID && bytes.HasPrefix(k, homoPrefAI):
					st.cn[ci].HAI++
				case ci != 0 && k[0] == pfxIDAttr && len(k) > 1+oid.Size && bytes.HasPrefix(k[1+oid.Size:], append([]byte(attrHomo), 0)):
					st.cn[ci].HIA++
				case ci != 0 && k[0] == pfxAttrID && bytes.HasPrefix(k, assocPrefAI):
					other.Write([]byte("stray-assoc-key")) // an association key nobody wrote
					other.Write(k)
				default:
					other.Write(k)
					other.Write([]byte{0xfe})
					other.Write(v)
					other.Write([]byte{0xff})
				}
				return nil
			})
		})
	}))
	kit.Must(db.View(func(tx *bbolt.Tx) error {
		for c := 1; c <= nc; c++ {
			b := tx.Bucket(metaBucketName(cids[c]))
			if b == nil {
				continue
			}
			st.ctr[c], st.ctrAll[c] = readCounters(b)
			for i, a := range assocs[c] {
				oAI := has(b, aiKey(attrAssoc, a.oldVal(), a.id))
				nAI := has(b, aiKey(attrAssoc, a.newVal(), a.id))
				oIA := has(b, iaKey(attrAssoc, a.oldVal(), a.id))
				nIA := has(b, iaKey(attrAssoc, a.newVal(), a.id))
				switch {
				case oAI && oIA && !nAI && !nIA:
					st.cn[c].Old++
					if st.cn[c].First == 0 {
						st.cn[c].First = i + 1
					}
				case nAI && nIA && !oAI && !oIA:
					st.cn[c].New++
				default:
					st.cn[c].Bad++
				}
			}
		}
		return nil
	}))
	st.otherSum = hex.EncodeToString(other.Sum(nil))
	return st
}

func has(b *bbolt.Bucket, k []byte) bool {
	c := b.Cursor()
	kk, _ := c.Seek(k)
	return bytes.Equal(kk, k)
}

// project reads the file (which must not be open for writing by a transaction that has written pages:
// callers pass a copy taken at a transaction boundary, or a closed file) and compares it with the fixture.
func (fx *fixture) project(path string) proj {
	st := readRaw(path, fx.nc, fx.cids, fx.assocs)
	p := proj{Ver: st.ver, OldCtr: st.oldCtr, Other: st.otherSum == fx.otherSum, Cn: st.cn[1:]}
	for c := 1; c <= fx.nc; c++ {
		if !st.hasBkt[c] {
			continue
		}
		p.Cn[c-1].Drift = !st.ctrAll[c] || st.ctr[c] != fx.refCtr[c]
	}
	return p
}
