package main

import (
	"bytes"
	"context"
	"crypto/sha256"
	"encoding/binary"
	"encoding/hex"
	"fmt"
	"io/fs"
	"os"
	"path/filepath"
	"sort"
	"strings"
	"time"

	"github.com/nspcc-dev/bbolt"
	"verifharness/internal/kit"
)

// ---------------------------------------------------------------- digests of the persisted state

// treeHash: every file (relative path + content) under dir, sorted.
func treeHash(dir string) string {
	h := sha256.New()
	var files []string
	_ = filepath.WalkDir(dir, func(p string, d fs.DirEntry, err error) error {
		if err == nil && !d.IsDir() {
			files = append(files, p)
		}
		return nil
	})
	sort.Strings(files)
	for _, p := range files {
		rel, _ := filepath.Rel(dir, p)
		data, _ := os.ReadFile(p)
		fmt.Fprintf(h, "%s\x00%d\x00", rel, len(data))
		h.Write(data)
	}
	return hex.EncodeToString(h.Sum(nil))[:16]
}

// boltDump: logical dump of the bbolt file (all buckets, keys, values), independent of page layout.
// The file is opened read-only through a second handle (shared lock: works while the shard has it open read-only
// or closed; never called while the shard has it open read-write).
func boltDump(path string) string {
	if _, err := os.Stat(path); err != nil {
		return "nofile"
	}
	db, err := bbolt.Open(path, 0o600, &bbolt.Options{ReadOnly: true, Timeout: 300 * time.Millisecond})
	if err != nil {
		return "unavailable" // the shard holds it open read-write (partially switched shard): see lastDigests
	}
	defer db.Close()
	h := sha256.New()
	var walk func(b *bbolt.Bucket, depth int)
	walk = func(b *bbolt.Bucket, depth int) {
		_ = b.ForEach(func(k, v []byte) error {
			var ln [9]byte
			ln[0] = byte(depth)
			binary.LittleEndian.PutUint32(ln[1:], uint32(len(k)))
			binary.LittleEndian.PutUint32(ln[5:], uint32(len(v)))
			h.Write(ln[:])
			h.Write(k)
			if v == nil {
				if nb := b.Bucket(k); nb != nil {
					h.Write([]byte{0xB})
					walk(nb, depth+1)
					return nil
				}
			}
			h.Write(v)
			return nil
		})
	}
	_ = db.View(func(tx *bbolt.Tx) error {
		return tx.ForEach(func(name []byte, b *bbolt.Bucket) error {
			h.Write([]byte{0xA})
			h.Write(name)
			walk(b, 0)
			return nil
		})
	})
	return hex.EncodeToString(h.Sum(nil))[:16]
}

func (e *env) digest() string {
	return "blob:" + treeHash(e.blobDir()) + " wc:" + treeHash(e.wcDir()) + " meta:" + boltDump(e.metaPath())
}

// pairDigests: when the bbolt file could not be dumped on one side (the shard has it open read-write under a
// reported read-only mode after a partially failed switch) the metabase part is compared through the projected
// state only (stored / garbage keys / containers of every catalogue object), the file trees still by digest.
func pairDigests(d0, d1 string) (string, string) {
	cut := func(d string) string { return d[:strings.Index(d, " meta:")] + " meta:by-projection" }
	if strings.HasSuffix(d0, "meta:unavailable") || strings.HasSuffix(d1, "meta:unavailable") {
		return cut(d0), cut(d1)
	}
	return d0, d1
}

// ---------------------------------------------------------------- C14 driver

// unpaid container payments: makes the epoch handler try to remove container 2 (it must fail in read-only modes)
type unpaid struct{ e *env }

func (u unpaid) PaymentsDisabled() bool { return !u.e.payOn }

// roOp performs one request that must be rejected in a read-only mode and records digests around it.
func (e *env) roOp(name string, a int, f func() error) {
	d0 := e.digest()
	res := safely(func() string { return resClass(f()) })
	d0, d1 := pairDigests(d0, e.digest())
	e.do("RoOp", kit.M{"name": name, "a": a, "d0": d0, "d1": d1}, res)
}

func cmdRO(n, ln int, out string) {
	w := newWorld()
	r := kit.Rand(14)
	tw := kit.NewW(out)
	root := scratch()
	defer os.RemoveAll(root)
	skipped := 0
	for i := 0; i < n; i++ {
		wc := i%2 == 1
		roMode := []string{"RO", "DEGRO"}[(i/2)%2]
		e := newEnv(w, filepath.Join(root, fmt.Sprintf("r%d", i)), wc, 1+r.Intn(2))
		e.emit(kit.M{"ev": "Init", "wc": wc, "batch": e.batch, "script": i})
		// some history in read-write mode
		for j, k := 0, 3+r.Intn(6); j < k; j++ {
			a := 1 + r.Intn(w.n())
			switch r.Intn(8) {
			case 0, 1, 2, 3:
				e.opPut(a, 0)
			case 4:
				e.opMark(catalogue[a-1].C, []int{a}, []string{"def", "red"}[r.Intn(2)])
			case 5:
				e.opFlush(0, 0)
			case 6:
				e.opEpoch()
			case 7:
				e.opGC(0, 0)
			}
		}
		if i%3 == 0 { // a removed container, sometimes already emptied by GC: only its record is left to drop
			e.opInhumeCnr(2)
			for j := r.Intn(4); j > 0; j-- {
				e.opGC(0, 0)
			}
		}
		bgRound := i%8 == 7 && wc
		if bgRound {
			// the behaviour with a REAL round of the cache's scheduler / workers: read-only (metabase available), objects
			// still in the cache, and a switch back to read-write that fails at the metabase before the round
			roMode = "RO"
			e.opPut(1+r.Intn(2), 0)
			e.opPut(5, 0)
		}
		e.payOn = true
		e.opSetMode(roMode, "none")
		partial := false
		for j := 0; j < ln; j++ {
			a := 1 + r.Intn(w.n())
			c := catalogue[a-1].C
			k := r.Intn(13)
			if bgRound && j == ln/2 {
				k = 13
			}
			if j == ln/3 && modeName(e.sh.GetMode()) == "RO" {
				// a switch back to read-write that fails at ONE component: the shard keeps reporting read-only while
				// some components already are (or are not yet) writable; nothing stored may change from now on either
				faults := []string{"meta", "blob"}
				if wc {
					faults = append(faults, "wc")
				}
				d0 := e.digest()
				f := faults[(i/4)%len(faults)]
				if bgRound {
					f = "meta"
				}
				e.opSetMode("RW", f)
				e.lastDigests(d0)
				d0 = e.digest()
				e.opGC(0, 0)
				e.lastDigests(d0)
				partial = true
				continue
			}
			if partial && k == 12 {
				// not exercised: after a partially failed switch to read-write (blobstor already writable) a switch
				// RO -> DEGRADED_RO flushes the cache into the blobstor while the shard reports read-only; this is the
				// non-atomic-switch finding of C43 seen from C14 (see notes/sharda.md), not a regression to look for here
				k = 9
			}
			switch k {
			case 0, 1:
				d0 := e.digest()
				e.opPut(a, 0)
				e.lastDigests(d0)
			case 2:
				d0 := e.digest()
				e.opDelete(c, []int{a}, 0, 0)
				e.lastDigests(d0)
			case 3:
				d0 := e.digest()
				e.opMark(c, []int{a}, []string{"def", "red"}[r.Intn(2)])
				e.lastDigests(d0)
			case 4:
				d0 := e.digest()
				e.opInhumeCnr(c)
				e.lastDigests(d0)
			case 5:
				e.roOp("DeleteContainer", a, func() error { return e.sh.DeleteContainer(context.Background(), w.cnr[c]) })
			case 6:
				var buf bytes.Buffer
				buf.WriteString("NEOF")
				var sz [4]byte
				binary.LittleEndian.PutUint32(sz[:], uint32(len(w.bin[a])))
				buf.Write(sz[:])
				buf.Write(w.bin[a])
				e.roOp("Restore", a, func() error { _, _, err := e.sh.Restore(&buf, false); return err })
			case 7:
				e.roOp("Revive", a, func() error { _, err := e.sh.ReviveObject(w.addr[a]); return err })
			case 8:
				d0 := e.digest()
				e.opFlush(0, 0)
				e.lastDigests(d0)
			case 9, 10:
				d0 := e.digest()
				e.opGC(0, 0)
				e.lastDigests(d0)
			case 11:
				d0 := e.digest()
				e.opEpoch()
				e.lastDigests(d0)
			case 12:
				other := "RO"
				if modeName(e.sh.GetMode()) == "RO" {
					other = "DEGRO"
				}
				d0 := e.digest()
				e.opSetMode(other, "none")
				e.lastDigests(d0)
			case 13:
				if bgRound {
					// let the write-cache's own scheduler / workers run a round inside the read-only period
					bgRound = false
					d0 := e.digest()
					e.ungate()
					time.Sleep(1300 * time.Millisecond)
					d0, d1 := pairDigests(d0, e.digest())
					e.events = append(e.events, kit.M{"ev": "Do", "op": "RoOp", "name": "BackgroundRound", "a": 0, "e": 0, "c": 0, "ids": []int{}, "mk": "", "m": "", "fault": "", "res": "ro", "d0": d0, "d1": d1, "st": e.project()})
				}
			}
		}
		e.payOn = false
		e.opSetMode("RW", "none")
		e.opPut(1+r.Intn(w.n()), 0)
		if e.bg.Load() {
			skipped++
		} else {
			for _, ev := range e.events {
				tw.Emit(ev)
			}
		}
		e.destroy()
	}
	tw.Close()
	fmt.Printf("scripts=%d skipped_bg=%d events=%d\n", n, skipped, tw.N)
}

// lastDigests attaches the digests around the operation to its closing event (End / Do / Crash).
func (e *env) lastDigests(d0 string) {
	ev := e.events[len(e.events)-1]
	ev["d0"], ev["d1"] = pairDigests(d0, e.digest())
}
