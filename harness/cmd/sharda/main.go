// Command sharda drives a REAL shard.Shard (FSTree blobstor + bbolt metabase + optional write-cache, temporary
// directories) for the checks of family `sharda` (C09, C15, C44, C14, C43) and records traces that are validated
// against spec/Shard.tla by spec/TraceShard.tla.
//
//	sharda run <scripts.ndjson> <trace.ndjson>   execute operation-level scripts (TLC-generated, spec/ShardGen.tla)
//	                                             with their crash points / blobstor faults; one event per step boundary
//	sharda ro <n> <len> <trace.ndjson>           C14: n seeded random behaviours: history in RW, switch to RO / DEGRADED_RO,
//	                                             len random requests / background jobs with digests of the on-disk state
//	                                             (file tree hash of blobstor + write-cache, logical dump of bbolt) around each
package main

import (
	"fmt"
	"os"
	"path/filepath"
	"strconv"

	"verifharness/internal/kit"
)

type step struct {
	Op    string `json:"op"`
	A     int    `json:"a"`
	C     int    `json:"c"`
	Ids   []int  `json:"ids"`
	Mk    string `json:"mk"`
	Crash int    `json:"crash"`
	Fail  int    `json:"fail"`
	M     string `json:"m"`
	Fault string `json:"fault"`
	K     int    `json:"k"`
}

type script struct {
	WC    bool   `json:"wc"`
	Batch int    `json:"batch"`
	Steps []step `json:"steps"`
}

func main() {
	if len(os.Args) < 2 {
		usage()
	}
	switch os.Args[1] {
	case "run":
		if len(os.Args) != 4 {
			usage()
		}
		cmdRun(os.Args[2], os.Args[3])
	case "ro":
		if len(os.Args) != 5 {
			usage()
		}
		n, _ := strconv.Atoi(os.Args[2])
		ln, _ := strconv.Atoi(os.Args[3])
		cmdRO(n, ln, os.Args[4])
	default:
		usage()
	}
}

func usage() {
	fmt.Fprintln(os.Stderr, "usage: sharda run <scripts.ndjson> <trace.ndjson> | sharda ro <n> <len> <trace.ndjson>")
	os.Exit(2)
}

func scratch() string {
	d, err := os.MkdirTemp("", "sharda-")
	kit.Must(err)
	return d
}

func cmdRun(in, out string) {
	scripts := kit.ReadNDJSON[script](in)
	w := newWorld()
	tw := kit.NewW(out)
	root := scratch()
	defer os.RemoveAll(root)
	skipped := 0
	panics := map[string]int{}
	for i, sc := range scripts {
		if sc.Batch <= 0 {
			sc.Batch = 2
		}
		e := newEnv(w, filepath.Join(root, fmt.Sprintf("s%d", i)), sc.WC, sc.Batch)
		e.emit(kit.M{"ev": "Init", "wc": sc.WC, "batch": sc.Batch, "script": i})
		for _, st := range sc.Steps {
			runStep(e, st)
		}
		e.opFlushRelease()
		if e.bg.Load() {
			skipped++ // a background flush interfered: not the scripted behaviour, do not judge it
		} else {
			for _, ev := range e.events {
				tw.Emit(ev)
			}
		}
		for _, p := range e.panics {
			panics[p]++
		}
		e.destroy()
	}
	tw.Close()
	fmt.Printf("scripts=%d skipped_bg=%d events=%d\n", len(scripts), skipped, tw.N)
	for p, n := range panics {
		fmt.Printf("REAL-PANIC n=%d %s\n", n, p)
	}
}

func runStep(e *env, st step) {
	if e.race != nil {
		switch st.Op {
		case "Put", "Delete", "GC":
			if st.Crash > 0 {
				e.opFlushRelease()
			}
		case "Mark", "Epoch", "InhumeCnr", "FlushRelease":
		default:
			e.opFlushRelease()
		}
	}
	switch st.Op {
	case "Put":
		e.opPut(st.A, st.Crash)
	case "Delete":
		e.opDelete(st.C, st.Ids, st.Crash, st.Fail)
	case "GC":
		e.opGC(st.Crash, st.Fail)
	case "Flush":
		e.opFlush(st.Crash, st.Fail)
	case "Epoch":
		e.opEpoch()
	case "Mark":
		e.opMark(st.C, st.Ids, st.Mk)
	case "InhumeCnr":
		e.opInhumeCnr(st.C)
	case "Resync":
		e.opResync()
	case "Restart":
		e.opRestart()
	case "SetMode":
		e.opSetMode(st.M, st.Fault)
	case "FlushHold":
		e.opFlushHold(st.A)
	case "FlushRelease":
		e.opFlushRelease()
	case "Settle":
		e.opSettle(st.K)
	default:
		panic("unknown op " + st.Op)
	}
}
