package main

import (
	"bytes"
	"errors"
	"fmt"
	"os"
	"path/filepath"
	"runtime"
	"strings"
	"sync/atomic"
	"time"

	"github.com/nspcc-dev/bbolt"
	"github.com/nspcc-dev/neofs-node/pkg/local_object_storage/blobstor/common"
	"github.com/nspcc-dev/neofs-node/pkg/local_object_storage/blobstor/fstree"
	meta "github.com/nspcc-dev/neofs-node/pkg/local_object_storage/metabase"
	"github.com/nspcc-dev/neofs-node/pkg/local_object_storage/shard"
	"github.com/nspcc-dev/neofs-node/pkg/local_object_storage/shard/mode"
	"github.com/nspcc-dev/neofs-node/pkg/local_object_storage/writecache"
	"github.com/nspcc-dev/neofs-node/pkg/util/verifhook"
	apistatus "github.com/nspcc-dev/neofs-sdk-go/client/status"
	cid "github.com/nspcc-dev/neofs-sdk-go/container/id"
	oid "github.com/nspcc-dev/neofs-sdk-go/object/id"
	"go.uber.org/zap"
	"verifharness/internal/kit"
)

// crashSentinel is the panic value of a simulated process crash.
type crashSentinel struct{}

var errInjected = errors.New("verif: injected blobstor failure")

// env is one real shard on temporary directories plus everything the harness needs to drive and observe it.
type env struct {
	w     *world
	root  string
	hasWC bool
	batch int

	epoch atomic.Uint64 // EpochState of the metabase (network epoch)

	sh  *shard.Shard
	fst *fstree.FSTree // the undecorated blobstor
	dec *deco

	mainGID uint64
	release chan struct{} // closed to let gated background goroutines of the current instance go
	closing atomic.Bool

	// per-operation plan
	ctx       string // "", put, delete, gc, flush, mode
	vis       int    // observable step boundaries seen in this operation
	crashAt   int    // crash after this many boundaries (0 = never)
	faultable int    // faultable blobstor calls seen in this operation
	failAt    int    // fail this faultable call (0 = never)

	// blobstor switch faults for SetMode
	failBlobClose bool

	payOn   bool        // C14: payments enabled, container 2 unpaid since epoch 0
	ungated atomic.Bool // C14: the write-cache scheduler may run

	reportedRO atomic.Bool // the shard reports a read-only mode (maintained by opSetMode)
	bgRO       atomic.Bool // a background flush reached the blobstor while the shard reported a read-only mode

	bg atomic.Bool // a background flush touched the blobstor: the behaviour is not the scripted one

	race *raceState // a paused explicit flush (flush-versus-delete schedules)

	events []kit.M  // events of the current behaviour
	panics []string // genuine runtime panics of the code under test (treated as process crashes)
}

func (e *env) CurrentEpoch() uint64 { return e.epoch.Load() }

// payments: disabled (the container discard rule is C47, not ours)
type noPayments struct{}

func (noPayments) PaymentsDisabled() bool            { return true }
func (noPayments) UnpaidSince(cid.ID) (int64, error) { return -1, nil }

func (u unpaid) UnpaidSince(c cid.ID) (int64, error) {
	if c == u.e.w.cnr[2] {
		return 0, nil
	}
	return -1, nil
}

// ungate lets the gated background goroutines of the current instance run from now on.
func (e *env) ungate() {
	if !e.ungated.Swap(true) {
		close(e.release)
		e.release = make(chan struct{})
	}
}

func gid() uint64 {
	var buf [64]byte
	n := runtime.Stack(buf[:], false)
	// "goroutine 123 ["
	var id uint64
	for _, c := range buf[len("goroutine "):n] {
		if c < '0' || c > '9' {
			break
		}
		id = id*10 + uint64(c-'0')
	}
	return id
}

func newEnv(w *world, root string, hasWC bool, batch int) *env {
	e := &env{w: w, root: root, hasWC: hasWC, batch: batch, mainGID: gid()}
	kit.Must(os.MkdirAll(root, 0o700))
	verifhook.Set(e.hook)
	e.open()
	return e
}

func (e *env) blobDir() string  { return filepath.Join(e.root, "blob") }
func (e *env) metaPath() string { return filepath.Join(e.root, "meta", "meta.db") }
func (e *env) wcDir() string    { return filepath.Join(e.root, "wcache") }

func (e *env) newFSTree() *fstree.FSTree {
	return fstree.New(
		fstree.WithPath(e.blobDir()),
		fstree.WithPerm(0o700),
		fstree.WithSubtype(fstree.SubtypeBlobstor),
		fstree.WithNoSync(true),
		fstree.WithCombinedCountLimit(1),
	)
}

func (e *env) metaOpts() []meta.Option {
	return []meta.Option{
		meta.WithPath(e.metaPath()),
		meta.WithPermissions(0o600),
		meta.WithEpochState(e),
		meta.WithMaxBatchDelay(time.Microsecond),
		meta.WithMaxBatchSize(1),
		meta.WithBoltDBOptions(&bbolt.Options{NoSync: true, Timeout: 5 * time.Second}),
		meta.WithLogger(zap.NewNop()),
	}
}

func (e *env) open() {
	e.fst = e.newFSTree()
	e.dec = &deco{Storage: e.fst, e: e}
	e.release = make(chan struct{})
	e.closing.Store(false)
	e.ungated.Store(false)
	e.sh = shard.New(
		shard.WithLogger(zap.NewNop()),
		shard.WithBlobstor(e.dec),
		shard.WithMetaBaseOptions(e.metaOpts()...),
		shard.WithWriteCache(e.hasWC),
		shard.WithWriteCacheOptions(
			writecache.WithPath(e.wcDir()),
			writecache.WithNoSync(true),
			writecache.WithFlushWorkersCount(1),
			writecache.WithLogger(zap.NewNop()),
		),
		shard.WithRemoverBatchSize(e.batch),
		shard.WithGCRemoverSleepInterval(24*time.Hour),
		shard.WithExpiredObjectsCallback(e.expiredCb),
		shard.WithContainerPayments(unpaid{e}),
	)
	kit.Must(e.sh.Open())
	kit.Must(e.sh.Init())
}

// close stops the instance. Nothing here writes object data or metadata: bbolt commits are already on
// disk, FSTree and write-cache have no buffers (process-crash model: files stay as written).
func (e *env) close() {
	e.closing.Store(true)
	if wc := e.sh.VerifShardaWC(); wc != nil {
		_ = wc.SetMode(mode.ReadOnly) // what Cache.Close does first; workers released below see a read-only cache
	}
	close(e.release)
	_ = e.sh.Close()
}

func (e *env) destroy() {
	e.close()
	verifhook.Set(nil)
	_ = os.RemoveAll(e.root)
}

// expiredCb does what engine.processExpiredObjects does for a single shard.
func (e *env) expiredCb(addrs []oid.Address) {
	for _, a := range addrs {
		if locked, err := e.sh.IsLocked(a); err == nil && locked {
			continue
		}
		if ex, err := e.sh.Exists(a, true); err != nil || !ex {
			continue
		}
		_ = e.sh.Delete(a.Container(), []oid.ID{a.Object()})
	}
}

// ---------------------------------------------------------------- step boundaries

func (e *env) emit(ev kit.M) { e.events = append(e.events, ev) }

// at records an observable step boundary of the running operation and crashes there if planned.
func (e *env) at(k string, c int, ids []int, a int, ok bool) {
	if ids == nil {
		ids = []int{}
	}
	e.emit(kit.M{"ev": "At", "k": k, "c": c, "ids": ids, "a": a, "ok": ok, "st": e.project()})
	e.vis++
	if e.crashAt > 0 && e.vis == e.crashAt {
		panic(crashSentinel{})
	}
}

func (e *env) hook(name string, args ...any) {
	switch name {
	case "writecache.sched.round":
		// gate the background flush scheduler of our cache: the scripted behaviours decide when data moves
		if p, _ := args[0].(string); p == e.wcDir() && !e.closing.Load() && !e.ungated.Load() {
			<-e.release
		}
		return
	}
	if gid() != e.mainGID {
		return
	}
	switch name {
	case "shard.put.afterData":
		if e.ctx == "put" {
			e.at("putdata", 0, nil, e.w.byOID[args[0].(oid.Address).Object()], true)
		}
	case "shard.deleteObjs.afterWC":
		if e.ctx == "delete" || e.ctx == "gc" {
			e.at("delwc", e.w.byCID[args[0].(cid.ID)], e.w.idsOf(args[1].([]oid.ID)), 0, true)
		}
	case "shard.deleteObjs.afterMeta":
		if e.ctx == "delete" || e.ctx == "gc" {
			e.at("delmeta", e.w.byCID[args[0].(cid.ID)], e.w.idsOf(args[1].([]oid.ID)), 0, true)
		}
	}
}

// deco is the blobstor handed to the shard: the real FSTree plus step boundaries / fault injection.
type deco struct {
	common.Storage
	e *env
}

// raceState: FlushWriteCache running on its own goroutine, paused inside the blobstor Put of `target`
// (= after flushSingle read the object from the cache, before it is written).
type raceState struct {
	gid       uint64
	target    oid.Address
	reached   chan struct{}
	gate      chan struct{}
	done      chan string
	passed    bool
	pre, post []int
}

func (d *deco) Put(a oid.Address, data []byte) error {
	e := d.e
	if r := e.race; r != nil && gid() == r.gid {
		id := e.w.byOID[a.Object()]
		switch {
		case a == r.target && !r.passed:
			close(r.reached)
			<-r.gate
			r.passed = true
		case !r.passed:
			r.pre = append(r.pre, id)
		default:
			r.post = append(r.post, id)
		}
		return d.Storage.Put(a, data)
	}
	if gid() != e.mainGID {
		e.noteBg()
		return d.Storage.Put(a, data)
	}
	if e.ctx != "flush" {
		return d.Storage.Put(a, data)
	}
	id := e.w.byOID[a.Object()]
	e.faultable++
	if e.failAt > 0 && e.faultable == e.failAt {
		e.at("flushput", 0, nil, id, false)
		return errInjected
	}
	err := d.Storage.Put(a, data)
	if err == nil {
		e.at("flushput", 0, nil, id, true) // return of Put = before the cache delete
	}
	return err
}

// noteBg: a background flush worker reached the blobstor. While the shard reports read-write this only means the
// behaviour is no longer the scripted one (it is discarded); while it reports a READ-ONLY mode it is exactly what C14
// forbids, so the behaviour is kept and judged (digests / projection show the change).
func (e *env) noteBg() {
	if e.reportedRO.Load() {
		e.bgRO.Store(true)
		return
	}
	e.bg.Store(true)
}

func (d *deco) PutBatch(m map[oid.Address][]byte) error {
	d.e.noteBg() // only the background flush workers batch
	return d.Storage.PutBatch(m)
}

func (d *deco) Delete(a oid.Address) error {
	e := d.e
	if gid() != e.mainGID || (e.ctx != "delete" && e.ctx != "gc") {
		return d.Storage.Delete(a)
	}
	id := e.w.byOID[a.Object()]
	e.faultable++
	if e.failAt > 0 && e.faultable == e.failAt {
		e.at("delblob", 0, nil, id, false)
		return errInjected
	}
	err := d.Storage.Delete(a)
	e.at("delblob", 0, nil, id, err == nil || errors.Is(err, apistatus.ErrObjectNotFound))
	return err
}

func (d *deco) Close() error {
	if d.e.failBlobClose {
		return errInjected
	}
	return d.Storage.Close()
}

// ---------------------------------------------------------------- projection

func existsClass(ok bool, err error) string {
	switch {
	case err == nil && ok:
		return "true"
	case err == nil:
		return "false"
	case errors.Is(err, apistatus.ErrObjectAlreadyRemoved):
		return "removed"
	case errors.Is(err, meta.ErrObjectIsExpired):
		return "expired"
	case errors.Is(err, apistatus.ErrObjectNotFound):
		return "nf"
	case errors.Is(err, shard.ErrDegradedMode), errors.Is(err, meta.ErrDegradedMode):
		return "deg"
	}
	return "err"
}

func modeName(m mode.Mode) string {
	switch m {
	case mode.ReadWrite:
		return "RW"
	case mode.ReadOnly:
		return "RO"
	case mode.Degraded:
		return "DEG"
	case mode.DegradedReadOnly:
		return "DEGRO"
	}
	return m.String()
}

func parseMode(s string) mode.Mode {
	switch s {
	case "RW":
		return mode.ReadWrite
	case "RO":
		return mode.ReadOnly
	case "DEG":
		return mode.Degraded
	case "DEGRO":
		return mode.DegradedReadOnly
	}
	panic("bad mode " + s)
}

// safely runs f; a runtime panic of the code under test becomes the class "panic".
func safely(f func() string) (res string) {
	defer func() {
		if r := recover(); r != nil {
			res = "panic"
		}
	}()
	return f()
}

// project maps the real shard onto the model's observation (see spec/TraceShard.tla).
func (e *env) project() kit.M {
	n := e.w.n()
	b, wcs, st, g, rd := make([]bool, n), make([]bool, n), make([]bool, n), make([]bool, n), make([]bool, n)
	x := make([]string, n)
	db := e.sh.VerifShardaMeta()
	wc := e.sh.VerifShardaWC()
	garb := map[oid.ID]bool{}
	cn := make([]string, nCnr)
	listed := map[cid.ID]bool{}
	safely(func() string {
		if cs, err := db.Containers(); err == nil {
			for _, c := range cs {
				listed[c] = true
			}
		}
		return ""
	})
	for c := 1; c <= nCnr; c++ {
		cn[c-1] = "none"
		safely(func() string {
			_ = db.IterateOverGarbage(func(id oid.ID) error { garb[id] = true; return nil }, e.w.cnr[c], oid.ID{})
			if listed[e.w.cnr[c]] {
				cn[c-1] = "live"
				if s, err := db.ObjectStatus(e.w.dummy[c]); err == nil {
					for _, f := range s.State {
						if f == "GC MARKED" {
							cn[c-1] = "dead"
						}
					}
				}
			}
			return ""
		})
	}
	for i := 1; i <= n; i++ {
		a := e.w.addr[i]
		ok, _ := e.fst.Exists(a)
		b[i-1] = ok
		if wc != nil {
			_, err := wc.Get(a)
			wcs[i-1] = err == nil
		}
		st[i-1] = safely(func() string {
			if s, err := db.ObjectStatus(a); err == nil && len(s.HeaderIndex) > 0 {
				return "y"
			}
			return "n"
		}) == "y"
		g[i-1] = garb[a.Object()]
		x[i-1] = safely(func() string { return existsClass(e.sh.Exists(a, false)) })
		rd[i-1] = safely(func() string {
			o, err := e.sh.Get(a, false)
			if err == nil && o != nil && bytes.Equal(o.Marshal(), e.w.bin[i]) {
				return "y"
			}
			return "n"
		}) == "y"
	}
	return kit.M{"b": b, "w": wcs, "s": st, "g": g, "x": x, "r": rd, "cn": cn, "mode": modeName(e.sh.GetMode())}
}

// ---------------------------------------------------------------- operations

func resClass(err error) string {
	switch {
	case err == nil:
		return "ok"
	case errors.Is(err, shard.ErrReadOnlyMode), errors.Is(err, meta.ErrReadOnlyMode), errors.Is(err, writecache.ErrReadOnly), errors.Is(err, common.ErrReadOnly):
		return "ro"
	case errors.Is(err, shard.ErrDegradedMode), errors.Is(err, meta.ErrDegradedMode):
		return "deg"
	case errors.Is(err, apistatus.ErrObjectAlreadyRemoved):
		return "removed"
	case errors.Is(err, meta.ErrObjectIsExpired):
		return "expired"
	case errors.Is(err, apistatus.ErrObjectLocked):
		return "locked"
	case strings.Contains(err.Error(), "write-cache is disabled"):
		return "nowc"
	}
	return "err"
}

// guarded runs f as one shard operation with the crash / fault plan; reports whether it crashed.
func (e *env) guarded(ctx string, crashAt, failAt int, f func() error) (res string, crashed bool) {
	e.ctx, e.vis, e.crashAt, e.faultable, e.failAt = ctx, 0, crashAt, 0, failAt
	defer func() {
		e.ctx, e.crashAt, e.failAt = "", 0, 0
		if r := recover(); r != nil {
			if _, ok := r.(crashSentinel); !ok {
				// a genuine panic of the code under test: for a node this IS a process crash
				if _, isRT := r.(runtime.Error); !isRT {
					panic(r)
				}
				e.panics = append(e.panics, fmt.Sprintf("%s: %v", ctx, r))
			}
			crashed = true
		}
	}()
	return resClass(f()), false
}

// crashReopen: the process dies (volatile state lost), the node starts again on the same files.
func (e *env) crashReopen() {
	e.close()
	e.open()
}

func (e *env) finish(res string, crashed bool) {
	if crashed && e.race != nil {
		e.opFlushRelease() // the paused flush holds the shard's locks: let it finish before the restart
	}
	if crashed {
		e.crashReopen()
		e.emit(kit.M{"ev": "Crash", "panics": len(e.panics), "st": e.project()})
		return
	}
	e.emit(kit.M{"ev": "End", "res": res, "st": e.project()})
}

func (e *env) opPut(a, crashAt int) {
	e.emit(kit.M{"ev": "Start", "op": "Put", "a": a, "c": 0, "ids": []int{}})
	e.finish(e.guarded("put", crashAt, 0, func() error { return e.sh.Put(e.w.obj[a], nil) }))
}

func (e *env) opDelete(c int, ids []int, crashAt, failAt int) {
	e.emit(kit.M{"ev": "Start", "op": "Delete", "a": 0, "c": c, "ids": ids})
	e.finish(e.guarded("delete", crashAt, failAt, func() error { return e.sh.Delete(e.w.cnr[c], e.w.oids(ids)) }))
}

func (e *env) opGC(crashAt, failAt int) {
	e.emit(kit.M{"ev": "Start", "op": "GC", "a": 0, "c": 0, "ids": []int{}})
	e.finish(e.guarded("gc", crashAt, failAt, func() error { e.sh.VerifRunGC(); return nil }))
}

func (e *env) opFlush(crashAt, failAt int) {
	e.emit(kit.M{"ev": "Start", "op": "Flush", "a": 0, "c": 0, "ids": []int{}})
	e.finish(e.guarded("flush", crashAt, failAt, func() error { return e.sh.FlushWriteCache(false) }))
}

func (e *env) do(op string, f kit.M, res string) {
	ev := kit.M{"ev": "Do", "op": op, "e": 0, "c": 0, "ids": []int{}, "mk": "", "m": "", "fault": "", "res": res, "st": e.project()}
	for k, v := range f {
		ev[k] = v
	}
	e.emit(ev)
}

func (e *env) opEpoch() {
	ep := e.epoch.Add(1)
	res := safely(func() string { e.sh.VerifHandleEpoch(ep); return "ok" })
	e.do("Epoch", kit.M{"e": ep}, res)
}

func (e *env) opMark(c int, ids []int, mk string) {
	m := meta.GarbageMarkDefault
	if mk == "red" {
		m = meta.GarbageMarkRedundant
	}
	res := safely(func() string { return resClass(e.sh.MarkGarbage(e.w.cnr[c], e.w.oids(ids), m)) })
	e.do("Mark", kit.M{"c": c, "ids": ids, "mk": mk}, res)
}

func (e *env) opInhumeCnr(c int) {
	res := safely(func() string { return resClass(e.sh.InhumeContainer(e.w.cnr[c])) })
	e.do("InhumeCnr", kit.M{"c": c}, res)
}

func (e *env) opRestart() {
	e.crashReopen()
	e.emit(kit.M{"ev": "Crash", "st": e.project()})
}

// opResync: what `neofs-lancet meta resync` does while the node is down, then the node starts again.
func (e *env) opResync() {
	e.close()
	fst := e.newFSTree()
	kit.Must(fst.Open(true))
	kit.Must(fst.Init(common.ID{}))
	var order []int
	kit.Must(fst.IterateAddresses(func(a oid.Address) error {
		order = append(order, e.w.byOID[a.Object()])
		return nil
	}, false))
	db := meta.New(e.metaOpts()...)
	kit.Must(db.Open(false))
	kit.Must(db.Init(common.ID{}))
	err := db.ResyncFromBlobstor(fst, nil)
	kit.Must(db.Close())
	kit.Must(fst.Close())
	if err != nil {
		panic(fmt.Sprintf("resync failed: %v", err))
	}
	e.open()
	if order == nil {
		order = []int{}
	}
	e.do("Resync", kit.M{"ids": order}, "ok")
}

// opSettle is the bounded form of C44 on real code: users stop, epochs advance past every expiration of the
// catalogue (at least one tick), then k GC passes; afterwards nothing may be left (event ExpectClean).
func (e *env) opSettle(k int) {
	e.do("Quiesce", nil, "ok")
	const lastExp = 2
	for first := true; first || e.epoch.Load() <= lastExp; first = false {
		e.opEpoch()
		e.opGC(0, 0)
	}
	for i := 0; i < k; i++ {
		// epochs keep advancing: an object that became collectable inside an epoch that collectExpiredObjects has
		// already marked as processed (e.g. its lock was garbage-collected later in the same pass) is looked at
		// again only in the next epoch
		if i%3 == 2 {
			e.opEpoch()
		}
		e.opGC(0, 0)
	}
	e.do("ExpectClean", nil, "ok")
}

// opSetMode: Shard.SetMode(m) with an injected component failure (none | wc | blob | meta), without hooks:
// wc: the cache directory is replaced by a file while the call runs (openStore fails before touching anything);
// blob: the blobstor decorator fails Close (first thing setModeStorage does); meta: the bbolt file is replaced by
// a directory (bbolt.Open fails). The environment is repaired right after the call.
func (e *env) opSetMode(m, fault string) {
	var undo func()
	switch fault {
	case "wc":
		bak := e.wcDir() + ".bak"
		kit.Must(os.Rename(e.wcDir(), bak))
		kit.Must(os.WriteFile(e.wcDir(), []byte("x"), 0o600))
		undo = func() { kit.Must(os.Remove(e.wcDir())); kit.Must(os.Rename(bak, e.wcDir())) }
	case "blob":
		e.failBlobClose = true
		undo = func() { e.failBlobClose = false }
	case "meta":
		bak := e.metaPath() + ".bak"
		kit.Must(os.Rename(e.metaPath(), bak))
		kit.Must(os.Mkdir(e.metaPath(), 0o700))
		undo = func() { kit.Must(os.Remove(e.metaPath())); kit.Must(os.Rename(bak, e.metaPath())) }
	}
	e.ctx = "mode"
	res := safely(func() string {
		if err := e.sh.SetMode(parseMode(m)); err != nil {
			return "err"
		}
		return "ok"
	})
	e.ctx = ""
	if undo != nil {
		undo()
	}
	e.reportedRO.Store(e.sh.GetMode().ReadOnly())
	e.do("SetMode", kit.M{"m": m, "fault": fault}, res)
}

// opFlushHold starts Shard.FlushWriteCache on its own goroutine and pauses it between reading object a from the
// cache and putting it into the blobstor; other requests run meanwhile (flush-versus-delete schedules).
func (e *env) opFlushHold(a int) {
	wc := e.sh.VerifShardaWC()
	if e.race != nil || wc == nil || modeName(e.sh.GetMode()) != "RW" {
		return
	}
	if _, err := wc.Get(e.w.addr[a]); err != nil {
		return
	}
	r := &raceState{target: e.w.addr[a], reached: make(chan struct{}), gate: make(chan struct{}), done: make(chan string, 1)}
	started := make(chan struct{})
	go func() {
		r.gid = gid()
		e.race = r
		close(started)
		r.done <- safely(func() string { return resClass(e.sh.FlushWriteCache(false)) })
	}()
	<-started
	select {
	case <-r.reached:
		e.do("FlushHold", kit.M{"a": a, "ids": append([]int{}, r.pre...)}, "ok")
	case res := <-r.done: // never got to a: an ordinary complete flush
		e.race = nil
		panic("flush did not reach the held address: " + res)
	}
}

func (e *env) opFlushRelease() {
	r := e.race
	if r == nil {
		return
	}
	close(r.gate)
	res := <-r.done
	e.race = nil
	e.do("FlushRelease", kit.M{"ids": append([]int{}, r.post...)}, res)
}
