package main

import (
	"crypto/sha256"
	"strconv"

	"github.com/nspcc-dev/neo-go/pkg/util"
	"github.com/nspcc-dev/neofs-sdk-go/checksum"
	cid "github.com/nspcc-dev/neofs-sdk-go/container/id"
	"github.com/nspcc-dev/neofs-sdk-go/object"
	oid "github.com/nspcc-dev/neofs-sdk-go/object/id"
	"github.com/nspcc-dev/neofs-sdk-go/user"
)

// catEntry is one object of the fixed catalogue. MUST equal Cat in spec/Shard.tla.
type catEntry struct {
	Typ string // REG | TS | LOCK
	C   int    // container 1..2
	Tgt int    // target id of TS / LOCK, 0 otherwise
	Exp uint64 // expiration epoch, 0 = none
}

var catalogue = []catEntry{
	{"REG", 1, 0, 0},
	{"REG", 1, 0, 1},
	{"TS", 1, 1, 2},
	{"LOCK", 1, 2, 2},
	{"REG", 2, 0, 0},
	{"REG", 2, 0, 1},
	{"REG", 1, 0, 1},
	{"LOCK", 1, 7, 0}, // a lock that never expires
}

const nCnr = 2

// world materialises the catalogue as real objects. Byte order of CIDs / OIDs equals numeric order of
// the model's ids, so bbolt iteration order (buckets, keys) is the model's order.
type world struct {
	cnr   [nCnr + 1]cid.ID
	id    []oid.ID      // 1-based
	addr  []oid.Address // 1-based
	obj   []*object.Object
	bin   [][]byte
	dummy [nCnr + 1]oid.Address // address that is never stored (container state probe)
	byOID map[oid.ID]int
	byCID map[cid.ID]int
}

func newWorld() *world {
	w := &world{byOID: map[oid.ID]int{}, byCID: map[cid.ID]int{}}
	for c := 1; c <= nCnr; c++ {
		for i := range w.cnr[c] {
			w.cnr[c][i] = byte(0x11*c + i)
		}
		w.cnr[c][0] = byte(0x20 * c)
		w.byCID[w.cnr[c]] = c
		var d oid.ID
		for i := range d {
			d[i] = 0xEE
		}
		w.dummy[c] = oid.NewAddress(w.cnr[c], d)
	}
	owner := user.NewFromScriptHash(util.Uint160{1, 2, 3, 4, 5})
	n := len(catalogue)
	w.id = make([]oid.ID, n+1)
	w.addr = make([]oid.Address, n+1)
	w.obj = make([]*object.Object, n+1)
	w.bin = make([][]byte, n+1)
	for i := 1; i <= n; i++ {
		for j := range w.id[i] {
			w.id[i][j] = byte(7*i + 3*j + 1)
		}
		w.id[i][0] = byte(0x10 * i)
		w.byOID[w.id[i]] = i
	}
	for i := 1; i <= n; i++ {
		ce := catalogue[i-1]
		o := object.New(w.cnr[ce.C], owner)
		o.SetID(w.id[i])
		var payload []byte
		switch ce.Typ {
		case "REG":
			payload = []byte("payload of object #" + strconv.Itoa(i) + " ................................")
			o.SetPayload(payload)
		case "TS":
			o.AssociateDeleted(w.id[ce.Tgt])
		case "LOCK":
			o.AssociateLocked(w.id[ce.Tgt])
		}
		o.SetPayloadSize(uint64(len(payload)))
		o.SetPayloadChecksum(checksum.NewSHA256(sha256.Sum256(payload)))
		if ce.Exp > 0 {
			o.SetAttributes(append(o.Attributes(), object.NewAttribute(object.AttributeExpirationEpoch, strconv.FormatUint(ce.Exp, 10)))...)
		}
		w.obj[i] = o
		w.bin[i] = o.Marshal()
		w.addr[i] = oid.NewAddress(w.cnr[ce.C], w.id[i])
	}
	return w
}

func (w *world) n() int { return len(catalogue) }

func (w *world) oids(ids []int) []oid.ID {
	r := make([]oid.ID, len(ids))
	for i, x := range ids {
		r[i] = w.id[x]
	}
	return r
}

func (w *world) idsOf(o []oid.ID) []int {
	r := make([]int, len(o))
	for i, x := range o {
		r[i] = w.byOID[x] // 0 = unknown
	}
	return r
}
