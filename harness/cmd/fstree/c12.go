package main

import (
	"encoding/hex"
	"encoding/json"
	"fmt"
	"os"
	"os/signal"
	"strings"
	"sync"
	"sync/atomic"
	"syscall"
	"time"

	oid "github.com/nspcc-dev/neofs-sdk-go/object/id"
	"golang.org/x/sys/unix"
	"verifharness/internal/kit"
)

// ---------------------------------------------------------------------------------------------
// C12 / C13: a worker process performs a write job on a real FSTree and reports every result with ONE
// write(2) on the ack file; the parent runs it under strace (clean, with SIGKILL injection, with error
// injection). A verifier process reopens the tree and reads everything back.

type sysOp struct {
	Kind string `json:"kind"` // put | batch | par | del | torn
	A    int    `json:"a,omitempty"`
	As   []int  `json:"as,omitempty"`
	Cut  int    `json:"cut,omitempty"` // torn: bytes of the second object's record that still fit the file size limit
}

type sysJob struct {
	Root   string   `json:"root"`
	Cfg    treeCfg  `json:"cfg"`
	N      int      `json:"n"`
	Salt   int64    `json:"salt"`
	Vars   []c10Var `json:"vars"`
	Ops    []sysOp  `json:"ops"`
	Ack    string   `json:"ack"`
	HangMs int      `json:"hang_ms"`
}

func loadJob(path string) (sysJob, *universe) {
	var j sysJob
	b, err := os.ReadFile(path)
	kit.Must(err)
	kit.Must(json.Unmarshal(b, &j))
	spec := map[int]objSpec{}
	for _, v := range j.Vars {
		spec[v.A] = objSpec{Total: v.Total, Attr: v.Attr, Pat: v.Pat, Z: v.Z}
	}
	u := newUniverse(j.N, j.Salt, func(a, v int) objSpec { return spec[a] })
	return j, u
}

// worker: one version (1) per address.
func worker(jobPath string) {
	j, u := loadJob(jobPath)
	ack, err := unix.Open(j.Ack, unix.O_WRONLY|unix.O_CREAT|unix.O_APPEND, 0o600)
	kit.Must(err)
	var ackMu sync.Mutex
	say := func(s string) {
		ackMu.Lock()
		defer ackMu.Unlock()
		// pwrite64, so that fault / crash injection on write(2) never hits the acknowledgement channel
		_, _ = unix.Pwrite(ack, []byte(s+"\n"), 0)
	}
	// object paths, for the strace-log parser
	names := map[string]int{}
	for a := 1; a <= j.N; a++ {
		names[treePath(j.Root, j.Cfg.Depth, u.addr(a))] = a
		names["oid:"+hex.EncodeToString(u.ids[a-1][:])] = a
		u.get(a, 1) // build before the traced phase
	}
	nb, _ := json.Marshal(names)
	kit.Must(os.WriteFile(j.Ack+".names", nb, 0o600))

	t := openTree(j.Root, j.Cfg)
	hang := time.Duration(j.HangMs) * time.Millisecond
	if hang <= 0 {
		hang = 8 * time.Second
	}
	// The watchdog measures progress, not the length of the job: it fires when no operation began or answered
	// for hang (a job of many slow steps on a loaded machine is not a hang).
	done := make(chan struct{})
	var lastProgress atomic.Int64
	lastProgress.Store(time.Now().UnixNano())
	progress := func(s string) {
		lastProgress.Store(time.Now().UnixNano())
		say(s)
	}
	go func() {
		tk := time.NewTicker(hang / 20)
		defer tk.Stop()
		for {
			select {
			case <-done:
				return
			case <-tk.C:
				if time.Since(time.Unix(0, lastProgress.Load())) > hang {
					say("HANG")
					os.Exit(3)
				}
			}
		}
	}()
	progress("START")
	resOf := func(err error) string {
		switch {
		case err == nil:
			return "ok"
		case isNotFound(err):
			return "nf"
		}
		fmt.Fprintln(os.Stderr, "op error:", err)
		return "err"
	}
	for i, op := range j.Ops {
		switch op.Kind {
		case "put":
			progress(fmt.Sprintf("B %d put %d", i, op.A))
			progress(fmt.Sprintf("R %d put %d %s", i, op.A, resOf(t.Put(u.addr(op.A), u.get(op.A, 1).stored))))
		case "del":
			progress(fmt.Sprintf("B %d del %d", i, op.A))
			progress(fmt.Sprintf("R %d del %d %s", i, op.A, resOf(t.Delete(u.addr(op.A)))))
		case "batch":
			mp := map[oid.Address][]byte{}
			var as []string
			for _, a := range op.As {
				mp[u.addr(a)] = u.get(a, 1).stored
				as = append(as, fmt.Sprint(a))
			}
			progress(fmt.Sprintf("B %d batch %s", i, strings.Join(as, ",")))
			progress(fmt.Sprintf("R %d batch %s %s", i, strings.Join(as, ","), resOf(t.PutBatch(mp))))
		case "par":
			var wg sync.WaitGroup
			for _, a := range op.As {
				wg.Add(1)
				progress(fmt.Sprintf("B %d put %d", i, a))
				go func() {
					defer wg.Done()
					r := resOf(t.Put(u.addr(a), u.get(a, 1).stored))
					progress(fmt.Sprintf("R %d put %d %s", i, a, r))
				}()
			}
			wg.Wait()
		case "torn":
			// A real short writev in the middle of a timed batch: Put(as[0]) waits for its batch; the soft
			// RLIMIT_FSIZE is lowered so that the kernel cuts the record of as[1] after Cut bytes; the limit is
			// restored and as[2] is put while the batch of as[0] may still be open; Close flushes.
			signal.Ignore(syscall.SIGXFSZ)
			var wg sync.WaitGroup
			answered := map[int]chan struct{}{}
			for _, a := range op.As {
				answered[a] = make(chan struct{})
			}
			put := func(a int) {
				defer wg.Done()
				r := resOf(t.Put(u.addr(a), u.get(a, 1).stored))
				close(answered[a])
				progress(fmt.Sprintf("R %d put %d %s", i, a, r))
			}
			// appear waits until the object file is linked; a Put that already answered without linking it
			// (a failed write or link) ends the wait at once
			appear := func(a int) int64 {
				p := treePath(j.Root, j.Cfg.Depth, u.addr(a))
				for k := 0; k < 4000; k++ {
					if st, err := os.Stat(p); err == nil {
						return st.Size()
					}
					select {
					case <-answered[a]:
						if st, err := os.Stat(p); err == nil {
							return st.Size()
						}
						return -1
					case <-time.After(time.Millisecond):
					}
				}
				return -1
			}
			a, b, c := op.As[0], op.As[1], op.As[2]
			progress(fmt.Sprintf("B %d put %d", i, a))
			wg.Add(1)
			go put(a)
			if sz := appear(a); sz >= 0 {
				var orig unix.Rlimit
				kit.Must(unix.Getrlimit(unix.RLIMIT_FSIZE, &orig))
				lim := orig
				lim.Cur = uint64(sz) + uint64(op.Cut)
				kit.Must(unix.Setrlimit(unix.RLIMIT_FSIZE, &lim))
				progress(fmt.Sprintf("B %d put %d", i, b))
				r := resOf(t.Put(u.addr(b), u.get(b, 1).stored))
				kit.Must(unix.Setrlimit(unix.RLIMIT_FSIZE, &orig))
				progress(fmt.Sprintf("R %d put %d %s", i, b, r))
			}
			progress(fmt.Sprintf("B %d put %d", i, c))
			wg.Add(1)
			go put(c)
			appear(c)
			_ = t.Close()
			wg.Wait()
		default:
			kit.Must(fmt.Errorf("unknown op kind %q", op.Kind))
		}
	}
	progress("DONE")
	_ = t.Close() // Close takes the writer's locks: still under the watchdog
	close(done)
}

// verify reopens the tree after the worker ended (or was killed) and reads everything back:
// before and after CleanUpTmp.
func verify(jobPath, out string) {
	j, u := loadJob(jobPath)
	for a := 1; a <= j.N; a++ {
		u.get(a, 1)
	}
	cfg := j.Cfg
	t := openTree(j.Root, cfg)
	rn := &c10Runner{u: u, t: t, root: j.Root, cfg: cfg, r: kit.Rand(12)}
	pass := func() kit.M {
		res := make([]int, j.N)
		for a := 1; a <= j.N; a++ {
			r1 := rn.read("bytes", a)
			for _, api := range []string{"get", "stream", "head", "readobj"} {
				if r2 := rn.read(api, a); r2 != r1 {
					fmt.Fprintf(os.Stderr, "verify: a=%d bytes=%d %s=%d\n", a, r1, api, r2)
					if r1 >= 0 {
						r1 = resBad
					}
				}
			}
			res[a-1] = r1
		}
		tmp := 0
		for _, f := range listTreeFiles(j.Root) {
			if strings.Contains(f, "#") {
				tmp++
			}
		}
		return kit.M{"res": res, "it": rn.iterate(true), "ita": rn.iterate(false), "tmpfiles": tmp}
	}
	before := pass()
	// the interrupted Puts are retried after the restart (client retry / replication), BEFORE any clean-up:
	// leftovers of the crashed run must not leak into the objects
	retried := make([]string, j.N)
	for a := 1; a <= j.N; a++ {
		r := guard(func() int {
			if err := t.Put(u.addr(a), u.get(a, 1).stored); err != nil {
				fmt.Fprintln(os.Stderr, "retry put:", a, err)
				return resErr
			}
			return resOK
		})
		retried[a-1] = map[int]string{resOK: "ok", resErr: "err", resPanic: "panic"}[r]
	}
	retry := pass()
	retry["put"] = retried
	cl := "ok"
	if err := t.CleanUpTmp(); err != nil {
		cl = err.Error()
	}
	after := pass()
	_ = t.Close()
	b, _ := json.Marshal(kit.M{"before": before, "retry": retry, "cleanup": cl, "after": after})
	kit.Must(os.WriteFile(out, b, 0o600))
}
