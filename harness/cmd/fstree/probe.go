package main

import (
	"bytes"
	"fmt"
	"os"
	"sync"
	"time"
)

// probe: throw-away experiments (not used by any check).
func probe() {
	dir, _ := os.MkdirTemp("", "probe")
	defer os.RemoveAll(dir)
	sizes := map[int]int{}
	u := newUniverse(6, 1, func(a, v int) objSpec { return objSpec{Total: sizes[a], Pat: 1} })
	run := func(name string, ls []int) {
		root := dir + "/" + name
		cfg := treeCfg{Depth: 1, Cnt: len(ls), SzLim: 8 << 20, Thr: 128 << 10, Writer: "linux", NoSync: true, Interval: 200}
		t := openTree(root, cfg)
		u.objs = map[[2]int]*objV{}
		for i, l := range ls {
			sizes[i+1] = l
		}
		var wg sync.WaitGroup
		for i := range ls {
			o := u.get(i+1, 1)
			if len(o.bin) != ls[i] {
				fmt.Println("size miss", len(o.bin), ls[i])
			}
			wg.Add(1)
			go func() { defer wg.Done(); fmt.Println("put", o.a, t.Put(u.addr(o.a), o.stored)) }()
			time.Sleep(5 * time.Millisecond)
		}
		wg.Wait()
		fmt.Println(name, "layout", u.layout(root, 1)[0])
		for i := range ls {
			o := u.get(i+1, 1)
			func() {
				defer func() {
					if r := recover(); r != nil {
						fmt.Println(name, "member", i+1, "PANIC", r)
					}
				}()
				b, err := t.GetBytes(u.addr(o.a))
				fmt.Println(name, "member", i+1, "GetBytes", err, bytes.Equal(b, o.bin))
				hdr, rc, err := t.GetStream(u.addr(o.a))
				if err != nil {
					fmt.Println(name, "member", i+1, "GetStream err", err)
					return
				}
				pl, err := readAllClose(rc)
				fmt.Println(name, "member", i+1, "GetStream", err, "hdr ok", bytes.Equal(hdr.Marshal(), o.hdrBin), "payload ok", bytes.Equal(pl, o.payload), len(pl), len(o.payload))
			}()
		}
	}
	N := BufN
	r := 20
	run("exactN", []int{N, 300})
	run("straddle", []int{N - 38 - r, N - 76 + 10, N + 5})
}
