// Command fstree binds spec/FSTree.tla (C10), spec/FSTreeSys.tla (C12, C13) and spec/Range.tla (C11)
// to the real pkg/local_object_storage/blobstor/fstree (and write-cache / shard / engine for C11).
//
//	fstree c10gen  <n> <len> <out.ndjson>             seeded random + boundary-directed scripts
//	fstree c10run  <scripts.ndjson> <trace.ndjson>    execute scripts on a real FSTree, one event per spec action
//	fstree worker  <job.json>                         perform one write job (C12/C13), ack every result on fd 3
//	fstree verify  <job.json> <out.json>              reopen the tree of a (crashed) job and read everything back
//	fstree c11     <out.ndjson> <kind> <lens> <span>  range records from FSTree / write-cache / shard / engine
package main

import (
	"fmt"
	"os"
	"strconv"
	"strings"
)

func atoi(s string) int {
	v, err := strconv.Atoi(s)
	if err != nil {
		fmt.Fprintln(os.Stderr, "bad int", s)
		os.Exit(2)
	}
	return v
}

func main() {
	if len(os.Args) < 2 {
		fmt.Fprintln(os.Stderr, "usage: fstree <sub-command> ...")
		os.Exit(2)
	}
	switch os.Args[1] {
	case "c10gen":
		c10gen(atoi(os.Args[2]), atoi(os.Args[3]), os.Args[4])
	case "c10run":
		c10run(os.Args[2], os.Args[3])
	case "c10stats":
		c10stats(os.Args[2])
	case "c11":
		// fstree c11 <out.ndjson> <small|large|big> <len,len,...> <span>
		var lens []int
		for _, x := range strings.Split(os.Args[4], ",") {
			lens = append(lens, atoi(x))
		}
		c11(os.Args[2], os.Args[3], lens, atoi(os.Args[5]))
	case "c11one":
		// fstree c11one <out.ndjson> <mode> <a> <b> <L>
		a, _ := strconv.ParseUint(os.Args[4], 10, 64)
		b, _ := strconv.ParseUint(os.Args[5], 10, 64)
		oneReq = rngIn{Mode: os.Args[3], A: a, B: b, L: atoi(os.Args[6])}
		c11(os.Args[2], "one", []int{oneReq.L}, 0)
	case "worker":
		worker(os.Args[2])
	case "verify":
		verify(os.Args[2], os.Args[3])
	default:
		fmt.Fprintln(os.Stderr, "unknown sub-command", os.Args[1])
		os.Exit(2)
	}
}
