package main

import (
	"bytes"
	"crypto/sha256"
	"encoding/binary"
	"encoding/hex"
	"errors"
	"fmt"
	"io"
	"math/rand"
	"os"
	"path/filepath"
	"strings"
	"time"

	"github.com/klauspost/compress/zstd"
	"github.com/nspcc-dev/neo-go/pkg/util"
	"github.com/nspcc-dev/neofs-node/pkg/local_object_storage/blobstor/common"
	"github.com/nspcc-dev/neofs-node/pkg/local_object_storage/blobstor/fstree"
	"github.com/nspcc-dev/neofs-sdk-go/checksum"
	apistatus "github.com/nspcc-dev/neofs-sdk-go/client/status"
	cid "github.com/nspcc-dev/neofs-sdk-go/container/id"
	"github.com/nspcc-dev/neofs-sdk-go/object"
	oid "github.com/nspcc-dev/neofs-sdk-go/object/id"
	"github.com/nspcc-dev/neofs-sdk-go/user"
	"verifharness/internal/kit"
)

// BufN is objectwire.NonPayloadFieldsBufferLength (internal package, not importable): the
// header buffer granule of the FSTree readers. Checked at start-up against the behaviour of the
// public API (ReadHeader rejects buffers shorter than 2*BufN).
const BufN = 20 << 10

// combinedDataOff mirrors the on-disk combined prefix: 0x7f, version 0, OID(32), BE uint32 length.
const combinedDataOff = 2 + 32 + 4

// treeCfg is the configuration of one FSTree instance (all public options).
type treeCfg struct {
	Depth    int    `json:"depth"`
	Cnt      int    `json:"cnt"`    // combinedCountLimit
	SzLim    int    `json:"szlim"`  // combinedSizeLimit
	Thr      int    `json:"thr"`    // combinedSizeThreshold
	Writer   string `json:"writer"` // "linux" (Init => O_TMPFILE batching writer) | "generic" (no Init)
	NoSync   bool   `json:"nosync"`
	Interval int    `json:"interval"` // combinedWriteInterval, ms
}

func openTree(root string, c treeCfg) *fstree.FSTree {
	kit.Must(os.MkdirAll(root, 0o700))
	iv := c.Interval
	if iv <= 0 {
		iv = 2
	}
	t := fstree.New(
		fstree.WithPath(root),
		fstree.WithDepth(uint64(c.Depth)),
		fstree.WithNoSync(c.NoSync),
		fstree.WithCombinedCountLimit(c.Cnt),
		fstree.WithCombinedSizeLimit(c.SzLim),
		fstree.WithCombinedSizeThreshold(c.Thr),
		fstree.WithCombinedWriteInterval(time.Duration(iv)*time.Millisecond),
	)
	kit.Must(t.Open(false))
	if c.Writer != "generic" {
		// Init installs the OS-specific (O_TMPFILE + linkat) writer when the file system supports it.
		kit.Must(t.Init(common.ID{}))
	}
	return t
}

// universe: addresses 1..N with fixed container and object IDs, and deterministic object variants.
type universe struct {
	salt  int64
	cnr   cid.ID
	owner user.ID
	ids   []oid.ID         // index a-1
	addrs []oid.Address    // index a-1
	byStr map[string]int   // address string -> a
	objs  map[[2]int]*objV // (a,v) -> variant
	spec  func(a, v int) objSpec
}

type objSpec struct {
	Total int  // target size of the marshalled object (0 = header only, no payload)
	Attr  int  // length of the filler attribute value
	Pat   int  // 0: payload byte i = i mod 251; 1: pseudo-random payload
	Z     bool // stored zstd-compressed
}

type objV struct {
	a, v    int
	spec    objSpec
	obj     *object.Object
	bin     []byte // canonical (uncompressed) binary
	stored  []byte // bytes handed to Put (== bin, or zstd(bin))
	hdrBin  []byte // CutPayload().Marshal()
	payload []byte
	dig     string
}

func newUniverse(n int, salt int64, spec func(a, v int) objSpec) *universe {
	r := kit.Rand(salt)
	u := &universe{salt: salt, byStr: map[string]int{}, objs: map[[2]int]*objV{}, spec: spec}
	r.Read(u.cnr[:])
	var sh util.Uint160
	r.Read(sh[:])
	u.owner = user.NewFromScriptHash(sh)
	for a := 1; a <= n; a++ {
		var id oid.ID
		r.Read(id[:])
		u.ids = append(u.ids, id)
		ad := oid.NewAddress(u.cnr, id)
		u.addrs = append(u.addrs, ad)
		u.byStr[ad.EncodeToString()] = a
	}
	return u
}

func (u *universe) addr(a int) oid.Address { return u.addrs[a-1] }

func digest(b []byte) string {
	h := sha256.Sum256(b)
	return hex.EncodeToString(h[:8])
}

func payloadBytes(a, v, n, pat int, salt int64) []byte {
	p := make([]byte, n)
	if pat == 0 {
		for i := range p {
			p[i] = byte(i % 251)
		}
		return p
	}
	if pat == 2 {
		for i := range p {
			p[i] = C11Byte(i)
		}
		return p
	}
	rand.New(rand.NewSource(salt*7919 + int64(a)*131 + int64(v))).Read(p)
	return p
}

func (u *universe) build(a, v int, s objSpec) *objV {
	mk := func(pl int) *object.Object {
		o := object.New(u.cnr, u.owner)
		o.SetID(u.ids[a-1])
		o.SetType(object.TypeRegular)
		o.SetCreationEpoch(uint64(100*a + v))
		at := []object.Attribute{object.NewAttribute("verif", fmt.Sprintf("a%d-v%d", a, v))}
		if s.Attr > 0 {
			at = append(at, object.NewAttribute("filler", strings.Repeat("x", s.Attr)))
		}
		o.SetAttributes(at...)
		o.SetPayloadSize(uint64(pl))
		var pld []byte
		if pl > 0 {
			pld = payloadBytes(a, v, pl, s.Pat, u.salt)
			o.SetPayload(pld)
		}
		o.SetPayloadChecksum(checksum.NewSHA256(sha256.Sum256(pld))) // the metabase insists on it
		return o
	}
	o := mk(0)
	if base := len(o.Marshal()); s.Total > base {
		pl := s.Total - base
		for i := 0; i < 6; i++ {
			o = mk(pl)
			d := s.Total - len(o.Marshal())
			if d == 0 || pl+d <= 0 {
				break
			}
			pl += d
		}
	}
	ov := &objV{a: a, v: v, spec: s, obj: o}
	ov.bin = o.Marshal()
	ov.stored = ov.bin
	if s.Z {
		ov.stored = zstdCompress(ov.bin)
	}
	ov.hdrBin = o.CutPayload().Marshal()
	ov.payload = o.Payload()
	ov.dig = digest(ov.bin)
	return ov
}

func (u *universe) get(a, v int) *objV {
	k := [2]int{a, v}
	if o, ok := u.objs[k]; ok {
		return o
	}
	o := u.build(a, v, u.spec(a, v))
	u.objs[k] = o
	return o
}

// which returns the version v of address a whose canonical binary equals b, or -1.
func (u *universe) which(a int, b []byte) int {
	for k, o := range u.objs {
		if k[0] == a && bytes.Equal(o.bin, b) {
			return k[1]
		}
	}
	return -1
}

// whichAny identifies (a, v) of canonical or stored bytes b among all built variants.
func (u *universe) whichAny(b []byte) (int, int) {
	for k, o := range u.objs {
		if bytes.Equal(o.bin, b) || bytes.Equal(o.stored, b) {
			return k[0], k[1]
		}
	}
	return 0, 0
}

var zenc, _ = zstd.NewWriter(nil)

func zstdCompress(b []byte) []byte { return zenc.EncodeAll(b, nil) }

func isNotFound(err error) bool { return errors.Is(err, apistatus.ErrObjectNotFound) }

// ----------------------------------------------------------------------------------------------
// Independent raw-file parser (projection of the on-disk layout onto spec/FSTree.tla's `loc`).

type member struct {
	A int `json:"a"`
	V int `json:"v"`
}
type fileLay struct {
	Comb bool     `json:"comb"`
	Mem  []member `json:"mem"`
}

func (u *universe) oidIndex(id []byte) int {
	for i := range u.ids {
		if bytes.Equal(u.ids[i][:], id) {
			return i + 1
		}
	}
	return 0
}

// parseRaw decodes a raw object file: plain (whole file is one stored blob) or combined.
func (u *universe) parseRaw(owner int, raw []byte) fileLay {
	unz := func(b []byte) []byte {
		if len(b) >= 4 && bytes.Equal(b[:4], []byte{0x28, 0xb5, 0x2f, 0xfd}) {
			d, err := zstd.NewReader(nil)
			kit.Must(err)
			defer d.Close()
			out, err := d.DecodeAll(b, nil)
			if err == nil {
				return out
			}
		}
		return b
	}
	if len(raw) >= combinedDataOff && raw[0] == 0x7f && raw[1] == 0 {
		fl := fileLay{Comb: true, Mem: []member{}}
		off := 0
		for off+combinedDataOff <= len(raw) && raw[off] == 0x7f && raw[off+1] == 0 {
			a := u.oidIndex(raw[off+2 : off+34])
			l := int(binary.BigEndian.Uint32(raw[off+34 : off+38]))
			off += combinedDataOff
			if off+l > len(raw) {
				fl.Mem = append(fl.Mem, member{A: a, V: -1})
				return fl
			}
			v := -1
			if a > 0 {
				v = u.which(a, unz(raw[off:off+l]))
			}
			fl.Mem = append(fl.Mem, member{A: a, V: v})
			off += l
		}
		if off != len(raw) {
			fl.Mem = append(fl.Mem, member{A: 0, V: -1})
		}
		return fl
	}
	// a plain file is returned by the readers whatever it contains: identify the content
	a, v := u.whichAny(unz(raw))
	if a == 0 {
		a, v = owner, -1
	}
	return fileLay{Comb: false, Mem: []member{{A: a, V: v}}}
}

// treePath is an independent re-statement of the documented layout (doc.go): Depth one-character
// directories taken from "<OID>.<CID>" and the rest as the file name.
func treePath(root string, depth int, ad oid.Address) string {
	s := ad.Object().EncodeToString() + "." + ad.Container().EncodeToString()
	parts := []string{root}
	for i := 0; i < depth; i++ {
		parts = append(parts, s[:1])
		s = s[1:]
	}
	return filepath.Join(append(parts, s)...)
}

func (u *universe) layout(root string, depth int) []fileLay {
	out := make([]fileLay, len(u.addrs))
	for i, ad := range u.addrs {
		raw, err := os.ReadFile(treePath(root, depth, ad))
		if err != nil {
			out[i] = fileLay{Mem: []member{}}
			continue
		}
		out[i] = u.parseRaw(i+1, raw)
	}
	return out
}

// listTreeFiles returns every regular file name below root (relative), for temp-file checks.
func listTreeFiles(root string) []string {
	var out []string
	_ = filepath.Walk(root, func(p string, info os.FileInfo, err error) error {
		if err == nil && !info.IsDir() {
			rel, _ := filepath.Rel(root, p)
			out = append(out, rel)
		}
		return nil
	})
	return out
}

func readAllClose(rc io.ReadCloser) ([]byte, error) {
	if rc == nil {
		return nil, errors.New("nil stream")
	}
	defer rc.Close()
	return io.ReadAll(rc)
}
