package main

import (
	"context"
	"errors"
	"fmt"
	"io"
	"math"
	"os"
	"path/filepath"
	"sort"
	"strconv"
	"strings"
	"time"

	"github.com/nspcc-dev/bbolt"
	"github.com/nspcc-dev/neofs-node/pkg/local_object_storage/blobstor/common"
	"github.com/nspcc-dev/neofs-node/pkg/local_object_storage/blobstor/fstree"
	"github.com/nspcc-dev/neofs-node/pkg/local_object_storage/engine"
	meta "github.com/nspcc-dev/neofs-node/pkg/local_object_storage/metabase"
	"github.com/nspcc-dev/neofs-node/pkg/local_object_storage/shard"
	"github.com/nspcc-dev/neofs-node/pkg/local_object_storage/writecache"
	apistatus "github.com/nspcc-dev/neofs-sdk-go/client/status"
	cid "github.com/nspcc-dev/neofs-sdk-go/container/id"
	"github.com/nspcc-dev/neofs-sdk-go/object"
	oid "github.com/nspcc-dev/neofs-sdk-go/object/id"
	"go.uber.org/zap"
	"verifharness/internal/kit"
)

// ---------------------------------------------------------------------------------------------
// C11: payload range reads. One object per payload length L (payload byte i = i mod 251) is stored in every
// source; every range request is issued through every range API of every source and the answers are
// aggregated per input: {"in":{mode,a,b,L}, "out":{st,off,n}, "srcs":k} - one record per distinct answer.

type epoch0 struct{}

func (epoch0) CurrentEpoch() uint64 { return 10 }

type paid struct{}

func (paid) PaymentsDisabled() bool            { return true }
func (paid) UnpaidSince(cid.ID) (int64, error) { return -1, nil }

type rngIn struct {
	Mode string `json:"mode"` // none | offlen | bounds | from | suffix
	A    uint64 `json:"-"`
	B    uint64 `json:"-"`
	L    int    `json:"L"`
}

type rngOut struct {
	St     string `json:"st"`     // ok | oor | err | panic
	N      int    `json:"n"`      // bytes returned
	Head   string `json:"head"`   // first <= 8 returned bytes, comma separated
	Tail   string `json:"tail"`   // last <= 8 returned bytes
	Contig bool   `json:"contig"` // the returned bytes are one contiguous slice of the stored payload
}

// C11Byte is the payload pattern of the C11 objects; spec/Range.tla has the same function (Byte).
// For i < 251 it equals i (= i mod 251).
func C11Byte(i int) byte { return byte((i + 7*(i/251)) % 256) }

func joinBytes(b []byte) string {
	s := ""
	for i, x := range b {
		if i > 0 {
			s += ","
		}
		s += strconv.Itoa(int(x))
	}
	return s
}

func (i rngIn) rng() common.PayloadRange {
	switch i.Mode {
	case "none":
		return common.PayloadRange{}
	case "offlen":
		return common.NewPayloadRange(i.A, i.B)
	case "bounds":
		return common.NewPayloadRangeBounds(i.A, i.B)
	case "from":
		return common.NewPayloadRangeFrom(i.A)
	case "suffix":
		return common.NewPayloadRangeSuffix(i.A)
	}
	panic("mode")
}

// a range source: one stored copy of the objects + the range APIs that reach it
type rngSrc struct {
	name string
	skip map[oid.Address]bool // objects not stored in this source
	// call returns the payload stream of the request (nil API = not applicable to this mode)
	apis map[string]func(ad oid.Address, in rngIn) (io.ReadCloser, error)
}

func classify(payload []byte, rc io.ReadCloser, err error) rngOut {
	if err != nil {
		if errors.Is(err, apistatus.ErrObjectOutOfRange) {
			return rngOut{St: "oor"}
		}
		fmt.Fprintln(os.Stderr, "range error:", err)
		return rngOut{St: "err"}
	}
	b, err := readAllClose(rc)
	if err != nil {
		fmt.Fprintln(os.Stderr, "range stream error:", err)
		return rngOut{St: "err"}
	}
	out := rngOut{St: "ok", N: len(b), Head: joinBytes(b[:min(8, len(b))]), Tail: joinBytes(b[max(0, len(b)-8):]), Contig: len(b) == 0}
	for off := 0; off+len(b) <= len(payload) && !out.Contig; off++ {
		if payload[off] == b[0] && string(payload[off:off+len(b)]) == string(b) {
			out.Contig = true
		}
	}
	return out
}

func safeCall(payload []byte, f func() (io.ReadCloser, error)) (out rngOut) {
	defer func() {
		if p := recover(); p != nil {
			fmt.Fprintln(os.Stderr, "panic in range call:", p)
			out = rngOut{St: "panic"}
		}
	}()
	rc, err := f()
	return classify(payload, rc, err)
}

// hdrCheck: header interception callback; the intercepted bytes must be the header message of the object.
func hdrCheck(want *objV) func([]byte) error {
	return func(h []byte) error {
		var o object.Object
		o.SetPayloadSize(uint64(len(want.payload)))
		if len(h) == 0 || !bytesContain(want.bin, h) {
			return errors.New("verif: intercepted header is not the header of the stored object")
		}
		return nil
	}
}

func bytesContain(hay, needle []byte) bool { return strings.Contains(string(hay), string(needle)) }

func fstreeAPIs(t common.Storage, objs map[oid.Address]*objV) map[string]func(oid.Address, rngIn) (io.ReadCloser, error) {
	return map[string]func(oid.Address, rngIn) (io.ReadCloser, error){
		"GetRangeStream": func(ad oid.Address, in rngIn) (io.ReadCloser, error) {
			_, _, rc, err := t.GetRangeStream(ad, in.rng(), false)
			return rc, err
		},
		"GetRangeStream+hdr": func(ad oid.Address, in rngIn) (io.ReadCloser, error) {
			h, pl, rc, err := t.GetRangeStream(ad, in.rng(), true)
			if err == nil {
				if h == nil || string(h.CutPayload().Marshal()) != string(objs[ad].hdrBin) || pl != uint64(len(objs[ad].payload)) {
					if rc != nil {
						rc.Close()
					}
					return nil, errors.New("verif: wrong header / payload length returned with the range")
				}
			}
			return rc, err
		},
		"ReadPayloadRange": func(ad oid.Address, in rngIn) (io.ReadCloser, error) {
			if in.Mode != "offlen" {
				return nil, errNA
			}
			return t.ReadPayloadRange(ad, in.A, in.B, make([]byte, 2*BufN), nil)
		},
		"ReadPayloadRange+hdr": func(ad oid.Address, in rngIn) (io.ReadCloser, error) {
			if in.Mode != "offlen" {
				return nil, errNA
			}
			return t.ReadPayloadRange(ad, in.A, in.B, make([]byte, 2*BufN), hdrCheck(objs[ad]))
		},
		"ReadObjectParts": func(ad oid.Address, in rngIn) (io.ReadCloser, error) {
			return partsToPayload(t.ReadObjectParts, ad, in, nil, objs)
		},
		"ReadObjectParts+hdr": func(ad oid.Address, in rngIn) (io.ReadCloser, error) {
			return partsToPayload(t.ReadObjectParts, ad, in, hdrCheck(objs[ad]), objs)
		},
	}
}

var errNA = errors.New("n/a")

var oneReq rngIn // request of `fstree c11one`

// noPut is a blob storage that is full: the write-cache cannot flush into it.
type noPut struct{ common.Storage }

func (noPut) Put(oid.Address, []byte) error         { return common.ErrNoSpace }
func (noPut) PutBatch(map[oid.Address][]byte) error { return common.ErrNoSpace }

type bytesRC struct {
	b []byte
	i int
}

func (r *bytesRC) Read(p []byte) (int, error) {
	if r.i >= len(r.b) {
		return 0, io.EOF
	}
	n := copy(p, r.b[r.i:])
	r.i += n
	return n, nil
}
func (r *bytesRC) Close() error { return nil }

// ReadObjectParts: for a partial range the stream is the range; for none / full ranges the buffer holds the head
// of the object and the stream the rest: the payload is what follows the header in buf[:n] ++ stream.
func partsToPayload(f func([]byte, oid.Address, common.PayloadRange, func([]byte) error) (int, io.ReadCloser, error),
	ad oid.Address, in rngIn, icpt func([]byte) error, objs map[oid.Address]*objV) (io.ReadCloser, error) {
	buf := make([]byte, 2*BufN)
	r := in.rng()
	n, rc, err := f(buf, ad, r, icpt)
	if err != nil {
		return nil, err
	}
	if r.IsSet() && !r.IsFull() {
		return rc, nil
	}
	rest, err := readAllClose(rc)
	if err != nil {
		return nil, err
	}
	all := append(append([]byte{}, buf[:n]...), rest...)
	o := objs[ad]
	if string(all) != string(o.bin) {
		return nil, fmt.Errorf("verif: ReadObjectParts full read returned %d bytes, object has %d", len(all), len(o.bin))
	}
	return &bytesRC{b: o.payload}, nil
}

func c11(out string, kind string, lens []int, span int) {
	base, err := os.MkdirTemp("", "c11")
	kit.Must(err)
	defer os.RemoveAll(base)

	// objects: one per payload length; index a = position in lens + 1
	specOf := map[int]objSpec{}
	u := newUniverse(len(lens), 11, func(a, v int) objSpec { return specOf[a] })
	objs := map[oid.Address]*objV{}
	var ovs []*objV
	for i, L := range lens {
		a := i + 1
		specOf[a] = objSpec{Pat: 2}
		b0 := len(u.build(a, 1, objSpec{Pat: 2}).bin)
		total := 0
		if L > 0 {
			total = b0 + L + 1 + 2*varintLen(uint64(L)) + 1 // payload field tag+len, payload_length header field
		}
		specOf[a] = objSpec{Total: total, Pat: 2}
		o := u.get(a, 1)
		for d := 0; len(o.payload) != L && d < 8; d++ {
			delete(u.objs, [2]int{a, 1})
			specOf[a] = objSpec{Total: specOf[a].Total + (L - len(o.payload)), Pat: 2}
			o = u.get(a, 1)
		}
		if len(o.payload) != L {
			kit.Must(fmt.Errorf("cannot build an object with a %d-byte payload (got %d)", L, len(o.payload)))
		}
		objs[u.addr(a)] = o
		ovs = append(ovs, o)
	}
	zst := func(o *objV) []byte { return zstdCompress(o.bin) }

	var srcs []rngSrc
	mkTree := func(name string, cnt int) *fstree.FSTree {
		t := fstree.New(fstree.WithPath(filepath.Join(base, name)), fstree.WithDepth(2), fstree.WithNoSync(true),
			fstree.WithCombinedCountLimit(cnt), fstree.WithCombinedWriteInterval(time.Millisecond))
		kit.Must(t.Open(false))
		kit.Must(t.Init(common.ID{}))
		return t
	}
	// FSTree, plain files
	tp := mkTree("plain", 1)
	for _, o := range ovs {
		kit.Must(tp.Put(u.addr(o.a), o.bin))
	}
	srcs = append(srcs, rngSrc{name: "fstree-plain", apis: fstreeAPIs(tp, objs)})
	// FSTree, combined files (batches of up to 5 objects)
	tc := mkTree("comb", 128)
	for i := 0; i < len(ovs); {
		mp := map[oid.Address][]byte{}
		if len(ovs[i].bin) > 4096 { // a large object is the only member of its combined file (see notes: C10 reader defects)
			mp[u.addr(ovs[i].a)] = ovs[i].bin
			i++
		} else {
			for ; i < len(ovs) && len(mp) < 5 && len(ovs[i].bin) <= 4096; i++ {
				mp[u.addr(ovs[i].a)] = ovs[i].bin
			}
		}
		kit.Must(tc.PutBatch(mp))
	}
	srcs = append(srcs, rngSrc{name: "fstree-combined", apis: fstreeAPIs(tc, objs)})
	// FSTree, compressed blobs (plain files and combined members)
	tz := mkTree("zplain", 1)
	tzc := mkTree("zcomb", 128)
	zskip := map[oid.Address]bool{}
	for i := 0; i < len(ovs); i += 4 {
		mp := map[oid.Address][]byte{}
		for _, o := range ovs[i:min(i+4, len(ovs))] {
			if len(o.bin) > 2*BufN { // decompressed in memory and longer than the caller's buffer: C10 known finding, not stored here
				zskip[u.addr(o.a)] = true
				continue
			}
			kit.Must(tz.Put(u.addr(o.a), zst(o)))
			mp[u.addr(o.a)] = zst(o)
		}
		if len(mp) > 0 {
			kit.Must(tzc.PutBatch(mp))
		}
	}
	srcs = append(srcs, rngSrc{name: "fstree-zstd", apis: fstreeAPIs(tz, objs), skip: zskip}, rngSrc{name: "fstree-zstd-combined", apis: fstreeAPIs(tzc, objs), skip: zskip})

	// write-cache over a blobstor that stays empty (nothing is flushed: huge batch threshold is irrelevant, we read at once)
	// its backing storage refuses every write, so nothing ever leaves the cache
	wcBack := noPut{mkTree("wc-back", 1)}
	wc := writecache.New(writecache.WithPath(filepath.Join(base, "wc")), writecache.WithStorage(wcBack), writecache.WithNoSync(true),
		writecache.WithLogger(zap.NewNop()), writecache.WithFlushWorkersCount(1))
	kit.Must(wc.Open(false))
	kit.Must(wc.Init(common.ID{}))
	for _, o := range ovs {
		kit.Must(wc.Put(u.addr(o.a), o.obj, o.bin))
	}
	wcAPIs := map[string]func(oid.Address, rngIn) (io.ReadCloser, error){
		"GetRangeStream": func(ad oid.Address, in rngIn) (io.ReadCloser, error) {
			_, _, rc, err := wc.GetRangeStream(ad, in.rng(), false)
			return rc, err
		},
		"GetRangeStream+hdr": func(ad oid.Address, in rngIn) (io.ReadCloser, error) {
			h, _, rc, err := wc.GetRangeStream(ad, in.rng(), true)
			if err == nil && (h == nil || string(h.CutPayload().Marshal()) != string(objs[ad].hdrBin)) {
				return nil, errors.New("verif: wrong header returned with the range")
			}
			return rc, err
		},
		"ReadPayloadRange": func(ad oid.Address, in rngIn) (io.ReadCloser, error) {
			if in.Mode != "offlen" {
				return nil, errNA
			}
			return wc.ReadPayloadRange(ad, in.A, in.B, make([]byte, 2*BufN), nil)
		},
		"ReadObjectParts+hdr": func(ad oid.Address, in rngIn) (io.ReadCloser, error) {
			return partsToPayload(wc.ReadObjectParts, ad, in, hdrCheck(objs[ad]), objs)
		},
	}
	srcs = append(srcs, rngSrc{name: "writecache", apis: wcAPIs})

	// shards: without and with write-cache; engine with two shards
	mkShardOpts := func(name string, withWC bool) []shard.Option {
		return []shard.Option{
			shard.WithLogger(zap.NewNop()),
			shard.WithBlobstor(fstree.New(fstree.WithPath(filepath.Join(base, name, "blob")), fstree.WithDepth(1), fstree.WithNoSync(true))),
			shard.WithMetaBaseOptions(meta.WithPath(filepath.Join(base, name, "meta")), meta.WithPermissions(0o700), meta.WithEpochState(epoch0{}),
				meta.WithMaxBatchDelay(time.Microsecond), meta.WithLogger(zap.NewNop()),
				meta.WithBoltDBOptions(&bbolt.Options{NoSync: true, NoFreelistSync: true, Timeout: time.Second})),
			shard.WithWriteCache(withWC),
			shard.WithWriteCacheOptions(writecache.WithPath(filepath.Join(base, name, "wc")), writecache.WithNoSync(true),
				writecache.WithFlushWorkersCount(1), writecache.WithLogger(zap.NewNop())),
			shard.WithContainerPayments(paid{}),
			shard.WithGCRemoverSleepInterval(100 * time.Hour),
		}
	}
	shardAPIs := func(sh *shard.Shard) map[string]func(oid.Address, rngIn) (io.ReadCloser, error) {
		return map[string]func(oid.Address, rngIn) (io.ReadCloser, error){
			"GetRangeStream": func(ad oid.Address, in rngIn) (io.ReadCloser, error) {
				_, _, rc, err := sh.GetRangeStream(ad.Container(), ad.Object(), in.rng(), false)
				return rc, err
			},
			"GetRangeStream+hdr": func(ad oid.Address, in rngIn) (io.ReadCloser, error) {
				h, _, rc, err := sh.GetRangeStream(ad.Container(), ad.Object(), in.rng(), true)
				if err == nil && (h == nil || string(h.CutPayload().Marshal()) != string(objs[ad].hdrBin)) {
					return nil, errors.New("verif: wrong header returned with the range")
				}
				return rc, err
			},
			"GetRangeStreamWithMetadataLookup": func(ad oid.Address, in rngIn) (io.ReadCloser, error) {
				_, rc, err := sh.GetRangeStreamWithMetadataLookup(ad, in.rng(), false, false)
				return rc, err
			},
			"ReadRange+hdr": func(ad oid.Address, in rngIn) (io.ReadCloser, error) {
				if in.Mode != "offlen" {
					return nil, errNA
				}
				return sh.ReadRange(ad.Container(), ad.Object(), in.A, in.B, make([]byte, 2*BufN), hdrCheck(objs[ad]))
			},
			"ReadPayloadRange": func(ad oid.Address, in rngIn) (io.ReadCloser, error) {
				if in.Mode != "offlen" {
					return nil, errNA
				}
				return sh.ReadPayloadRange(ad, in.A, in.B, false, make([]byte, 2*BufN))
			},
			"ReadObject": func(ad oid.Address, in rngIn) (io.ReadCloser, error) {
				return partsToPayload(func(b []byte, a oid.Address, r common.PayloadRange, ic func([]byte) error) (int, io.ReadCloser, error) {
					return sh.ReadObject(a, false, r, b, ic)
				}, ad, in, hdrCheck(objs[ad]), objs)
			},
		}
	}
	for _, withWC := range []bool{false, true} {
		name := "shard"
		if withWC {
			name = "shard-wc"
		}
		sh := shard.New(mkShardOpts(name, withWC)...)
		kit.Must(sh.Open())
		kit.Must(sh.Init())
		for _, o := range ovs {
			kit.Must(sh.Put(o.obj, o.bin))
		}
		srcs = append(srcs, rngSrc{name: name, apis: shardAPIs(sh)})
		defer sh.Close()
	}
	eng := engine.New(engine.WithLogger(zap.NewNop()))
	for i := 0; i < 2; i++ {
		_, err := eng.AddShard(mkShardOpts("eng"+strconv.Itoa(i), i == 1)...)
		kit.Must(err)
	}
	kit.Must(eng.Init())
	defer eng.Close()
	ctx := context.Background()
	for _, o := range ovs {
		kit.Must(eng.Put(ctx, o.obj, o.bin))
	}
	srcs = append(srcs, rngSrc{name: "engine", apis: map[string]func(oid.Address, rngIn) (io.ReadCloser, error){
		"GetRangeStream": func(ad oid.Address, in rngIn) (io.ReadCloser, error) {
			_, rc, err := eng.GetRangeStream(ctx, ad, in.rng(), false)
			return rc, err
		},
		"GetRangeStream+hdr": func(ad oid.Address, in rngIn) (io.ReadCloser, error) {
			h, rc, err := eng.GetRangeStream(ctx, ad, in.rng(), true)
			if err == nil && (h == nil || string(h.CutPayload().Marshal()) != string(objs[ad].hdrBin)) {
				return nil, errors.New("verif: wrong header returned with the range")
			}
			return rc, err
		},
		"GetRange": func(ad oid.Address, in rngIn) (io.ReadCloser, error) {
			if in.Mode != "offlen" {
				return nil, errNA
			}
			b, err := eng.GetRange(ctx, ad, in.A, in.B)
			if err != nil {
				return nil, err
			}
			return &bytesRC{b: b}, nil
		},
		"ReadPayloadRange": func(ad oid.Address, in rngIn) (io.ReadCloser, error) {
			if in.Mode != "offlen" {
				return nil, errNA
			}
			return eng.ReadPayloadRange(ctx, ad, in.A, in.B, make([]byte, 2*BufN))
		},
		"ReadObject+hdr": func(ad oid.Address, in rngIn) (io.ReadCloser, error) {
			return partsToPayload(func(b []byte, a oid.Address, r common.PayloadRange, ic func([]byte) error) (int, io.ReadCloser, error) {
				return eng.ReadObject(ctx, a, r, b, ic)
			}, ad, in, hdrCheck(objs[ad]), objs)
		},
	}})

	// ------------------------------------------------------------------ enumerate the requests
	w := kit.NewW(out)
	defer w.Close()
	calls, apisUsed := 0, map[string]bool{}
	emit := func(in rngIn, a, b string) {
		ad := u.addr(indexOf(lens, in.L) + 1)
		o := objs[ad]
		agg := map[rngOut][]string{}
		for _, s := range srcs {
			if s.skip[ad] {
				continue
			}
			names := make([]string, 0, len(s.apis))
			for n := range s.apis {
				names = append(names, n)
			}
			sort.Strings(names)
			for _, n := range names {
				f := s.apis[n]
				var na bool
				res := safeCall(o.payload, func() (io.ReadCloser, error) {
					rc, err := f(ad, in)
					if err == errNA {
						na = true
						return &bytesRC{}, nil
					}
					return rc, err
				})
				if na {
					continue
				}
				calls++
				apisUsed[s.name+"."+n] = true
				agg[res] = append(agg[res], s.name+"."+n)
			}
		}
		for res, who := range agg {
			rec := kit.M{"in": kit.M{"mode": in.Mode, "a": a, "b": b, "L": in.L}, "out": res, "srcs": len(who)}
			if len(agg) > 1 {
				rec["who"] = who
			}
			w.Emit(rec)
		}
	}
	num := func(x uint64) string { return strconv.FormatUint(x, 10) }
	all4 := func(L int, xs, ys []uint64) {
		for _, a := range xs {
			emit(rngIn{Mode: "from", A: a, L: L}, num(a), "0")
			emit(rngIn{Mode: "suffix", A: a, L: L}, num(a), "0")
			for _, b := range ys {
				emit(rngIn{Mode: "offlen", A: a, B: b, L: L}, num(a), num(b))
				emit(rngIn{Mode: "bounds", A: a, B: b, L: L}, num(a), num(b))
			}
		}
	}
	switch kind {
	case "small": // exhaustive: every (a, b) in 0..L+span for every stored length
		for _, L := range lens {
			var xs []uint64
			for a := 0; a <= L+span; a++ {
				xs = append(xs, uint64(a))
			}
			emit(rngIn{Mode: "none", L: L}, "0", "0")
			all4(L, xs, xs)
		}
	case "upto": // exhaustive: every (a, b) in 0..span for every stored length
		var xs []uint64
		for a := 0; a <= span; a++ {
			xs = append(xs, uint64(a))
		}
		for _, L := range lens {
			emit(rngIn{Mode: "none", L: L}, "0", "0")
			all4(L, xs, xs)
		}
	case "one": // a single request (replay)
		emit(oneReq, num(oneReq.A), num(oneReq.B))
	case "large": // boundary-directed: around the buffered prefix, the buffer size and the payload end
		for i, L := range lens {
			hdr := len(ovs[i].bin) - L
			set := map[uint64]bool{}
			for _, c := range []int{0, 1, 8, BufN - hdr, BufN - hdr - combinedDataOff, BufN, 2*BufN - hdr, 2 * BufN, L / 2, L - 1, L, L + 1} {
				for d := -1; d <= 1; d++ {
					if c+d >= 0 {
						set[uint64(c+d)] = true
					}
				}
			}
			var xs []uint64
			for x := range set {
				xs = append(xs, x)
			}
			sort.Slice(xs, func(i, j int) bool { return xs[i] < xs[j] })
			emit(rngIn{Mode: "none", L: L}, "0", "0")
			all4(L, xs, xs)
		}
	case "big": // offsets near 2^31, 2^32, 2^63 and 2^64 against every stored length
		var edge []uint64
		for _, c := range []uint64{1 << 31, 1 << 32, math.MaxInt64, 1 << 63, math.MaxUint64} {
			for d := uint64(0); d <= 2; d++ {
				edge = append(edge, c+d, c-d)
			}
		}
		r := kit.Rand(11)
		for i := 0; i < 10; i++ {
			edge = append(edge, 1<<63+uint64(r.Int63n(1<<20)), math.MaxUint64-uint64(r.Int63n(1<<20)), uint64(r.Int63()))
		}
		small := []uint64{0, 1, 2, 63, 64, 65}
		for _, L := range lens {
			all4(L, edge, append(append([]uint64{}, small...), edge[:10]...))
			all4(L, small, edge)
		}
	default:
		kit.Must(fmt.Errorf("unknown c11 kind %q", kind))
	}
	names := make([]string, 0, len(apisUsed))
	for n := range apisUsed {
		names = append(names, n)
	}
	sort.Strings(names)
	fmt.Printf("{\"calls\":%d,\"records\":%d,\"apis\":%d}\n", calls, w.N, len(names))
	for _, n := range names {
		fmt.Fprintln(os.Stderr, "api:", n)
	}
}

func indexOf(xs []int, x int) int {
	for i, v := range xs {
		if v == x {
			return i
		}
	}
	panic("length not stored")
}

func varintLen(x uint64) int {
	n := 1
	for x >= 0x80 {
		x >>= 7
		n++
	}
	return n
}
