package main

import (
	"bytes"
	"encoding/json"
	"fmt"
	"math/rand"
	"os"
	"path/filepath"
	"sort"
	"sync"
	"time"

	"github.com/nspcc-dev/neofs-node/pkg/local_object_storage/blobstor/fstree"
	oid "github.com/nspcc-dev/neofs-sdk-go/object/id"
	"verifharness/internal/kit"
)

// ---------------------------------------------------------------------------------------------
// C10 scripts (input) and trace events (output), see spec/FSTree.tla / TraceFSTree.tla.

type c10Var struct {
	A     int  `json:"a"`
	V     int  `json:"v"`
	Total int  `json:"total"`
	Attr  int  `json:"attr"`
	Pat   int  `json:"pat"`
	Z     bool `json:"z"`
}

type c10Step struct {
	Ev      string   `json:"ev"`
	A       int      `json:"a,omitempty"`
	V       int      `json:"v,omitempty"`
	API     string   `json:"api,omitempty"`
	Items   []member `json:"items,omitempty"`
	Stagger bool     `json:"stagger,omitempty"`
	StagUs  int      `json:"stag_us,omitempty"` // pause between the starts of concurrent Puts (default 150)
}

type c10Script struct {
	Cfg   *treeCfg  `json:"cfg,omitempty"`
	N     int       `json:"n,omitempty"`
	Vars  []c10Var  `json:"vars,omitempty"`
	Steps []c10Step `json:"steps"`
	Src   string    `json:"src,omitempty"`
}

// result codes shared with the spec
const (
	resNF    = 0
	resOK    = 1
	resBad   = -1 // foreign / partial bytes or an unexpected error
	resErr   = -2 // clean error of a mutator
	resDup   = -3 // address listed twice by iteration
	resPanic = -4
)

var readAPIs = []string{"get", "bytes", "head", "stream", "readobj", "readhdr", "exists"}

type mem3 struct {
	A int  `json:"a"`
	V int  `json:"v"`
	L int  `json:"l"` // stored length
	Z bool `json:"z"` // stored zstd-compressed
	U int  `json:"u"` // uncompressed length
}
type lay3 struct {
	Comb bool   `json:"comb"`
	Mem  []mem3 `json:"mem"`
}
type layEnt struct {
	A int  `json:"a"`
	F lay3 `json:"f"`
}

// classSpec picks a concrete size for version class v (spec/FSTree.tla: Vers) under cfg:
// odd v = stored length <= Thr ("small"), even v = stored length > Thr ("big"); ((v-1)/2)%2 == 1 = compressed.
func classSpec(r *rand.Rand, c treeCfg, v int) objSpec {
	big := v%2 == 0
	z := ((v-1)/2)%2 == 1
	s := objSpec{Z: z, Attr: []int{0, 0, 10, 200, 3000, 12000}[r.Intn(6)]}
	if big {
		s.Pat = 1 // incompressible, so that the stored length stays above the threshold when compressed
		cands := []int{c.Thr + 1 + 400, c.Thr + BufN, c.Thr + 2*BufN + 1, 2*c.Thr + 7, 256 << 10}
		s.Total = cands[r.Intn(len(cands))]
		if s.Total > 256<<10 && c.Thr < 200<<10 {
			s.Total = 256 << 10
		}
		return s
	}
	if z {
		s.Pat = 0 // compressible: the stored length is tiny whatever the plain length
		cands := []int{0, 300, BufN - 1, BufN, BufN + 1, 2 * BufN, 2*BufN + 1, 100 << 10}
		s.Total = cands[r.Intn(len(cands))]
		return s
	}
	s.Pat = r.Intn(2)
	s.Total = boundarySize(r, c.Thr)
	return s
}

// boundarySize: a marshalled object length <= lim, biased to the boundaries of the readers' buffers:
// multiples of the 20 KiB header buffer, shifted by whole combined prefixes (38 bytes), +-40.
func boundarySize(r *rand.Rand, lim int) int {
	var t int
	switch r.Intn(4) {
	case 0:
		t = []int{0, 1, 150, 300, 1000, 4096}[r.Intn(6)]
	case 1:
		t = r.Intn(lim + 1)
	default:
		k := 1 + r.Intn(2)
		if r.Intn(4) == 0 {
			k = 1 + r.Intn(5)
		}
		t = k*BufN - r.Intn(3)*combinedDataOff + r.Intn(81) - 40
	}
	if t > lim {
		t = lim - r.Intn(3)
	}
	if t < 0 {
		t = 0
	}
	return t
}

func c10gen(n, ln int, out string) {
	r := kit.Rand(10)
	w := kit.NewW(out)
	for i := 0; i < n; i++ {
		w.Emit(genScript(r, ln, i))
	}
	w.Close()
}

func randCfg(r *rand.Rand) treeCfg {
	c := treeCfg{
		Depth:    r.Intn(5),
		Cnt:      []int{1, 2, 3, 4, 8, 16, 128}[r.Intn(7)],
		SzLim:    []int{16 << 10, 64 << 10, 256 << 10, 8 << 20}[r.Intn(4)],
		Thr:      []int{1 << 10, 24 << 10, 64 << 10, 128 << 10}[r.Intn(4)],
		Writer:   "linux",
		NoSync:   r.Intn(4) != 0,
		Interval: 1 + r.Intn(3),
	}
	if r.Intn(5) == 0 {
		c.Writer = "generic"
	}
	return c
}

func genScript(r *rand.Rand, ln, idx int) c10Script {
	c := randCfg(r)
	n := 20
	if idx%3 == 0 {
		n = 4 + r.Intn(5) // dense universes: collisions are the norm
	}
	s := c10Script{Cfg: &c, N: n, Src: "rnd"}
	store := map[int]int{} // abstract map: a -> v (0 absent)
	nextV := map[int]int{} // per address: versions handed out so far
	pickVer := func(a int, sp *objSpec) int {
		// re-put keeps the version while the address is present (content-addressed objects)
		if v := store[a]; v != 0 {
			return v
		}
		if sp == nil && nextV[a] > 0 && r.Intn(3) == 0 {
			return 1 + r.Intn(nextV[a]) // re-put an old version after a delete
		}
		nextV[a]++
		v := nextV[a]
		var os objSpec
		if sp != nil {
			os = *sp
		} else {
			os = classSpec(r, c, 1+r.Intn(4))
		}
		s.Vars = append(s.Vars, c10Var{A: a, V: v, Total: os.Total, Attr: os.Attr, Pat: os.Pat, Z: os.Z})
		return v
	}
	distinct := func(k int, absentOnly bool) []int {
		var out []int
		for _, a := range r.Perm(n) {
			if absentOnly && store[a+1] != 0 {
				continue
			}
			out = append(out, a+1)
			if len(out) == k {
				break
			}
		}
		return out
	}
	for len(s.Steps) < ln {
		switch x := r.Intn(100); {
		case x < 22:
			a := 1 + r.Intn(n)
			v := pickVer(a, nil)
			s.Steps = append(s.Steps, c10Step{Ev: "Put", A: a, V: v})
			store[a] = v
		case x < 36:
			var its []member
			for _, a := range distinct(1+r.Intn(6), false) {
				v := pickVer(a, nil)
				its = append(its, member{A: a, V: v})
				store[a] = v
			}
			s.Steps = append(s.Steps, c10Step{Ev: "PutBatch", Items: its})
		case x < 46:
			var its []member
			for _, a := range distinct(2+r.Intn(5), false) {
				v := pickVer(a, nil)
				its = append(its, member{A: a, V: v})
				store[a] = v
			}
			s.Steps = append(s.Steps, c10Step{Ev: "ParPut", Items: its, Stagger: r.Intn(2) == 0})
		case x < 54:
			// boundary-directed combined file: member sizes chosen so that the combined prefixes of the
			// following members start within +-40 bytes of a multiple of the header buffer
			as := distinct(2+r.Intn(3), true)
			if len(as) < 2 || c.Writer != "linux" || c.Thr < BufN+64 {
				continue
			}
			var its []member
			pos := 0
			for i, a := range as {
				var l int
				if i == len(as)-1 {
					l = []int{BufN - 36, BufN - 1, BufN, BufN + 1, BufN + 40, 2 * BufN, 2*BufN + 1, 300}[r.Intn(8)]
				} else {
					k := pos/BufN + 1
					l = k*BufN + r.Intn(81) - 40 - pos - combinedDataOff
					for l < 150 {
						l += BufN
					}
				}
				if l > c.Thr {
					l = c.Thr
				}
				sp := objSpec{Total: l, Pat: r.Intn(2)}
				v := pickVer(a, &sp)
				its = append(its, member{A: a, V: v})
				store[a] = v
				pos += combinedDataOff + l
			}
			if len(its) > 0 {
				s.Steps = append(s.Steps, c10Step{Ev: "ParPut", Items: its, Stagger: true})
			}
		case x < 70:
			a := 1 + r.Intn(n)
			s.Steps = append(s.Steps, c10Step{Ev: "Delete", A: a})
			store[a] = 0
		case x < 72:
			s.Steps = append(s.Steps, c10Step{Ev: "PutEmpty", A: 1 + r.Intn(n)})
		case x < 96:
			s.Steps = append(s.Steps, c10Step{Ev: "Read", A: 1 + r.Intn(n), API: readAPIs[r.Intn(len(readAPIs))]})
		default:
			s.Steps = append(s.Steps, c10Step{Ev: "Iterate"})
		}
	}
	return s
}

// ---------------------------------------------------------------------------------------------

type c10Runner struct {
	u    *universe
	t    *fstree.FSTree
	root string
	cfg  treeCfg
	w    *kit.W
	r    *rand.Rand
}

func c10run(in, out string) {
	scripts := kit.ReadNDJSON[c10Script](in)
	w := kit.NewW(out)
	rw := kit.NewW(out + ".resolved") // the scripts with the configuration and object variants actually used (replay)
	defer rw.Close()
	base, err := os.MkdirTemp("", "c10")
	kit.Must(err)
	defer os.RemoveAll(base)
	for i, s := range scripts {
		rw.Emit(runC10Script(w, filepath.Join(base, fmt.Sprint("t", i)), i, s))
	}
	w.Close()
}

func runC10Script(w *kit.W, root string, idx int, s c10Script) c10Script {
	r := kit.Rand(int64(1000 + idx))
	var c treeCfg
	if s.Cfg != nil {
		c = *s.Cfg
	} else {
		c = randCfg(r) // TLC-generated scripts carry abstract steps only
		c.Thr = []int{24 << 10, 64 << 10, 128 << 10}[r.Intn(3)]
	}
	n := s.N
	for _, st := range s.Steps {
		n = max(n, st.A)
		for _, it := range st.Items {
			n = max(n, it.A)
		}
	}
	explicit := map[[2]int]objSpec{}
	for _, v := range s.Vars {
		explicit[[2]int{v.A, v.V}] = objSpec{Total: v.Total, Attr: v.Attr, Pat: v.Pat, Z: v.Z}
	}
	u := newUniverse(n, int64(idx), func(a, v int) objSpec {
		if sp, ok := explicit[[2]int{a, v}]; ok {
			return sp
		}
		return classSpec(rand.New(rand.NewSource(kit.Seed()*977+int64(idx)*31+int64(a)*7+int64(v))), c, v)
	})
	rn := &c10Runner{u: u, root: root, cfg: c, w: w, r: r}
	rn.t = openTree(root, c)
	defer func() {
		_ = rn.t.Close()
		os.RemoveAll(root)
	}()
	w.Emit(kit.M{"ev": "Init", "n": n, "cnt": c.Cnt, "thr": c.Thr, "writer": c.Writer, "depth": c.Depth, "szlim": c.SzLim, "src": s.Src, "script": idx})
	for _, st := range s.Steps {
		rn.step(st)
	}
	s.Cfg, s.N, s.Vars = &c, n, nil
	for k, o := range u.objs {
		s.Vars = append(s.Vars, c10Var{A: k[0], V: k[1], Total: len(o.bin), Attr: o.spec.Attr, Pat: o.spec.Pat, Z: o.spec.Z})
	}
	sort.Slice(s.Vars, func(i, j int) bool {
		return s.Vars[i].A < s.Vars[j].A || s.Vars[i].A == s.Vars[j].A && s.Vars[i].V < s.Vars[j].V
	})
	return s
}

func (rn *c10Runner) m3(a, v int) mem3 {
	o := rn.u.get(a, v)
	return mem3{A: a, V: v, L: len(o.stored), Z: o.spec.Z, U: len(o.bin)}
}

func (rn *c10Runner) lay(as []int) []layEnt {
	all := rn.u.layout(rn.root, rn.cfg.Depth)
	seen := map[int]bool{}
	out := []layEnt{}
	for _, a := range as {
		if seen[a] {
			continue
		}
		seen[a] = true
		f := all[a-1]
		l3 := lay3{Comb: f.Comb, Mem: []mem3{}}
		for _, m := range f.Mem {
			x := mem3{A: m.A, V: m.V}
			if m.A > 0 && m.V > 0 {
				x = rn.m3(m.A, m.V)
			}
			l3.Mem = append(l3.Mem, x)
		}
		out = append(out, layEnt{A: a, F: l3})
	}
	return out
}

func guard(f func() int) (res int) {
	defer func() {
		if p := recover(); p != nil {
			fmt.Fprintln(os.Stderr, "recovered panic in FSTree call:", p)
			res = resPanic
		}
	}()
	return f()
}

func (rn *c10Runner) step(st c10Step) {
	u, t := rn.u, rn.t
	switch st.Ev {
	case "Put":
		o := u.get(st.A, st.V)
		res := guard(func() int {
			if err := t.Put(u.addr(st.A), o.stored); err != nil {
				fmt.Fprintln(os.Stderr, "Put:", err)
				return resErr
			}
			return resOK
		})
		rn.w.Emit(kit.M{"ev": "Put", "m": rn.m3(st.A, st.V), "res": res, "lay": rn.lay([]int{st.A})})
		rn.audit()
	case "PutEmpty":
		res := guard(func() int {
			if err := t.Put(u.addr(st.A), nil); err != nil {
				return resErr
			}
			return resOK
		})
		rn.w.Emit(kit.M{"ev": "PutEmpty", "a": st.A, "res": res, "lay": rn.lay([]int{st.A})})
		rn.audit()
	case "PutBatch":
		mp := map[oid.Address][]byte{}
		var its []mem3
		var as []int
		for _, it := range st.Items {
			mp[u.addr(it.A)] = u.get(it.A, it.V).stored
			its = append(its, rn.m3(it.A, it.V))
			as = append(as, it.A)
		}
		res := guard(func() int {
			if err := t.PutBatch(mp); err != nil {
				fmt.Fprintln(os.Stderr, "PutBatch:", err)
				return resErr
			}
			return resOK
		})
		rn.w.Emit(kit.M{"ev": "PutBatch", "items": its, "res": res, "lay": rn.lay(as)})
		rn.audit()
	case "ParPut":
		var its []mem3
		var as []int
		ress := make([]int, len(st.Items))
		var wg sync.WaitGroup
		for i, it := range st.Items {
			o := u.get(it.A, it.V)
			its = append(its, rn.m3(it.A, it.V))
			as = append(as, it.A)
			wg.Add(1)
			go func() {
				defer wg.Done()
				ress[i] = guard(func() int {
					if err := t.Put(u.addr(o.a), o.stored); err != nil {
						fmt.Fprintln(os.Stderr, "ParPut:", err)
						return resErr
					}
					return resOK
				})
			}()
			if st.Stagger {
				time.Sleep(time.Duration(max(st.StagUs, 150)) * time.Microsecond)
			}
		}
		wg.Wait()
		rn.w.Emit(kit.M{"ev": "ParPut", "items": its, "res": ress, "lay": rn.lay(as)})
		rn.audit()
	case "Delete":
		res := guard(func() int {
			err := t.Delete(u.addr(st.A))
			switch {
			case err == nil:
				return resOK
			case isNotFound(err):
				return resNF
			}
			fmt.Fprintln(os.Stderr, "Delete:", err)
			return resErr
		})
		rn.w.Emit(kit.M{"ev": "Delete", "a": st.A, "res": res, "lay": rn.lay([]int{st.A})})
		rn.audit()
	case "Read":
		api := st.API
		if api == "" {
			api = readAPIs[rn.r.Intn(len(readAPIs))]
		}
		rn.w.Emit(kit.M{"ev": "Read", "a": st.A, "api": api, "res": rn.read(api, st.A)})
	case "Iterate":
		rn.w.Emit(kit.M{"ev": "Iterate", "res": rn.iterate(rn.r.Intn(2) == 0)})
	default:
		kit.Must(fmt.Errorf("unknown step %q", st.Ev))
	}
}

// audit reads every address of the universe through a randomly chosen API and iterates the tree.
func (rn *c10Runner) audit() {
	n := len(rn.u.addrs)
	apis := make([]string, n)
	res := make([]int, n)
	for a := 1; a <= n; a++ {
		apis[a-1] = readAPIs[rn.r.Intn(len(readAPIs))]
		res[a-1] = rn.read(apis[a-1], a)
	}
	rn.w.Emit(kit.M{"ev": "Audit", "apis": apis, "res": res, "it": rn.iterate(rn.r.Intn(2) == 0)})
}

// read returns v (>0) when the API returned exactly version v of address a, 0 for not-found,
// resBad for anything else, resPanic when the call panicked.
func (rn *c10Runner) read(api string, a int) int {
	u, t := rn.u, rn.t
	ad := u.addr(a)
	fail := func(what string, err error) int {
		fmt.Fprintf(os.Stderr, "read %s a=%d: %s: %v\n", api, a, what, err)
		return resBad
	}
	byHdr := func(h []byte) int {
		for k, o := range u.objs {
			if k[0] == a && bytes.Equal(o.hdrBin, h) {
				return k[1]
			}
		}
		return -1
	}
	return guard(func() int {
		switch api {
		case "get":
			o, err := t.Get(ad)
			if err != nil {
				if isNotFound(err) {
					return resNF
				}
				return fail("error", err)
			}
			if v := u.which(a, o.Marshal()); v > 0 {
				return v
			}
			return fail("foreign object", nil)
		case "bytes":
			b, err := t.GetBytes(ad)
			if err != nil {
				if isNotFound(err) {
					return resNF
				}
				return fail("error", err)
			}
			if v := u.which(a, b); v > 0 {
				return v
			}
			return fail("foreign bytes", nil)
		case "head":
			h, err := t.Head(ad)
			if err != nil {
				if isNotFound(err) {
					return resNF
				}
				return fail("error", err)
			}
			if len(h.Payload()) != 0 {
				return fail("header with payload", nil)
			}
			if v := byHdr(h.Marshal()); v > 0 {
				return v
			}
			return fail("foreign header", nil)
		case "stream":
			h, rc, err := t.GetStream(ad)
			if err != nil {
				if isNotFound(err) {
					return resNF
				}
				return fail("error", err)
			}
			pl, err := readAllClose(rc)
			if err != nil {
				return fail("stream read", err)
			}
			v := byHdr(h.CutPayload().Marshal())
			if v > 0 && bytes.Equal(pl, u.get(a, v).payload) {
				return v
			}
			return fail(fmt.Sprintf("foreign stream (hdr v=%d, %d payload bytes)", v, len(pl)), nil)
		case "readobj":
			buf := make([]byte, 2*BufN)
			n, rc, err := t.ReadObject(ad, buf)
			if err != nil {
				if isNotFound(err) {
					return resNF
				}
				return fail("error", err)
			}
			rest, err := readAllClose(rc)
			if err != nil {
				return fail("stream read", err)
			}
			if v := u.which(a, append(append([]byte{}, buf[:n]...), rest...)); v > 0 {
				return v
			}
			return fail(fmt.Sprintf("foreign bytes (%d+%d)", n, len(rest)), nil)
		case "readhdr":
			buf := make([]byte, 2*BufN)
			n, err := t.ReadHeader(ad, buf)
			if err != nil {
				if isNotFound(err) {
					return resNF
				}
				return fail("error", err)
			}
			for k, o := range u.objs {
				if k[0] == a && n <= len(o.bin) && n >= min(len(o.bin), len(o.bin)-len(o.payload)) && bytes.Equal(o.bin[:n], buf[:n]) {
					return k[1]
				}
			}
			return fail(fmt.Sprintf("foreign header prefix (%d bytes)", n), nil)
		case "exists":
			ok, err := t.Exists(ad)
			if err != nil {
				return fail("error", err)
			}
			if !ok {
				return resNF
			}
			// Exists carries no bytes: identify the version through the bytes API
			b, err := t.GetBytes(ad)
			if err != nil {
				return fail("exists but unreadable", err)
			}
			if v := u.which(a, b); v > 0 {
				return v
			}
			return fail("foreign bytes", nil)
		}
		kit.Must(fmt.Errorf("unknown api %q", api))
		return 0
	})
}

// iterate returns, per address, the version listed by Iterate (0 = not listed, resDup = listed twice,
// resBad = listed with foreign bytes); unknown addresses are appended as resBad.
func (rn *c10Runner) iterate(withData bool) []int {
	u := rn.u
	out := make([]int, len(u.addrs))
	extra := 0
	see := func(ad oid.Address, v int) {
		a, ok := u.byStr[ad.EncodeToString()]
		if !ok {
			extra++
			return
		}
		if out[a-1] != 0 {
			out[a-1] = resDup
			return
		}
		out[a-1] = v
	}
	res := guard(func() int {
		var err error
		if withData {
			err = rn.t.Iterate(func(ad oid.Address, data []byte) error {
				a := u.byStr[ad.EncodeToString()]
				v := resBad
				if a > 0 {
					if w := u.which(a, data); w > 0 {
						v = w
					}
				}
				see(ad, v)
				return nil
			}, nil)
		} else {
			err = rn.t.IterateAddresses(func(ad oid.Address) error {
				a := u.byStr[ad.EncodeToString()]
				v := resBad
				if a > 0 {
					if b, e := rn.t.GetBytes(ad); e == nil {
						if w := u.which(a, b); w > 0 {
							v = w
						}
					}
				}
				see(ad, v)
				return nil
			}, false)
		}
		if err != nil {
			fmt.Fprintln(os.Stderr, "iterate:", err)
			return resBad
		}
		return resOK
	})
	if res != resOK {
		return []int{res}
	}
	for i := 0; i < extra; i++ {
		out = append(out, resBad)
	}
	return out
}

// c10layoutStats summarises a trace for evidence: distinct layout classes seen.
func c10stats(trace string) {
	type ev struct {
		Ev  string   `json:"ev"`
		Lay []layEnt `json:"lay"`
	}
	cls := map[string]int{}
	for _, e := range kit.ReadNDJSON[ev](trace) {
		for _, l := range e.Lay {
			k := "absent"
			if len(l.F.Mem) > 0 {
				k = "plain"
				if l.F.Comb {
					k = fmt.Sprintf("comb%d", min(len(l.F.Mem), 5))
				}
			}
			cls[e.Ev+"/"+k]++
		}
	}
	keys := make([]string, 0, len(cls))
	for k := range cls {
		keys = append(keys, k)
	}
	sort.Strings(keys)
	m := map[string]int{}
	for _, k := range keys {
		m[k] = cls[k]
	}
	b, _ := json.Marshal(m)
	fmt.Println(string(b))
}
