// Command timers drives the real pkg/timers.EpochTimers with scripts (TLC-generated or random)
// and records one trace event per spec action (spec/Timers.tla).
//
//	timers run <scripts.ndjson> <trace.ndjson>     execute scripts {"steps":[{"ev":"Reset","t":1,"d":4},{"ev":"Update","t":3}]}
//	timers gen <n> <len> <maxT> <scripts.ndjson>   seeded random scripts over the model's universe
package main

import (
	"fmt"
	"os"
	"strconv"

	"github.com/nspcc-dev/neofs-node/pkg/timers"
	"verifharness/internal/kit"
)

type step struct {
	Ev string `json:"ev"`
	T  uint64 `json:"t"`
	D  uint64 `json:"d,omitempty"`
}
type script struct {
	Steps []step `json:"steps"`
}

// Deltas must equal Deltas in spec/Timers.tla.
var deltas = [][2]uint32{{1, 2}, {1, 3}, {2, 3}, {1, 1}}

func main() {
	switch os.Args[1] {
	case "run":
		run(os.Args[2], os.Args[3])
	case "gen":
		n, _ := strconv.Atoi(os.Args[2])
		ln, _ := strconv.Atoi(os.Args[3])
		maxT, _ := strconv.Atoi(os.Args[4])
		gen(n, ln, maxT, os.Args[5])
	default:
		fmt.Fprintln(os.Stderr, "usage")
		os.Exit(2)
	}
}

func gen(n, ln, maxT int, out string) {
	r := kit.Rand(40)
	w := kit.NewW(out)
	for i := 0; i < n; i++ {
		var s script
		for j := 0; j < ln; j++ {
			if r.Intn(3) == 0 {
				s.Steps = append(s.Steps, step{Ev: "Reset", T: uint64(r.Intn(maxT + 1)), D: uint64(1 + r.Intn(4))})
			} else {
				s.Steps = append(s.Steps, step{Ev: "Update", T: uint64(r.Intn(maxT + 1))})
			}
		}
		w.Emit(s)
	}
	w.Close()
}

func run(in, out string) {
	scripts := kit.ReadNDJSON[script](in)
	w := kit.NewW(out)
	for _, s := range scripts {
		var fired []string
		tt := timers.EpochTicks{}
		for i := 0; i < 2; i++ {
			id := "e" + strconv.Itoa(i+1)
			tt.NewEpochTicks = append(tt.NewEpochTicks, func() { fired = append(fired, id) })
		}
		for i, d := range deltas {
			id := "d" + strconv.Itoa(i+1)
			tt.DeltaTicks = append(tt.DeltaTicks, timers.SubEpochTick{Tick: func() { fired = append(fired, id) }, EpochMul: d[0], EpochDiv: d[1]})
		}
		et := timers.NewTimers(tt)
		w.Emit(kit.M{"ev": "Init"})
		for _, st := range s.Steps {
			fired = []string{}
			switch st.Ev {
			case "Reset":
				et.Reset(st.T, st.D)
				w.Emit(kit.M{"ev": "Reset", "t": st.T, "d": st.D, "fired": fired})
			case "Update":
				et.UpdateTime(st.T)
				w.Emit(kit.M{"ev": "Update", "t": st.T, "fired": fired})
			}
		}
	}
	w.Close()
}
