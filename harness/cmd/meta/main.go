// Command meta drives a real shard.Shard (FSTree blobstor + bbolt metabase, no write-cache) with
// scripts over a catalogue of objects (spec/catalogs.json = spec/MetaCatalogs.tla) and records one
// trace event per spec action of spec/Metabase.tla together with the projected state ("view").
//
//	meta run <catalogs.json> <scripts.ndjson> <trace.ndjson>
//	meta gen <catalogs.json> <cat> <n> <len> <scripts.ndjson>     seeded random scripts
//
// A script is {"cat":"T","steps":[{"ev":"Put","o":1},{"ev":"Mark","ids":[1],"mark":"def"},
// {"ev":"Delete","ids":[2]},{"ev":"InhumeCnr","c":1},{"ev":"Revive","a":1},{"ev":"Tick"},{"ev":"GC"},
// {"ev":"List","n":2,"from":0},{"ev":"Resync","perm":[3,1,2]}]}
package main

import (
	"crypto/sha256"
	"encoding/json"
	"errors"
	"fmt"
	"os"
	"path/filepath"
	"sort"
	"strconv"
	"sync"
	"sync/atomic"
	"time"

	"github.com/nspcc-dev/bbolt"
	"github.com/nspcc-dev/neo-go/pkg/util"
	iec "github.com/nspcc-dev/neofs-node/pkg/util/verifexport"
	objectcore "github.com/nspcc-dev/neofs-node/pkg/core/object"
	"github.com/nspcc-dev/neofs-node/pkg/local_object_storage/blobstor/common"
	"github.com/nspcc-dev/neofs-node/pkg/local_object_storage/blobstor/fstree"
	meta "github.com/nspcc-dev/neofs-node/pkg/local_object_storage/metabase"
	"github.com/nspcc-dev/neofs-node/pkg/local_object_storage/shard"
	"github.com/nspcc-dev/neofs-sdk-go/checksum"
	apistatus "github.com/nspcc-dev/neofs-sdk-go/client/status"
	cid "github.com/nspcc-dev/neofs-sdk-go/container/id"
	"github.com/nspcc-dev/neofs-sdk-go/object"
	oid "github.com/nspcc-dev/neofs-sdk-go/object/id"
	"github.com/nspcc-dev/neofs-sdk-go/user"
	"github.com/nspcc-dev/neofs-sdk-go/version"
	"go.uber.org/zap"
	"verifharness/internal/kit"
)

type catObj struct {
	Cnr   int    `json:"cnr"`
	Typ   string `json:"typ"`
	Par   int    `json:"par"`
	Tgt   int    `json:"tgt"`
	Exp   int    `json:"exp"`
	Sz    int    `json:"sz"`
	EC    int    `json:"ec"`
	First int    `json:"first"`
	Child bool   `json:"child"`
	Virt  bool   `json:"virt"`
	Mk    bool   `json:"mk"`
}
type catalog struct {
	NC   int      `json:"nc"`
	Objs []catObj `json:"objs"`
}

type step struct {
	Ev   string `json:"ev"`
	O    int    `json:"o,omitempty"`
	IDs  []int  `json:"ids,omitempty"`
	Mark string `json:"mark,omitempty"`
	C    int    `json:"c,omitempty"`
	A    int    `json:"a,omitempty"`
	N    int    `json:"n,omitempty"`
	From int    `json:"from,omitempty"`
	Perm []int  `json:"perm,omitempty"`
	B    int    `json:"b,omitempty"`
}
type script struct {
	Cat   string `json:"cat"`
	Steps []step `json:"steps"`
}

type epochState struct{ e atomic.Uint64 }

func (s *epochState) CurrentEpoch() uint64 { return s.e.Load() }

type noPayments struct{}

func (noPayments) PaymentsDisabled() bool            { return true }
func (noPayments) UnpaidSince(cid.ID) (int64, error) { return -1, nil }

// world is one materialised catalogue: real ids whose byte order equals the catalogue order.
type world struct {
	cat   catalog
	cids  []cid.ID // 1-based
	oids  []oid.ID // 1-based
	objs  []*object.Object
	owner user.ID
}

func newWorld(c catalog, salt int64) *world {
	r := kit.Rand(salt)
	w := &world{cat: c}
	var sh util.Uint160
	r.Read(sh[:])
	w.owner = user.NewFromScriptHash(sh)
	cs := make([]cid.ID, c.NC)
	for i := range cs {
		r.Read(cs[i][:])
	}
	sort.Slice(cs, func(i, j int) bool { return string(cs[i][:]) < string(cs[j][:]) })
	os_ := make([]oid.ID, len(c.Objs))
	for i := range os_ {
		r.Read(os_[i][:])
	}
	sort.Slice(os_, func(i, j int) bool { return string(os_[i][:]) < string(os_[j][:]) })
	// boundary ids: the largest id is 0xFF..FF (cursor increment wraps), the smallest 0x00..01; the order is kept
	if len(os_) > 1 {
		for k := range os_[0] {
			os_[0][k], os_[len(os_)-1][k] = 0, 0xFF
		}
		os_[0][len(os_[0])-1] = 1
	}
	w.cids = append([]cid.ID{{}}, cs...)
	w.oids = append([]oid.ID{{}}, os_...)
	w.objs = make([]*object.Object, len(c.Objs)+1)
	for i := range c.Objs {
		w.objs[i+1] = w.build(i+1, true)
	}
	return w
}

func (w *world) addr(i int) oid.Address { return oid.NewAddress(w.cids[w.cat.Objs[i-1].Cnr], w.oids[i]) }

// build constructs the real object of catalogue entry i (withPayload=false for parent headers).
func (w *world) build(i int, full bool) *object.Object {
	c := w.cat.Objs[i-1]
	o := new(object.Object)
	ver := version.Current()
	o.SetVersion(&ver)
	o.SetContainerID(w.cids[c.Cnr])
	o.SetOwner(w.owner)
	o.SetCreationEpoch(0)
	o.SetID(w.oids[i])
	pl := make([]byte, c.Sz)
	for k := range pl {
		pl[k] = byte(i*31 + k)
	}
	o.SetPayloadSize(uint64(c.Sz))
	o.SetPayloadChecksum(checksum.NewSHA256(sha256.Sum256(pl)))
	var attrs []object.Attribute
	switch c.Typ {
	case "REG":
		o.SetType(object.TypeRegular)
	case "LINK":
		o.SetType(object.TypeLink)
	case "TS":
		o.AssociateDeleted(w.oids[c.Tgt])
	case "LOCK":
		o.AssociateLocked(w.oids[c.Tgt])
	}
	attrs = append(attrs, o.Attributes()...)
	if c.Exp >= 0 {
		attrs = append(attrs, object.NewAttribute(object.AttributeExpirationEpoch, strconv.Itoa(c.Exp)))
	}
	if c.EC >= 0 {
		attrs = append(attrs, object.NewAttribute(iec.ECAttributeRuleIdx, "0"), object.NewAttribute(iec.ECAttributePartIdx, strconv.Itoa(c.EC)))
	}
	attrs = append(attrs, object.NewAttribute("Idx", strconv.Itoa(i)))
	o.SetAttributes(attrs...)
	if full {
		o.SetPayload(pl)
		if c.Par != 0 {
			o.SetParent(w.build(c.Par, false))
			o.SetParentID(w.oids[c.Par])
		} else if c.Child && c.First == 0 {
			// first part of a v2 split: parent header without id
			ph := new(object.Object)
			ph.SetVersion(&ver)
			ph.SetContainerID(w.cids[c.Cnr])
			ph.SetOwner(w.owner)
			ph.SetType(object.TypeRegular)
			o.SetParent(ph)
		}
		if c.First != 0 {
			o.SetFirstID(w.oids[c.First])
		}
	}
	return o
}

type env struct {
	w    *world
	dir  string
	sh   *shard.Shard
	fst  *fstree.FSTree
	es   *epochState
	mb   *meta.DB
	nrun int
	fill []oid.Address
	// fillIdx = number of filler objects currently indexed in the metabase
	fillIdx int
}

func (e *env) open() {
	e.fst = fstree.New(fstree.WithPath(filepath.Join(e.dir, "fstree")), fstree.WithNoSync(true), fstree.WithDepth(1))
	var sh *shard.Shard
	cb := func(addrs []oid.Address) {
		// the engine's policy for expired objects, shard-local: skip locked ones, delete the rest
		for _, a := range addrs {
			if l, err := sh.IsLocked(a); err == nil && l {
				continue
			}
			_ = sh.Delete(a.Container(), []oid.ID{a.Object()})
		}
	}
	sh = shard.New(
		shard.WithLogger(zap.NewNop()),
		shard.WithBlobstor(e.fst),
		shard.WithWriteCache(false),
		shard.WithMetaBaseOptions(
			meta.WithPath(filepath.Join(e.dir, "meta")),
			meta.WithEpochState(e.es),
			meta.WithLogger(zap.NewNop()),
			meta.WithMaxBatchDelay(time.Microsecond),
			meta.WithBoltDBOptions(&bbolt.Options{NoSync: true, NoFreelistSync: true, Timeout: time.Second}),
		),
		shard.WithGCRemoverSleepInterval(time.Hour),
		shard.WithRemoverBatchSize(1000),
		shard.WithExpiredObjectsCallback(cb),
		shard.WithContainerPayments(noPayments{}),
	)
	kit.Must(sh.Open())
	kit.Must(sh.Init())
	e.sh = sh
	e.mb = sh.VerifMetabase()
}

// fillers returns n addresses of regular filler objects in a container outside the catalogue, creating their
// blobs on first use.
func (e *env) fillers(n int) []oid.Address {
	for len(e.fill) < n {
		k := len(e.fill)
		o := new(object.Object)
		ver := version.Current()
		o.SetVersion(&ver)
		var c cid.ID
		for i := range c {
			c[i] = 0xFF // sorts after every catalogue container
		}
		var id oid.ID
		id[0], id[1], id[2], id[3] = 0xEE, byte(k>>16), byte(k>>8), byte(k)
		o.SetContainerID(c)
		o.SetOwner(e.w.owner)
		o.SetID(id)
		o.SetType(object.TypeRegular)
		o.SetPayloadSize(0)
		o.SetPayloadChecksum(checksum.NewSHA256(sha256.Sum256(nil)))
		a := oid.NewAddress(c, id)
		kit.Must(e.fst.Put(a, o.Marshal()))
		e.fill = append(e.fill, a)
	}
	return e.fill[:n]
}

func errClass(err error) string {
	switch {
	case err == nil:
		return "ok"
	case errors.Is(err, apistatus.ErrObjectAlreadyRemoved):
		return "removed"
	case errors.Is(err, meta.ErrObjectIsExpired):
		return "expired"
	case errors.Is(err, apistatus.ErrObjectLocked):
		return "locked"
	case errors.As(err, new(apistatus.LockNonRegularObject)), errors.As(err, new(*apistatus.LockNonRegularObject)):
		return "lockNonRegular"
	case errors.Is(err, meta.ErrLockObjectRemoval):
		return "lockRemoval"
	case errors.Is(err, apistatus.ErrObjectNotFound):
		return "nf"
	}
	return "err"
}

func (e *env) ids(xs []int) []oid.ID {
	r := make([]oid.ID, len(xs))
	for i, x := range xs {
		r[i] = e.w.oids[x]
	}
	return r
}

func (e *env) idx(id oid.ID) int {
	for i := 1; i < len(e.w.oids); i++ {
		if e.w.oids[i] == id {
			return i
		}
	}
	return 0
}

func (e *env) view() kit.M {
	n := len(e.w.cat.Objs)
	ex := make([]string, n)
	get := make([]string, n)
	lk := make([]bool, n)
	ec := make([]string, n)
	blob := make([]bool, n)
	for i := 1; i <= n; i++ {
		a := e.w.addr(i)
		ok, err := e.mb.Exists(a, false)
		switch {
		case err == nil && ok:
			ex[i-1] = "true"
		case err == nil:
			ex[i-1] = "false"
		case errors.Is(err, apistatus.ErrObjectNotFound):
			ex[i-1] = "nf"
		case errors.Is(err, apistatus.ErrObjectAlreadyRemoved):
			ex[i-1] = "removed"
		case errors.Is(err, meta.ErrObjectIsExpired):
			ex[i-1] = "expired"
		case errors.Is(err, iec.ErrParentObject):
			ex[i-1] = "parent"
		default:
			ex[i-1] = "err:" + err.Error()
		}
		_, err = e.mb.Get(a, false)
		switch {
		case err == nil:
			get[i-1] = "ok"
		case errors.Is(err, apistatus.ErrObjectNotFound):
			get[i-1] = "nf"
		case errors.Is(err, apistatus.ErrObjectAlreadyRemoved):
			get[i-1] = "removed"
		case errors.Is(err, meta.ErrObjectIsExpired):
			get[i-1] = "expired"
		default:
			get[i-1] = "err:" + err.Error()
		}
		l, err := e.mb.IsLocked(a)
		kit.Must(err)
		lk[i-1] = l
		_, err = e.mb.ResolveECPart(a.Container(), a.Object(), iec.PartInfo{RuleIndex: 0, Index: 0})
		var si *object.SplitInfoError
		switch {
		case err == nil:
			ec[i-1] = "ok"
		case errors.Is(err, apistatus.ErrObjectNotFound):
			ec[i-1] = "nf"
		case errors.Is(err, apistatus.ErrObjectAlreadyRemoved):
			ec[i-1] = "removed"
		case errors.Is(err, meta.ErrObjectIsExpired):
			ec[i-1] = "expired"
		case errors.As(err, &si):
			ec[i-1] = "other"
		default:
			ec[i-1] = "err:" + err.Error()
		}
		_, err = e.fst.GetBytes(a)
		blob[i-1] = err == nil
	}
	// full listing
	var list []int
	var cur *meta.Cursor
	for {
		res, c, err := e.mb.ListWithCursor(3, cur)
		if errors.Is(err, meta.ErrEndOfListing) {
			break
		}
		kit.Must(err)
		for _, r := range res {
			if k := e.idx(r.Address.Object()); k != 0 { // fillers are outside the catalogue
				list = append(list, k)
			}
		}
		cur = c
	}
	var expd []int
	kit.Must(e.mb.IterateExpired(e.es.CurrentEpoch(), func(a oid.Address, _ object.Type) error {
		expd = append(expd, e.idx(a.Object()))
		return nil
	}))
	var srch []int
	for c := 1; c <= e.w.cat.NC; c++ {
		var sc *objectcore.SearchCursor
		cursor := ""
		for {
			var err error
			_, sc, err = objectcore.PreprocessSearchQuery(nil, nil, cursor)
			kit.Must(err)
			res, next, err := e.mb.Search(e.w.cids[c], nil, nil, sc, 1000)
			kit.Must(err)
			for _, r := range res {
				srch = append(srch, e.idx(r.ID))
			}
			if len(next) == 0 {
				break
			}
			cursor = string(next)
			break // page size exceeds the catalogue
		}
	}
	var garb []int
	bins, err := e.mb.GetGarbage(100000)
	kit.Must(err)
	var deadEmpty []int
	for _, b := range bins {
		for _, id := range b.Objects {
			if k := e.idx(id); k != 0 {
				garb = append(garb, k)
			}
		}
		if len(b.Objects) == 0 {
			for c := 1; c <= e.w.cat.NC; c++ {
				if e.w.cids[c] == b.Container {
					deadEmpty = append(deadEmpty, c)
				}
			}
		}
	}
	// containers known to the metabase (buckets), as catalogue indexes
	cnrList, err := e.mb.Containers()
	kit.Must(err)
	cnrs := []int{}
	for _, c := range cnrList {
		for k := 1; k <= e.w.cat.NC; k++ {
			if e.w.cids[k] == c {
				cnrs = append(cnrs, k)
			}
		}
	}
	sort.Ints(cnrs)
	cs, err := e.mb.ObjectCounters()
	kit.Must(err)
	// indexed filler objects (regular, root, empty payload) are not part of the catalogue
	cs.Phy -= min(cs.Phy, uint64(e.fillIdx))
	cs.Root -= min(cs.Root, uint64(e.fillIdx))
	cnt := make([]uint64, e.w.cat.NC)
	size := make([]uint64, e.w.cat.NC)
	for c := 1; c <= e.w.cat.NC; c++ {
		ci, err := e.mb.GetContainerInfo(e.w.cids[c])
		kit.Must(err)
		cnt[c-1], size[c-1] = ci.ObjectsNumber, ci.StorageSize
	}
	sort.Ints(list)
	sort.Ints(expd)
	sort.Ints(srch)
	sort.Ints(garb)
	return kit.M{"ex": ex, "get": get, "lk": lk, "ec": ec, "blob": blob, "list": nz(list), "expd": nz(expd), "srch": nz(srch),
		"garb": nz(garb), "dead": nz(deadEmpty), "cnrs": cnrs,
		"ctr": kit.M{"phy": capU(cs.Phy), "root": capU(cs.Root), "ts": capU(cs.TS), "lock": capU(cs.Lock), "link": capU(cs.Link), "gc": capU(cs.GC), "pay": capU(cs.Payload)},
		"cnt": capS(cnt), "size": capS(size)}
}

// capU keeps counters inside TLC's 32-bit integers: a wrapped-around counter is reported as 2^30.
func capU(u uint64) uint64 {
	if u > 1<<30 {
		return 1 << 30
	}
	return u
}

func capS(xs []uint64) []uint64 {
	for i := range xs {
		xs[i] = capU(xs[i])
	}
	return xs
}

func nz(x []int) []int {
	if x == nil {
		return []int{}
	}
	return x
}

// orderedStorage wraps the blob storage so that Iterate visits objects in a chosen order.
type orderedStorage struct {
	common.Storage
	order []oid.Address
}

func (s orderedStorage) Iterate(h func(oid.Address, []byte) error, eh func(oid.Address, error) error) error {
	for _, a := range s.order {
		b, err := s.Storage.GetBytes(a)
		if err != nil {
			continue
		}
		if err := h(a, b); err != nil {
			return err
		}
	}
	return nil
}

func (e *env) exec(st step, w emitter) {
	out := kit.M{"ev": st.Ev}
	switch st.Ev {
	case "Put":
		o := e.w.objs[st.O]
		err := e.sh.Put(o, nil)
		out["o"], out["res"] = st.O, errClass(err)
	case "Mark":
		m := meta.GarbageMarkDefault
		if st.Mark == "red" {
			m = meta.GarbageMarkRedundant
		}
		c := e.w.cat.Objs[st.IDs[0]-1].Cnr
		err := e.sh.MarkGarbage(e.w.cids[c], e.ids(st.IDs), m)
		out["ids"], out["mark"], out["res"] = st.IDs, st.Mark, errClass(err)
	case "Delete":
		c := e.w.cat.Objs[st.IDs[0]-1].Cnr
		err := e.sh.Delete(e.w.cids[c], e.ids(st.IDs))
		out["ids"], out["res"] = st.IDs, errClass(err)
	case "InhumeCnr":
		err := e.sh.InhumeContainer(e.w.cids[st.C])
		out["c"], out["res"] = st.C, errClass(err)
	case "Revive":
		rs, err := e.sh.ReviveObject(e.w.addr(st.A))
		out["a"] = st.A
		switch {
		case err == nil && rs.StatusType() == meta.ReviveStatusGarbage:
			out["res"] = "garbage"
		case err == nil && rs.StatusType() == meta.ReviveStatusGraveyard:
			out["res"] = "graveyard"
		case errors.Is(err, meta.ErrObjectWasNotRemoved):
			out["res"] = "notRemoved"
		case errors.Is(err, meta.ErrReviveFromContainerGarbage):
			out["res"] = "cnrGarbage"
		default:
			out["res"] = "err:" + fmt.Sprint(err)
		}
	case "Tick":
		ne := e.es.e.Add(1)
		e.sh.VerifHandleEpoch(ne)
		out["res"] = "ok"
	case "GC":
		e.sh.VerifRunGC()
		out["res"] = "ok"
	case "List":
		// paged listing from an arbitrary cursor (from = catalogue index of the cursor object, 0 = start)
		var cur *meta.Cursor
		if st.From != 0 {
			a := e.w.addr(st.From)
			cur = meta.NewCursor(a.Container(), a.Object())
		}
		pages := [][]int{}
		for guard := 0; guard < 1000; guard++ {
			res, c, err := e.sh.ListWithCursor(st.N, cur)
			if errors.Is(err, shard.ErrEndOfListing) || errors.Is(err, meta.ErrEndOfListing) {
				break
			}
			kit.Must(err)
			pg := []int{}
			for _, r := range res {
				pg = append(pg, e.idx(r.Address.Object()))
			}
			pages = append(pages, pg)
			cur = c
		}
		out["n"], out["from"], out["pages"], out["res"] = st.N, st.From, pages, "ok"
	case "Blob":
		// leftover blob without metadata (crash between the blob write and the metabase step of a put)
		kit.Must(e.fst.Put(e.w.addr(st.O), e.w.objs[st.O].Marshal()))
		out["o"], out["res"] = st.O, "ok"
	case "Resync":
		order := make([]oid.Address, 0, len(st.Perm)+st.B)
		// st.B filler blobs (regular objects of a container outside the catalogue) are enumerated first, so that
		// catalogue blobs fall on the metabase's internal batch boundary (1000) in some orders
		fill := e.fillers(st.B)
		order = append(order, fill...)
		for _, i := range st.Perm {
			order = append(order, e.w.addr(i))
		}
		var iterErrs []string
		err := e.mb.ResyncFromBlobstor(orderedStorage{Storage: e.fst, order: order}, func(a oid.Address, err error) error {
			iterErrs = append(iterErrs, fmt.Sprintf("%d: %v", e.idx(a.Object()), err))
			return nil
		})
		out["perm"], out["res"], out["b"] = st.Perm, errClass(err), st.B
		e.fillIdx = 0
		if st.B > 0 {
			// every filler must be indexed and available again
			missing := 0
			for _, a := range fill {
				if ok, err := e.mb.Exists(a, false); err != nil || !ok {
					missing++
				}
			}
			out["fillers_missing"] = missing
			e.fillIdx = st.B - missing
		}
		if len(iterErrs) > 0 {
			out["iterr"] = iterErrs
		}
		if err != nil {
			out["reserr"] = err.Error()
		}
	default:
		panic("unknown step " + st.Ev)
	}
	if st.Ev != "List" {
		out["v"] = e.view()
	}
	out["epoch"] = e.es.CurrentEpoch()
	w.Emit(out)
}

func loadCats(path string) map[string]catalog {
	b, err := os.ReadFile(path)
	kit.Must(err)
	var m map[string]catalog
	kit.Must(json.Unmarshal(b, &m))
	return m
}

func run(catPath, in, out string) {
	cats := loadCats(catPath)
	scripts := kit.ReadNDJSON[script](in)
	worlds := map[string]*world{}
	for _, s := range scripts {
		if worlds[s.Cat] == nil {
			c, ok := cats[s.Cat]
			if !ok {
				panic("unknown catalogue " + s.Cat)
			}
			worlds[s.Cat] = newWorld(c, int64(len(worlds))+7)
		}
	}
	base, err := os.MkdirTemp("", "meta-run-")
	kit.Must(err)
	defer os.RemoveAll(base)
	// scripts are independent (own shard each): run them on a worker pool, emit in script order
	results := make([][]any, len(scripts))
	var wg sync.WaitGroup
	next := atomic.Int64{}
	for range 8 {
		wg.Add(1)
		go func() {
			defer wg.Done()
			for {
				k := int(next.Add(1)) - 1
				if k >= len(scripts) {
					return
				}
				s := scripts[k]
				e := &env{w: worlds[s.Cat], dir: filepath.Join(base, strconv.Itoa(k)), es: &epochState{}}
				e.open()
				buf := &memW{}
				buf.Emit(kit.M{"ev": "Init", "cat": s.Cat})
				for _, st := range s.Steps {
					e.exec(st, buf)
				}
				kit.Must(e.sh.Close())
				os.RemoveAll(e.dir)
				results[k] = buf.evs
			}
		}()
	}
	wg.Wait()
	w := kit.NewW(out)
	for _, evs := range results {
		for _, ev := range evs {
			w.Emit(ev)
		}
	}
	w.Close()
}

type memW struct{ evs []any }

func (m *memW) Emit(v any) { m.evs = append(m.evs, v) }

type emitter interface{ Emit(any) }

func gen(catPath, cat string, n, ln int, out string) {
	cats := loadCats(catPath)
	c := cats[cat]
	r := kit.Rand(11)
	w := kit.NewW(out)
	var putable, all, markable []int
	for i, o := range c.Objs {
		all = append(all, i+1)
		if !o.Virt {
			putable = append(putable, i+1)
		}
		if o.Mk {
			markable = append(markable, i+1)
		}
	}
	pick := func(xs []int) int { return xs[r.Intn(len(xs))] }
	for k := 0; k < n; k++ {
		s := script{Cat: cat}
		for j := 0; j < ln; j++ {
			switch x := r.Intn(100); {
			case x < 40:
				s.Steps = append(s.Steps, step{Ev: "Put", O: pick(putable)})
			case x < 55:
				a := pick(markable)
				ids := []int{a}
				if r.Intn(3) == 0 {
					b := pick(markable)
					if b != a && c.Objs[b-1].Cnr == c.Objs[a-1].Cnr {
						ids = append(ids, b)
						sort.Ints(ids)
					}
				}
				s.Steps = append(s.Steps, step{Ev: "Mark", IDs: ids, Mark: []string{"def", "red"}[r.Intn(2)]})
			case x < 65:
				s.Steps = append(s.Steps, step{Ev: "Delete", IDs: []int{pick(all)}})
			case x < 68:
				s.Steps = append(s.Steps, step{Ev: "InhumeCnr", C: 1 + r.Intn(c.NC)})
			case x < 76:
				s.Steps = append(s.Steps, step{Ev: "Revive", A: pick(all)})
			case x < 88:
				s.Steps = append(s.Steps, step{Ev: "Tick"})
			default:
				s.Steps = append(s.Steps, step{Ev: "GC"})
			}
		}
		w.Emit(s)
	}
	w.Close()
}

func main() {
	switch os.Args[1] {
	case "run":
		run(os.Args[2], os.Args[3], os.Args[4])
	case "gen":
		n, _ := strconv.Atoi(os.Args[4])
		ln, _ := strconv.Atoi(os.Args[5])
		gen(os.Args[2], os.Args[3], n, ln, os.Args[6])
	default:
		fmt.Fprintln(os.Stderr, "usage: meta run|gen ...")
		os.Exit(2)
	}
}
