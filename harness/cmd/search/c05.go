package main

// C05: records {"k":kind,"in":{...},"out":{...}} produced by the REAL decimal readers and the signed 256-bit
// index codec. Strings and keys are shipped as arrays of byte codes (TLC integers are 32-bit, so every big
// number travels as a digit / byte sequence and is judged by sequence operators in spec/IntStr.tla).

import (
	"bytes"
	"errors"
	"math"
	"math/big"
	"math/rand"
	"strconv"
	"strings"

	objectcore "github.com/nspcc-dev/neofs-node/pkg/core/object"
	"github.com/nspcc-dev/neofs-sdk-go/client"
	"github.com/nspcc-dev/neofs-sdk-go/object"
	oid "github.com/nspcc-dev/neofs-sdk-go/object/id"
	"verifharness/internal/kit"
)

func codes[T string | []byte](s T) []int {
	r := make([]int, len(s))
	for i := 0; i < len(s); i++ {
		r[i] = int(s[i])
	}
	return r
}

var numOps = []object.SearchMatchType{object.MatchNumGT, object.MatchNumGE, object.MatchNumLT, object.MatchNumLE}
var numOpNames = []string{"GT", "GE", "LT", "LE"}

var (
	idLo = oid.ID{1, 2, 3}
	idHi = oid.ID{200, 2, 3}
)

func pdRec(s string) kit.M {
	dec, key, ok := objectcore.VerifParseDecimal(s)
	return kit.M{"ok": ok, "dec": codes(dec), "key": codes(key)}
}

func parseRecord(s string) kit.M {
	out := kit.M{}
	pd := pdRec(s)
	out["pd"] = pd
	neg, dig, sok := objectcore.VerifSplitIntString(s)
	out["sp"] = kit.M{"ok": sok, "neg": neg, "dig": codes(dig)}
	pn := kit.M{"ok": false, "dec": []int{}, "key": []int{}}
	if sok {
		d, k, ok := objectcore.VerifParseNormalized(neg, dig)
		pn = kit.M{"ok": ok, "dec": codes(d), "key": codes(k)}
	}
	out["pn"] = pn
	// numeric filter value through the public query preprocessor
	var flt []kit.M
	for i, op := range numOps {
		var fs object.SearchFilters
		fs.AddFilter("a", s, op)
		ofs, _, err := objectcore.PreprocessSearchQuery(fs, []string{"a"}, "")
		r := kit.M{"op": numOpNames[i], "acc": err == nil || errors.Is(err, objectcore.ErrUnreachableQuery),
			"unreach": errors.Is(err, objectcore.ErrUnreachableQuery), "auto": false, "raw": []int{}}
		if err == nil {
			r["auto"] = ofs[0].AutoMatch
			r["raw"] = codes(ofs[0].Raw)
		}
		flt = append(flt, r)
	}
	out["flt"] = flt
	// cursor recalculation for an integer primary attribute
	var fs object.SearchFilters
	fs.AddFilter("a", "0", object.MatchNumGE)
	cur, err := objectcore.CalculateCursor(&fs[0], client.SearchResultItem{ID: idLo, Attributes: []string{s}})
	cr := kit.M{"ok": err == nil, "key": []int{}, "framed": false}
	if err == nil {
		pre := append([]byte("a"), 0)
		framed := bytes.HasPrefix(cur, pre) && bytes.HasSuffix(cur, idLo[:]) && len(cur) == len(pre)+33+oid.Size
		cr["framed"] = framed
		if framed {
			cr["key"] = codes(cur[len(pre) : len(pre)+33])
		}
	}
	out["cur"] = cr
	// print -> parse round trip and key -> value decoding
	rt := kit.M{"ok": false, "dec": []int{}, "key": []int{}}
	dk := kit.M{"ok": false, "dec": []int{}}
	ria := kit.M{"ok": false, "dec": []int{}}
	if pd["ok"].(bool) {
		dec, key, _ := objectcore.VerifParseDecimal(s)
		rt = pdRec(dec)
		d, ok := objectcore.VerifDecodeKey(key)
		dk = kit.M{"ok": ok, "dec": codes(d)}
		d2, err := objectcore.RestoreIntAttribute(key)
		ria = kit.M{"ok": err == nil, "dec": codes(d2)}
	}
	out["rt"], out["dk"], out["ria"] = rt, dk, ria
	return kit.M{"k": "parse", "in": kit.M{"s": codes(s)}, "out": out}
}

func mergeOrder(a, b string, ida, idb oid.ID) kit.M {
	sets := [][]client.SearchResultItem{{{ID: ida, Attributes: []string{a}}}, {{ID: idb, Attributes: []string{b}}}}
	res, _, err := objectcore.MergeSearchResults(2, "a", true, sets, []bool{false, false})
	if err != nil || len(res) != 2 {
		return kit.M{"ok": false, "first": ""}
	}
	if res[0].ID == ida {
		return kit.M{"ok": true, "first": "a"}
	}
	return kit.M{"ok": true, "first": "b"}
}

func cmpRecord(a, b string) kit.M {
	out := kit.M{}
	c, ok := objectcore.VerifCmpDecimals(a, b)
	kc := 0
	if ok {
		_, ka, _ := objectcore.VerifParseDecimal(a)
		_, kb, _ := objectcore.VerifParseDecimal(b)
		kc = bytes.Compare(ka, kb)
	}
	out["cmp"] = kit.M{"ok": ok, "c": c, "kc": kc}
	sc, sok := objectcore.VerifCompareIntStrings(a, b)
	out["scmp"] = kit.M{"ok": sok, "c": sc}
	out["m1"] = mergeOrder(a, b, idLo, idHi) // OID of a is smaller
	out["m2"] = mergeOrder(a, b, idHi, idLo) // OID of a is bigger
	return kit.M{"k": "cmp", "in": kit.M{"a": codes(a), "b": codes(b)}, "out": out}
}

func pnRecord(neg bool, digits string) kit.M {
	d, k, ok := objectcore.VerifParseNormalized(neg, digits)
	return kit.M{"k": "pn", "in": kit.M{"neg": neg, "dig": codes(digits)}, "out": kit.M{"ok": ok, "dec": codes(d), "key": codes(k)}}
}

func decRecord(key []byte) kit.M {
	d, ok := objectcore.VerifDecodeKey(key)
	d2, err := objectcore.RestoreIntAttribute(key)
	return kit.M{"k": "dec", "in": kit.M{"key": codes(key)}, "out": kit.M{"ok": ok, "dec": codes(d), "ok2": err == nil, "dec2": codes(d2)}}
}

func u64Record(v uint64) kit.M {
	d1, k1, d2, k2 := objectcore.VerifFromUint64(v)
	return kit.M{"k": "u64", "in": kit.M{"s": codes(strconv.FormatUint(v, 10))},
		"out": kit.M{"dec": codes(d1), "key": codes(k1), "dec2": codes(d2), "key2": codes(k2)}}
}

func i64Record(v int64) kit.M {
	d, k := objectcore.VerifFromInt64(v)
	return kit.M{"k": "i64", "in": kit.M{"s": codes(strconv.FormatInt(v, 10))}, "out": kit.M{"dec": codes(d), "key": codes(k)}}
}

var two256 = new(big.Int).Lsh(big.NewInt(1), 256)

func boundaryInts() []string {
	max := new(big.Int).Sub(two256, big.NewInt(1))
	var vs []*big.Int
	add := func(b *big.Int) {
		for _, d := range []int64{-2, -1, 0, 1, 2} {
			v := new(big.Int).Add(b, big.NewInt(d))
			vs = append(vs, v, new(big.Int).Neg(v))
		}
	}
	add(big.NewInt(0))
	for _, sh := range []uint{7, 8, 31, 32, 63, 64, 127, 128, 248, 255} {
		add(new(big.Int).Lsh(big.NewInt(1), sh))
	}
	add(max)
	add(two256)
	for _, e := range []int64{18, 19, 20, 38, 57, 76, 77, 78, 79} { // chunk boundaries of uint256's decimal parser
		add(new(big.Int).Exp(big.NewInt(10), big.NewInt(e), nil))
	}
	var out []string
	for _, v := range vs {
		out = append(out, v.String())
	}
	return out
}

// decorate produces syntactic variants of a canonical decimal: explicit plus, leading zeros, double signs ...
func decorate(r *rand.Rand, dec string) string {
	neg := strings.HasPrefix(dec, "-")
	dig := strings.TrimPrefix(dec, "-")
	switch r.Intn(12) {
	case 0, 1, 2:
		return dec
	case 3:
		if !neg {
			return "+" + dig
		}
		return dec
	case 4:
		z := strings.Repeat("0", 1+r.Intn(4))
		if neg {
			return "-" + z + dig
		}
		if r.Intn(2) == 0 {
			return "+" + z + dig
		}
		return z + dig
	case 5:
		return []string{"++", "-+", "+-", "--"}[r.Intn(4)] + dig
	case 6: // one foreign byte somewhere
		p := r.Intn(len(dec) + 1)
		ch := []string{" ", "e", "_", ".", "x", "+", "-", "\t", "\n", ",", "/", ":", "\xd9\xa3", "\xef\xbc\x91", "E", "a"}[r.Intn(16)]
		return dec[:p] + ch + dec[p:]
	case 7:
		return dec + []string{" ", "e3", ".0", "_", "\x00"}[r.Intn(5)]
	case 8:
		return []string{" ", "0x", "\t", "0b", "0o"}[r.Intn(5)] + dec
	case 9: // very long zero padding
		z := strings.Repeat("0", 60+r.Intn(40))
		if neg {
			return "-" + z + dig
		}
		return z + dig
	default:
		return dec
	}
}

func randBig(r *rand.Rand) *big.Int {
	var v *big.Int
	switch r.Intn(6) {
	case 0:
		v = big.NewInt(int64(r.Intn(300)))
	case 1:
		v = new(big.Int).SetUint64(r.Uint64())
	case 2: // near 2^256
		v = new(big.Int).Sub(two256, big.NewInt(int64(r.Intn(1000))-300))
	case 3: // random bit length up to 270
		v = new(big.Int).Rand(r, new(big.Int).Lsh(big.NewInt(1), uint(1+r.Intn(270))))
	case 4: // random decimal length: exercises the 19-digit chunking
		n := 1 + r.Intn(80)
		b := make([]byte, n)
		for i := range b {
			b[i] = byte('0' + r.Intn(10))
		}
		if b[0] == '0' {
			b[0] = '1'
		}
		v, _ = new(big.Int).SetString(string(b), 10)
	default: // differ from 2^256-1 in one low digit / shared long prefix
		v = new(big.Int).Sub(two256, big.NewInt(1))
		v.Sub(v, new(big.Int).Exp(big.NewInt(10), big.NewInt(int64(r.Intn(78))), nil))
	}
	if r.Intn(2) == 0 {
		v.Neg(v)
	}
	return v
}

func c05recs(out string) {
	r := kit.Rand(5)
	w := newW(out)
	nRand := 250
	nPair := 250
	if kit.Thorough() {
		nRand, nPair = 4000, 4000
	}
	fixed := []string{"", "+", "-", "0", "-0", "+0", "00", "-00", "+07", "007", "7", "-7", "1e3", " 1", "1 ", "0x10", "1_000",
		"++1", "-+1", "+-1", "--1", "-+0", "++0", "+ 1", "\xef\xbc\x91", "\xd9\xa3", "1.0", "1,0", "9", "10", "-10",
		"18446744073709551615", "18446744073709551616", "-18446744073709551615", "-18446744073709551616",
		"9223372036854775807", "-9223372036854775808", "00000000000000000000000000001", "+00000000000000000000",
		"-+115792089237316195423570985008687907853269984665640564039457584007913129639935",
		"++115792089237316195423570985008687907853269984665640564039457584007913129639936"}
	bnd := boundaryInts()
	var pool []string // syntactically valid or not, used for pairs too
	for _, s := range fixed {
		w.Emit(parseRecord(s))
		pool = append(pool, s)
	}
	for _, s := range bnd {
		w.Emit(parseRecord(s))
		pool = append(pool, s)
		if !strings.HasPrefix(s, "-") {
			w.Emit(parseRecord("+" + s))
			w.Emit(parseRecord("000" + s))
			w.Emit(pnRecord(false, s))
			w.Emit(pnRecord(true, s))
			w.Emit(pnRecord(true, "00"+s))
		}
	}
	for i := 0; i < nRand; i++ {
		s := decorate(r, randBig(r).String())
		w.Emit(parseRecord(s))
		pool = append(pool, s)
	}
	for _, d := range []string{"", "+1", "-1", "1 ", "0", "000", "12a", "a", " ", "00000000000000000000", "000000000000000000001",
		"18446744073709551615", "18446744073709551616", "018446744073709551616"} {
		w.Emit(pnRecord(false, d))
		w.Emit(pnRecord(true, d))
	}
	for i := 0; i < nRand/4; i++ {
		d := strings.TrimPrefix(decorate(r, randBig(r).String()), "-")
		w.Emit(pnRecord(r.Intn(2) == 0, d))
	}
	// pairs: all boundary x boundary neighbours + random pairs from the pool (incl. equal values in different spelling)
	for i := range bnd {
		for _, j := range []int{i, (i + 1) % len(bnd), (i + 2) % len(bnd), (i + 7) % len(bnd)} {
			w.Emit(cmpRecord(bnd[i], bnd[j]))
		}
	}
	for i := 0; i < nPair; i++ {
		a := pool[r.Intn(len(pool))]
		b := pool[r.Intn(len(pool))]
		switch r.Intn(5) {
		case 0: // same value, other spelling
			b = decorate(r, strings.TrimLeft(a, "+"))
		case 1: // neighbours
			if v, ok := new(big.Int).SetString(strings.TrimPrefix(a, "+"), 10); ok {
				b = new(big.Int).Add(v, big.NewInt(int64(r.Intn(3)-1))).String()
			}
		}
		w.Emit(cmpRecord(a, b))
	}
	// key decoding: valid keys, wrong sign bytes, wrong lengths, "negative zero"
	negZero := append([]byte{0}, bytes.Repeat([]byte{0xFF}, 32)...)
	w.Emit(decRecord(negZero))
	w.Emit(decRecord(append([]byte{1}, make([]byte, 32)...)))
	w.Emit(decRecord(append([]byte{0}, make([]byte, 32)...)))
	w.Emit(decRecord(append([]byte{1}, bytes.Repeat([]byte{0xFF}, 32)...)))
	w.Emit(decRecord(nil))
	for i := 0; i < nRand/2; i++ {
		k := make([]byte, 33)
		r.Read(k)
		switch r.Intn(8) {
		case 0:
			k[0] = byte(2 + r.Intn(254))
		case 1:
			k = k[:r.Intn(33)]
		case 2:
			k = append(k, byte(r.Intn(256)))
		default:
			k[0] = byte(r.Intn(2))
		}
		if r.Intn(3) == 0 && len(k) == 33 { // small magnitudes
			for j := 1; j < 33-r.Intn(9); j++ {
				k[j] = map[bool]byte{true: 0xFF, false: 0}[k[0] == 0]
			}
		}
		w.Emit(decRecord(k))
	}
	for _, v := range []uint64{0, 1, 255, 256, math.MaxInt64, math.MaxInt64 + 1, math.MaxUint64, math.MaxUint32} {
		w.Emit(u64Record(v))
	}
	for _, v := range []int64{0, 1, -1, math.MaxInt64, math.MinInt64, math.MinInt64 + 1, -256, -255} {
		w.Emit(i64Record(v))
	}
	for i := 0; i < nRand/4; i++ {
		w.Emit(u64Record(r.Uint64() >> uint(r.Intn(64))))
		w.Emit(i64Record(int64(r.Uint64()) >> uint(r.Intn(64))))
	}
	w.Close()
}
