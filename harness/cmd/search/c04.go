package main

// C04: the same corpus spread over 1-4 shards (with overlapping copies) of a real StorageEngine, searched
//   mode "engine": StorageEngine.Search (per-shard pages, MergeSearchResults, CalculateCursor),
//   mode "nodes":  every shard plays a container node; pages are merged the way Server.ProcessSearch does it
//                  (MergeSearchResults with the first attribute left out for STRING_EQUAL, CalculateCursor),
// always through PreprocessSearchQuery with the returned cursor. Trace for spec/TraceMerge.tla.

import (
	"context"
	"fmt"
	"math/rand"
	"os"
	"path/filepath"
	"strconv"
	"time"

	objectcore "github.com/nspcc-dev/neofs-node/pkg/core/object"
	"github.com/nspcc-dev/neofs-node/pkg/local_object_storage/blobstor/fstree"
	"github.com/nspcc-dev/neofs-node/pkg/local_object_storage/engine"
	meta "github.com/nspcc-dev/neofs-node/pkg/local_object_storage/metabase"
	"github.com/nspcc-dev/neofs-node/pkg/local_object_storage/shard"
	"github.com/nspcc-dev/neofs-sdk-go/client"
	cid "github.com/nspcc-dev/neofs-sdk-go/container/id"
	"github.com/nspcc-dev/neofs-sdk-go/object"
	oid "github.com/nspcc-dev/neofs-sdk-go/object/id"
	"verifharness/internal/kit"
)

type paidContainers struct{}

func (paidContainers) PaymentsDisabled() bool             { return true }
func (paidContainers) UnpaidSince(cid.ID) (int64, error) { return -1, nil }

func newEngine(dir string, n int, ep *uint64) (*engine.StorageEngine, []*shard.Shard) {
	e := engine.New()
	for i := 0; i < n; i++ {
		_, err := e.AddShard(
			shard.WithBlobstor(fstree.New(fstree.WithPath(filepath.Join(dir, fmt.Sprintf("fstree%d", i))), fstree.WithDepth(1))),
			shard.WithMetaBaseOptions(
				meta.WithPath(filepath.Join(dir, fmt.Sprintf("meta%d", i))),
				meta.WithPermissions(0o700),
				meta.WithEpochState(epochState{ep}),
				meta.WithMaxBatchDelay(time.Microsecond),
			),
			shard.WithGCRemoverSleepInterval(time.Hour),
			shard.WithContainerPayments(paidContainers{}),
		)
		kit.Must(err)
	}
	kit.Must(e.Init())
	return e, e.VerifSearchShards()
}

// nodesSearch merges per-"node" pages the way Server.ProcessSearch does (default branch).
func nodesSearch(cnr cid.ID, shards []*shard.Shard, sfs object.SearchFilters) searcher {
	return func(ofs []objectcore.SearchFilter, attrs []string, cur *objectcore.SearchCursor, count uint16) ([]client.SearchResultItem, []byte, error) {
		var sets [][]client.SearchResultItem
		var mores []bool
		for _, sh := range shards {
			// every node gets its own copy of the prepared query, as if it had decoded the request itself
			set, crsr, err := sh.Search(cnr, ofs, attrs, cur, count)
			if err != nil {
				return nil, nil, err
			}
			sets = append(sets, set)
			mores = append(mores, crsr != nil)
		}
		var firstAttr string
		var firstFilter *object.SearchFilter
		if len(attrs) > 0 {
			firstFilter = &ofs[0].SearchFilter
			if sfs[0].Operation() != object.MatchStringEqual { // "No reason to compare equal values."
				firstAttr = sfs[0].Header()
			}
		}
		cmpInt := firstAttr != "" && objectcore.IsIntegerSearchOp(sfs[0].Operation())
		res, more, err := objectcore.MergeSearchResults(count, firstAttr, cmpInt, sets, mores)
		if err != nil {
			return nil, nil, fmt.Errorf("merge results from container nodes: %w", err)
		}
		var newCursor []byte
		if more {
			if newCursor, err = objectcore.CalculateCursor(firstFilter, res[len(res)-1]); err != nil {
				return nil, nil, fmt.Errorf("recalculate cursor: %w", err)
			}
		}
		return res, newCursor, nil
	}
}

func c04run(in, out string) {
	scns := kit.ReadNDJSON[scenario](in)
	w := newW(out)
	line := 0
	ctx := context.Background()
	for _, s := range scns {
		p := newPools(s.PoolSeed, maxID(s))
		dir := tmpDir()
		var ep uint64
		ns := max(s.NShards, 1)
		e, shards := newEngine(dir, ns, &ep)
		each := func(o scnObj, f func(sh *shard.Shard) error) error {
			for _, si := range o.Shards {
				if err := f(shards[si-1]); err != nil {
					return fmt.Errorf("shard %d: %w", si, err)
				}
			}
			return nil
		}
		materialise(p, s, &ep,
			func(o scnObj, obj *object.Object) error {
				return each(o, func(sh *shard.Shard) error { return sh.Put(obj, nil) })
			},
			func(o scnObj, id oid.ID, m meta.GarbageMark) error {
				return each(o, func(sh *shard.Shard) error { return sh.MarkGarbage(p.cnr, []oid.ID{id}, m) })
			},
			func(o scnObj, id oid.ID) error {
				return each(o, func(sh *shard.Shard) error { return sh.Delete(p.cnr, []oid.ID{id}) })
			})
		ce := corpusEvent(p, s)
		ce["nshards"] = ns
		w.Emit(ce)
		line++
		corpusLine := line
		for qi, q := range s.Queries {
			rq := p.resolveQuery(q)
			for _, mode := range []string{"engine", "nodes"} {
				var srch searcher
				if mode == "engine" {
					srch = func(fs []objectcore.SearchFilter, attrs []string, cur *objectcore.SearchCursor, n uint16) ([]client.SearchResultItem, []byte, error) {
						return e.Search(ctx, p.cnr, fs, attrs, cur, n)
					}
				} else {
					srch = nodesSearch(p.cnr, shards, sdkFilters(rq))
				}
				for _, n := range q.Ns {
					res, msg, pages := runPages(p, q, n, len(s.Objs)+3, srch)
					if pages == nil {
						pages = []pageRec{}
					}
					w.Emit(kit.M{"ev": "Search", "c": corpusLine, "scn": s.Name, "qi": qi, "mode": mode, "q": queryJSON(rq), "n": n,
						"res": res, "msg": msg, "pages": pages})
					line++
				}
			}
		}
		e.Close()
		os.RemoveAll(dir)
	}
	w.Close()
}

// ---------------------------------------------------------------- random scenarios

// c04 queries stay outside the query classes of the C03 findings (several filters on the primary attribute,
// requested split ID, Base58 prefix as primary, "++1" values): C04 is about merging, not about one shard.
func c04Query(r *rand.Rand, vs valueSrc, nObj int) scnQuery {
	for {
		q := randQuery(r, vs, nObj)
		ok := true
		if len(q.Attrs) > 0 {
			for i := 1; i < len(q.Fs); i++ {
				if q.Fs[i].K == q.Fs[0].K {
					ok = false
				}
			}
			for _, a := range q.Attrs[1:] {
				if a == object.FilterSplitID {
					ok = false
				}
			}
			if isB58Attr(q.Fs[0].K) && q.Fs[0].Op == "PREFIX" {
				if _, has := typedBin(q.Fs[0].K, vs.p.resolve(q.Fs[0].V)); !has {
					ok = false
				}
			}
			// the primary attribute matters most here: prefer the typed ones
		}
		if ok {
			return q
		}
	}
}

func c04gen(n int, out string) {
	r := kit.Rand(400)
	w := newW(out)
	primaries := []string{object.FilterOwnerID, object.FilterPayloadChecksum, object.FilterSplitID, object.FilterParentID,
		object.FilterFirstSplitObject, object.AttributeAssociatedObject, "n", "a", object.FilterCreationEpoch, object.FilterType}
	for i := 0; i < n; i++ {
		s := scenario{Name: "mrg" + strconv.Itoa(i), PutEpoch: 10, CurEpoch: 20, PoolSeed: kit.Seed()*100000 + 50000 + int64(i)}
		s.NShards = 1 + r.Intn(4)
		if r.Intn(5) > 0 && s.NShards == 1 {
			s.NShards = 2 + r.Intn(3)
		}
		allowPlusAfterSign = false
		nObj := 2 + r.Intn(8)
		s.Objs = randObjs(r, nObj, s.PutEpoch, s.CurEpoch)
		// typed attributes present more often, so that every primary attribute has several values
		for k := range s.Objs {
			o := &s.Objs[k]
			if o.Typ == "" || o.Typ == "LINK" {
				if r.Intn(2) == 0 {
					o.Split = 1 + r.Intn(3)
				}
				if r.Intn(2) == 0 {
					o.Parent = 1 + r.Intn(3)
				}
				if r.Intn(2) == 0 {
					o.First = 1 + r.Intn(3)
				}
				if r.Intn(2) == 0 {
					o.Assoc = 1 + r.Intn(4)
				}
			}
		}
		// distribution over shards: every object on a random non-empty subset; a tombstone is stored wherever
		// its target is (the engine broadcasts removals), fates are applied on every copy
		byID := map[int]*scnObj{}
		for k := range s.Objs {
			o := &s.Objs[k]
			byID[o.ID] = o
			for sh := 1; sh <= s.NShards; sh++ {
				if r.Intn(2) == 0 {
					o.Shards = append(o.Shards, sh)
				}
			}
			if len(o.Shards) == 0 {
				o.Shards = []int{1 + r.Intn(s.NShards)}
			}
		}
		for k := range s.Objs {
			o := &s.Objs[k]
			if o.Typ == "TOMBSTONE" {
				have := map[int]bool{}
				for _, sh := range o.Shards {
					have[sh] = true
				}
				for _, sh := range byID[o.Target].Shards {
					if !have[sh] {
						o.Shards = append(o.Shards, sh)
					}
				}
			}
		}
		vs := valueSrc{p: newPools(s.PoolSeed, maxID(s)), objs: s.Objs}
		// one query per primary attribute kind with a loose first filter, then random ones
		for _, k := range primaries {
			if r.Intn(2) == 0 {
				continue
			}
			f := scnFilter{K: k, Op: "NE", V: "zz"}
			switch k {
			case "n", object.FilterCreationEpoch:
				if r.Intn(2) == 0 {
					f = scnFilter{K: k, Op: []string{"GE", "GT"}[r.Intn(2)], V: strconv.Itoa(r.Intn(3) - 3)}
				}
			}
			q := scnQuery{Fs: []scnFilter{f}, Attrs: []string{k}, Ns: []int{1, 2, 3}}
			if r.Intn(3) == 0 {
				q.Fs = append(q.Fs, vs.randFilter(r, userKeys[r.Intn(len(userKeys))]))
				if q.Fs[1].K == k {
					q.Fs = q.Fs[:1]
				}
			}
			s.Queries = append(s.Queries, q)
		}
		for j := 0; j < 4; j++ {
			q := c04Query(r, vs, len(s.Objs))
			q.Ns = []int{1, 2 + r.Intn(2)}
			s.Queries = append(s.Queries, q)
		}
		w.Emit(s)
	}
	w.Close()
}
