package main

// C03: replay corpora + queries on a real meta.DB through PreprocessSearchQuery -> DB.Search -> cursor -> ...
// and log one event per corpus ("Corpus") and one per (query, page size) ("Search") for spec/TraceSearch.tla.

import (
	"fmt"
	"math/big"
	"math/rand"
	"os"
	"strconv"
	"strings"

	"github.com/google/uuid"
	objectcore "github.com/nspcc-dev/neofs-node/pkg/core/object"
	meta "github.com/nspcc-dev/neofs-node/pkg/local_object_storage/metabase"
	"github.com/nspcc-dev/neofs-sdk-go/client"
	"github.com/nspcc-dev/neofs-sdk-go/object"
	oid "github.com/nspcc-dev/neofs-sdk-go/object/id"
	"verifharness/internal/kit"
)

func maxID(s scenario) int {
	m := 0
	for _, o := range s.Objs {
		m = max(m, o.ID)
	}
	return m
}

// materialise puts the corpus into db and applies the fates. Put errors are fatal: the scenario generator
// only produces corpora every object of which must be accepted.
func materialise(p *pools, s scenario, ep *uint64, put func(o scnObj, obj *object.Object) error,
	mark func(o scnObj, id oid.ID, m meta.GarbageMark) error, del func(o scnObj, id oid.ID) error) {
	*ep = s.PutEpoch
	for _, o := range putOrder(s.Objs) {
		if err := put(o, p.build(o)); err != nil {
			panic(fmt.Sprintf("scenario %s: put of object %d failed: %v", s.Name, o.ID, err))
		}
	}
	for _, o := range s.Objs {
		id := p.ids[o.ID-1]
		switch o.Fate {
		case "gc":
			kit.Must(mark(o, id, meta.GarbageMarkDefault))
		case "gcr":
			kit.Must(mark(o, id, meta.GarbageMarkRedundant))
		case "del":
			kit.Must(del(o, id))
		case "gcdel": // what the shard GC does: garbage mark first, physical removal later
			kit.Must(mark(o, id, meta.GarbageMarkDefault))
			kit.Must(del(o, id))
		}
	}
	*ep = s.CurEpoch
}

func c03run(in, out string) {
	scns := kit.ReadNDJSON[scenario](in)
	w := newW(out)
	line := 0
	for _, s := range scns {
		p := newPools(s.PoolSeed, maxID(s))
		dir := tmpDir()
		var ep uint64
		db := newMetaDB(dir, &ep)
		materialise(p, s, &ep,
			func(_ scnObj, obj *object.Object) error { return db.Put(obj) },
			func(_ scnObj, id oid.ID, m meta.GarbageMark) error {
				_, err := db.MarkGarbage(p.cnr, []oid.ID{id}, m)
				return err
			},
			func(_ scnObj, id oid.ID) error {
				_, _, err := db.Delete(p.cnr, []oid.ID{id})
				return err
			})
		w.Emit(corpusEvent(p, s))
		line++
		corpusLine := line
		srch := func(fs []objectcore.SearchFilter, attrs []string, cur *objectcore.SearchCursor, n uint16) ([]client.SearchResultItem, []byte, error) {
			return db.Search(p.cnr, fs, attrs, cur, n)
		}
		for qi, q := range s.Queries {
			for _, n := range q.Ns {
				res, msg, pages := runPages(p, q, n, len(s.Objs)+3, srch)
				if pages == nil {
					pages = []pageRec{}
				}
				w.Emit(kit.M{"ev": "Search", "c": corpusLine, "qi": qi, "scn": s.Name, "q": queryJSON(p.resolveQuery(q)), "n": n, "res": res, "msg": msg, "pages": pages})
				line++
			}
		}
		db.Close()
		os.RemoveAll(dir)
	}
	w.Close()
}

// ---------------------------------------------------------------- random scenarios

var userKeys = []string{"a", "b", "n", "a1"}

var big256 = new(big.Int).Lsh(big.NewInt(1), 256)

var allowPlusAfterSign bool

func randValue(r *rand.Rand) string {
	if allowPlusAfterSign && r.Intn(6) == 0 {
		return []string{"++1", "-+1", "++0", "-+7"}[r.Intn(4)]
	}
	switch r.Intn(10) {
	case 0, 1: // strings sharing prefixes
		return []string{"a", "ab", "abc", "b", "ab ", "aB", "x1", "abd", "a\x01", "\xd0\xb0"}[r.Intn(10)]
	case 2, 3: // small integers in several spellings
		return []string{"0", "-0", "+0", "7", "+07", "007", "-1", "-01", "10", "9", "-10", "1e3", " 1", "1 ", "0x10", "+-1"}[r.Intn(16)]
	case 4: // near the limits
		v := new(big.Int).Sub(big256, big.NewInt(int64(r.Intn(4))))
		if r.Intn(2) == 0 {
			v.Neg(v)
		}
		return v.String()
	case 5: // 64-bit boundary
		v := new(big.Int).Add(new(big.Int).Lsh(big.NewInt(1), 64), big.NewInt(int64(r.Intn(3)-1)))
		if r.Intn(2) == 0 {
			v.Neg(v)
		}
		return v.String()
	case 6:
		return strconv.Itoa(r.Intn(21) - 10)
	case 7:
		return strings.Repeat("9", 1+r.Intn(80))
	default:
		return []string{"a", "ab", "b", "0", "7", "-1", "+07", "x1"}[r.Intn(8)]
	}
}

func randObjs(r *rand.Rand, n int, putEpoch, curEpoch uint64) []scnObj {
	var objs []scnObj
	nReg := n
	for i := 1; i <= nReg; i++ {
		o := scnObj{ID: i, Owner: 1 + r.Intn(3), CS: 1 + r.Intn(5), Epoch: uint64(r.Intn(4)), Size: uint64(r.Intn(3) * 100), Ver: r.Intn(3)}
		for _, k := range userKeys {
			if r.Intn(3) > 0 {
				o.Attrs = append(o.Attrs, [2]string{k, randValue(r)})
			}
		}
		if r.Intn(3) == 0 {
			o.Split = 1 + r.Intn(3)
		}
		if r.Intn(4) == 0 {
			o.First = 1 + r.Intn(3)
		}
		if r.Intn(4) == 0 {
			o.Parent = 1 + r.Intn(3)
		}
		if r.Intn(3) == 0 {
			o.Assoc = 1 + r.Intn(4)
		}
		switch r.Intn(12) {
		case 0:
			o.Typ = "LINK"
		case 1:
			o.Typ = "LOCK"
			o.Assoc = 1 + r.Intn(4)
			o.Attrs = nil
		}
		switch r.Intn(10) {
		case 0:
			o.Exp = int64(putEpoch + uint64(r.Intn(int(curEpoch-putEpoch)))) // expired at query time
		case 1:
			o.Exp = int64(curEpoch + uint64(r.Intn(3))) // not yet
		}
		if o.Typ == "" {
			switch r.Intn(10) {
			case 0:
				o.Fate = "gc"
			case 1:
				o.Fate = "gcr"
			case 2, 3:
				o.Fate = "del"
			case 4:
				o.Fate = "gcdel"
			}
		}
		objs = append(objs, o)
	}
	// a few tombstones; their IDs take ranks too, so renumber: tombstones get random free ranks
	nTS := r.Intn(3)
	for t := 0; t < nTS && nReg > 0; t++ {
		tgt := 1 + r.Intn(nReg)
		if objs[tgt-1].Typ != "" || objs[tgt-1].Fate != "" {
			continue
		}
		objs = append(objs, scnObj{ID: len(objs) + 1, Typ: "TOMBSTONE", Target: tgt, Owner: 1 + r.Intn(3), CS: 1 + r.Intn(5), Epoch: uint64(r.Intn(4))})
	}
	// shuffle ranks so that tombstones are not always the biggest IDs
	perm := r.Perm(len(objs))
	newID := make([]int, len(objs)+1)
	for i := range objs {
		newID[i+1] = perm[i] + 1
	}
	for i := range objs {
		objs[i].ID = newID[objs[i].ID]
		if objs[i].Target > 0 {
			objs[i].Target = newID[objs[i].Target]
		}
	}
	return objs
}

type valueSrc struct {
	p    *pools
	objs []scnObj
}

// randFilter picks a filter whose value is related to what the corpus holds.
func (vs valueSrc) randFilter(r *rand.Rand, key string) scnFilter {
	p := vs.p
	str := func(vals ...string) string { return vals[r.Intn(len(vals))] }
	mangle := func(s string) string { // exact, proper prefix, extension, other
		switch r.Intn(6) {
		case 0, 1, 2:
			return s
		case 3:
			if len(s) > 0 {
				return s[:r.Intn(len(s))]
			}
			return s
		case 4:
			return s + "1"
		default:
			return s
		}
	}
	plainOps := []string{"EQ", "NE", "PREFIX", "NOT_PRESENT"}
	numOps := []string{"GT", "GE", "LT", "LE"}
	switch key {
	case object.FilterRoot, object.FilterPhysical:
		return scnFilter{K: key, Op: "FLAG"}
	case object.FilterOwnerID:
		o := p.owners[r.Intn(len(p.owners))]
		return scnFilter{K: key, Op: plainOps[r.Intn(3)], V: mangle(o.EncodeToString())}
	case object.FilterPayloadChecksum:
		h := p.sums[r.Intn(len(p.sums))]
		hs := fmt.Sprintf("%x", h[:])
		if r.Intn(5) == 0 {
			hs = strings.ToUpper(hs)
		}
		return scnFilter{K: key, Op: plainOps[r.Intn(3)], V: mangle(hs)}
	case object.FilterSplitID:
		s := p.splits[r.Intn(len(p.splits))]
		return scnFilter{K: key, Op: plainOps[r.Intn(3)], V: mangle(uuid.UUID(s).String())}
	case object.FilterParentID:
		return scnFilter{K: key, Op: plainOps[r.Intn(3)], V: mangle(p.parents[r.Intn(len(p.parents))].EncodeToString())}
	case object.FilterFirstSplitObject:
		return scnFilter{K: key, Op: plainOps[r.Intn(3)], V: mangle(p.firsts[r.Intn(len(p.firsts))].EncodeToString())}
	case object.AttributeAssociatedObject:
		var id oid.ID
		if r.Intn(2) == 0 {
			id = p.assocs[r.Intn(len(p.assocs))]
		} else {
			id = p.ids[r.Intn(len(p.ids))]
		}
		return scnFilter{K: key, Op: plainOps[r.Intn(4)], V: mangle(id.EncodeToString())}
	case object.FilterType:
		return scnFilter{K: key, Op: plainOps[r.Intn(3)], V: mangle(str("REGULAR", "TOMBSTONE", "LOCK", "LINK"))}
	case object.FilterVersion:
		return scnFilter{K: key, Op: plainOps[r.Intn(3)], V: mangle(str("v2.18", "v2.7", "v10.0"))}
	case object.FilterCreationEpoch, object.FilterPayloadSize, object.AttributeExpirationEpoch:
		if r.Intn(3) == 0 {
			return scnFilter{K: key, Op: plainOps[r.Intn(3)], V: str("0", "1", "100", "2", "20")}
		}
		return scnFilter{K: key, Op: numOps[r.Intn(4)], V: str("0", "1", "2", "100", "-1", "+1", "200", "12", "19")}
	}
	// user attribute
	if r.Intn(2) == 0 {
		v := randValue(r)
		if r.Intn(3) == 0 { // the neighbour of a stored integer
			if b, ok := new(big.Int).SetString(strings.TrimPrefix(v, "+"), 10); ok {
				v = b.Add(b, big.NewInt(int64(r.Intn(3)-1))).String()
			}
		}
		if b, ok := new(big.Int).SetString(v, 10); ok && b.CmpAbs(big256) < 0 && !strings.HasPrefix(v, "+-") {
			return scnFilter{K: key, Op: numOps[r.Intn(4)], V: v}
		}
	}
	op := plainOps[r.Intn(4)]
	v := ""
	if op != "NOT_PRESENT" {
		v = mangle(randValue(r))
		if op == "EQ" && v == "" {
			v = "a"
		}
	}
	return scnFilter{K: key, Op: op, V: v}
}

var sysKeys = []string{object.FilterOwnerID, object.FilterPayloadChecksum, object.FilterSplitID, object.FilterParentID,
	object.FilterFirstSplitObject, object.AttributeAssociatedObject, object.FilterType, object.FilterVersion,
	object.FilterCreationEpoch, object.FilterPayloadSize, object.FilterRoot, object.FilterPhysical, object.AttributeExpirationEpoch}

func randQuery(r *rand.Rand, vs valueSrc, nObj int) scnQuery {
	var q scnQuery
	nf := []int{0, 1, 1, 1, 2, 2, 2, 3, 3, 4}[r.Intn(10)]
	pick := func() string {
		if r.Intn(5) < 3 {
			return userKeys[r.Intn(len(userKeys))]
		}
		return sysKeys[r.Intn(len(sysKeys))]
	}
	for i := 0; i < nf; i++ {
		k := pick()
		if i > 0 && r.Intn(6) == 0 {
			k = q.Fs[r.Intn(i)].K // several filters on one attribute
		}
		q.Fs = append(q.Fs, vs.randFilter(r, k))
	}
	q.Attrs = []string{}
	if nf > 0 && r.Intn(4) > 0 {
		q.Attrs = append(q.Attrs, q.Fs[0].K)
		for len(q.Attrs) < 4 && r.Intn(2) == 0 {
			k := pick()
			if k == object.FilterRoot || k == object.FilterPhysical || r.Intn(2) == 0 {
				k = userKeys[r.Intn(len(userKeys))]
			}
			q.Attrs = append(q.Attrs, k)
		}
	}
	if r.Intn(6) == 0 { // numeric walk over a header field; the other filters must not need another attribute
		k := []string{object.FilterPayloadSize, object.FilterCreationEpoch, object.AttributeExpirationEpoch}[r.Intn(3)]
		f := scnFilter{K: k, Op: []string{"GE", "GT", "LT", "LE"}[r.Intn(4)], V: []string{"0", "-1", "1", "100", "150", "2", "12", "300"}[r.Intn(8)]}
		q.Fs = []scnFilter{f}
		if r.Intn(3) == 0 {
			q.Fs = append(q.Fs, scnFilter{K: userKeys[r.Intn(len(userKeys))], Op: "NOT_PRESENT"})
		}
		q.Attrs = []string{k}
		if r.Intn(3) == 0 {
			q.Attrs = append(q.Attrs, userKeys[r.Intn(len(userKeys))])
		}
	}
	q.Ns = []int{1, 2 + r.Intn(3), 1000}
	if r.Intn(3) == 0 {
		q.Ns = append(q.Ns, 1+r.Intn(nObj+1))
	}
	return q
}

func c03gen(n int, out string, salt int64) {
	r := kit.Rand(300 + salt)
	w := newW(out)
	for i := 0; i < n; i++ {
		s := scenario{Name: "rnd" + strconv.Itoa(i), PutEpoch: 10, CurEpoch: 20, PoolSeed: kit.Seed()*100000 + int64(i)}
		allowPlusAfterSign = r.Intn(8) == 0
		nObj := 1 + r.Intn(9)
		if r.Intn(10) == 0 {
			nObj = 12 + r.Intn(8)
		}
		s.Objs = randObjs(r, nObj, s.PutEpoch, s.CurEpoch)
		vs := valueSrc{p: newPools(s.PoolSeed, maxID(s)), objs: s.Objs}
		nq := 6 + r.Intn(6)
		for j := 0; j < nq; j++ {
			s.Queries = append(s.Queries, randQuery(r, vs, len(s.Objs)))
		}
		w.Emit(s)
	}
	w.Close()
}
