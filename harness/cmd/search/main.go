// Command search is the conformance harness of family "search" (C03, C04, C05).
//
//	search c05recs <out.ndjson>                      records from the real decimal readers / signed256 codec
//	search c03run  <scenarios.ndjson> <trace.ndjson> replay corpora+queries on a real meta.DB (C03)
//	search c03gen  <n> <scenarios.ndjson>            seeded random corpora+queries
//	search c04run  <scenarios.ndjson> <trace.ndjson> replay on a real multi-shard StorageEngine and the multi-node merge path (C04)
//	search c04gen  <n> <scenarios.ndjson>
package main

import (
	"fmt"
	"os"
	"strconv"
)

func atoi(s string) int {
	n, err := strconv.Atoi(s)
	if err != nil {
		panic(err)
	}
	return n
}

func main() {
	if len(os.Args) < 2 {
		fmt.Fprintln(os.Stderr, "usage: search <sub-command> ...")
		os.Exit(2)
	}
	switch os.Args[1] {
	case "c05recs":
		c05recs(os.Args[2])
	case "c03run":
		c03run(os.Args[2], os.Args[3])
	case "c03gen":
		c03gen(atoi(os.Args[2]), os.Args[3], 0)
	case "c04run":
		c04run(os.Args[2], os.Args[3])
	case "c04gen":
		c04gen(atoi(os.Args[2]), os.Args[3])
	default:
		fmt.Fprintln(os.Stderr, "unknown sub-command", os.Args[1])
		os.Exit(2)
	}
}
