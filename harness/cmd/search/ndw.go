package main

import (
	"bufio"
	"encoding/json"
	"os"

	"verifharness/internal/kit"
)

// ndw writes one JSON document per line (own writer: the shared kit's writer API is still moving).
type ndw struct {
	f *os.File
	b *bufio.Writer
}

func newW(path string) *ndw {
	f, err := os.Create(path)
	kit.Must(err)
	return &ndw{f: f, b: bufio.NewWriterSize(f, 1<<20)}
}

func (w *ndw) Emit(v any) {
	d, err := json.Marshal(v)
	kit.Must(err)
	w.b.Write(d)
	w.b.WriteByte('\n')
}

func (w *ndw) Close() {
	kit.Must(w.b.Flush())
	kit.Must(w.f.Close())
}
