package main

// Shared by C03/C04: scenario format, materialisation of abstract corpora as real SDK objects, the reference
// list of searchable attributes of an object (what the API promises to index), query preparation.

import (
	"bytes"
	"crypto/sha256"
	"encoding/base64"
	"encoding/hex"
	"errors"
	"fmt"
	"math/rand"
	"os"
	"path/filepath"
	"slices"
	"sort"
	"strconv"
	"strings"
	"time"

	"github.com/google/uuid"
	"github.com/mr-tron/base58"
	"github.com/nspcc-dev/neo-go/pkg/util"
	objectcore "github.com/nspcc-dev/neofs-node/pkg/core/object"
	meta "github.com/nspcc-dev/neofs-node/pkg/local_object_storage/metabase"
	"github.com/nspcc-dev/neofs-node/pkg/local_object_storage/blobstor/common"
	"github.com/nspcc-dev/neofs-sdk-go/checksum"
	"github.com/nspcc-dev/neofs-sdk-go/client"
	cid "github.com/nspcc-dev/neofs-sdk-go/container/id"
	"github.com/nspcc-dev/neofs-sdk-go/object"
	oid "github.com/nspcc-dev/neofs-sdk-go/object/id"
	"github.com/nspcc-dev/neofs-sdk-go/user"
	"github.com/nspcc-dev/neofs-sdk-go/version"
	"verifharness/internal/kit"
)


type scnObj struct {
	ID     int         `json:"id"`              // rank of the OID among the corpus OIDs (1..N)
	Attrs  [][2]string `json:"attrs,omitempty"` // user attributes
	Owner  int         `json:"owner"`           // 1-based index into the owner pool
	CS     int         `json:"cs"`              // 1-based index into the checksum pool
	Split  int         `json:"split,omitempty"` // 0 = unset
	Parent int         `json:"parent,omitempty"`
	First  int         `json:"first,omitempty"`
	Assoc  int         `json:"assoc,omitempty"`  // plain association with an ID of the association pool (any type)
	Typ    string      `json:"typ,omitempty"`    // "" = REGULAR, TOMBSTONE, LOCK, LINK
	Target int         `json:"target,omitempty"` // TOMBSTONE: corpus id of the removed object
	Epoch  uint64      `json:"epoch"`
	Size   uint64      `json:"size"`
	Ver    int         `json:"ver,omitempty"`
	Exp    int64       `json:"exp,omitempty"`  // expiration epoch, 0 = none
	Fate   string      `json:"fate,omitempty"` // "" | "gc" (garbage mark) | "gcr" (redundant mark, stays available) | "del" (physically deleted) | "gcdel" (marked, then deleted)
	Shards []int       `json:"shards,omitempty"`
}

type scnFilter struct {
	K  string `json:"k"`
	Op string `json:"op"` // EQ NE PREFIX NOT_PRESENT GT GE LT LE FLAG
	V  string `json:"v"`
}

type scnQuery struct {
	Fs    []scnFilter `json:"fs"`
	Attrs []string    `json:"attrs"`
	Ns    []int       `json:"ns"`
}

type scenario struct {
	Name     string     `json:"name,omitempty"`
	Objs     []scnObj   `json:"objs"`
	PutEpoch uint64     `json:"put_epoch"`
	CurEpoch uint64     `json:"cur_epoch"`
	NShards  int        `json:"nshards,omitempty"`
	Queries  []scnQuery `json:"queries"`
	PoolSeed int64      `json:"pool_seed"`
}

var opByName = map[string]object.SearchMatchType{
	"EQ": object.MatchStringEqual, "NE": object.MatchStringNotEqual, "PREFIX": object.MatchCommonPrefix,
	"NOT_PRESENT": object.MatchNotPresent, "GT": object.MatchNumGT, "GE": object.MatchNumGE, "LT": object.MatchNumLT,
	"LE": object.MatchNumLE, "FLAG": object.MatchUnspecified,
}

type epochState struct{ e *uint64 }

func (s epochState) CurrentEpoch() uint64 { return *s.e }

// pools of typed values; deterministic per PoolSeed so that a replay file reproduces the same bytes.
type pools struct {
	cnr     cid.ID
	ids     []oid.ID // corpus OIDs, sorted: ids[k-1] is abstract id k
	owners  []user.ID
	sums    [][32]byte
	splits  [][16]byte
	parents []oid.ID
	firsts  []oid.ID
	assocs  []oid.ID
	vers    []version.Version
	rank    map[oid.ID]int
}

func sortedIDs(r *rand.Rand, n int, firstByte func(i int) (byte, bool)) []oid.ID {
	ids := make([]oid.ID, n)
	for i := range ids {
		r.Read(ids[i][:])
		if firstByte != nil {
			if b, ok := firstByte(i); ok {
				ids[i][0] = b
			}
		}
	}
	sort.Slice(ids, func(i, j int) bool { return bytes.Compare(ids[i][:], ids[j][:]) < 0 })
	return ids
}

func newPools(seed int64, nObj int) *pools {
	r := rand.New(rand.NewSource(seed*7919 + 17))
	p := &pools{rank: map[oid.ID]int{}}
	r.Read(p.cnr[:])
	p.ids = sortedIDs(r, nObj, func(i int) (byte, bool) { // a few IDs with leading zero bytes / 0xFF
		switch i % 7 {
		case 0:
			return 0, true
		case 1:
			return 0xFF, true
		case 2:
			return 0x04, true // 43-character Base58 (tombstone targets become associate values)
		}
		return 0, false
	})
	for i := range p.ids {
		if p.ids[i][31] == 0 { // keeps the malformed payload-checksum cursor (H5) always malformed
			p.ids[i][31] = 1
		}
	}
	for i, id := range p.ids {
		p.rank[id] = i + 1
	}
	for i := 0; i < 3; i++ {
		var sh util.Uint160
		r.Read(sh[:])
		if i == 1 {
			copy(sh[:], p.owners[0][1:20]) // long shared prefix (valid IDs: version byte, script hash, checksum)
		}
		p.owners = append(p.owners, user.NewFromScriptHash(sh))
	}
	for i := 0; i < 5; i++ {
		var h [32]byte
		r.Read(h[:])
		switch i {
		case 1:
			copy(h[:], p.sums[0][:30]) // shared prefix
		case 2:
			h[0], h[1], h[5] = 0, 0, 0 // zero bytes = the key delimiter inside the value
		case 3:
			h[31] = 0
			h[0] = 0xFF
		}
		p.sums = append(p.sums, h)
	}
	for i := 0; i < 3; i++ {
		var s [16]byte
		r.Read(s[:])
		s[6] = (s[6] & 0x0f) | 0x40
		s[8] = (s[8] & 0x3f) | 0x80
		if i == 1 {
			copy(s[:6], p.splits[0][:6])
		}
		p.splits = append(p.splits, s)
	}
	mk := func(n int) []oid.ID {
		return sortedIDs(r, n, func(i int) (byte, bool) {
			if i == 0 {
				return 0, true // leading zero byte => shorter Base58 string
			}
			return 0, false
		})
	}
	p.parents, p.firsts, p.assocs = mk(3), mk(3), mk(4)
	p.parents[1][1], p.assocs[0][1], p.assocs[0][2] = 0, 0, 0
	// small non-zero leading byte => 43-character Base58 string that sorts AFTER the 44-character ones as a string
	// although the bytes sort before them (only a comparison of the decoded IDs orders such values correctly)
	p.assocs[1][0], p.parents[2][0], p.firsts[1][0] = 0x03, 0x05, 0x02
	p.vers = []version.Version{version.New(2, 18), version.New(2, 7), version.New(10, 0)}
	return p
}

// attrRec is one searchable attribute of an object: DB (index) form and API (string) form.
type attrRec struct {
	K   string `json:"k"`
	DB  []int  `json:"db"`
	Str []int  `json:"str"`
}

func (p *pools) build(o scnObj) *object.Object {
	obj := object.New(p.cnr, p.owners[o.Owner-1])
	obj.SetID(p.ids[o.ID-1])
	ver := p.vers[o.Ver]
	obj.SetVersion(&ver)
	obj.SetCreationEpoch(o.Epoch)
	obj.SetPayloadSize(o.Size)
	obj.SetPayloadChecksum(checksum.NewSHA256(p.sums[o.CS-1]))
	switch o.Typ {
	case "", "REGULAR":
		obj.SetType(object.TypeRegular)
	case "TOMBSTONE":
		obj.SetType(object.TypeTombstone)
	case "LOCK":
		obj.SetType(object.TypeLock)
	case "LINK":
		obj.SetType(object.TypeLink)
	default:
		panic("type " + o.Typ)
	}
	if o.Split > 0 {
		obj.SetSplitID(object.NewSplitIDFromV2(p.splits[o.Split-1][:]))
	}
	if o.First > 0 {
		obj.SetFirstID(p.firsts[o.First-1])
	}
	if o.Parent > 0 {
		obj.SetParentID(p.parents[o.Parent-1])
	}
	var attrs []object.Attribute
	for _, a := range o.Attrs {
		attrs = append(attrs, object.NewAttribute(a[0], a[1]))
	}
	if o.Exp > 0 {
		attrs = append(attrs, object.NewAttribute(object.AttributeExpirationEpoch, strconv.FormatInt(o.Exp, 10)))
	}
	if o.Typ == "TOMBSTONE" {
		attrs = append(attrs, object.NewAttribute(object.AttributeAssociatedObject, p.ids[o.Target-1].EncodeToString()))
	} else if o.Assoc > 0 {
		attrs = append(attrs, object.NewAttribute(object.AttributeAssociatedObject, p.assocs[o.Assoc-1].EncodeToString()))
	}
	obj.SetAttributes(attrs...)
	return obj
}

// refAttrs is the reference list of searchable attributes of an object (the harness' statement of what the
// API indexes, independent of the metabase code).
func (p *pools) refAttrs(o scnObj) []attrRec {
	var res []attrRec
	plain := func(k, v string) { res = append(res, attrRec{k, codes(v), codes(v)}) }
	typed := func(k string, db []byte, str string) { res = append(res, attrRec{k, codes(db), codes(str)}) }
	plain(object.FilterVersion, p.vers[o.Ver].String())
	ow := p.owners[o.Owner-1]
	typed(object.FilterOwnerID, ow[:], ow.EncodeToString())
	typ := o.Typ
	if typ == "" {
		typ = "REGULAR"
	}
	plain(object.FilterType, typ)
	plain(object.FilterCreationEpoch, strconv.FormatUint(o.Epoch, 10))
	plain(object.FilterPayloadSize, strconv.FormatUint(o.Size, 10))
	cs := p.sums[o.CS-1]
	typed(object.FilterPayloadChecksum, cs[:], hex.EncodeToString(cs[:]))
	if o.Split > 0 {
		s := p.splits[o.Split-1]
		typed(object.FilterSplitID, s[:], uuid.UUID(s).String())
	}
	if o.First > 0 {
		id := p.firsts[o.First-1]
		typed(object.FilterFirstSplitObject, id[:], id.EncodeToString())
	}
	if o.Parent > 0 {
		id := p.parents[o.Parent-1]
		typed(object.FilterParentID, id[:], id.EncodeToString())
	}
	if o.Split == 0 && o.First == 0 && o.Parent == 0 && typ == "REGULAR" {
		plain(object.FilterRoot, "1")
	}
	plain(object.FilterPhysical, "1")
	for _, a := range o.Attrs {
		plain(a[0], a[1])
	}
	if o.Exp > 0 {
		plain(object.AttributeExpirationEpoch, strconv.FormatInt(o.Exp, 10))
	}
	if o.Typ == "TOMBSTONE" {
		id := p.ids[o.Target-1]
		typed(object.AttributeAssociatedObject, id[:], id.EncodeToString())
	} else if o.Assoc > 0 {
		id := p.assocs[o.Assoc-1]
		typed(object.AttributeAssociatedObject, id[:], id.EncodeToString())
	}
	return res
}

// typedBin returns the binary form of a filter value when the API would read it as a typed value.
func typedBin(attr, val string) ([]byte, bool) {
	switch attr {
	case object.FilterOwnerID:
		if b, _ := base58.Decode(val); len(b) == user.IDSize {
			return b, true
		}
	case object.FilterFirstSplitObject, object.FilterParentID, object.AttributeAssociatedObject:
		if b, _ := base58.Decode(val); len(b) == oid.Size {
			return b, true
		}
	case object.FilterPayloadChecksum:
		if b, err := hex.DecodeString(val); err == nil {
			return b, true
		}
	case object.FilterSplitID:
		if u, err := uuid.Parse(val); err == nil {
			return u[:], true
		}
	}
	return nil, false
}

func isB58Attr(attr string) bool {
	switch attr {
	case object.FilterOwnerID, object.FilterFirstSplitObject, object.FilterParentID, object.AttributeAssociatedObject:
		return true
	}
	return false
}

func isTypedAttr(attr string) bool {
	switch attr {
	case object.FilterOwnerID, object.FilterFirstSplitObject, object.FilterParentID, object.AttributeAssociatedObject,
		object.FilterPayloadChecksum, object.FilterSplitID:
		return true
	}
	return false
}

// primDB: the bytes PreprocessSearchQuery appends to the seek key of a primary EQ/PREFIX filter (decoded with
// the same libraries), and whether they can be derived at all.
func primDB(attr, val string) ([]byte, bool) {
	switch attr {
	case object.FilterOwnerID, object.FilterFirstSplitObject, object.FilterParentID, object.AttributeAssociatedObject:
		b, err := base58.Decode(val)
		return b, err == nil
	case object.FilterPayloadChecksum:
		b, err := hex.DecodeString(val)
		return b, err == nil
	case object.FilterSplitID:
		u, err := uuid.Parse(val)
		return u[:], err == nil
	}
	return []byte(val), true
}

// resolve replaces symbolic filter values "@pool:index:len" (len 0 = whole string) by the API string of a pool
// value: owner, parent, first, assoc (Base58), cs (hex), split (UUID), id (Base58 of the corpus object).
func (p *pools) resolve(v string) string {
	if !strings.HasPrefix(v, "@") {
		return v
	}
	parts := strings.Split(v[1:], ":")
	if len(parts) != 3 {
		return v
	}
	i, err1 := strconv.Atoi(parts[1])
	n, err2 := strconv.Atoi(parts[2])
	if err1 != nil || err2 != nil {
		return v
	}
	var str string
	switch parts[0] {
	case "owner":
		str = p.owners[i-1].EncodeToString()
	case "parent":
		str = p.parents[i-1].EncodeToString()
	case "first":
		str = p.firsts[i-1].EncodeToString()
	case "assoc":
		str = p.assocs[i-1].EncodeToString()
	case "id":
		str = p.ids[i-1].EncodeToString()
	case "cs":
		str = hex.EncodeToString(p.sums[i-1][:])
	case "split":
		str = uuid.UUID(p.splits[i-1]).String()
	default:
		return v
	}
	if n > 0 && n < len(str) {
		str = str[:n]
	}
	return str
}

func (p *pools) resolveQuery(q scnQuery) scnQuery {
	r := q
	r.Fs = slices.Clone(q.Fs)
	for i := range r.Fs {
		r.Fs[i].V = p.resolve(r.Fs[i].V)
	}
	return r
}

func sdkFilters(q scnQuery) object.SearchFilters {
	var fs object.SearchFilters
	for _, f := range q.Fs {
		op, ok := opByName[f.Op]
		if !ok {
			panic("op " + f.Op)
		}
		fs.AddFilter(f.K, f.V, op)
	}
	return fs
}

type searcher func(fs []objectcore.SearchFilter, attrs []string, cur *objectcore.SearchCursor, n uint16) ([]client.SearchResultItem, []byte, error)

type pageRec struct {
	Items []kit.M `json:"items"`
	More  bool    `json:"more"`
	Cur   []int   `json:"cur"`
}

// runPages follows cursors until the search stops. res: ok | invalid (query rejected) | error (search failed)
// | nostop (page limit hit).
func runPages(p *pools, q scnQuery, n int, maxPages int, srch searcher) (string, string, []pageRec) {
	q = p.resolveQuery(q)
	fs := sdkFilters(q)
	var pages []pageRec
	cursor := ""
	for {
		ofs, cur, err := objectcore.PreprocessSearchQuery(fs, q.Attrs, cursor)
		if err != nil {
			if errors.Is(err, objectcore.ErrUnreachableQuery) && cursor == "" {
				return "ok", "", []pageRec{{Items: []kit.M{}, Cur: []int{}}}
			}
			if cursor == "" {
				return "invalid", err.Error(), pages
			}
			return "badcursor", err.Error(), pages
		}
		items, next, err, pmsg := safeSearch(srch, ofs, q.Attrs, cur, uint16(n))
		if pmsg != "" {
			return "panic", pmsg, pages
		}
		if err != nil {
			return "error", err.Error(), pages
		}
		pg := pageRec{Items: []kit.M{}, More: len(next) > 0, Cur: codes(next)}
		for _, it := range items {
			vals := make([][]int, len(it.Attributes))
			for i, v := range it.Attributes {
				vals[i] = codes(v)
			}
			rk, ok := p.rank[it.ID]
			if !ok {
				rk = -1
			}
			pg.Items = append(pg.Items, kit.M{"id": rk, "vals": vals})
		}
		pages = append(pages, pg)
		if len(next) == 0 {
			return "ok", "", pages
		}
		if len(pages) >= maxPages {
			return "nostop", "", pages
		}
		cursor = base64.StdEncoding.EncodeToString(next)
	}
}

// safeSearch turns a panic of the code under test into a result.
func safeSearch(srch searcher, fs []objectcore.SearchFilter, attrs []string, cur *objectcore.SearchCursor, n uint16) (items []client.SearchResultItem, next []byte, err error, pmsg string) {
	defer func() {
		if r := recover(); r != nil {
			pmsg = fmt.Sprint(r)
			if pmsg == "" {
				pmsg = "panic"
			}
		}
	}()
	items, next, err = srch(fs, attrs, cur, n)
	return
}

func newMetaDB(dir string, ep *uint64) *meta.DB {
	db := meta.New(
		meta.WithPath(filepath.Join(dir, "meta.db")),
		meta.WithPermissions(0o600),
		meta.WithEpochState(epochState{ep}),
		meta.WithMaxBatchDelay(time.Microsecond),
	)
	kit.Must(db.Open(false))
	kit.Must(db.Init(common.ID{}))
	return db
}

func queryJSON(q scnQuery) kit.M {
	fs := []kit.M{}
	for _, f := range q.Fs {
		bin, has := typedBin(f.K, f.V)
		pdb, pok := primDB(f.K, f.V)
		fs = append(fs, kit.M{"k": f.K, "op": f.Op, "val": codes(f.V), "typed": isTypedAttr(f.K), "hasbin": has, "bin": codes(bin),
			"primok": pok, "primdb": codes(pdb), "nonattr": strings.HasPrefix(f.K, "$Object:"), "b58": isB58Attr(f.K)})
	}
	attrs := q.Attrs
	if attrs == nil {
		attrs = []string{}
	}
	return kit.M{"fs": fs, "attrs": attrs}
}

// putOrder: tombstones after everything else so that their targets exist.
func putOrder(objs []scnObj) []scnObj {
	res := slices.Clone(objs)
	sort.SliceStable(res, func(i, j int) bool { return (res[i].Typ == "TOMBSTONE") != (res[j].Typ == "TOMBSTONE") && res[j].Typ == "TOMBSTONE" })
	return res
}

// availability of every corpus object at query time, by the scenario's own book-keeping.
func available(s scenario, o scnObj) bool {
	if o.Fate == "gc" {
		return false
	}
	if o.Exp > 0 && s.CurEpoch > uint64(o.Exp) {
		return false
	}
	for _, t := range s.Objs {
		if t.Typ == "TOMBSTONE" && t.Target == o.ID {
			return false
		}
	}
	return true
}

func corpusEvent(p *pools, s scenario) kit.M {
	objs := []kit.M{}
	for _, o := range s.Objs {
		if o.Fate == "del" || o.Fate == "gcdel" {
			continue
		}
		sh := o.Shards
		if sh == nil {
			sh = []int{1}
		}
		objs = append(objs, kit.M{"id": o.ID, "avail": available(s, o), "attrs": p.refAttrs(o), "shards": sh})
	}
	return kit.M{"ev": "Corpus", "objs": objs, "name": s.Name}
}

func tmpDir() string {
	d, err := os.MkdirTemp("", "search-db-")
	kit.Must(err)
	return d
}

var _ = sha256.Size
var _ = fmt.Sprint
