// Command englist records engine-level cursor listings (C06, engine half) of a real StorageEngine with
// several real shards holding overlapping copies: for random distributions of a small object universe it
// lists with every start cursor, several page sizes and every shard visiting order, and writes one record
// per call for spec/EngineList.tla: {listed: per-shard listed ids, order, from, n, out: [[id, holders...]...]}.
//
//	englist run <nShards> <nObjects> <nAssignments> <records.ndjson>
package main

import (
	"context"
	"crypto/sha256"
	"errors"
	"os"
	"path/filepath"
	"slices"
	"sort"
	"strconv"
	"time"

	"github.com/nspcc-dev/bbolt"
	"github.com/nspcc-dev/neo-go/pkg/util"
	"github.com/nspcc-dev/neofs-node/pkg/local_object_storage/blobstor/fstree"
	"github.com/nspcc-dev/neofs-node/pkg/local_object_storage/engine"
	meta "github.com/nspcc-dev/neofs-node/pkg/local_object_storage/metabase"
	"github.com/nspcc-dev/neofs-node/pkg/local_object_storage/shard"
	"github.com/nspcc-dev/neofs-node/pkg/util/verifhook"
	"github.com/nspcc-dev/neofs-sdk-go/checksum"
	cid "github.com/nspcc-dev/neofs-sdk-go/container/id"
	"github.com/nspcc-dev/neofs-sdk-go/object"
	oid "github.com/nspcc-dev/neofs-sdk-go/object/id"
	"github.com/nspcc-dev/neofs-sdk-go/user"
	"github.com/nspcc-dev/neofs-sdk-go/version"
	"go.uber.org/zap"
	"verifharness/internal/kit"
)

type epochState struct{}

func (epochState) CurrentEpoch() uint64 { return 0 }

type noPayments struct{}

func (noPayments) PaymentsDisabled() bool            { return true }
func (noPayments) UnpaidSince(cid.ID) (int64, error) { return -1, nil }

func perms(n int) [][]int {
	var res [][]int
	var rec func(cur []int, used []bool)
	rec = func(cur []int, used []bool) {
		if len(cur) == n {
			res = append(res, slices.Clone(cur))
			return
		}
		for i := range n {
			if !used[i] {
				used[i] = true
				rec(append(cur, i+1), used)
				used[i] = false
			}
		}
	}
	rec(nil, make([]bool, n))
	return res
}

func main() {
	if len(os.Args) < 6 || os.Args[1] != "run" {
		os.Exit(2)
	}
	ns, _ := strconv.Atoi(os.Args[2])
	no, _ := strconv.Atoi(os.Args[3])
	na, _ := strconv.Atoi(os.Args[4])
	w := kit.NewW(os.Args[5])
	r := kit.Rand(61)
	base, err := os.MkdirTemp("", "englist-")
	kit.Must(err)
	defer os.RemoveAll(base)

	// universe: no objects over two containers, ids sorted so that (container, id) order = index order
	var sh util.Uint160
	r.Read(sh[:])
	owner := user.NewFromScriptHash(sh)
	cids := make([]cid.ID, 2)
	for i := range cids {
		r.Read(cids[i][:])
	}
	sort.Slice(cids, func(i, j int) bool { return string(cids[i][:]) < string(cids[j][:]) })
	oids := make([]oid.ID, no)
	for i := range oids {
		r.Read(oids[i][:])
	}
	sort.Slice(oids, func(i, j int) bool { return string(oids[i][:]) < string(oids[j][:]) })
	// boundary ids: the largest id is 0xFF..FF (cursor increment wraps), the smallest 0x00..01; the order is kept
	if len(oids) > 1 {
		for k := range oids[0] {
			oids[0][k], oids[len(oids)-1][k] = 0, 0xFF
		}
		oids[0][len(oids[0])-1] = 1
	}
	cnrOf := func(i int) cid.ID { // first half in container 1, second half in container 2
		if i <= (no+1)/2 {
			return cids[0]
		}
		return cids[1]
	}
	mk := func(i int) *object.Object {
		o := new(object.Object)
		ver := version.Current()
		o.SetVersion(&ver)
		o.SetContainerID(cnrOf(i))
		o.SetOwner(owner)
		o.SetID(oids[i-1])
		o.SetType(object.TypeRegular)
		pl := []byte{byte(i)}
		o.SetPayload(pl)
		o.SetPayloadSize(1)
		o.SetPayloadChecksum(checksum.NewSHA256(sha256.Sum256(pl)))
		return o
	}
	idx := func(id oid.ID) int {
		for i := range oids {
			if oids[i] == id {
				return i + 1
			}
		}
		return 0
	}
	allPerms := perms(ns)

	for a := range na {
		dir := filepath.Join(base, strconv.Itoa(a))
		e := engine.New(engine.WithLogger(zap.NewNop()))
		for s := range ns {
			_, err := e.AddShard(
				shard.WithLogger(zap.NewNop()),
				shard.WithBlobstor(fstree.New(fstree.WithPath(filepath.Join(dir, "fs"+strconv.Itoa(s))), fstree.WithDepth(1), fstree.WithNoSync(true))),
				shard.WithMetaBaseOptions(meta.WithPath(filepath.Join(dir, "meta"+strconv.Itoa(s))), meta.WithEpochState(epochState{}),
					meta.WithLogger(zap.NewNop()), meta.WithMaxBatchDelay(time.Microsecond),
					meta.WithBoltDBOptions(&bbolt.Options{NoSync: true, NoFreelistSync: true, Timeout: time.Second})),
				shard.WithGCRemoverSleepInterval(time.Hour),
				shard.WithContainerPayments(noPayments{}),
			)
			kit.Must(err)
		}
		kit.Must(e.Init())
		shards := e.VerifShards()
		sort.Slice(shards, func(i, j int) bool { return shards[i].ID().String() < shards[j].ID().String() })
		shIdx := map[string]int{}
		ids := make([]string, ns)
		for i, s := range shards {
			shIdx[s.ID().String()] = i + 1
			ids[i] = s.ID().String()
		}
		// random distribution with overlapping copies, then random removal marks on individual shards
		for i := 1; i <= no; i++ {
			for s := range ns {
				if r.Intn(100) < 45 {
					kit.Must(shards[s].Put(mk(i), nil))
					switch r.Intn(10) {
					case 0:
						kit.Must(shards[s].MarkGarbage(cnrOf(i), []oid.ID{oids[i-1]}, meta.GarbageMarkDefault))
					case 1:
						kit.Must(shards[s].MarkGarbage(cnrOf(i), []oid.ID{oids[i-1]}, meta.GarbageMarkRedundant))
					}
				}
			}
		}
		if r.Intn(6) == 0 { // a removed container on one shard
			kit.Must(shards[r.Intn(ns)].InhumeContainer(cids[r.Intn(2)]))
		}
		listed := make([][]int, ns)
		for s := range ns {
			listed[s] = []int{}
			var cur *shard.Cursor
			for {
				res, c, err := shards[s].ListWithCursor(2, cur)
				if errors.Is(err, shard.ErrEndOfListing) {
					break
				}
				kit.Must(err)
				for _, x := range res {
					listed[s] = append(listed[s], idx(x.Address.Object()))
				}
				cur = c
			}
		}
		for _, p := range allPerms {
			order := make([]string, ns)
			for k, si := range p {
				order[k] = ids[si-1]
			}
			verifhook.Set(func(name string, args ...any) {
				if name == "engine.unsortedShards" && len(args) == 1 {
					engine.VerifPermuteShards(args[0], order)
				}
			})
			for from := 0; from <= no; from++ {
				for _, n := range []int{1, 2, 3, no + 1} {
					var cur *engine.Cursor
					if from > 0 {
						cur = engine.NewCursor(cnrOf(from), oids[from-1])
					}
					res, next, err := e.ListWithCursor(context.Background(), uint32(n), cur)
					out := [][]int{}
					nxt := 0
					if err == nil {
						for _, x := range res {
							row := []int{idx(x.Address.Object())}
							for _, sid := range x.ShardIDs {
								row = append(row, shIdx[sid])
							}
							out = append(out, row)
						}
						nxt = idx(next.ObjectID())
					} else if !errors.Is(err, engine.ErrEndOfListing) {
						kit.Must(err)
					}
					w.Emit(kit.M{"listed": listed, "order": p, "from": from, "n": n, "out": out, "next": nxt, "end": err != nil})
				}
			}
		}
		verifhook.Set(nil)
		kit.Must(e.Close())
		os.RemoveAll(dir)
	}
	w.Close()
}
