package main

import (
	"context"
	"errors"
	"fmt"
	"math/big"
	"math/rand"
	"strconv"

	"github.com/nspcc-dev/locode-db/pkg/locodedb"
	"github.com/nspcc-dev/neo-go/pkg/crypto/keys"
	"github.com/nspcc-dev/neo-go/pkg/network/payload"
	"github.com/nspcc-dev/neo-go/pkg/util"
	"github.com/nspcc-dev/neo-go/pkg/vm/stackitem"
	netmaprpc "github.com/nspcc-dev/neofs-contract/rpc/netmap"
	netmapproc "github.com/nspcc-dev/neofs-node/pkg/innerring/processors/netmap"
	"github.com/nspcc-dev/neofs-node/pkg/innerring/processors/netmap/nodevalidation"
	irlocode "github.com/nspcc-dev/neofs-node/pkg/innerring/processors/netmap/nodevalidation/locode"
	"github.com/nspcc-dev/neofs-node/pkg/innerring/processors/netmap/nodevalidation/privatedomains"
	statevalidation "github.com/nspcc-dev/neofs-node/pkg/innerring/processors/netmap/nodevalidation/state"
	addrvalidator "github.com/nspcc-dev/neofs-node/pkg/innerring/processors/netmap/nodevalidation/structure"
	netmapEvent "github.com/nspcc-dev/neofs-node/pkg/morph/event/netmap"
	"github.com/nspcc-dev/neofs-sdk-go/netmap"
	"go.uber.org/zap"
	"verifharness/internal/irproc/fakechain"
	"verifharness/internal/irproc/fix"
	"verifharness/internal/irproc/irnode"
	"verifharness/internal/kit"
)

// vnames must equal VNames in spec/Netmap.tla.
var vnames = []string{"state", "structure", "domains", "locode", "ext"}

// fakeNNS implements privatedomains.NNS: domain "ok.nodes" lists every key, "deny.nodes" nobody,
// "err.nodes" cannot be checked.
type fakeNNS struct{}

func (fakeNNS) CheckDomainRecord(domain, record string) error {
	switch domain {
	case "ok.nodes":
		return nil
	case "deny.nodes":
		return privatedomains.ErrMissingDomainRecord
	}
	return errors.New("nns unavailable")
}

// extValidator stands for the validators that need a network peer (availability, external): its
// verdict is scripted through the node attribute "ExtVerdict".
type extValidator struct{}

func (extValidator) Verify(ni netmap.NodeInfo) error {
	if ni.Attribute("ExtVerdict") == "reject" {
		return errors.New("external validator rejects")
	}
	return nil
}

func validators() map[string]netmapproc.NodeValidator {
	return map[string]netmapproc.NodeValidator{
		"state":     statevalidation.New(),
		"structure": addrvalidator.New(),
		"domains":   privatedomains.New(fakeNNS{}),
		"locode":    irlocode.New(),
		"ext":       extValidator{},
	}
}

func committeeKeys(n int) ([]*keys.PrivateKey, keys.PublicKeys) {
	var privs []*keys.PrivateKey
	var pubs keys.PublicKeys
	for i := 0; i < n; i++ {
		k := fix.Key("alpha" + strconv.Itoa(i))
		privs = append(privs, k)
		pubs = append(pubs, k.PublicKey())
	}
	return privs, pubs
}

func quietLog() *zap.Logger {
	if v := getenv("IRPROC_LOG"); v != "" {
		l, _ := zap.NewDevelopment()
		return l
	}
	return zap.NewNop()
}

// setAlpha makes the real indexer answer "yes"/"no"/"err" for node n.
func setAlpha(n *irnode.Node, committee keys.PublicKeys, outsider keys.PublicKeys, a string) {
	n.Chain.Lock()
	defer n.Chain.Unlock()
	n.Chain.FailMethods["getcommittee"] = a == "err"
	if a == "no" {
		n.Chain.Committee = outsider
	} else {
		n.Chain.Committee = committee
	}
	n.IRList = n.Chain.Committee
}

type admIn struct {
	Alpha   string          `json:"alpha"`
	Script  string          `json:"script"`
	Parse   bool            `json:"parse"`
	Cfg     []string        `json:"cfg"`
	Verdict map[string]bool `json:"verdict"`
}
type admOut struct {
	Approve bool `json:"approve"`
	Others  int  `json:"others"`
}

// genNode draws a candidate descriptor; every field has valid and invalid variants.
func genNode(r *rand.Rand, key *keys.PublicKey) netmaprpc.NetmapNode2 {
	var ni netmap.NodeInfo
	ni.SetAttribute("Capacity", strconv.Itoa(r.Intn(100)))
	switch r.Intn(6) {
	case 0:
		ni.SetVerifiedNodesDomain("deny.nodes")
	case 1:
		ni.SetVerifiedNodesDomain("err.nodes")
	case 2:
		ni.SetVerifiedNodesDomain("ok.nodes")
	}
	switch r.Intn(7) {
	case 0, 1: // correct LOCODE with the derived attributes
		lc := []string{"RU MOW", "DE BER", "SE STO"}[r.Intn(3)]
		rec, err := locodedb.Get(lc)
		kit.Must(err)
		ni.SetLOCODE(lc)
		ni.SetCountryCode(lc[:2])
		ni.SetCountryName(rec.Country)
		ni.SetLocationName(rec.Location)
		ni.SetContinentName(rec.Cont.String())
		if rec.SubDivCode != "" {
			ni.SetSubdivisionCode(rec.SubDivCode)
		}
		if rec.SubDivName != "" {
			ni.SetSubdivisionName(rec.SubDivName)
		}
		if r.Intn(3) == 0 { // one derived attribute forged
			ni.SetCountryName("Atlantis")
		}
	case 2:
		ni.SetLOCODE("WRONG LOCODE")
	case 3:
		ni.SetLOCODE("RU ZZZ")
	}
	if r.Intn(5) == 0 {
		ni.SetAttribute("ExtVerdict", "reject")
	}
	node := netmaprpc.NetmapNode2{Attributes: map[string]string{}, Key: key}
	for k, v := range ni.Attributes() {
		node.Attributes[k] = v
	}
	switch r.Intn(8) {
	case 0:
		node.Addresses = []string{"not an address"}
	case 1:
		node.Addresses = []string{"/ip4/10.0.0.1/udp/8080"}
	case 2:
		node.Addresses = []string{"/dns4/node.example/tcp/8080/tls", "/ip4/10.0.0.2/tcp/8080/http"}
	case 3:
		node.Addresses = []string{"/dns4/node.example/tcp/8080/tls", "/ip4/10.0.0.2/tcp/8080"}
	default:
		node.Addresses = []string{"/ip4/10.0.0." + strconv.Itoa(1+r.Intn(200)) + "/tcp/8080"}
	}
	switch r.Intn(8) {
	case 0:
		node.State = netmaprpc.NodeStateOffline
	case 1:
		node.State = big.NewInt(0)
	case 2:
		node.State = big.NewInt(7)
	case 3:
		node.State = netmaprpc.NodeStateMaintenance
	default:
		node.State = netmaprpc.NodeStateOnline
	}
	return node
}

// admCase is one concrete admission scenario (also the replay unit).
type admCase struct {
	I      int               `json:"i"`
	Mask   int               `json:"mask"`   // bit i set = validator vnames[i] configured
	Alpha  string            `json:"alpha"`  // yes | no | err
	Script string            `json:"script"` // halt | fault | err
	Key    string            `json:"key"`    // candidate key label
	State  int64             `json:"state"`
	Addrs  []string          `json:"addrs"`
	Attrs  map[string]string `json:"attrs"`
}

func c38admgen(out string) {
	r := kit.Rand(38)
	w := kit.NewW(out)
	N := 1200
	if kit.Thorough() {
		N = 12000
	}
	for i := 0; i < N; i++ {
		c := admCase{I: i, Mask: r.Intn(32)}
		if i < 64 {
			c.Mask = i % 32 // every configuration at least twice
		}
		switch x := r.Intn(10); {
		case x == 0:
			c.Alpha = "no"
		case x == 1:
			c.Alpha = "err"
		default:
			c.Alpha = "yes"
		}
		switch x := r.Intn(8); {
		case x == 0:
			c.Script = "fault"
		case x == 1:
			c.Script = "err"
		default:
			c.Script = "halt"
		}
		c.Key = "cand" + strconv.Itoa(r.Intn(50))
		node := genNode(r, fix.Key(c.Key).PublicKey())
		if i%3 == 0 { // bias towards structurally fine candidates so that approvals are frequent
			node.State = netmaprpc.NodeStateOnline
			node.Addresses = []string{"/ip4/10.1.0.1/tcp/8080"}
		}
		c.State, c.Addrs, c.Attrs = node.State.Int64(), node.Addresses, node.Attributes
		w.Emit(c)
	}
	w.Close()
}

func c38adm(casesPath, out string) {
	ctx := context.Background()
	log := quietLog()
	privs, committee := committeeKeys(4)
	me := privs[2]
	outsiders := keys.PublicKeys{fix.Key("out0").PublicKey(), fix.Key("out1").PublicKey(), fix.Key("out2").PublicKey(), fix.Key("out3").PublicKey()}
	vals := validators()
	w := kit.NewW(out)

	nodes := map[int]*irnode.Node{} // one IR node per validator configuration
	getNode := func(mask int) (*irnode.Node, []string) {
		cfg := []string{}
		var vv []netmapproc.NodeValidator
		for i, name := range vnames {
			if mask&(1<<i) != 0 {
				cfg = append(cfg, name)
				vv = append(vv, vals[name])
			}
		}
		if n, ok := nodes[mask]; ok {
			return n, cfg
		}
		n, err := irnode.New(ctx, me, committee, 4, log)
		kit.Must(err)
		kit.Must(n.WithNetmapProcessor(nodevalidation.New(vv...)))
		nodes[mask] = n
		return n, cfg
	}
	// requesters see the committee the IR node will see when it is (not) an alphabet member
	reqIn, err := irnode.NewRequester(ctx, fix.Key("sn0"), committee, log)
	kit.Must(err)
	reqOut, err := irnode.NewRequester(ctx, fix.Key("sn0"), outsiders, log)
	kit.Must(err)

	for _, c := range kit.ReadNDJSON[admCase](casesPath) {
		n, cfg := getNode(c.Mask)
		in := admIn{Alpha: c.Alpha, Script: c.Script, Cfg: cfg, Verdict: map[string]bool{}}
		node := netmaprpc.NetmapNode2{Addresses: c.Addrs, Attributes: c.Attrs, Key: fix.Key(c.Key).PublicKey(), State: big.NewInt(c.State)}
		if node.Attributes == nil {
			node.Attributes = map[string]string{}
		}
		// abstract input: the conversion the processor performs and each configured validator ALONE
		ni, perr := netmapEvent.Node2Info(&node)
		in.Parse = perr == nil
		for _, name := range vnames {
			in.Verdict[name] = perr == nil && vals[name].Verify(ni) == nil
		}

		req := reqIn
		if in.Alpha == "no" {
			req = reqOut
		}
		nr, err := req.Capture(func() error {
			return req.Cli.NotaryInvokeNotAlpha(n.C.Netmap, false, 0, "addNode", &node)
		})
		kit.Must(err)

		setAlpha(n, committee, outsiders, in.Alpha)
		script := nr.MainTransaction.Script
		n.Chain.Lock()
		n.Chain.FailMethods["invokescript"] = in.Script == "err"
		n.Chain.ScriptState = func(s []byte) string {
			if string(s) == string(script) {
				if in.Script == "fault" {
					return "FAULT"
				}
				return "HALT"
			}
			return ""
		}
		n.Chain.Unlock()
		n.Chain.TakeSent()
		n.FeedNotary(nr)
		o := classifyApproval(n.Chain.TakeSent(), nr, n.Key)
		n.Chain.Lock()
		n.Chain.FailMethods["invokescript"] = false
		n.Chain.Unlock()
		w.Emit(kit.M{"in": in, "out": o, "case": c})
	}
	w.Close()
}

// classifyApproval: approve = a notary request carrying exactly the received main transaction with this
// node's signature in the alphabet witness was submitted; everything else sent is counted in Others.
func classifyApproval(sent []fakechain.Sent, nr *payload.P2PNotaryRequest, me *keys.PrivateKey) admOut {
	var o admOut
	for _, s := range sent {
		if s.Kind == "notary" && s.Tx.Hash() == nr.MainTransaction.Hash() && len(s.Tx.Scripts) > 1 && len(s.Tx.Scripts[1].InvocationScript) > 0 {
			if o.Approve {
				o.Others++
			}
			o.Approve = true
		} else {
			o.Others++
		}
	}
	return o
}

type tickStep struct {
	Ev   string `json:"ev"`
	E    uint64 `json:"e,omitempty"`
	A    string `json:"a,omitempty"`
	Fail string `json:"fail,omitempty"` // NewEpoch: which chain read of processNewEpoch fails: none | netmap | height | duration
}
type tickScript struct {
	Steps []tickStep `json:"steps"`
}

func c38gen(nScripts, ln int, out string) {
	r := kit.Rand(381)
	w := kit.NewW(out)
	alphas := []string{"yes", "yes", "yes", "no", "err"}
	for i := 0; i < nScripts; i++ {
		s := tickScript{Steps: []tickStep{{Ev: "Init", E: uint64(r.Intn(1000)), A: alphas[r.Intn(len(alphas))]}}}
		for j := 0; j < ln; j++ {
			switch x := r.Intn(10); {
			case x < 4:
				s.Steps = append(s.Steps, tickStep{Ev: "Tick"})
			case x < 8:
				s.Steps = append(s.Steps, tickStep{Ev: "NewEpoch", E: uint64(r.Intn(1000)), Fail: []string{"none", "none", "netmap", "height", "duration"}[r.Intn(5)]})
			default:
				s.Steps = append(s.Steps, tickStep{Ev: "SetAlpha", A: alphas[r.Intn(len(alphas))]})
			}
		}
		w.Emit(s)
	}
	w.Close()
}

func c38tick(in, out string) {
	ctx := context.Background()
	log := quietLog()
	privs, committee := committeeKeys(4)
	outsiders := keys.PublicKeys{fix.Key("out0").PublicKey(), fix.Key("out1").PublicKey(), fix.Key("out2").PublicKey(), fix.Key("out3").PublicKey()}
	n, err := irnode.New(ctx, privs[1], committee, 4, log)
	kit.Must(err)
	kit.Must(n.WithNetmapProcessor(nodevalidation.New()))
	scripts := kit.ReadNDJSON[tickScript](in)
	w := kit.NewW(out)
	seq := 0
	for _, s := range scripts {
		for _, st := range s.Steps {
			n.Chain.TakeSent()
			switch st.Ev {
			case "Init":
				setAlpha(n, committee, outsiders, st.A)
				n.Srv.SetEpochCounter(st.E) // as Server.initConfigFromBlockchain does at start-up
				w.Emit(kit.M{"ev": "Init", "e": st.E, "a": st.A})
				continue
			case "NewEpoch":
				seq++
				var h util.Uint256
				h[0], h[1], h[2], h[3] = byte(seq), byte(seq>>8), byte(seq>>16), 0x38
				if st.Fail == "" {
					st.Fail = "none"
				}
				if st.Fail != "height" {
					n.Chain.Lock()
					n.Chain.TxHeights[h] = 60
					n.Chain.Unlock()
				}
				n.Mu.Lock()
				n.FailRead["listNodes"], n.FailRead["config"] = st.Fail == "netmap", st.Fail == "duration"
				n.Mu.Unlock()
				n.FeedNotification(n.C.Netmap, "NewEpoch", h, stackitem.Make(st.E))
				n.Mu.Lock()
				n.FailRead["listNodes"], n.FailRead["config"] = false, false
				n.Mu.Unlock()
			case "Tick":
				n.NetmapProc.HandleNewEpochTick()
				n.Drain()
			case "SetAlpha":
				setAlpha(n, committee, outsiders, st.A)
			default:
				panic("unknown step " + st.Ev)
			}
			calls := []uint64{}
			others := 0
			for _, x := range n.Chain.TakeSent() {
				if x.Kind == "notary" && len(x.Calls) == 1 && x.Calls[0].Contract == n.C.Netmap && x.Calls[0].Method == "newEpoch" && len(x.Calls[0].Args) == 1 {
					if v, ok := fix.U64(x.Calls[0].Args[0]); ok {
						calls = append(calls, v)
						continue
					}
				}
				others++
			}
			ev := kit.M{"ev": st.Ev, "calls": calls, "others": others, "counter": n.Srv.EpochCounter()}
			if st.Ev == "NewEpoch" {
				ev["e"] = st.E
				ev["fail"] = st.Fail
			}
			if st.Ev == "SetAlpha" {
				ev["a"] = st.A
			}
			w.Emit(ev)
		}
	}
	w.Close()
	n.Mu.Lock()
	fmt.Printf("timer_resets=%d alpha_syncs=%d notary_deposits=%d\n", len(n.TimerResets), n.AlphaSyncs, n.NotaryDeposit)
	n.Mu.Unlock()
}
