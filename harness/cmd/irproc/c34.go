package main

import (
	"bytes"
	"context"
	"math/rand"

	"github.com/nspcc-dev/neo-go/pkg/core/transaction"
	"github.com/nspcc-dev/neo-go/pkg/crypto/keys"
	"github.com/nspcc-dev/neo-go/pkg/network/payload"
	"github.com/nspcc-dev/neo-go/pkg/smartcontract"
	"github.com/nspcc-dev/neo-go/pkg/util"
	"github.com/nspcc-dev/neo-go/pkg/vm/opcode"
	"github.com/nspcc-dev/neofs-node/pkg/morph/client"
	cid "github.com/nspcc-dev/neofs-sdk-go/container/id"
	"verifharness/internal/irproc/fix"
	"verifharness/internal/irproc/irnode"
	"verifharness/internal/kit"
)

// ---- abstract request (fields of spec/Notary.tla) ----

type c34Call struct {
	Target string `json:"target"` // createV2 | putEACL | remove | unregMethod | unregContract
	Args   bool   `json:"args"`
	Valid  bool   `json:"valid"`
}
type c34Req struct {
	S     map[string]bool `json:"s"`
	Plain bool            `json:"plain"`
	Calls []c34Call       `json:"calls"`
}
type c34Case struct {
	I    int    `json:"i"`
	Req  c34Req `json:"req"`
	Seed int64  `json:"seed"`
	V    int    `json:"v"` // >= 0: which concrete variant materialises a FALSE structure fact (-1 = seeded choice)
}

var c34SFields = []string{"wit", "signersMatch", "alphaSigner", "attrsOK", "proxyEmpty", "alphaVerif", "invokerWit",
	"placeholder", "fbAttrs", "fbFresh", "notLocal", "first"}
var c34Targets = []string{"createV2", "putEACL", "remove", "unregMethod", "unregContract"}

func goodS() map[string]bool {
	m := map[string]bool{}
	for _, f := range c34SFields {
		m[f] = true
	}
	return m
}

func c34gen(out string) {
	r := kit.Rand(34)
	w := kit.NewW(out)
	n := 0
	variant := -1
	emit := func(s map[string]bool, plain bool, calls ...c34Call) {
		w.Emit(c34Case{I: n, Req: c34Req{S: s, Plain: plain, Calls: calls}, Seed: r.Int63(), V: variant})
		n++
	}
	good := func(t string) c34Call { return c34Call{t, true, true} }
	few := [][]c34Call{{good("createV2")}, {good("remove")}, {good("createV2"), good("putEACL")}, {good("createV2"), good("unregContract")}}
	var allCalls []c34Call
	for _, t := range c34Targets {
		for _, a := range []bool{true, false} {
			for _, v := range []bool{true, false} {
				allCalls = append(allCalls, c34Call{t, a, v})
			}
		}
	}
	// 1. structure: well-formed and every single fact broken, for the typical scripts
	for _, cs := range few {
		emit(goodS(), true, cs...)
		variant = 1 // well-formed request delivered at the last block before the fallback becomes valid (height = NVB-1)
		emit(goodS(), true, cs...)
		variant = -1
		for _, f := range c34SFields {
			for variant = 0; variant < 4; variant++ { // every concrete way of breaking the fact
				s := goodS()
				s[f] = false
				emit(s, true, cs...)
			}
		}
		variant = -1
	}
	// 2. scripts: every single call; every second call after the interesting first calls
	for _, c := range allCalls {
		emit(goodS(), true, c)
		emit(goodS(), false, c)
	}
	firsts := []c34Call{good("createV2"), {"createV2", true, false}, {"createV2", false, true}, good("remove"), good("putEACL"), good("unregMethod"), good("unregContract")}
	for _, fc := range firsts {
		for _, c := range allCalls {
			emit(goodS(), true, fc, c)
		}
	}
	// 3. random three-call scripts and random structure damage
	N := 150
	if kit.Thorough() {
		N = 3000
	}
	for i := 0; i < N; i++ {
		var cs []c34Call
		ln := 1 + r.Intn(3)
		for j := 0; j < ln; j++ {
			c := allCalls[r.Intn(len(allCalls))]
			if r.Intn(3) != 0 {
				c.Args, c.Valid = true, true
			}
			if j == 0 && r.Intn(2) == 0 {
				c.Target = "createV2"
			}
			cs = append(cs, c)
		}
		s := goodS()
		if r.Intn(3) == 0 {
			for k := 0; k < 1+r.Intn(2); k++ {
				s[c34SFields[r.Intn(len(c34SFields))]] = false
			}
		}
		emit(s, r.Intn(8) != 0, cs...)
	}
	w.Close()
}

func c34run(casesPath, out string) {
	ctx := context.Background()
	privs, committee := committeeKeys(4)
	owner, stranger := newParty("owner"), newParty("stranger")
	req, err := irnode.NewRequester(ctx, fix.Key("sn34"), committee, quietLog())
	kit.Must(err)
	n := newC37Node(ctx, privs[0], committee, false, false)
	evil := fix.Hash160("evil-contract")
	sc, err := client.NewStatic(req.Cli, n.C.Container, client.TryNotary())
	kit.Must(err)
	otherMultisig, err := smartcontract.CreateMultiSigRedeemScript(3, keys.PublicKeys{fix.Key("o1").PublicKey(), fix.Key("o2").PublicKey(), fix.Key("o3").PublicKey(), fix.Key("o4").PublicKey()})
	kit.Must(err)
	w := kit.NewW(out)
	for _, cs := range kit.ReadNDJSON[c34Case](casesPath) {
		r := rand.New(rand.NewSource(cs.Seed))
		q := cs.Req
		// the container every call of this request talks about: a new one (createV2 first) or one on the chain
		cnr := mkContainer(r, goodCnr, owner, true)
		cnrBytes := cnr.Marshal()
		id := cid.NewFromMarshalledContainer(cnrBytes)
		n.Mu.Lock()
		if len(q.Calls) > 0 && q.Calls[0].Target == "createV2" {
			delete(n.onCnrs, id)
		} else {
			n.onCnrs[id] = cnr
		}
		n.Mu.Unlock()
		signerOf := func(valid bool) party {
			if valid {
				return owner
			}
			return stranger
		}
		b := smartcontract.NewBuilder()
		for i, c := range q.Calls {
			contract, method := n.C.Container, c.Target
			switch c.Target {
			case "unregMethod":
				method = "fooBar"
			case "unregContract":
				contract, method = evil, "putEACL"
			}
			var args []any
			p := signerOf(c.Valid)
			switch {
			case i == 0 && c.Target == "createV2":
				args = []any{cnrStruct(cnr), p.rfc6979(cnrBytes), p.pub(), []byte{}}
			case i == 0 && c.Target == "remove":
				args = []any{id[:], p.rfc6979(id[:]), p.pub(), []byte{}}
			default: // eACL-shaped call (what RestorePutContainerEACLRequest reads)
				table := mkEacl(r, goodEacl, id, true)
				args = []any{table, p.rfc6979(table), p.pub(), []byte{}}
			}
			if !c.Args {
				args = args[:3]
			}
			b.InvokeMethod(contract, method, args...)
		}
		script, err := b.Script()
		kit.Must(err)
		if !q.Plain {
			switch r.Intn(2) {
			case 0:
				script = append(script, byte(opcode.NOP))
			default:
				script = append([]byte{byte(opcode.PUSH1), byte(opcode.DROP)}, script...)
			}
		}
		nr, err := req.Capture(func() error { return sc.RunScriptForAlphabet(ctx, script) })
		kit.Must(err)
		mutateStructure(r, cs.V, nr, q.S, n.Key.PublicKey().GetScriptHash(), otherMultisig)
		height := uint32(100)
		for _, a := range nr.FallbackTransaction.GetAttributes(transaction.NotValidBeforeT) {
			if nvb, ok := a.Value.(*transaction.NotValidBefore); ok && q.S["fbFresh"] && cs.V == 1 && nvb.Height > 0 {
				height = nvb.Height - 1 // boundary on the accepting side
			}
		}
		if !q.S["fbFresh"] {
			for _, a := range nr.FallbackTransaction.GetAttributes(transaction.NotValidBeforeT) {
				if nvb, ok := a.Value.(*transaction.NotValidBefore); ok {
					height = nvb.Height + uint32(r.Intn(2))
					if cs.V >= 0 {
						height = nvb.Height + uint32(cs.V%2)
					}
				}
			}
		}
		n.Chain.Lock()
		n.Chain.Height = height
		n.Chain.Unlock()
		n.Chain.TakeSent()
		n.FeedNotary(nr)
		if !q.S["first"] {
			n.Chain.TakeSent()
			n.FeedNotary(nr)
		}
		sent := n.Chain.TakeSent()
		n.Chain.Lock()
		n.Chain.Height = 100
		n.Chain.Unlock()
		sign, others := false, 0
		for _, s := range sent {
			if s.Kind == "notary" && bytes.Equal(s.Tx.Script, nr.MainTransaction.Script) && s.Tx.Nonce == nr.MainTransaction.Nonce &&
				len(s.Tx.Scripts) > 1 && len(s.Tx.Scripts[1].InvocationScript) > 0 {
				sign = true
			} else {
				others++
			}
		}
		w.Emit(kit.M{"in": q, "out": kit.M{"sign": sign}, "others": others, "case": cs})
	}
	w.Close()
}

// mutateStructure damages the well-formed request according to the FALSE structure facts.
func mutateStructure(r *rand.Rand, v int, nr *payload.P2PNotaryRequest, s map[string]bool, local util.Uint160, otherMultisig []byte) {
	tx, fb := nr.MainTransaction, nr.FallbackTransaction
	pick := func(n int) int {
		if v >= 0 {
			return v % n
		}
		return r.Intn(n)
	}
	if !s["alphaSigner"] {
		tx.Signers[1].Account = fix.Hash160("not-alphabet")
	}
	if !s["attrsOK"] {
		switch pick(4) {
		case 0:
			tx.Attributes = nil
		case 1:
			tx.Attributes = append(tx.Attributes, transaction.Attribute{Type: transaction.HighPriority})
		case 2:
			tx.Attributes = []transaction.Attribute{{Type: transaction.NotaryAssistedT, Value: &transaction.NotaryAssisted{NKeys: tx.Attributes[0].Value.(*transaction.NotaryAssisted).NKeys + 1}}}
		default:
			tx.Attributes = []transaction.Attribute{{Type: transaction.HighPriority}}
		}
	}
	if !s["proxyEmpty"] {
		tx.Scripts[0].InvocationScript = []byte{byte(opcode.PUSH1)}
	}
	if !s["alphaVerif"] {
		tx.Scripts[1].VerificationScript = otherMultisig
	}
	if !s["invokerWit"] {
		tx.Scripts[2] = transaction.Witness{InvocationScript: []byte{}, VerificationScript: []byte{}}
	}
	if !s["placeholder"] {
		last := len(tx.Scripts) - 1
		if pick(2) == 0 {
			tx.Scripts[last].VerificationScript = []byte{byte(opcode.PUSH1)}
		} else {
			g := make([]byte, 66)
			r.Read(g)
			tx.Scripts[last].InvocationScript = g
		}
	}
	if !s["fbAttrs"] {
		if pick(2) == 0 {
			fb.Attributes = fb.Attributes[:2]
		} else {
			for i := range fb.Attributes {
				if fb.Attributes[i].Type == transaction.NotValidBeforeT {
					fb.Attributes[i] = transaction.Attribute{Type: transaction.HighPriority}
				}
			}
		}
	}
	if !s["notLocal"] {
		fb.Signers[1].Account = local
	}
	if !s["wit"] {
		if pick(2) == 0 { // two witnesses / signers
			tx.Scripts = tx.Scripts[:2]
			tx.Signers = tx.Signers[:2]
		} else { // five
			tx.Scripts = append(tx.Scripts, transaction.Witness{InvocationScript: []byte{}, VerificationScript: []byte{}})
			tx.Signers = append(tx.Signers, transaction.Signer{Account: fix.Hash160("extra")})
		}
	}
	if !s["signersMatch"] {
		tx.Signers = append(tx.Signers, transaction.Signer{Account: fix.Hash160("extra-signer")})
	}
}
