// Command irproc drives the REAL inner-ring processors / notary listener of neofs-node against an
// in-process fake Neo RPC node (internal/irproc/fakechain) and writes records / traces validated by
// TLC against spec/Netmap.tla (C38), ContainerProc.tla (C37), Alphabet.tla (C35), Notary.tla (C34).
//
//	irproc smoke
//	irproc c38adm <out.ndjson>            admission records
//	irproc c38tick <scripts> <trace>      epoch tick histories
//	irproc c37 <out.ndjson>               container authorisation records
//	irproc c35 <out.ndjson>               guard records for every registered handler
//	irproc c34 <out.ndjson>               notary pipeline records
package main

import (
	"fmt"
	"os"
	"strconv"
)

func getenv(k string) string { return os.Getenv(k) }

func main() {
	if len(os.Args) < 2 {
		fmt.Fprintln(os.Stderr, "usage: irproc <smoke|c38adm|c38tick|c37|c35|c34> ...")
		os.Exit(2)
	}
	switch os.Args[1] {
	case "smoke":
		smoke()
	case "c38admgen":
		c38admgen(os.Args[2])
	case "c38adm":
		c38adm(os.Args[2], os.Args[3])
	case "c38gen":
		n, _ := strconv.Atoi(os.Args[2])
		ln, _ := strconv.Atoi(os.Args[3])
		c38gen(n, ln, os.Args[4])
	case "c34gen":
		c34gen(os.Args[2])
	case "c34":
		c34run(os.Args[2], os.Args[3])
	case "c35histgen":
		c35histgen(os.Args[2])
	case "c35hist":
		c35hist(os.Args[2], os.Args[3])
	case "c35":
		cp := ""
		if len(os.Args) > 3 {
			cp = os.Args[3]
		}
		c35run(os.Args[2], cp)
	case "c37gen":
		c37gen(os.Args[2])
	case "c37":
		c37run(os.Args[2], os.Args[3])
	case "c38tick":
		c38tick(os.Args[2], os.Args[3])
	default:
		fmt.Fprintln(os.Stderr, "unknown sub-command", os.Args[1])
		os.Exit(2)
	}
}
