package main

import (
	"context"
	"encoding/json"
	"fmt"
	"math/rand"
	"os"
	"sort"
	"strings"
	"time"

	"github.com/nspcc-dev/neo-go/pkg/core/native/nativehashes"
	"github.com/nspcc-dev/neo-go/pkg/core/native/noderoles"
	"github.com/nspcc-dev/neo-go/pkg/core/state"
	"github.com/nspcc-dev/neo-go/pkg/crypto/keys"
	"github.com/nspcc-dev/neo-go/pkg/network/payload"
	"github.com/nspcc-dev/neo-go/pkg/smartcontract/scparser"
	"github.com/nspcc-dev/neo-go/pkg/util"
	"github.com/nspcc-dev/neo-go/pkg/vm/stackitem"
	netmaprpc "github.com/nspcc-dev/neofs-contract/rpc/netmap"
	"github.com/nspcc-dev/neofs-node/pkg/innerring/processors/netmap/nodevalidation"
	"github.com/nspcc-dev/neofs-node/pkg/innerring/processors/settlement"
	"github.com/nspcc-dev/neofs-node/pkg/morph/event"
	"github.com/nspcc-dev/neofs-sdk-go/container"
	cid "github.com/nspcc-dev/neofs-sdk-go/container/id"
	neofsecdsa "github.com/nspcc-dev/neofs-sdk-go/crypto/ecdsa"
	"github.com/nspcc-dev/neofs-sdk-go/netmap"
	"github.com/nspcc-dev/neofs-sdk-go/reputation"
	"verifharness/internal/irproc/fakechain"
	"verifharness/internal/irproc/fix"
	"verifharness/internal/irproc/irnode"
	"verifharness/internal/kit"
)

const c35N = 4 // alphabet contracts; must equal N in spec/Alphabet_*.cfg

type c35St struct {
	AlphaIdx int    `json:"alphaIdx"`
	IrIdx    int    `json:"irIdx"`
	Lookup   string `json:"lookup"`
	Again    bool   `json:"again"`
}
type c35Case struct {
	Ev string `json:"ev"`
	St c35St  `json:"st"`
}

type c35Drv struct {
	ctx      context.Context
	f        *irnode.Full
	me       *keys.PrivateKey
	smaller  keys.PublicKeys // pool keys sorting before me
	larger   keys.PublicKeys // pool keys sorting after me
	cm       keys.PublicKeys // committee currently on the chain
	reqs     map[string]*irnode.Requester
	owner    party
	stranger party
	sess     party
	r        *rand.Rand
	seq      int
	nodeA    netmaprpc.NetmapNode2
	nodeB    [2]netmaprpc.NetmapNode2
	bSel     int
	onCnr    container.Container
	onCid    cid.ID
}

func (d *c35Drv) txHash() util.Uint256 {
	d.seq++
	var h util.Uint256
	h[0], h[1], h[2], h[3] = byte(d.seq), byte(d.seq>>8), byte(d.seq>>16), 0x35
	for _, c := range []*fakechain.Chain{d.f.Chain, d.f.Main.Chain} {
		c.Lock()
		c.TxHeights[h] = 60
		c.Unlock()
	}
	return h
}

// setState arranges committee / inner ring list / failing lookups so that the REAL indexer arrives at st.
func (d *c35Drv) setState(st c35St) {
	var cm keys.PublicKeys
	size := c35N
	if st.AlphaIdx >= c35N {
		size = st.AlphaIdx + 1
	}
	o := 0
	for i := 0; i < size; i++ {
		if i == st.AlphaIdx {
			cm = append(cm, d.me.PublicKey())
		} else {
			cm = append(cm, d.larger[o])
			o++
		}
	}
	var ir keys.PublicKeys
	if st.IrIdx >= 0 {
		ir = append(ir, d.smaller[:st.IrIdx]...)
		ir = append(ir, d.me.PublicKey())
	} else {
		ir = append(ir, d.smaller[0])
	}
	ir = append(ir, d.larger[5:8]...)
	d.cm = cm
	d.f.Chain.Lock()
	d.f.Chain.Committee = cm
	d.f.Chain.FailMethods["getcommittee"] = st.Lookup == "cmErr"
	d.f.IRList = ir
	d.f.RoleErr = st.Lookup == "irErr"
	d.f.Chain.Unlock()
	d.f.Main.Chain.Lock()
	d.f.Main.IRList = cm // main chain NeoFSAlphabet role = FS committee: nothing to synchronise
	d.f.Main.Chain.Unlock()
}

// mkCnr: a container every network map of the fixture can place (REP 1).
func (d *c35Drv) mkCnr() container.Container {
	cnr := mkContainer(d.r, goodCnr, d.owner, true)
	var p netmap.PlacementPolicy
	kit.Must(p.DecodeString("REP 1"))
	cnr.SetPlacementPolicy(p)
	return cnr
}

func (d *c35Drv) req() *irnode.Requester {
	k := ""
	for _, p := range d.cm {
		k += p.StringCompressed()
	}
	if r, ok := d.reqs[k]; ok {
		return r
	}
	r, err := irnode.NewRequester(d.ctx, fix.Key("sn35"), d.cm, quietLog())
	kit.Must(err)
	d.reqs[k] = r
	return r
}

func (d *c35Drv) notary(contract util.Uint160, method string, args ...any) *payload.P2PNotaryRequest {
	rq := d.req()
	nr, err := rq.Capture(func() error { return rq.Cli.NotaryInvokeNotAlpha(contract, false, 0, method, args...) })
	kit.Must(err)
	return nr
}

func (d *c35Drv) cnrReq(op, auth string, withEACL bool) *payload.P2PNotaryRequest {
	in := baseIn(op)
	in.A = c37Auth{Auth: auth, OwnerSig: true, Tok: allTrueTok}
	in.WithEACL = withEACL
	nr, _ := c37Request(d.ctx, d.req(), d.f.C.Container, &in, d.r, d.owner, d.stranger, d.sess, func(id cid.ID, cnr container.Container, exists bool) {
		d.f.Mu.Lock()
		d.onCnr, d.onCid = cnr, id
		d.f.Mu.Unlock()
	})
	return nr
}

// drivers: event name -> builder of a delivery closure (the closure may be called twice for re-delivery).
func (d *c35Drv) drivers() map[string]func() func() {
	f := d.f
	feedN := func(nr *payload.P2PNotaryRequest) func() { return func() { f.FeedNotary(nr); f.DrainAll() } }
	fsNotif := func(contract util.Uint160, name string, items func() []stackitem.Item) func() func() {
		return func() func() {
			h := d.txHash()
			it := items()
			return func() { f.FeedNotification(contract, name, h, it...); f.DrainAll() }
		}
	}
	mainNotif := func(contract util.Uint160, name string, items func() []stackitem.Item) func() func() {
		return func() func() {
			h := d.txHash()
			it := items()
			return func() {
				event.VerifHandleNotification(f.MainListener, notif(contract, name, h, it))
				f.DrainAll()
			}
		}
	}
	user20 := func() []byte { return d.owner.id.ScriptHash().BytesBE() }
	id32 := func() []byte { b := make([]byte, 32); d.r.Read(b); return b }
	m := map[string]func() func(){
		"fsn:netmap.addNode": func() func() {
			node := netmaprpc.NetmapNode2{Addresses: []string{"/ip4/10.9.0.1/tcp/8080"}, Attributes: map[string]string{"Capacity": fmt.Sprint(d.r.Intn(1000))},
				Key: fix.Key("cand35").PublicKey(), State: netmaprpc.NodeStateOnline}
			return feedN(d.notary(f.C.Netmap, "addNode", &node))
		},
		"fsn:netmap.updateState": func() func() {
			return feedN(d.notary(f.C.Netmap, "updateState", int64(3), fix.Key("cand35").PublicKey().Bytes()))
		},
		"fsn:container.create":          func() func() { return feedN(d.cnrReq("create", "sig", false)) },
		"fsn:container.createV2":        func() func() { return feedN(d.cnrReq("createV2", "v2", d.r.Intn(2) == 0)) },
		"fsn:container.remove":          func() func() { return feedN(d.cnrReq("remove", "v1", false)) },
		"fsn:container.putEACL":         func() func() { return feedN(d.cnrReq("putEACL", "sig", false)) },
		"fsn:container.setAttribute":    func() func() { return feedN(d.cnrReq("setAttr", "v2", false)) },
		"fsn:container.removeAttribute": func() func() { return feedN(d.cnrReq("rmAttr", "sig", false)) },
		// legacy notary events of the same handlers
		"fsn:container.put": func() func() {
			cnr := d.mkCnr()
			b := cnr.Marshal()
			return feedN(d.notary(f.C.Container, "put", b, d.owner.rfc6979(b), d.owner.pub(), []byte{}))
		},
		"fsn:container.putNamed": func() func() {
			c := goodCnr
			c.Attrs = []string{"allowed", "allowed"}                          // NAME and ZONE
			cnr := mkContainer(rand.New(rand.NewSource(2)), c, d.owner, true) // variant with the domain attributes
			cnr.SetAttribute("Tag", fmt.Sprint(d.r.Int63()))
			b := cnr.Marshal()
			dm := cnr.ReadDomain()
			return feedN(d.notary(f.C.Container, "putNamed", b, d.owner.rfc6979(b), d.owner.pub(), []byte{}, dm.Name(), dm.Zone()))
		},
		"fsn:container.delete": func() func() { // no verification script in the legacy call: session token path
			in := baseIn("remove")
			in.A = c37Auth{Auth: "v1", Tok: allTrueTok}
			cnr := d.mkCnr()
			id := cid.NewFromMarshalledContainer(cnr.Marshal())
			f.Mu.Lock()
			d.onCnr, d.onCid = cnr, id
			f.Mu.Unlock()
			mt := mkAuth(d.r, in.A, opVerbs["remove"], false, id, id[:], d.owner, d.stranger, d.sess)
			return feedN(d.notary(f.C.Container, "delete", id[:], mt.invoc, mt.token))
		},
		"fsn:container.setEACL": func() func() {
			cnr := d.mkCnr()
			id := cid.NewFromMarshalledContainer(cnr.Marshal())
			f.Mu.Lock()
			d.onCnr, d.onCid = cnr, id
			f.Mu.Unlock()
			table := mkEacl(d.r, goodEacl, id, true)
			return feedN(d.notary(f.C.Container, "setEACL", table, d.owner.rfc6979(table), d.owner.pub(), []byte{}))
		},
		"fsn:container.putReport": func() func() {
			cnr := d.mkCnr()
			id := cid.NewFromMarshalledContainer(cnr.Marshal())
			f.Mu.Lock()
			d.onCnr, d.onCid = cnr, id
			f.Mu.Unlock()
			return feedN(d.notary(f.C.Container, "putReport", id[:], int64(1000+d.r.Intn(1000)), int64(10), d.nodeA.Key.Bytes()))
		},
		"fsn:reputation.put": func() func() {
			// two nodes in the map: the manager of A is B
			var peer, mgr reputation.PeerID
			peer.SetPublicKey(d.nodeA.Key.Bytes())
			mgrKey := fix.Key("node35b" + fmt.Sprint(d.bSel))
			mgr.SetPublicKey(mgrKey.PublicKey().Bytes())
			var tr reputation.Trust
			tr.SetPeer(peer)
			tr.SetValue(float64(d.r.Intn(100)) / 100)
			var gt reputation.GlobalTrust
			gt.Init()
			gt.SetManager(mgr)
			gt.SetTrust(tr)
			kit.Must(gt.Sign(neofsecdsa.Signer(mgrKey.PrivateKey)))
			return feedN(d.notary(f.C.Reputation, "put", int64(f.Srv.EpochCounter())-1, peer.PublicKey(), gt.Marshal()))
		},
		"fs:netmap.NewEpoch": fsNotif(f.C.Netmap, "NewEpoch", func() []stackitem.Item { return []stackitem.Item{stackitem.Make(f.Srv.EpochCounter() + 1)} }),
		"fs:netmap.NewEpoch/mapChanged": func() func() {
			h := d.txHash()
			e := f.Srv.EpochCounter() + 1
			return func() {
				d.bSel = 1 - d.bSel
				f.Mu.Lock()
				f.Nodes = []netmaprpc.NetmapNode2{d.nodeA, d.nodeB[d.bSel]}
				f.Mu.Unlock()
				f.FeedNotification(f.C.Netmap, "NewEpoch", h, stackitem.Make(e))
				f.DrainAll()
			}
		},
		"fs:balance.Lock": fsNotif(f.C.Balance, "Lock", func() []stackitem.Item {
			return []stackitem.Item{stackitem.Make(id32()), stackitem.Make(user20()), stackitem.Make(user20()), stackitem.Make(500), stackitem.Make(30)}
		}),
		"main:neofs.Deposit": mainNotif(f.C.NeoFS, "Deposit", func() []stackitem.Item {
			to := fix.Hash160("depositor" + fmt.Sprint(d.r.Int63())).BytesBE()
			return []stackitem.Item{stackitem.Make(user20()), stackitem.Make(1000), stackitem.Make(to), stackitem.Make(id32())}
		}),
		"main:neofs.Withdraw": mainNotif(f.C.NeoFS, "Withdraw", func() []stackitem.Item {
			return []stackitem.Item{stackitem.Make(user20()), stackitem.Make(700), stackitem.Make(id32())}
		}),
		"main:neofs.Cheque": mainNotif(f.C.NeoFS, "Cheque", func() []stackitem.Item {
			return []stackitem.Item{stackitem.Make(id32()), stackitem.Make(user20()), stackitem.Make(300), stackitem.Make(user20())}
		}),
		"main:neofs.SetConfig": mainNotif(f.C.NeoFS, "SetConfig", func() []stackitem.Item {
			return []stackitem.Item{stackitem.Make(id32()), stackitem.Make([]byte("MaxObjectSize")), stackitem.Make([]byte{0, 0, 1})}
		}),
		"main:designate.Designation": func() func() {
			items := []stackitem.Item{stackitem.Make(int(noderoles.NeoFSAlphabet)), stackitem.Make(123), stackitem.Make([]any{}), stackitem.Make([]any{})}
			h := d.txHash()
			return func() {
				// the main chain alphabet now differs from the FS committee in one key
				nl := append(keys.PublicKeys{}, d.cm[1:]...)
				nl = append(nl, d.larger[9])
				f.Main.Chain.Lock()
				f.Main.IRList = nl
				f.Main.Chain.Unlock()
				event.VerifHandleNotification(f.MainListener, notif(nativehashes.RoleManagement, "Designation", h, items))
				f.DrainAll()
			}
		},
		"timer:epoch": func() func() { return func() { f.NetmapProc.HandleNewEpochTick(); f.DrainAll() } },
		"timer:basicIncome": func() func() {
			return func() { f.Settlement.HandleBasicIncomeEvent(settlement.NewBasicIncomeEvent(f.Srv.EpochCounter())) }
		},
		"start:vote":        func() func() { return func() { _ = f.Srv.VerifVoteOnStart(d.ctx) } },
		"ctl:RequestNotary": func() func() { return func() { _, _ = f.Srv.RequestNotary("newEpoch") } },
	}
	return m
}

// rpcCount: RPC requests both fake nodes served so far (evidence of how far a handler went).
func rpcCount(f *irnode.Full) int {
	n := 0
	for _, c := range []*fakechain.Chain{f.Chain, f.Main.Chain} {
		c.Lock()
		for _, v := range c.Requests {
			n += v
		}
		c.Unlock()
	}
	return n
}

func notif(contract util.Uint160, name string, h util.Uint256, items []stackitem.Item) *state.ContainedNotificationEvent {
	return &state.ContainedNotificationEvent{Container: h, NotificationEvent: state.NotificationEvent{ScriptHash: contract, Name: name, Item: stackitem.NewArray(items)}}
}

func contractName(c fix.Contracts, h util.Uint160) string {
	switch h {
	case c.Netmap:
		return "netmap"
	case c.Container:
		return "container"
	case c.Balance:
		return "balance"
	case c.Reputation:
		return "reputation"
	case c.NeoFS:
		return "neofs"
	case nativehashes.RoleManagement:
		return "designate"
	}
	return h.StringLE()
}

// classify counts alphabet-authority sends, own-wallet sends (GAS transfer to the Notary contract = notary
// deposit) and repeated transactions.
func classifySends(all []fakechain.Sent) (auth, own, dups int, names []string) {
	seen := map[util.Uint256]bool{}
	for _, s := range all {
		h := s.Tx.Hash()
		if seen[h] {
			dups++
		}
		seen[h] = true
		isOwn := false
		name := s.Kind + ":?"
		if len(s.Calls) > 0 {
			c := s.Calls[0]
			name = s.Kind + ":" + c.Method
			if s.Kind == "tx" && len(s.Calls) == 1 && c.Contract == nativehashes.GasToken && c.Method == "transfer" && len(c.Args) >= 2 {
				if to, err := scparser.GetUint160FromInstr(c.Args[1].Instruction); err == nil && to == nativehashes.Notary {
					isOwn = true
					name = "tx:notaryDeposit"
				}
			}
		}
		if isOwn {
			own++
		} else {
			auth++
		}
		names = append(names, name)
	}
	sort.Strings(names)
	if names == nil {
		names = []string{}
	}
	return
}

func c35states() []c35St {
	var res []c35St
	if kit.Thorough() {
		for a := -1; a <= c35N; a++ {
			for i := -1; i <= c35N+1; i++ {
				for _, l := range []string{"ok", "irErr", "cmErr"} {
					res = append(res, c35St{a, i, l, false})
				}
			}
		}
	} else {
		for _, x := range [][2]int{{-1, -1}, {-1, 0}, {-1, 3}, {-1, 4}, {-1, 5}, {0, 0}, {0, -1}, {1, 2}, {3, 3}, {3, 5}, {4, 4}, {4, 0}} {
			res = append(res, c35St{x[0], x[1], "ok", false})
		}
		for _, x := range [][2]int{{0, 0}, {-1, 0}, {2, -1}} {
			res = append(res, c35St{x[0], x[1], "irErr", false}, c35St{x[0], x[1], "cmErr", false})
		}
	}
	res = append(res, c35St{1, 2, "ok", true}, c35St{-1, 0, "ok", true}, c35St{3, 5, "ok", true})
	return res
}

// newC35Drv builds a fresh fully wired inner ring node with its fixture.
func newC35Drv(ctx context.Context, warmUp bool) *c35Drv {
	d := &c35Drv{ctx: ctx, me: fix.Key("c35me"), reqs: map[string]*irnode.Requester{}, owner: newParty("owner"), stranger: newParty("stranger"),
		sess: newParty("session"), r: kit.Rand(35)}
	for i := 0; len(d.smaller) < 6 || len(d.larger) < 10; i++ {
		p := fix.Key(fmt.Sprintf("c35pool%d", i)).PublicKey()
		if p.Cmp(d.me.PublicKey()) < 0 {
			d.smaller = append(d.smaller, p)
		} else {
			d.larger = append(d.larger, p)
		}
	}
	sort.Sort(d.smaller)
	sort.Sort(d.larger)
	var err error
	initCm := keys.PublicKeys{d.larger[0], d.me.PublicKey(), d.larger[1], d.larger[2]}
	d.f, err = irnode.NewFull(ctx, d.me, initCm, c35N, quietLog(), fixedTime{}, nodevalidation.New())
	kit.Must(err)
	f := d.f
	mkNode := func(label string, i int) netmaprpc.NetmapNode2 {
		return netmaprpc.NetmapNode2{Addresses: []string{fmt.Sprintf("/ip4/10.35.0.%d/tcp/8080", i)}, Attributes: map[string]string{"Capacity": "10"},
			Key: fix.Key(label).PublicKey(), State: netmaprpc.NodeStateOnline}
	}
	d.nodeA, d.nodeB = mkNode("node35a", 1), [2]netmaprpc.NetmapNode2{mkNode("node35b0", 2), mkNode("node35b1", 3)}
	f.Nodes = []netmaprpc.NetmapNode2{d.nodeA, d.nodeB[0]}
	d.onCnr = d.mkCnr()
	d.onCid = cid.NewFromMarshalledContainer(d.onCnr.Marshal())
	f.OnRead(f.C.Container, "getInfo", func(c fakechain.Call) ([]stackitem.Item, string) {
		f.Mu.Lock()
		defer f.Mu.Unlock()
		if len(c.Args) == 1 {
			if b, err := scparserBytes(c.Args[0]); err == nil && len(b) == 32 && cid.ID(b) == d.onCid {
				it, err := cnrStruct(d.onCnr).ToStackItem()
				kit.Must(err)
				return []stackitem.Item{it}, ""
			}
		}
		return nil, "container does not exist"
	})
	f.OnRead(f.C.Container, "tokens", func(fakechain.Call) ([]stackitem.Item, string) {
		f.Mu.Lock()
		defer f.Mu.Unlock()
		return []stackitem.Item{irnode.Iter(stackitem.NewByteArray(d.onCid[:]))}, ""
	})
	f.Srv.SetEpochCounter(10)
	f.Srv.SetEpochDuration(240)
	f.Srv.VerifSetPredefinedValidators(keys.PublicKeys{d.larger[0], d.larger[1], d.larger[2], d.larger[3]})

	if warmUp {
		// the netmap processor learns the current map (member state), discard what it sends
		d.setState(c35St{1, 2, "ok", false})
		d.drivers()["fs:netmap.NewEpoch"]()()
		f.TakeAllSent()
	}
	return d
}

func c35run(out string, casesPath string) {
	ctx := context.Background()
	fakechain.DefaultMsPerBlock = 1 // back-off of the placement update starts from the block time
	d := newC35Drv(ctx, true)
	f := d.f
	drv := d.drivers()
	// ---- enumerate the handler tables of the real listeners
	fsNotif, fsNotary := event.VerifRegistered(f.Listener)
	mainNotif, mainNotary := event.VerifRegistered(f.MainListener)
	var registered, unmodelled []string
	add := func(prefix string, ks []event.VerifKey, c fix.Contracts) {
		for _, k := range ks {
			name := prefix + contractName(c, k.Contract) + "." + k.Type
			registered = append(registered, name)
			if _, ok := drv[name]; !ok {
				unmodelled = append(unmodelled, name)
			}
		}
	}
	add("fs:", fsNotif, f.C)
	add("fsn:", fsNotary, f.C)
	add("main:", mainNotif, f.C)
	add("mainn:", mainNotary, f.C)
	extra := []string{"fs:netmap.NewEpoch/mapChanged", "timer:epoch", "timer:basicIncome", "start:vote", "ctl:RequestNotary"}
	var driven []string
	for name := range drv {
		driven = append(driven, name)
	}
	sort.Strings(driven)
	var notRegistered []string
	for _, name := range driven {
		isExtra := false
		for _, e := range extra {
			isExtra = isExtra || e == name
		}
		found := false
		for _, rname := range registered {
			found = found || rname == name
		}
		if !isExtra && !found {
			notRegistered = append(notRegistered, name)
		}
	}

	// ---- cases
	var cases []c35Case
	if casesPath != "" {
		cases = kit.ReadNDJSON[c35Case](casesPath)
	} else {
		for _, name := range driven {
			for _, st := range c35states() {
				if st.Again && !strings.HasPrefix(name, "fsn:") {
					continue
				}
				cases = append(cases, c35Case{name, st})
			}
		}
	}
	w := kit.NewW(out)
	for _, cs := range cases {
		if _, ok := drv[cs.Ev]; !ok {
			continue
		}
		run, rdrv := d, drv
		stuck := cs.Ev == "fs:netmap.NewEpoch/mapChanged" && (cs.St.AlphaIdx < 0 || cs.St.Lookup == "cmErr")
		if stuck {
			// updatePlacementInContract retries a failing update with exponential back-off for up to 15 minutes:
			// such a delivery runs on a throw-away node and is observed for a bounded time (every retry repeats the
			// same call, so what the first attempts do not send is never sent)
			run = newC35Drv(ctx, true)
			rdrv = run.drivers()
		}
		// requests are built against the committee of the state, but with all lookups working
		run.setState(c35St{cs.St.AlphaIdx, cs.St.IrIdx, "ok", false})
		deliver := rdrv[cs.Ev]()
		run.setState(cs.St)
		run.f.TakeAllSent()
		rpc0 := rpcCount(run.f)
		if stuck {
			go deliver()
			time.Sleep(1500 * time.Millisecond)
		} else {
			deliver()
			if cs.St.Again {
				run.f.TakeAllSent()
				deliver()
			}
		}
		f := run.f
		fs, mn := f.TakeAllSent()
		auth, own, dups, names := classifySends(append(fs, mn...))
		w.Emit(kit.M{"in": kit.M{"ev": cs.Ev, "st": cs.St},
			"out":    kit.M{"auth": auth, "own": own, "dups": dups},
			"server": kit.M{"alphabetIndex": f.Srv.AlphabetIndex(), "innerRingIndex": f.Srv.InnerRingIndex(), "isAlphabet": f.Srv.IsAlphabet()},
			"sent":   names, "case": cs, "rpc": rpcCount(f) - rpc0})
	}
	w.Close()
	meta := kit.M{"registered": registered, "driven": driven, "unmodelled": unmodelled, "driven_but_not_registered": notRegistered, "extra_triggers": extra}
	b, _ := json.MarshalIndent(meta, "", " ")
	kit.Must(os.WriteFile(out+".meta.json", b, 0o644))
}

// ---- index-cache histories (spec/AlphabetHist.tla) ----

type c35Chain struct {
	AlphaIdx int    `json:"alphaIdx"`
	IrIdx    int    `json:"irIdx"`
	Lookup   string `json:"lookup"`
}
type c35HStep struct {
	Ev   string    `json:"ev"` // Boot | Chain | Expire | Deliver
	St   *c35Chain `json:"st,omitempty"`
	Name string    `json:"name,omitempty"`
}
type c35HScript struct {
	Steps []c35HStep `json:"steps"`
}

var c35HistEvents = []string{"main:neofs.Deposit", "timer:epoch", "fs:balance.Lock", "start:vote"}

func c35histgen(out string) {
	r := kit.Rand(351)
	w := kit.NewW(out)
	non := []c35Chain{{-1, -1, "ok"}, {-1, 0, "ok"}, {-1, 5, "ok"}}
	mem := []c35Chain{{0, 0, "ok"}, {2, 1, "ok"}, {3, 5, "ok"}}
	del := func(n string) c35HStep { return c35HStep{Ev: "Deliver", Name: n} }
	ch := func(c c35Chain) c35HStep { return c35HStep{Ev: "Chain", St: &c} }
	withErr := func(c c35Chain, e string) c35Chain { c.Lookup = e; return c }
	// systematic: failed lookup, then a second query inside the cache window - at start-up and after a reset,
	// for a node that never was a member and for a node that was voted out meanwhile
	for _, e := range []string{"irErr", "cmErr"} {
		for _, name := range c35HistEvents {
			for _, n := range non {
				w.Emit(c35HScript{[]c35HStep{{Ev: "Boot", St: &c35Chain{n.AlphaIdx, n.IrIdx, e}}, del(name), ch(n), del(name), del(name)}})
				for _, m := range mem {
					w.Emit(c35HScript{[]c35HStep{{Ev: "Boot", St: &m}, del(name), ch(withErr(n, e)), {Ev: "Expire"}, del(name), ch(n), del(name), del(name)}})
				}
			}
			for _, m := range mem[:1] { // a member whose lookup fails once keeps working afterwards
				w.Emit(c35HScript{[]c35HStep{{Ev: "Boot", St: &c35Chain{m.AlphaIdx, m.IrIdx, e}}, del(name), ch(m), del(name), {Ev: "Expire"}, del(name)}})
			}
		}
	}
	// random histories
	N := 40
	if kit.Thorough() {
		N = 600
	}
	all := append(append([]c35Chain{}, non...), mem...)
	rc := func() c35Chain {
		c := all[r.Intn(len(all))]
		if r.Intn(3) == 0 {
			c.Lookup = []string{"irErr", "cmErr"}[r.Intn(2)]
		}
		return c
	}
	for i := 0; i < N; i++ {
		c := rc()
		s := c35HScript{[]c35HStep{{Ev: "Boot", St: &c}}}
		for j := 0; j < 8; j++ {
			switch x := r.Intn(10); {
			case x < 5:
				s.Steps = append(s.Steps, del(c35HistEvents[r.Intn(len(c35HistEvents))]))
			case x < 8:
				s.Steps = append(s.Steps, ch(rc()))
			default:
				s.Steps = append(s.Steps, c35HStep{Ev: "Expire"})
			}
		}
		w.Emit(s)
	}
	w.Close()
}

func c35hist(in, out string) {
	ctx := context.Background()
	fakechain.DefaultMsPerBlock = 1
	irnode.IndexerTimeout = time.Hour // expiry is driven explicitly through reset()
	w := kit.NewW(out)
	for _, s := range kit.ReadNDJSON[c35HScript](in) {
		var d *c35Drv
		var drv map[string]func() func()
		for _, st := range s.Steps {
			switch st.Ev {
			case "Boot": // a freshly started node: the indexer has never been asked
				d = newC35Drv(ctx, false)
				drv = d.drivers()
				d.setState(c35St{st.St.AlphaIdx, st.St.IrIdx, st.St.Lookup, false})
				w.Emit(kit.M{"ev": "Boot", "st": st.St})
			case "Chain":
				d.setState(c35St{st.St.AlphaIdx, st.St.IrIdx, st.St.Lookup, false})
				w.Emit(kit.M{"ev": "Chain", "st": st.St})
			case "Expire":
				d.f.Srv.VerifResetIndexer()
				w.Emit(kit.M{"ev": "Expire"})
			case "Deliver":
				deliver := drv[st.Name]()
				d.f.TakeAllSent()
				deliver()
				fs, mn := d.f.TakeAllSent()
				auth, own, dups, names := classifySends(append(fs, mn...))
				w.Emit(kit.M{"ev": "Deliver", "name": st.Name, "out": kit.M{"auth": auth, "own": own, "dups": dups}, "sent": names,
					"ans": kit.M{"alpha": d.f.Srv.AlphabetIndex(), "ir": d.f.Srv.InnerRingIndex()}})
			}
		}
	}
	w.Close()
}
