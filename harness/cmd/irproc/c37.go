package main

import (
	"context"
	"crypto/sha256"
	"fmt"
	"math/big"
	"math/rand"
	"time"

	"github.com/google/uuid"
	"github.com/nspcc-dev/neo-go/pkg/crypto/keys"
	"github.com/nspcc-dev/neo-go/pkg/network/payload"
	"github.com/nspcc-dev/neo-go/pkg/smartcontract"
	"github.com/nspcc-dev/neo-go/pkg/smartcontract/scparser"
	"github.com/nspcc-dev/neo-go/pkg/util"
	"github.com/nspcc-dev/neo-go/pkg/vm/stackitem"
	containerrpc "github.com/nspcc-dev/neofs-contract/rpc/container"
	cntproc "github.com/nspcc-dev/neofs-node/pkg/innerring/processors/container"
	"github.com/nspcc-dev/neofs-node/pkg/morph/client"
	sdkclient "github.com/nspcc-dev/neofs-sdk-go/client"
	"github.com/nspcc-dev/neofs-sdk-go/container"
	"github.com/nspcc-dev/neofs-sdk-go/container/acl"
	cid "github.com/nspcc-dev/neofs-sdk-go/container/id"
	neofscrypto "github.com/nspcc-dev/neofs-sdk-go/crypto"
	neofsecdsa "github.com/nspcc-dev/neofs-sdk-go/crypto/ecdsa"
	"github.com/nspcc-dev/neofs-sdk-go/eacl"
	"github.com/nspcc-dev/neofs-sdk-go/netmap"
	"github.com/nspcc-dev/neofs-sdk-go/session"
	sessionv2 "github.com/nspcc-dev/neofs-sdk-go/session/v2"
	"github.com/nspcc-dev/neofs-sdk-go/user"
	"verifharness/internal/irproc/fakechain"
	"verifharness/internal/irproc/fix"
	"verifharness/internal/irproc/irnode"
	"verifharness/internal/kit"
)

// ---- abstract input (must match the record fields of spec/ContainerProc.tla) ----

type c37Tok struct {
	IssuerOwner bool `json:"issuerOwner"`
	SigOK       bool `json:"sigOK"`
	VerbOK      bool `json:"verbOK"`
	CidOK       bool `json:"cidOK"`
	LifeOK      bool `json:"lifeOK"`
	SessSig     bool `json:"sessSig"`
}
type c37Auth struct {
	Auth     string `json:"auth"` // sig | v1 | v2
	OwnerSig bool   `json:"ownerSig"`
	Tok      c37Tok `json:"tok"`
}
type c37Cnr struct {
	Decodes  bool     `json:"decodes"`
	Attrs    []string `json:"attrs"` // attribute kinds in wire order: user | allowed | meta | forbidden
	MetaOn   bool     `json:"metaOn"`
	PolicyOK bool     `json:"policyOK"`
	Rules    string   `json:"rules"` // rep | ec | mix
	AllowEC  bool     `json:"allowEC"`
	NnsOK    bool     `json:"nnsOK"`
}
type c37Eacl struct {
	Decodes    bool `json:"decodes"`
	CidOK      bool `json:"cidOK"`
	Extendable bool `json:"extendable"`
	SysTarget  bool `json:"sysTarget"`
	RecordsOK  bool `json:"recordsOK"`
}
type c37In struct {
	Op       string  `json:"op"`
	A        c37Auth `json:"a"`
	C        c37Cnr  `json:"c"`
	WithEACL bool    `json:"withEACL"`
	E        c37Eacl `json:"e"`
	EA       c37Auth `json:"ea"`
	Exists   bool    `json:"exists"`
	IDOK     bool    `json:"idOK"`
	Expired  bool    `json:"expired"`
}

// c37Case = abstract input + variant seed (how a FALSE fact is materialised).
type c37Case struct {
	I    int   `json:"i"`
	In   c37In `json:"in"`
	Seed int64 `json:"seed"`
}

var (
	allTrueTok = c37Tok{true, true, true, true, true, true}
	goodAuth   = c37Auth{Auth: "sig", OwnerSig: true, Tok: allTrueTok}
	goodCnr    = c37Cnr{Decodes: true, Attrs: []string{}, PolicyOK: true, Rules: "rep", NnsOK: true}
	goodEacl   = c37Eacl{Decodes: true, CidOK: true, Extendable: true, RecordsOK: true}
	c37Ops     = []string{"create", "createV2", "remove", "putEACL", "setAttr", "rmAttr"}
)

func baseIn(op string) c37In {
	return c37In{Op: op, A: goodAuth, C: goodCnr, E: goodEacl, EA: goodAuth, Exists: true, IDOK: true}
}

// canon pins the parts that are irrelevant for the operation to their canonical value (as the
// exhaustive model does), so that equal abstract inputs are equal records.
func canon(in c37In) c37In {
	fixAuth := func(a c37Auth) c37Auth {
		switch a.Auth {
		case "sig":
			a.Tok = allTrueTok
		case "v1":
			a.OwnerSig = false
		case "v2":
			a.OwnerSig = false
			a.Tok.SessSig = true
		}
		return a
	}
	in.A = fixAuth(in.A)
	in.EA = fixAuth(in.EA)
	creation := in.Op == "create" || in.Op == "createV2"
	if !creation {
		in.C = goodCnr
	} else {
		in.Exists, in.IDOK = true, true
		if in.Op == "createV2" {
			in.C.NnsOK = true
		}
	}
	if !(in.Op == "createV2") {
		in.WithEACL = false
	}
	if !(in.Op == "putEACL" || in.WithEACL) {
		in.E = goodEacl
	}
	if !in.WithEACL {
		in.EA = goodAuth
	}
	if in.Op == "putEACL" {
		in.IDOK = true
	}
	if !(in.Op == "setAttr" || in.Op == "rmAttr") {
		in.Expired = false
	}
	return in
}

// attrLists: every attribute list of length 0..3 over the four kinds with the meta attribute at most once
// (= AttrLists of spec/ContainerProc.tla).
func attrLists() [][]string {
	kinds := []string{"user", "allowed", "meta", "forbidden"}
	res := [][]string{{}}
	var rec func(cur []string)
	rec = func(cur []string) {
		if len(cur) == 3 {
			return
		}
		for _, k := range kinds {
			if k == "meta" {
				dup := false
				for _, x := range cur {
					dup = dup || x == "meta"
				}
				if dup {
					continue
				}
			}
			nx := append(append([]string{}, cur...), k)
			res = append(res, nx)
			rec(nx)
		}
	}
	rec(nil)
	return res
}

func randAttrs(r *rand.Rand) []string {
	all := attrLists()
	if r.Intn(3) == 0 {
		return []string{}
	}
	return all[r.Intn(len(all))]
}

func randAuth(r *rand.Rand, pFalse float64) c37Auth {
	b := func() bool { return r.Float64() >= pFalse }
	a := c37Auth{Auth: []string{"sig", "v1", "v2"}[r.Intn(3)]}
	a.OwnerSig = b()
	a.Tok = c37Tok{b(), b(), b(), b(), b(), b()}
	return a
}

func c37gen(out string) {
	r := kit.Rand(37)
	w := kit.NewW(out)
	n := 0
	emit := func(in c37In) {
		w.Emit(c37Case{I: n, In: canon(in), Seed: r.Int63()})
		n++
	}
	// 1. systematic: for every operation and authorisation kind the all-good request and every single fact flipped
	for _, op := range c37Ops {
		for _, au := range []string{"sig", "v1", "v2"} {
			for flip := -1; flip < 22; flip++ {
				in := baseIn(op)
				in.A = c37Auth{Auth: au, OwnerSig: true, Tok: allTrueTok}
				if op == "createV2" && flip >= 12 {
					in.WithEACL = true
					in.EA = c37Auth{Auth: au, OwnerSig: true, Tok: allTrueTok}
				}
				switch flip {
				case 0:
					in.A.OwnerSig = false
				case 1:
					in.A.Tok.IssuerOwner = false
				case 2:
					in.A.Tok.SigOK = false
				case 3:
					in.A.Tok.VerbOK = false
				case 4:
					in.A.Tok.CidOK = false
				case 5:
					in.A.Tok.LifeOK = false
				case 6:
					in.A.Tok.SessSig = false
				case 7:
					in.C.Attrs = []string{"forbidden"}
				case 8:
					in.C.PolicyOK = false
				case 9:
					in.Exists = false
				case 10:
					in.IDOK = false
				case 11:
					in.Expired = true
				case 12:
				case 13:
					in.E.Extendable = false
				case 14:
					in.E.SysTarget = true
				case 15:
					in.E.RecordsOK = false
				case 16:
					in.E.CidOK = false
				case 17:
					in.E.Decodes = false
				case 18:
					in.EA.OwnerSig = false
					in.EA.Tok.VerbOK = false
				case 19:
					in.EA.Tok.CidOK = false
					in.EA.OwnerSig = false
				case 20:
					in.C.Attrs = []string{"allowed"}
				case 21:
					in.C.Decodes = false
				}
				emit(in)
			}
		}
	}
	// 1b. every attribute LIST (order matters) under both processor configurations, for both creation flows
	for _, op := range []string{"create", "createV2"} {
		for _, metaOn := range []bool{false, true} {
			for _, l := range attrLists() {
				in := baseIn(op)
				in.C.Attrs, in.C.MetaOn = l, metaOn
				emit(in)
			}
		}
	}
	// 2. random combinations biased to mostly-true facts
	N := 700
	if kit.Thorough() {
		N = 9000
	}
	for i := 0; i < N; i++ {
		p := []float64{0.08, 0.2, 0.4}[r.Intn(3)]
		b := func() bool { return r.Float64() >= p }
		in := baseIn(c37Ops[r.Intn(len(c37Ops))])
		in.A = randAuth(r, p)
		in.EA = randAuth(r, p)
		in.C = c37Cnr{Decodes: r.Intn(12) != 0, Attrs: randAttrs(r), MetaOn: r.Intn(2) == 0,
			PolicyOK: b(), Rules: []string{"rep", "rep", "rep", "ec", "mix"}[r.Intn(5)], AllowEC: r.Intn(2) == 0, NnsOK: b()}
		in.WithEACL = r.Intn(2) == 0
		in.E = c37Eacl{Decodes: r.Intn(12) != 0, CidOK: b(), Extendable: b(), SysTarget: !b(), RecordsOK: b()}
		in.Exists, in.IDOK, in.Expired = b(), r.Intn(12) != 0, !b()
		emit(in)
	}
	w.Close()
}

// ---- concrete material ----

type party struct {
	priv *keys.PrivateKey
	id   user.ID
}

func newParty(label string) party {
	k := fix.Key(label)
	return party{k, user.NewFromECDSAPublicKey(k.PrivateKey.PublicKey)}
}
func (p party) rfc6979(data []byte) []byte {
	s, err := neofsecdsa.SignerRFC6979(p.priv.PrivateKey).Sign(data)
	kit.Must(err)
	return s
}
func (p party) pub() []byte         { return p.priv.PublicKey().Bytes() }
func (p party) signer() user.Signer { return user.NewAutoIDSignerRFC6979(p.priv.PrivateKey) }

var (
	c37Now   = time.Unix(1_800_000_000, 0)
	c37Epoch = uint64(10)
)

type fixedTime struct{}

func (fixedTime) Now() time.Time { return c37Now }

type nopMeta struct{}

func (nopMeta) RegisterMetadataContainer(cid.ID, uint32) error { return nil }
func (nopMeta) UpdateContainerPlacement(cid.ID, [][]netmap.NodeInfo, netmap.PlacementPolicy, uint32) error {
	return nil
}

func cidFrom(label string) cid.ID {
	return cid.ID(sha256.Sum256([]byte("irproc-cid/" + label)))
}

type verbs struct {
	v1 session.ContainerVerb
	v2 sessionv2.Verb
}

var opVerbs = map[string]verbs{
	"create":   {session.VerbContainerPut, sessionv2.VerbContainerPut},
	"createV2": {session.VerbContainerPut, sessionv2.VerbContainerPut},
	"remove":   {session.VerbContainerDelete, sessionv2.VerbContainerDelete},
	"putEACL":  {session.VerbContainerSetEACL, sessionv2.VerbContainerSetEACL},
	"setAttr":  {session.VerbContainerSetAttribute, sessionv2.VerbContainerSetAttribute},
	"rmAttr":   {session.VerbContainerRemoveAttribute, sessionv2.VerbContainerRemoveAttribute},
}

// material is what goes into the contract call arguments for one authorised part.
type material struct {
	invoc, verif, token []byte
}

// mkAuth materialises the abstract authorisation facts for an operation on container id (zero for
// creation) over signedData.
func mkAuth(r *rand.Rand, a c37Auth, vb verbs, creation bool, id cid.ID, signedData []byte, owner, stranger, sess party) material {
	other := append([]byte("other/"), signedData...)
	switch a.Auth {
	case "sig":
		if a.OwnerSig {
			return material{invoc: owner.rfc6979(signedData), verif: owner.pub()}
		}
		switch r.Intn(4) {
		case 0: // a valid signature of somebody else
			return material{invoc: stranger.rfc6979(signedData), verif: stranger.pub()}
		case 1: // owner's signature of other data
			return material{invoc: owner.rfc6979(other), verif: owner.pub()}
		case 2: // forged bytes under the owner's key
			g := make([]byte, 64)
			r.Read(g)
			return material{invoc: g, verif: owner.pub()}
		default: // stranger's signature presented with the owner's key
			return material{invoc: stranger.rfc6979(signedData), verif: owner.pub()}
		}
	case "v1":
		var tok session.Container
		tok.SetID(uuid.New())
		tok.SetAuthKey((*neofsecdsa.PublicKeyRFC6979)(&sess.priv.PrivateKey.PublicKey))
		tok.SetIat(5)
		tok.SetNbf(5)
		tok.SetExp(20)
		if !a.Tok.LifeOK {
			if r.Intn(2) == 0 {
				tok.SetExp(c37Epoch - 1)
				tok.SetNbf(1)
				tok.SetIat(1)
			} else {
				tok.SetNbf(c37Epoch + 1)
				tok.SetExp(c37Epoch + 5)
			}
		}
		v := vb.v1
		if !a.Tok.VerbOK {
			all := []session.ContainerVerb{session.VerbContainerPut, session.VerbContainerDelete, session.VerbContainerSetEACL,
				session.VerbContainerSetAttribute, session.VerbContainerRemoveAttribute}
			for {
				v = all[r.Intn(len(all))]
				if v != vb.v1 {
					break
				}
			}
		}
		tok.ForVerb(v)
		if !creation {
			if !a.Tok.CidOK {
				tok.ApplyOnlyTo(cidFrom("elsewhere"))
			} else if r.Intn(2) == 0 {
				tok.ApplyOnlyTo(id)
			}
		}
		issuer := owner
		if !a.Tok.IssuerOwner {
			issuer = stranger
		}
		kit.Must(tok.Sign(issuer.signer()))
		if !a.Tok.SigOK {
			switch r.Intn(2) {
			case 0: // body changed after signing (same lifetime class)
				tok.SetID(uuid.New())
			default: // signature of another token body
				var t2 session.Container
				tok.CopyTo(&t2)
				t2.SetID(uuid.New())
				kit.Must(t2.Sign(issuer.signer()))
				s, _ := t2.Signature()
				tok.AttachSignature(s)
			}
		}
		m := material{token: tok.Marshal(), verif: sess.pub()}
		if a.Tok.SessSig {
			m.invoc = sess.rfc6979(signedData)
		} else if r.Intn(2) == 0 {
			m.invoc = stranger.rfc6979(signedData)
		} else {
			m.invoc = sess.rfc6979(other)
		}
		return m
	default: // v2
		mk := func(issuer party, subject user.ID, nbf, exp time.Time, ctxs []sessionv2.Context, origin *sessionv2.Token) sessionv2.Token {
			var tok sessionv2.Token
			tok.SetVersion(sessionv2.TokenCurrentVersion)
			tok.SetIat(nbf)
			tok.SetNbf(nbf)
			tok.SetExp(exp)
			kit.Must(tok.SetSubjects([]sessionv2.Target{sessionv2.NewTargetUser(subject)}))
			kit.Must(tok.SetContexts(ctxs))
			if origin != nil {
				tok.SetOrigin(origin)
			}
			kit.Must(tok.Sign(issuer.signer()))
			return tok
		}
		nbf, exp := c37Now.Add(-time.Hour), c37Now.Add(time.Hour)
		if !a.Tok.LifeOK {
			if r.Intn(2) == 0 {
				nbf, exp = c37Now.Add(-2*time.Hour), c37Now.Add(-time.Minute)
			} else {
				nbf, exp = c37Now.Add(time.Minute), c37Now.Add(time.Hour)
			}
		}
		v := vb.v2
		if !a.Tok.VerbOK {
			all := []sessionv2.Verb{sessionv2.VerbObjectGet, sessionv2.VerbObjectPut, sessionv2.VerbContainerPut, sessionv2.VerbContainerDelete,
				sessionv2.VerbContainerSetEACL, sessionv2.VerbContainerSetAttribute, sessionv2.VerbContainerRemoveAttribute}
			for {
				v = all[r.Intn(len(all))]
				if v != vb.v2 {
					break
				}
			}
		}
		var ctxCnr cid.ID // zero = wildcard
		if !creation {
			if !a.Tok.CidOK {
				ctxCnr = cidFrom("elsewhere")
			} else if r.Intn(2) == 0 {
				ctxCnr = id
			}
		}
		ctx, err := sessionv2.NewContext(ctxCnr, []sessionv2.Verb{v})
		kit.Must(err)
		issuer := owner
		if !a.Tok.IssuerOwner {
			issuer = stranger
		}
		var tok sessionv2.Token
		if r.Intn(3) == 0 { // delegation chain: issuer -> delegate -> session key
			delegate := newParty("delegate")
			origin := mk(issuer, delegate.id, nbf, exp, []sessionv2.Context{ctx}, nil)
			tok = mk(delegate, sess.id, nbf, exp, []sessionv2.Context{ctx}, &origin)
		} else {
			tok = mk(issuer, sess.id, nbf, exp, []sessionv2.Context{ctx}, nil)
		}
		if !a.Tok.SigOK {
			switch r.Intn(2) {
			case 0: // body changed after signing
				kit.Must(tok.SetAppData([]byte("tampered")))
			default: // signed by a key that is not the issuer's
				s, _ := tok.Signature()
				var bad neofscrypto.Signature
				kit.Must(bad.Calculate(stranger.signer(), tok.SignedData()))
				if issuer.id == stranger.id {
					kit.Must(bad.Calculate(owner.signer(), tok.SignedData()))
				}
				_ = s
				tok.AttachSignature(bad)
			}
		}
		g := make([]byte, 64)
		r.Read(g)
		return material{token: tok.Marshal(), invoc: g, verif: sess.pub()}
	}
}

func mkPolicy(r *rand.Rand, c c37Cnr) netmap.PlacementPolicy {
	var s string
	switch c.Rules {
	case "ec":
		s = "EC 2/1"
	case "mix":
		s = "REP 1 EC 2/1"
	default:
		s = "REP " + []string{"1", "2", "3"}[r.Intn(3)]
	}
	if !c.PolicyOK {
		switch c.Rules {
		case "ec":
			s = "EC 2/1 IN X"
		case "mix":
			s = "REP 1 IN X EC 2/1"
		default:
			s = "REP 1 IN X"
		}
	}
	var p netmap.PlacementPolicy
	if err := p.DecodeString(s); err != nil {
		// the textual parser refuses dangling selectors: build the rule by hand
		p = netmap.PlacementPolicy{}
		var rd netmap.ReplicaDescriptor
		rd.SetNumberOfObjects(1)
		rd.SetSelectorName("X")
		p.SetReplicas([]netmap.ReplicaDescriptor{rd})
		if c.Rules != "rep" {
			p.SetECRules([]netmap.ECRule{netmap.NewECRule(2, 1)})
			if c.Rules == "ec" {
				p.SetReplicas(nil)
				er := netmap.NewECRule(2, 1)
				er.SetSelectorName("X")
				p.SetECRules([]netmap.ECRule{er})
			}
		}
	}
	return p
}

func mkContainer(r *rand.Rand, c c37Cnr, owner party, extendable bool) container.Container {
	var cnr container.Container
	cnr.Init()
	cnr.SetOwner(owner.id)
	if extendable {
		cnr.SetBasicACL(acl.PublicRWExtended)
	} else {
		cnr.SetBasicACL(acl.PublicRW)
	}
	cnr.SetPlacementPolicy(mkPolicy(r, c))
	// attributes in exactly the order of the abstract list (Container.Attributes() keeps the wire order)
	allowed := [][2]string{{"__NEOFS__NAME", "cnr"}, {"__NEOFS__ZONE", "container"}, {"__NEOFS__LOCK_UNTIL", fmt.Sprint(c37Now.Add(time.Hour).Unix())}}
	forbidden := [][2]string{{"__NEOFS__FOO", "bar"}, {"__NEOFS__DISABLE_HOMOMORPHIC_HASHING", "true"}, {"__NEOFS__BAR", "1"}}
	fo := r.Intn(3)
	na, nf, nu := 0, 0, 0
	for _, k := range c.Attrs {
		switch k {
		case "user":
			cnr.SetAttribute(fmt.Sprintf("User%d", nu), "x")
			nu++
		case "allowed":
			cnr.SetAttribute(allowed[na%3][0], allowed[na%3][1])
			na++
		case "forbidden":
			cnr.SetAttribute(forbidden[(fo+nf)%3][0], forbidden[(fo+nf)%3][1])
			nf++
		case "meta":
			cnr.SetAttribute("__NEOFS__METAINFO_CONSISTENCY", []string{"strict", "optimistic"}[r.Intn(2)])
		}
	}
	cnr.SetAttribute("Tag", fmt.Sprint(r.Int63())) // makes the container unique; a user attribute at the end
	return cnr
}

func cnrStruct(cnr container.Container) *containerrpc.ContainerInfo {
	ver := cnr.Version()
	var attrs []*containerrpc.ContainerAttribute
	for k, v := range cnr.Attributes() {
		attrs = append(attrs, &containerrpc.ContainerAttribute{Key: k, Value: v})
	}
	return &containerrpc.ContainerInfo{
		Version:       &containerrpc.ContainerAPIVersion{Major: big.NewInt(int64(ver.Major())), Minor: big.NewInt(int64(ver.Minor()))},
		Owner:         cnr.Owner().ScriptHash(),
		Nonce:         cnr.ProtoMessage().Nonce,
		BasicACL:      big.NewInt(int64(cnr.BasicACL().Bits())),
		Attributes:    attrs,
		StoragePolicy: cnr.PlacementPolicy().Marshal(),
	}
}

func mkEacl(r *rand.Rand, e c37Eacl, id cid.ID, putEACL bool) []byte {
	if !e.Decodes {
		g := make([]byte, 40)
		r.Read(g)
		g[0] = 0xff
		return g
	}
	role := []eacl.Role{eacl.RoleOthers, eacl.RoleUser}[r.Intn(2)]
	if e.SysTarget {
		role = eacl.RoleSystem
	}
	var fs []eacl.Filter
	if !e.RecordsOK {
		fs = append(fs, eacl.NewObjectPropertyFilter("Size", eacl.MatchNumGT, "not-a-number"))
	} else if r.Intn(2) == 0 {
		fs = append(fs, eacl.NewObjectPropertyFilter("Size", eacl.MatchNumGT, "100"))
	}
	recs := []eacl.Record{eacl.ConstructRecord(eacl.ActionDeny, eacl.OperationPut, []eacl.Target{eacl.NewTargetByRole(role)}, fs...)}
	if r.Intn(2) == 0 {
		recs = append([]eacl.Record{eacl.ConstructRecord(eacl.ActionAllow, eacl.OperationGet, []eacl.Target{eacl.NewTargetByRole(eacl.RoleOthers)})}, recs...)
	}
	var t eacl.Table
	switch {
	case e.CidOK:
		t = eacl.NewTableForContainer(id, recs)
	case putEACL: // no container reference at all
		t = eacl.ConstructTable(recs)
	default:
		t = eacl.NewTableForContainer(cidFrom("elsewhere"), recs)
	}
	return t.Marshal()
}

// c37Node is an IR node with a container processor of one configuration.
type c37Node struct {
	*irnode.Node
	proc   *cntproc.Processor
	onCnrs map[cid.ID]container.Container
}

func newC37Node(ctx context.Context, me *keys.PrivateKey, committee keys.PublicKeys, metaOn, allowEC bool) *c37Node {
	n, err := irnode.New(ctx, me, committee, 4, quietLog())
	kit.Must(err)
	x := &c37Node{Node: n, onCnrs: map[cid.ID]container.Container{}}
	x.proc, err = cntproc.New(&cntproc.Params{
		Log: n.Log, PoolSize: 4, AlphabetState: n.Srv, ContainerClient: n.Cnr, MetaClient: nopMeta{},
		NetworkState: n.Netmap, MetaEnabled: metaOn, AllowEC: allowEC, ChainTime: fixedTime{},
	})
	kit.Must(err)
	n.Bind(x.proc, x.proc.VerifDrain)
	n.OnRead(n.C.Container, "getInfo", func(c fakechain.Call) ([]stackitem.Item, string) {
		n.Mu.Lock()
		defer n.Mu.Unlock()
		if len(c.Args) == 1 {
			if b, err := scparserBytes(c.Args[0]); err == nil && len(b) == 32 {
				if cnr, ok := x.onCnrs[cid.ID(b)]; ok {
					it, err := cnrStruct(cnr).ToStackItem()
					kit.Must(err)
					return []stackitem.Item{it}, ""
				}
			}
		}
		return nil, containerrpc.NotFoundError
	})
	return x
}

// c37Request materialises the abstract request `in` (in.C.PolicyOK is overwritten with the verdict of the
// reference PlacementPolicy.Verify) and returns the notary request the non-IR party `req` submitted.
func c37Request(ctx context.Context, req *irnode.Requester, contract util.Uint160, in *c37In, r *rand.Rand, owner, stranger, sess party,
	onChain func(id cid.ID, cnr container.Container, exists bool)) (*payload.P2PNotaryRequest, kit.M) {
	var err error
	vb := opVerbs[in.Op]
	var nr *payload.P2PNotaryRequest
	dbg := kit.M{}
	single := func(method string, args ...any) {
		nr, err = req.Capture(func() error { return req.Cli.NotaryInvokeNotAlpha(contract, false, 0, method, args...) })
		kit.Must(err)
	}
	switch in.Op {
	case "create", "createV2":
		extendable := true
		if in.WithEACL {
			extendable = in.E.Extendable
		}
		cnr := mkContainer(r, in.C, owner, extendable)
		// the reference function decides the policy fact (the generator only steers it)
		in.C.PolicyOK = cnr.PlacementPolicy().Verify() == nil
		cnrBytes := cnr.Marshal()
		id := cid.NewFromMarshalledContainer(cnrBytes)
		m := mkAuth(r, in.A, vb, true, cid.ID{}, cnrBytes, owner, stranger, sess)
		dbg["cid"] = id.String()
		if in.Op == "create" {
			arg0 := cnrBytes
			if !in.C.Decodes {
				arg0 = []byte{0xff, 0x01, 0x02, 0x03}
			}
			name, zone := "", ""
			d := cnr.ReadDomain()
			switch {
			case !in.C.NnsOK:
				name, zone = "other-name", "container"
				if d.Zone() != "" && r.Intn(2) == 0 {
					name, zone = d.Name(), "other-zone"
				}
			case d.Zone() != "" || r.Intn(2) == 0:
				name, zone = d.Name(), d.Zone()
			}
			single("create", arg0, m.invoc, m.verif, m.token, name, zone, false)
		} else {
			st := cnrStruct(cnr)
			if !in.C.Decodes {
				st.Nonce = st.Nonce[:5]
			}
			if !in.WithEACL {
				single("createV2", st, m.invoc, m.verif, m.token)
			} else {
				table := mkEacl(r, in.E, id, false)
				em := mkAuth(r, in.EA, opVerbs["putEACL"], false, id, table, owner, stranger, sess)
				b := smartcontract.NewBuilder()
				b.InvokeMethod(contract, "createV2", st, m.invoc, m.verif, m.token)
				b.InvokeMethod(contract, "putEACL", table, em.invoc, em.verif, em.token)
				script, err := b.Script()
				kit.Must(err)
				sc, err := client.NewStatic(req.Cli, contract, client.TryNotary())
				kit.Must(err)
				nr, err = req.Capture(func() error { return sc.RunScriptForAlphabet(ctx, script) })
				kit.Must(err)
			}
		}
	default:
		// operations on a container that is (not) on the chain
		extendable := in.Op != "putEACL" || in.E.Extendable
		cnr := mkContainer(r, goodCnr, owner, extendable)
		id := cid.NewFromMarshalledContainer(cnr.Marshal())
		dbg["cid"] = id.String()
		onChain(id, cnr, in.Exists)
		idArg := id[:]
		if !in.IDOK {
			if in.Op == "remove" || r.Intn(2) == 0 {
				idArg = id[:7]
			} else {
				idArg = make([]byte, 32)
			}
		}
		switch in.Op {
		case "remove":
			m := mkAuth(r, in.A, vb, false, id, id[:], owner, stranger, sess)
			single("remove", idArg, m.invoc, m.verif, m.token)
		case "putEACL":
			table := mkEacl(r, in.E, id, true)
			m := mkAuth(r, in.A, vb, false, id, table, owner, stranger, sess)
			single("putEACL", table, m.invoc, m.verif, m.token)
		case "setAttr", "rmAttr":
			until := time.Now().Add(time.Hour)
			if in.Expired {
				until = time.Now().Add(-time.Hour)
			}
			attr, val := "CORS", "[]"
			if in.Op == "setAttr" {
				sd := sdkclient.GetSignedSetContainerAttributeParameters(sdkclient.SetContainerAttributeParameters{ID: id, Attribute: attr, Value: val, ValidUntil: until})
				m := mkAuth(r, in.A, vb, false, id, sd, owner, stranger, sess)
				single("setAttribute", idArg, attr, val, until.Unix(), m.invoc, m.verif, m.token)
			} else {
				sd := sdkclient.GetSignedRemoveContainerAttributeParameters(sdkclient.RemoveContainerAttributeParameters{ID: id, Attribute: attr, ValidUntil: until})
				m := mkAuth(r, in.A, vb, false, id, sd, owner, stranger, sess)
				single("removeAttribute", idArg, attr, until.Unix(), m.invoc, m.verif, m.token)
			}
		}
	}
	return nr, dbg
}

func c37run(casesPath, out string) {
	ctx := context.Background()
	privs, committee := committeeKeys(4)
	owner, stranger, sess := newParty("owner"), newParty("stranger"), newParty("session")
	req, err := irnode.NewRequester(ctx, fix.Key("sn1"), committee, quietLog())
	kit.Must(err)
	nodes := map[[2]bool]*c37Node{}
	w := kit.NewW(out)
	for _, cs := range kit.ReadNDJSON[c37Case](casesPath) {
		in := cs.In
		r := rand.New(rand.NewSource(cs.Seed))
		key := [2]bool{in.C.MetaOn, in.C.AllowEC}
		n := nodes[key]
		if n == nil {
			n = newC37Node(ctx, privs[0], committee, in.C.MetaOn, in.C.AllowEC)
			nodes[key] = n
		}
		nr, dbg := c37Request(ctx, req, n.C.Container, &in, r, owner, stranger, sess, func(id cid.ID, cnr container.Container, exists bool) {
			n.Mu.Lock()
			if exists {
				n.onCnrs[id] = cnr
			} else {
				delete(n.onCnrs, id)
			}
			n.Mu.Unlock()
		})
		n.Chain.TakeSent()
		n.FeedNotary(nr)
		o := classifyApproval(n.Chain.TakeSent(), nr, n.Key)
		w.Emit(kit.M{"in": canon(in), "out": kit.M{"approve": o.Approve}, "case": cs, "dbg": dbg})
	}
	w.Close()
}

func scparserBytes(it scparser.PushedItem) ([]byte, error) {
	return scparser.GetBytesFromInstr(it.Instruction)
}
