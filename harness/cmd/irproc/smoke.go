package main

import (
	"context"
	"fmt"

	"github.com/nspcc-dev/neo-go/pkg/crypto/keys"
	nmClient "github.com/nspcc-dev/neofs-node/pkg/morph/client/netmap"
	"go.uber.org/zap"
	"verifharness/internal/irproc/fix"
	"verifharness/internal/kit"
)

func smoke() {
	log, _ := zap.NewDevelopment()
	var committee keys.PublicKeys
	var privs []*keys.PrivateKey
	for i := 0; i < 4; i++ {
		k := fix.Key(fmt.Sprintf("alpha%d", i))
		privs = append(privs, k)
		committee = append(committee, k.PublicKey())
	}
	e, err := fix.NewEnv(context.Background(), privs[1], committee, 4, log)
	kit.Must(err)
	nm, err := nmClient.NewFromMorph(e.Cli, e.C.Netmap, nmClient.AsAlphabet())
	kit.Must(err)
	err = nm.NewEpoch(42)
	fmt.Println("NewEpoch err:", err)
	for _, s := range e.Chain.TakeSent() {
		fmt.Printf("sent kind=%s calls=%d parseErr=%q\n", s.Kind, len(s.Calls), s.ParseErr)
		for _, c := range s.Calls {
			fmt.Printf("  call %s.%s args=%d\n", c.Contract.StringLE(), c.Method, len(c.Args))
			if len(c.Args) > 0 {
				v, ok := fix.U64(c.Args[0])
				fmt.Println("  arg0", v, ok)
			}
		}
		for i, w := range s.Tx.Scripts {
			fmt.Printf("  witness %d inv=%d ver=%d\n", i, len(w.InvocationScript), len(w.VerificationScript))
		}
	}
	fmt.Println("requests:", e.Chain.Requests, "unknown:", e.Chain.Unknown)
}
