package main

// C24: objects that are valid or mutated in exactly one aspect are streamed with seeded random chunkings
// through the REAL put pipeline (putsvc.Service: Streamer -> validatingTarget -> [slicer] -> distributedTarget ->
// local ObjectStorage) and through the validation of the replication path (Service.ValidateAndStoreObjectLocally).
// The serving node is the only node of the container, its object storage is an in-memory recorder.
// Record = (path, mutation, declared size, chunking, ...) -> (stored?, stored pieces reassemble to the stream?).

import (
	"bytes"
	"context"
	"crypto/sha256"
	"fmt"
	"math/rand"
	"os"
	"runtime/debug"
	"slices"
	"strconv"

	"github.com/nspcc-dev/neofs-node/pkg/services/object/common"
	putsvc "github.com/nspcc-dev/neofs-node/pkg/services/object/put"
	svcutil "github.com/nspcc-dev/neofs-node/pkg/services/object/util"
	"github.com/nspcc-dev/neofs-sdk-go/checksum"
	cid "github.com/nspcc-dev/neofs-sdk-go/container/id"
	neofscrypto "github.com/nspcc-dev/neofs-sdk-go/crypto"
	"github.com/nspcc-dev/neofs-sdk-go/object"
	oid "github.com/nspcc-dev/neofs-sdk-go/object/id"
	"github.com/nspcc-dev/neofs-sdk-go/user"
	"github.com/nspcc-dev/neofs-sdk-go/version"
	"verifharness/internal/kit"
)

// valScenario: Path signed | replicate | trusted.
type valScenario struct {
	Path   string `json:"path"`
	Mut    string `json:"mut"`    // see mutations
	Len    int    `json:"len"`    // real payload length of the object
	Decl   int    `json:"decl"`   // payload length declared in the header (signed path: = Len unless mut=size*)
	Hdr    int    `json:"hdr"`    // payload bytes carried by the header message (signed path)
	Chunks []int  `json:"chunks"` // sizes of the payload chunks streamed after the header
	Max    int    `json:"max"`    // MaxObjectSize of the network (trusted path: slicing limit)
	Fail   int    `json:"fail"`   // trusted path: the Fail-th stored object (1-based) is refused by the storage, 0 = none
}

type valOut struct {
	Res      string `json:"res"`      // ok | error
	Stored   int    `json:"stored"`   // objects accepted by the local storage
	Same     bool   `json:"same"`     // stored object (or reassembled children) carries exactly the streamed payload
	IDok     bool   `json:"idok"`     // every stored object: ID = hash(header), payload matches declared length + checksum
	Sigok    bool   `json:"sigok"`    // every stored object: signature verifies
	Streamed int    `json:"streamed"` // bytes the client sent (header chunk + chunks)
	Err      string `json:"err"`
}

type valRecord struct {
	In  valScenario `json:"in"`
	Out valOut      `json:"out"`
}

// mutations of a client-signed object; "re-signed" ones keep ID and signature consistent with the mutated header
var sigMutations = []string{"none", "id", "idsigned", "sig", "sigkey", "checksum", "sizeLess", "sizeMore", "attrzero", "attrdup",
	"attrempty", "ecattr", "nocnr", "noowner", "expired", "parentid", "nochecksum", "tzchecksum",
	"streamShort", "streamLong", "toobig"}
var trustedMutations = []string{"none", "attrzero", "attrdup", "attrempty", "ecattr", "expired"}

type c24World struct {
	*c25World
	stored   []object.Object
	failAt   int
	putCount int
	maxObj   uint64
}

func (w *c24World) MaxObjectSize() uint64 { return w.maxObj }
func (w *c24World) Put(_ context.Context, obj *object.Object, _ []byte) error {
	w.putCount++
	if w.failAt > 0 && w.putCount == w.failAt {
		return fmt.Errorf("no space left on device")
	}
	var cp object.Object
	obj.CopyTo(&cp)
	w.stored = append(w.stored, cp)
	return nil
}

func newC24World() *c24World {
	base := &c25World{ids: newIdents(NN)}
	rand.New(rand.NewSource(kit.Seed())).Read(base.cnr[:])
	w := &c24World{c25World: base, maxObj: 1 << 20}
	ks := svcutil.NewKeyStorage(w.ids[1].key, nil, w)
	w.svc = putsvc.NewService(w, putsvc.VerifPutWrapNetwork(w), nil, w, w,
		putsvc.WithKeyStorage(ks),
		putsvc.WithObjectStorage(w),
		putsvc.WithMaxSizeSource(w),
		putsvc.WithContainerSource(w),
		putsvc.WithNetworkState(w),
		putsvc.WithSplitChainVerifier(w),
		putsvc.WithTombstoneVerifier(w),
		putsvc.WithPostPlacementReplicator(w),
	)
	// one REP rule with the serving node only
	w.sc = &putScenario{Typ: "REG", Trusted: true, Rep: []ruleJ{{Nodes: []int{1}, N: 1}}, Ec: []ecJ{}, Ok: []string{"y", "y", "y", "y", "y", "y", "y", "y"}}
	w.out = &putOut{}
	return w
}

func (w *c24World) build(sc valScenario, r *rand.Rand) (object.Object, []byte) {
	owner := user.NewAutoIDSigner(*w.ids[2].key) // the client
	if sc.Path == "trusted" {
		owner = user.NewAutoIDSigner(*w.ids[1].key)
	}
	payload := make([]byte, sc.Len)
	r.Read(payload)
	ver := version.Current()
	var obj object.Object
	obj.SetVersion(&ver)
	obj.SetContainerID(w.cnr)
	obj.SetOwner(owner.UserID())
	obj.SetCreationEpoch(10)
	attrs := []object.Attribute{object.NewAttribute("FileName", "f"+strconv.Itoa(r.Int()))}
	switch sc.Mut {
	case "attrzero":
		attrs = append(attrs, object.NewAttribute("k\x00ey", "v"))
	case "attrdup":
		attrs = append(attrs, object.NewAttribute("FileName", "again"))
	case "attrempty":
		attrs = append(attrs, object.NewAttribute("Empty", ""))
	case "ecattr":
		attrs = append(attrs, object.NewAttribute("__NEOFS__EC_RULE_IDX", "0"), object.NewAttribute("__NEOFS__EC_PART_IDX", "0"))
	case "expired":
		attrs = append(attrs, object.NewAttribute(object.AttributeExpirationEpoch, "3"))
	case "version":
		old := version.New(2, 0)
		obj.SetVersion(&old)
	case "nocnr":
		obj.SetContainerID(cid.ID{})
	case "noowner":
		obj.SetOwner(user.ID{})
	case "parentid":
		var par object.Object
		par.SetVersion(&ver)
		par.SetContainerID(w.cnr)
		par.SetOwner(owner.UserID())
		par.SetPayloadSize(uint64(sc.Len))
		kit.Must(par.SetVerificationFields(owner))
		var wrong oid.ID
		r.Read(wrong[:])
		par.SetID(wrong)
		obj.SetParent(&par)
		obj.SetParentID(wrong)
		obj.SetSplitID(object.NewSplitID())
	}
	obj.SetAttributes(attrs...)
	if sc.Path == "trusted" {
		obj.SetPayloadSize(uint64(sc.Decl))
		return obj, payload
	}
	obj.SetPayload(payload)
	obj.SetPayloadSize(uint64(sc.Decl))
	sum := sha256.Sum256(payload)
	switch sc.Mut {
	case "checksum":
		sum[0] ^= 0xff
		obj.SetPayloadChecksum(checksum.NewSHA256(sum))
	case "nochecksum":
	case "tzchecksum":
		obj.SetPayloadChecksum(checksum.New(checksum.TillichZemor, make([]byte, 64)))
	default:
		obj.SetPayloadChecksum(checksum.NewSHA256(sum))
	}
	signer := neofscrypto.Signer(owner)
	if sc.Mut == "sigkey" {
		signer = user.NewAutoIDSigner(*w.ids[3].key)
	}
	kit.Must(obj.SetIDWithSignature(signer))
	switch sc.Mut {
	case "id":
		id := obj.GetID()
		id[5] ^= 0x01
		obj.SetID(id)
	case "idsigned": // wrong ID, but correctly signed by the owner: only the ID check can catch it
		id := obj.GetID()
		id[7] ^= 0x80
		obj.SetID(id)
		kit.Must(obj.Sign(signer))
	case "sig":
		sig := obj.Signature()
		v := slices.Clone(sig.Value())
		v[len(v)/2] ^= 0x01
		ns := neofscrypto.NewSignature(sig.Scheme(), sig.PublicKey(), v)
		obj.SetSignature(&ns)
	}
	return obj, payload
}

func (w *c24World) run(sc valScenario, r *rand.Rand) (out valOut) {
	w.stored, w.putCount, w.failAt, w.maxObj = nil, 0, sc.Fail, uint64(sc.Max)
	obj, payload := w.build(sc, r)
	defer func() {
		if p := recover(); p != nil {
			out.Res, out.Err = "panic", fmt.Sprint(p)
			if os.Getenv("VERIF_DEBUG") != "" {
				fmt.Fprintf(os.Stderr, "%v\n%s\n", p, debug.Stack())
			}
		}
	}()
	var err error
	var sent []byte
	switch sc.Path {
	case "replicate":
		sent = payload
		err = w.svc.ValidateAndStoreObjectLocally(context.Background(), obj)
	default:
		err = func() error {
			st, err := w.svc.Put(context.Background())
			if err != nil {
				return err
			}
			hdr := obj.CutPayload()
			rest := payload
			if sc.Path == "signed" && sc.Hdr > 0 {
				hdr.SetPayload(payload[:min(sc.Hdr, len(payload))])
				rest = payload[min(sc.Hdr, len(payload)):]
				sent = append(sent, hdr.Payload()...)
			}
			ip := new(putsvc.PutInitPrm).WithObject(hdr).WithCommonPrm(svcutil.CommonPrmFromRequest(2, nil, common.RequestTokens{}))
			if err = st.Init(ip); err != nil {
				return fmt.Errorf("init: %w", err)
			}
			for _, n := range sc.Chunks {
				var chunk []byte
				if n <= len(rest) {
					chunk, rest = rest[:n], rest[n:]
				} else { // the client streams more than the object has: pad
					chunk = append(slices.Clone(rest), make([]byte, n-len(rest))...)
					rest = nil
				}
				sent = append(sent, chunk...)
				if err = st.SendChunk(new(putsvc.PutChunkPrm).WithChunk(chunk)); err != nil {
					return fmt.Errorf("chunk: %w", err)
				}
			}
			_, err = st.Close()
			return err
		}()
	}
	out.Streamed = len(sent)
	out.Res = "ok"
	if err != nil {
		out.Res, out.Err = "error", err.Error()
	}
	out.Stored = len(w.stored)
	out.IDok, out.Sigok = true, true
	var whole []byte
	for i := range w.stored {
		o := &w.stored[i]
		if o.VerifyID() != nil || uint64(len(o.Payload())) != o.PayloadSize() {
			out.IDok = false
		}
		if cs, ok := o.PayloadChecksum(); !ok || cs.Type() != checksum.SHA256 || !bytes.Equal(cs.Value(), sum256(o.Payload())) {
			out.IDok = false
		}
		if !o.VerifySignature() {
			out.Sigok = false
		}
		if o.Type() == object.TypeRegular {
			whole = append(whole, o.Payload()...)
		}
	}
	out.Same = out.Stored > 0 && bytes.Equal(whole, sent)
	return out
}

func sum256(b []byte) []byte { s := sha256.Sum256(b); return s[:] }

func chunking(total int, r *rand.Rand) []int {
	var res []int
	for total > 0 {
		n := 1 + r.Intn(total)
		if r.Intn(4) == 0 {
			n = min(total, 1+r.Intn(3))
		}
		res = append(res, n)
		total -= n
	}
	if r.Intn(5) == 0 {
		res = append(res, 0) // empty chunk
	}
	return res
}

func randomVal(r *rand.Rand) valScenario {
	sc := valScenario{Max: 1 << 16, Chunks: []int{}}
	switch r.Intn(5) {
	case 0:
		sc.Path = "replicate"
	case 1, 2:
		sc.Path = "trusted"
	default:
		sc.Path = "signed"
	}
	sc.Len = r.Intn(40)
	if r.Intn(6) == 0 {
		sc.Len = 0
	}
	sc.Decl = sc.Len
	if sc.Path == "trusted" {
		sc.Mut = trustedMutations[0]
		if r.Intn(4) == 0 {
			sc.Mut = trustedMutations[r.Intn(len(trustedMutations))]
		}
		// MaxObjectSize large enough for the link object of up to 6 children (40 bytes per child)
		sc.Max = 400 + r.Intn(300)
		switch r.Intn(4) {
		case 0:
			sc.Len = r.Intn(sc.Max + 1) // single object
		case 1:
			sc.Len = sc.Max * (1 + r.Intn(5)) // exact multiple
		default:
			sc.Len = r.Intn(6 * sc.Max)
		}
		sc.Decl = sc.Len
		if r.Intn(2) == 0 {
			sc.Decl = 0 // size unknown in advance
		}
		sc.Chunks = chunking(sc.Len, r)
		pieces := (sc.Len + sc.Max - 1) / sc.Max
		if pieces > 1 {
			pieces++ // link
		}
		if pieces == 0 {
			pieces = 1
		}
		if r.Intn(2) == 0 {
			sc.Fail = 1 + r.Intn(pieces)
		}
		return sc
	}
	sc.Mut = "none"
	if r.Intn(3) != 0 {
		sc.Mut = sigMutations[r.Intn(len(sigMutations))]
	}
	switch sc.Mut {
	case "sizeLess":
		if sc.Len == 0 {
			sc.Len = 5
		}
		sc.Decl = r.Intn(sc.Len)
	case "sizeMore":
		sc.Decl = sc.Len + 1 + r.Intn(5)
	case "toobig":
		sc.Max = max(sc.Len-1, 1)
		if sc.Len < 2 {
			sc.Len, sc.Decl = 9, 9
			sc.Max = 4
		}
	}
	if sc.Path == "signed" {
		total := sc.Len
		switch sc.Mut {
		case "streamShort":
			if total == 0 {
				sc.Mut = "none"
			} else {
				total = r.Intn(total)
			}
		case "streamLong":
			total += 1 + r.Intn(4)
		}
		sc.Chunks = chunking(total, r)
	} else if sc.Mut == "streamShort" || sc.Mut == "streamLong" {
		sc.Mut = "none"
	}
	return sc
}

// c24 rnd <n> <out>; c24 run <scenarios> <records>
func c24(args []string) {
	switch args[0] {
	case "rnd":
		n, _ := strconv.Atoi(args[1])
		out := kit.NewW(args[2])
		r := kit.Rand(24)
		for i := 0; i < n; i++ {
			out.Emit(randomVal(r))
		}
		out.Close()
	case "run":
		scs := kit.ReadNDJSON[valScenario](args[1])
		out := kit.NewW(args[2])
		w := newC24World()
		r := kit.Rand(2424)
		for _, sc := range scs {
			if sc.Chunks == nil {
				sc.Chunks = []int{}
			}
			out.Emit(valRecord{In: sc, Out: w.run(sc, r)})
		}
		out.Close()
	default:
		panic("usage")
	}
}
