package main

// C24: objects that are valid or mutated in exactly one aspect are streamed with seeded random chunkings
// through the REAL put pipeline (putsvc.Service: Streamer -> validatingTarget -> [slicer] -> distributedTarget ->
// local ObjectStorage) and through the validation of the replication path (Service.ValidateAndStoreObjectLocally).
// The serving node is the only node of the container, its object storage is an in-memory recorder.
// Record = (path, mutation, declared size, chunking, ...) -> (stored?, stored pieces reassemble to the stream?).

import (
	"bytes"
	"context"
	"crypto/sha256"
	"fmt"
	"math/rand"
	"os"
	"runtime/debug"
	"slices"
	"strconv"

	"github.com/nspcc-dev/neofs-node/pkg/services/object/common"
	putsvc "github.com/nspcc-dev/neofs-node/pkg/services/object/put"
	svcutil "github.com/nspcc-dev/neofs-node/pkg/services/object/util"
	"github.com/google/uuid"
	"github.com/nspcc-dev/neofs-sdk-go/checksum"
	"github.com/nspcc-dev/neofs-sdk-go/container"
	cid "github.com/nspcc-dev/neofs-sdk-go/container/id"
	neofscrypto "github.com/nspcc-dev/neofs-sdk-go/crypto"
	neofsecdsa "github.com/nspcc-dev/neofs-sdk-go/crypto/ecdsa"
	"github.com/nspcc-dev/neofs-sdk-go/netmap"
	"github.com/nspcc-dev/neofs-sdk-go/object"
	oid "github.com/nspcc-dev/neofs-sdk-go/object/id"
	protoobject "github.com/nspcc-dev/neofs-sdk-go/proto/object"
	"github.com/nspcc-dev/neofs-sdk-go/session"
	"github.com/nspcc-dev/neofs-sdk-go/user"
	"github.com/nspcc-dev/neofs-sdk-go/version"
	"google.golang.org/protobuf/proto"
	"verifharness/internal/kit"
)

// valScenario: Path signed | replicate | trusted | ecput | ecrepl (EC part through Put / through the replication validation).
type valScenario struct {
	Path   string `json:"path"`
	Mut    string `json:"mut"`    // see mutations
	Len    int    `json:"len"`    // real payload length of the object
	Decl   int    `json:"decl"`   // payload length declared in the header (signed path: = Len unless mut=size*)
	Hdr    int    `json:"hdr"`    // payload bytes carried by the header message (signed path)
	Chunks []int  `json:"chunks"` // sizes of the payload chunks streamed after the header
	Max    int    `json:"max"`    // MaxObjectSize of the network (trusted path: slicing limit)
	Fail   int    `json:"fail"`   // trusted path: the Fail-th stored object (1-based) is refused by the storage, 0 = none
	Sess   string `json:"sess"`   // "" | "A" | "B": the object carries that V1 session token of its sequence
	Seq    int    `json:"seq"`    // sequence number (steps of one sequence share tokens and run back to back), 0 = single
	Step   int    `json:"step"`   // position in the sequence
	Part   int    `json:"part"`   // ecput / ecrepl: which captured EC part is used
}

type valOut struct {
	Res      string `json:"res"`      // ok | error
	Stored   int    `json:"stored"`   // objects accepted by the local storage
	Same     bool   `json:"same"`     // stored object (or reassembled children) carries exactly the streamed payload
	IDok     bool   `json:"idok"`     // every stored object: ID = hash(header), payload matches declared length + checksum
	Sigok    bool   `json:"sigok"`    // every stored object: signature verifies
	Streamed int    `json:"streamed"` // bytes the client sent (header chunk + chunks)
	Err      string `json:"err"`
}

type valRecord struct {
	In  valScenario `json:"in"`
	Out valOut      `json:"out"`
}

// mutations of a client-signed object; "re-signed" ones keep ID and signature consistent with the mutated header
var sigMutations = []string{"none", "id", "idsigned", "sig", "sigkey", "checksum", "sizeLess", "sizeMore", "attrzero", "attrdup",
	"attrempty", "ecattr", "nocnr", "noowner", "expired", "parentid", "nochecksum", "tzchecksum",
	"streamShort", "streamLong", "toobig"}
// mutations of an object created within a session (token of the owner, object signed by the session key)
var sessMutations = []string{"none", "sessForeign", "sessOwner", "sessTokSig", "sessOtherTok", "sig", "id", "checksum", "attrdup"}

// mutations of an EC part object (unsigned, bound to the signed parent header)
var ecMutations = []string{"none", "ecid", "ecpartidx", "ecruleidx", "ecnoparent", "ecchecksum", "ecparthash", "ecsigned",
	"ecparentsig", "ecparentid", "ecsize"}
var trustedMutations = []string{"none", "attrzero", "attrdup", "attrempty", "ecattr", "expired"}

type c24World struct {
	*c25World
	stored   []object.Object
	failAt   int
	putCount int
	maxObj   uint64

	ecMode  bool            // the container has an EC 2/1 rule over nodes 1..3 (for EC part scenarios)
	remote  []object.Object // objects sent to remote nodes (capture of freshly made EC parts)
	ecParts []object.Object // valid EC parts of one object, made by the real pipeline
	tokSeq  int
	tokens  map[string]*session.Object
}

// container source: the policy must carry the EC rule for the format validator
func (w *c24World) Get(cid.ID) (container.Container, error) {
	var c container.Container
	var p netmap.PlacementPolicy
	if w.ecMode {
		p.SetECRules([]netmap.ECRule{netmap.NewECRule(2, 1)})
	}
	c.SetPlacementPolicy(p)
	return c, nil
}

func (w *c24World) SendReplicationRequestToNode(_ context.Context, reqBin []byte, _ netmap.NodeInfo) ([]byte, error) {
	var req protoobject.ReplicateRequest
	if err := proto.Unmarshal(reqBin, &req); err != nil {
		return nil, err
	}
	var obj object.Object
	if err := obj.FromProtoMessage(req.Object); err != nil {
		return nil, err
	}
	w.remote = append(w.remote, obj)
	return nil, nil
}

func (w *c24World) setEC(on bool) {
	w.ecMode = on
	if on {
		w.sc = &putScenario{Typ: "REG", Trusted: true, Rep: []ruleJ{}, Ec: []ecJ{{Nodes: []int{1, 2, 3}, D: 2, P: 1}}, Ok: w.sc.Ok}
	} else {
		w.sc = &putScenario{Typ: "REG", Trusted: true, Rep: []ruleJ{{Nodes: []int{1}, N: 1}}, Ec: []ecJ{}, Ok: w.sc.Ok}
	}
}

// makeECParts lets the real pipeline split one object into EC parts and keeps them.
func (w *c24World) makeECParts(r *rand.Rand) {
	w.setEC(true)
	defer w.setEC(false)
	out := w.run(valScenario{Path: "trusted", Mut: "none", Len: 50, Decl: 50, Chunks: []int{20, 30}, Max: 1 << 20}, r)
	if out.Res != "ok" {
		panic("cannot make EC parts: " + out.Err)
	}
	w.ecParts = nil
	for _, o := range append(slices.Clone(w.stored), w.remote...) {
		if len(o.Attributes()) > 0 && o.Attributes()[0].Key() == ecRuleAttr {
			w.ecParts = append(w.ecParts, o)
		}
	}
	if len(w.ecParts) != 3 {
		panic(fmt.Sprintf("expected 3 EC parts, got %d", len(w.ecParts)))
	}
}

// newTokens issues the session tokens of one sequence: issuer = the client (node 2 key), session keys = keys 4 / 5.
func (w *c24World) newTokens() {
	w.tokens = map[string]*session.Object{}
	issuer := user.NewAutoIDSigner(*w.ids[2].key)
	for name, k := range map[string]int{"A": 4, "B": 5} {
		var tok session.Object
		tok.SetID(uuid.New())
		tok.SetExp(1000)
		tok.SetNbf(1)
		tok.SetIat(1)
		tok.BindContainer(w.cnr)
		tok.ForVerb(session.VerbObjectPut)
		tok.SetAuthKey((*neofsecdsa.PublicKey)(&w.ids[k].key.PublicKey))
		kit.Must(tok.Sign(issuer))
		w.tokens[name] = &tok
	}
}

func (w *c24World) MaxObjectSize() uint64 { return w.maxObj }
func (w *c24World) Put(_ context.Context, obj *object.Object, _ []byte) error {
	w.putCount++
	if w.failAt > 0 && w.putCount == w.failAt {
		return fmt.Errorf("no space left on device")
	}
	var cp object.Object
	obj.CopyTo(&cp)
	w.stored = append(w.stored, cp)
	return nil
}

func newC24World() *c24World {
	base := &c25World{ids: newIdents(NN)}
	rand.New(rand.NewSource(kit.Seed())).Read(base.cnr[:])
	w := &c24World{c25World: base, maxObj: 1 << 20}
	ks := svcutil.NewKeyStorage(w.ids[1].key, nil, w)
	w.svc = putsvc.NewService(w, putsvc.VerifPutWrapNetwork(w), nil, w, w,
		putsvc.WithKeyStorage(ks),
		putsvc.WithObjectStorage(w),
		putsvc.WithMaxSizeSource(w),
		putsvc.WithContainerSource(w),
		putsvc.WithNetworkState(w),
		putsvc.WithSplitChainVerifier(w),
		putsvc.WithTombstoneVerifier(w),
		putsvc.WithPostPlacementReplicator(w),
		putsvc.VerifWithObjectSessionsCache(64),
	)
	// one REP rule with the serving node only
	w.sc = &putScenario{Typ: "REG", Trusted: true, Rep: []ruleJ{{Nodes: []int{1}, N: 1}}, Ec: []ecJ{}, Ok: []string{"y", "y", "y", "y", "y", "y", "y", "y"}}
	w.out = &putOut{}
	return w
}

func (w *c24World) build(sc valScenario, r *rand.Rand) (object.Object, []byte) {
	owner := user.NewAutoIDSigner(*w.ids[2].key) // the client
	if sc.Path == "trusted" {
		owner = user.NewAutoIDSigner(*w.ids[1].key)
	}
	payload := make([]byte, sc.Len)
	r.Read(payload)
	ver := version.Current()
	var obj object.Object
	obj.SetVersion(&ver)
	obj.SetContainerID(w.cnr)
	obj.SetOwner(owner.UserID())
	obj.SetCreationEpoch(10)
	attrs := []object.Attribute{object.NewAttribute("FileName", "f"+strconv.Itoa(r.Int()))}
	switch sc.Mut {
	case "attrzero":
		attrs = append(attrs, object.NewAttribute("k\x00ey", "v"))
	case "attrdup":
		attrs = append(attrs, object.NewAttribute("FileName", "again"))
	case "attrempty":
		attrs = append(attrs, object.NewAttribute("Empty", ""))
	case "ecattr":
		attrs = append(attrs, object.NewAttribute("__NEOFS__EC_RULE_IDX", "0"), object.NewAttribute("__NEOFS__EC_PART_IDX", "0"))
	case "expired":
		attrs = append(attrs, object.NewAttribute(object.AttributeExpirationEpoch, "3"))
	case "version":
		old := version.New(2, 0)
		obj.SetVersion(&old)
	case "nocnr":
		obj.SetContainerID(cid.ID{})
	case "noowner":
		obj.SetOwner(user.ID{})
	case "parentid":
		var par object.Object
		par.SetVersion(&ver)
		par.SetContainerID(w.cnr)
		par.SetOwner(owner.UserID())
		par.SetPayloadSize(uint64(sc.Len))
		kit.Must(par.SetVerificationFields(owner))
		var wrong oid.ID
		r.Read(wrong[:])
		par.SetID(wrong)
		obj.SetParent(&par)
		obj.SetParentID(wrong)
		obj.SetSplitID(object.NewSplitID())
	}
	obj.SetAttributes(attrs...)
	sessKey := 0
	if sc.Sess != "" && sc.Path != "trusted" {
		tok := *w.tokens[sc.Sess]
		sessKey = map[string]int{"A": 4, "B": 5}[sc.Sess]
		switch sc.Mut {
		case "sessForeign": // signed by a key the token was not issued for
			sessKey = 3
		case "sessOwner": // the object claims an owner that did not issue the token
			obj.SetOwner(user.NewFromECDSAPublicKey(w.ids[3].key.PublicKey))
		case "sessTokSig": // token body changed after it was signed by the issuer
			tok.SetExp(tok.Exp() + 1)
		case "sessOtherTok": // token of the same issuer, but for the other session key
			other := "B"
			if sc.Sess == "B" {
				other = "A"
			}
			tok = *w.tokens[other]
		}
		obj.SetSessionToken(&tok)
	}
	if sc.Path == "trusted" {
		obj.SetPayloadSize(uint64(sc.Decl))
		return obj, payload
	}
	obj.SetPayload(payload)
	obj.SetPayloadSize(uint64(sc.Decl))
	sum := sha256.Sum256(payload)
	switch sc.Mut {
	case "checksum":
		sum[0] ^= 0xff
		obj.SetPayloadChecksum(checksum.NewSHA256(sum))
	case "nochecksum":
	case "tzchecksum":
		obj.SetPayloadChecksum(checksum.New(checksum.TillichZemor, make([]byte, 64)))
	default:
		obj.SetPayloadChecksum(checksum.NewSHA256(sum))
	}
	signer := neofscrypto.Signer(owner)
	if sc.Mut == "sigkey" {
		signer = user.NewAutoIDSigner(*w.ids[3].key)
	}
	if sessKey != 0 {
		signer = user.NewAutoIDSigner(*w.ids[sessKey].key)
	}
	kit.Must(obj.SetIDWithSignature(signer))
	switch sc.Mut {
	case "id":
		id := obj.GetID()
		id[5] ^= 0x01
		obj.SetID(id)
	case "idsigned": // wrong ID, but correctly signed by the owner: only the ID check can catch it
		id := obj.GetID()
		id[7] ^= 0x80
		obj.SetID(id)
		kit.Must(obj.Sign(signer))
	case "sig":
		sig := obj.Signature()
		v := slices.Clone(sig.Value())
		v[len(v)/2] ^= 0x01
		ns := neofscrypto.NewSignature(sig.Scheme(), sig.PublicKey(), v)
		obj.SetSignature(&ns)
	}
	return obj, payload
}

// buildECPart takes a valid EC part made by the real pipeline and spoils exactly one aspect. IDs are
// recomputed after header changes so that only the named aspect is invalid.
func (w *c24World) buildECPart(sc valScenario, r *rand.Rand) (object.Object, []byte) {
	var obj object.Object
	w.ecParts[sc.Part%len(w.ecParts)].CopyTo(&obj)
	reid := func() { kit.Must(obj.CalculateAndSetID()) }
	setAttr := func(key, val string) {
		as := obj.Attributes()
		for i := range as {
			if as[i].Key() == key {
				as[i].SetValue(val)
			}
		}
		obj.SetAttributes(as...)
	}
	switch sc.Mut {
	case "ecid":
		id := obj.GetID()
		id[3] ^= 0x10
		obj.SetID(id)
	case "ecpartidx":
		setAttr(ecPartAttr, "7")
		reid()
	case "ecruleidx":
		setAttr(ecRuleAttr, "3")
		reid()
	case "ecnoparent":
		obj.ResetRelations()
		reid()
	case "ecchecksum": // payload does not match the (unchanged) header
		pl := slices.Clone(obj.Payload())
		pl[0] ^= 0xff
		obj.SetPayload(pl)
	case "ecparthash": // self-consistent part whose checksum is not the one listed in the parent
		pl := slices.Clone(obj.Payload())
		pl[0] ^= 0xff
		obj.SetPayload(pl)
		obj.CalculateAndSetPayloadChecksum()
		reid()
	case "ecsigned":
		kit.Must(obj.Sign(user.NewAutoIDSigner(*w.ids[1].key)))
	case "ecparentsig":
		par := *obj.Parent()
		sig := par.Signature()
		v := slices.Clone(sig.Value())
		v[len(v)/2] ^= 0x01
		ns := neofscrypto.NewSignature(sig.Scheme(), sig.PublicKey(), v)
		par.SetSignature(&ns)
		obj.SetParent(&par)
		reid()
	case "ecparentid":
		par := *obj.Parent()
		id := par.GetID()
		id[9] ^= 0x04
		par.SetID(id)
		obj.SetParent(&par)
		obj.SetParentID(id)
		reid()
	case "ecsize": // one byte more than the rule allows for this parent
		obj.SetPayload(append(slices.Clone(obj.Payload()), 0))
		obj.SetPayloadSize(uint64(len(obj.Payload())))
		obj.CalculateAndSetPayloadChecksum()
		reid()
	}
	return obj, obj.Payload()
}

func (w *c24World) run(sc valScenario, r *rand.Rand) (out valOut) {
	w.stored, w.remote, w.putCount, w.failAt, w.maxObj = nil, nil, 0, sc.Fail, uint64(sc.Max)
	if sc.Seq > 0 && sc.Step == 0 {
		w.newTokens()
	}
	var obj object.Object
	var payload []byte
	if sc.Path == "ecput" || sc.Path == "ecrepl" {
		w.setEC(true)
		defer w.setEC(false)
		obj, payload = w.buildECPart(sc, r)
	} else {
		obj, payload = w.build(sc, r)
	}
	defer func() {
		if p := recover(); p != nil {
			out.Res, out.Err = "panic", fmt.Sprint(p)
			if os.Getenv("VERIF_DEBUG") != "" {
				fmt.Fprintf(os.Stderr, "%v\n%s\n", p, debug.Stack())
			}
		}
	}()
	var err error
	var sent []byte
	switch sc.Path {
	case "replicate", "ecrepl":
		sent = payload
		err = w.svc.ValidateAndStoreObjectLocally(context.Background(), obj)
	default:
		err = func() error {
			st, err := w.svc.Put(context.Background())
			if err != nil {
				return err
			}
			hdr := obj.CutPayload()
			rest := payload
			if sc.Path != "trusted" && sc.Hdr > 0 {
				hdr.SetPayload(payload[:min(sc.Hdr, len(payload))])
				rest = payload[min(sc.Hdr, len(payload)):]
				sent = append(sent, hdr.Payload()...)
			}
			ip := new(putsvc.PutInitPrm).WithObject(hdr).WithCommonPrm(svcutil.CommonPrmFromRequest(2, nil, common.RequestTokens{}))
			if err = st.Init(ip); err != nil {
				return fmt.Errorf("init: %w", err)
			}
			for _, n := range sc.Chunks {
				var chunk []byte
				if n <= len(rest) {
					chunk, rest = rest[:n], rest[n:]
				} else { // the client streams more than the object has: pad
					chunk = append(slices.Clone(rest), make([]byte, n-len(rest))...)
					rest = nil
				}
				sent = append(sent, chunk...)
				if err = st.SendChunk(new(putsvc.PutChunkPrm).WithChunk(chunk)); err != nil {
					return fmt.Errorf("chunk: %w", err)
				}
			}
			_, err = st.Close()
			return err
		}()
	}
	out.Streamed = len(sent)
	out.Res = "ok"
	if err != nil {
		out.Res, out.Err = "error", err.Error()
	}
	if sc.Path == "ecput" { // the part goes to the first accepting node of its sequence, local or remote
		w.stored = append(w.stored, w.remote...)
	}
	out.Stored = len(w.stored)
	out.IDok, out.Sigok = true, true
	var whole []byte
	for i := range w.stored {
		o := &w.stored[i]
		if o.VerifyID() != nil || uint64(len(o.Payload())) != o.PayloadSize() {
			out.IDok = false
		}
		if cs, ok := o.PayloadChecksum(); !ok || cs.Type() != checksum.SHA256 || !bytes.Equal(cs.Value(), sum256(o.Payload())) {
			out.IDok = false
		}
		if len(o.Attributes()) > 0 && o.Attributes()[0].Key() == ecRuleAttr {
			// EC parts are unsigned and bound to the signed parent header
			if o.Signature() != nil || o.Parent() == nil || !o.Parent().VerifySignature() || o.Parent().VerifyID() != nil {
				out.Sigok = false
			}
		} else if !o.VerifySignature() {
			out.Sigok = false
		}
		if o.Type() == object.TypeRegular {
			whole = append(whole, o.Payload()...)
		}
	}
	out.Same = out.Stored > 0 && bytes.Equal(whole, sent)
	return out
}

func sum256(b []byte) []byte { s := sha256.Sum256(b); return s[:] }

func chunking(total int, r *rand.Rand) []int {
	var res []int
	for total > 0 {
		n := 1 + r.Intn(total)
		if r.Intn(4) == 0 {
			n = min(total, 1+r.Intn(3))
		}
		res = append(res, n)
		total -= n
	}
	if r.Intn(5) == 0 {
		res = append(res, 0) // empty chunk
	}
	return res
}

func randomVal(r *rand.Rand) valScenario {
	sc := valScenario{Max: 1 << 16, Chunks: []int{}}
	switch r.Intn(5) {
	case 0:
		sc.Path = "replicate"
	case 1, 2:
		sc.Path = "trusted"
	default:
		sc.Path = "signed"
	}
	sc.Len = r.Intn(40)
	if r.Intn(6) == 0 {
		sc.Len = 0
	}
	sc.Decl = sc.Len
	if sc.Path == "trusted" {
		sc.Mut = trustedMutations[0]
		if r.Intn(4) == 0 {
			sc.Mut = trustedMutations[r.Intn(len(trustedMutations))]
		}
		// MaxObjectSize large enough for the link object of up to 6 children (40 bytes per child)
		sc.Max = 400 + r.Intn(300)
		switch r.Intn(4) {
		case 0:
			sc.Len = r.Intn(sc.Max + 1) // single object
		case 1:
			sc.Len = sc.Max * (1 + r.Intn(5)) // exact multiple
		default:
			sc.Len = r.Intn(6 * sc.Max)
		}
		sc.Decl = sc.Len
		if r.Intn(2) == 0 {
			sc.Decl = 0 // size unknown in advance
		}
		sc.Chunks = chunking(sc.Len, r)
		pieces := (sc.Len + sc.Max - 1) / sc.Max
		if pieces > 1 {
			pieces++ // link
		}
		if pieces == 0 {
			pieces = 1
		}
		if r.Intn(2) == 0 {
			sc.Fail = 1 + r.Intn(pieces)
		}
		return sc
	}
	sc.Mut = "none"
	if r.Intn(3) != 0 {
		sc.Mut = sigMutations[r.Intn(len(sigMutations))]
	}
	switch sc.Mut {
	case "sizeLess":
		if sc.Len == 0 {
			sc.Len = 5
		}
		sc.Decl = r.Intn(sc.Len)
	case "sizeMore":
		sc.Decl = sc.Len + 1 + r.Intn(5)
	case "toobig":
		sc.Max = max(sc.Len-1, 1)
		if sc.Len < 2 {
			sc.Len, sc.Decl = 9, 9
			sc.Max = 4
		}
	}
	if sc.Path == "signed" {
		total := sc.Len
		switch sc.Mut {
		case "streamShort":
			if total == 0 {
				sc.Mut = "none"
			} else {
				total = r.Intn(total)
			}
		case "streamLong":
			total += 1 + r.Intn(4)
		}
		sc.Chunks = chunking(total, r)
	} else if sc.Mut == "streamShort" || sc.Mut == "streamLong" {
		sc.Mut = "none"
	}
	return sc
}

// sessionSequence: 2-4 objects through the one service instance sharing the tokens of the sequence. The first
// step is usually the legitimate object (which primes any per-token cache); later steps reuse the token with a
// foreign signer / another owner / a changed token / the other token, or are legitimate again.
func sessionSequence(seq int, r *rand.Rand) []valScenario {
	n := 2 + r.Intn(3)
	res := make([]valScenario, n)
	for i := range res {
		sc := valScenario{Path: "signed", Mut: "none", Max: 1 << 16, Sess: "A", Seq: seq, Step: i}
		if r.Intn(3) == 0 {
			sc.Path = "replicate"
		}
		if r.Intn(4) == 0 {
			sc.Sess = "B"
		}
		sc.Len = r.Intn(30)
		sc.Decl = sc.Len
		if i > 0 || r.Intn(4) == 0 {
			if r.Intn(4) != 0 {
				sc.Mut = sessMutations[r.Intn(len(sessMutations))]
			}
		}
		sc.Chunks = []int{}
		if sc.Path == "signed" {
			sc.Chunks = chunking(sc.Len, r)
		}
		res[i] = sc
	}
	return res
}

func ecPartScenario(r *rand.Rand) valScenario {
	sc := valScenario{Path: "ecrepl", Mut: "none", Max: 1 << 16, Part: r.Intn(3), Chunks: []int{}}
	if r.Intn(2) == 0 {
		sc.Path = "ecput"
	}
	if r.Intn(4) != 0 {
		sc.Mut = ecMutations[r.Intn(len(ecMutations))]
	}
	sc.Len = 25 // parts of the 50-byte object under EC 2/1
	if sc.Mut == "ecsize" {
		sc.Len = 26
	}
	sc.Decl = sc.Len
	if sc.Path == "ecput" {
		sc.Chunks = chunking(sc.Len, r)
	}
	return sc
}

// c24 rnd <n> <out>; c24 run <scenarios> <records>
func c24(args []string) {
	switch args[0] {
	case "rnd":
		n, _ := strconv.Atoi(args[1])
		out := kit.NewW(args[2])
		r := kit.Rand(24)
		seq := 0
		for i := 0; i < n; {
			switch r.Intn(10) {
			case 0: // every 10th draw is a session sequence of 2-4 objects
				seq++
				for _, sc := range sessionSequence(seq, r) {
					out.Emit(sc)
					i++
				}
			case 2:
				out.Emit(ecPartScenario(r))
				i++
			default:
				out.Emit(randomVal(r))
				i++
			}
		}
		out.Close()
	case "run":
		scs := kit.ReadNDJSON[valScenario](args[1])
		out := kit.NewW(args[2])
		w := newC24World()
		r := kit.Rand(2424)
		w.makeECParts(r)
		for _, sc := range scs {
			if sc.Chunks == nil {
				sc.Chunks = []int{}
			}
			out.Emit(valRecord{In: sc, Out: w.run(sc, r)})
		}
		out.Close()
	default:
		panic("usage")
	}
}
