package main

// C26: one policy check (Policer.processObject) of one locally stored object per scenario, executed by
// the REAL policer + REAL headsvc.RemoteHeader + REAL replicator.Replicator/putsvc.RemoteSender. Only the
// edges are fakes: network map, policer's local storage (recorder) and the API connections to the
// remote nodes (answers chosen by the scenario). See spec/Policer.tla for the scenario fields.

import (
	"context"
	"errors"
	"fmt"
	"io"
	"math/rand"
	"os"
	"slices"
	"sort"
	"strconv"
	"time"

	objectcore "github.com/nspcc-dev/neofs-node/pkg/core/object"
	"github.com/nspcc-dev/neofs-node/pkg/local_object_storage/engine"
	headsvc "github.com/nspcc-dev/neofs-node/pkg/services/object/head"
	putsvc "github.com/nspcc-dev/neofs-node/pkg/services/object/put"
	svcutil "github.com/nspcc-dev/neofs-node/pkg/services/object/util"
	"github.com/nspcc-dev/neofs-node/pkg/services/policer"
	"github.com/nspcc-dev/neofs-node/pkg/services/replicator"
	apistatus "github.com/nspcc-dev/neofs-sdk-go/client/status"
	cid "github.com/nspcc-dev/neofs-sdk-go/container/id"
	neofsecdsa "github.com/nspcc-dev/neofs-sdk-go/crypto/ecdsa"
	"github.com/nspcc-dev/neofs-sdk-go/netmap"
	"github.com/nspcc-dev/neofs-sdk-go/object"
	oid "github.com/nspcc-dev/neofs-sdk-go/object/id"
	"github.com/nspcc-dev/neofs-sdk-go/user"
	"go.uber.org/zap"
	"verifharness/internal/kit"
)

// NN is the size of the node universe of a scenario (= constant Nodes = 1..NN of TracePolicer.cfg).
const NN = 8

type ruleJ struct {
	Nodes []int `json:"nodes"`
	N     int   `json:"n"`
}
type ecJ struct {
	Nodes []int `json:"nodes"`
	D     int   `json:"d"`
	P     int   `json:"p"`
}
type partJ struct {
	Rule int `json:"rule"`
	Idx  int `json:"idx"`
}

// scenario is the JSON form of the spec's scenario record s (node 1 is the local node).
type scenario struct {
	Typ      string   `json:"typ"`
	Rep      []ruleJ  `json:"rep"`
	Ec       []ecJ    `json:"ec"`
	Attr     string   `json:"attr"` // none | ok | bad
	Part     partJ    `json:"part"`
	Neterr   string   `json:"neterr"`   // none | notfound | other
	InNetmap string   `json:"inNetmap"` // y | n
	Shards   int      `json:"shards"`
	Nm       []string `json:"nm"`  // per node: y | n
	Ans      []string `json:"ans"` // per node: has | nfOk | nfFail | maint | err
}

type taskJ struct {
	Q     int   `json:"q"`
	Nodes []int `json:"nodes"`
	Ok    []int `json:"ok"`
}

type outJ struct {
	Del    string  `json:"del"` // none | redundant | default | multi
	Dedup  bool    `json:"dedup"`
	Tasks  []taskJ `json:"tasks"`
	Headok []int   `json:"headok"`
	Stored []int   `json:"stored"`
	Heads  []int   `json:"heads"` // every HEAD of the object itself, in call order (diagnostics only)
}

type record struct {
	In  scenario `json:"in"`
	Out outJ     `json:"out"`
}

var answers = []string{"has", "nfOk", "nfFail", "maint", "err"}
var types = []string{"REG", "TOMB", "LOCK", "LINK"}

// ------------------------------------------------------------------------------------------------

type c26World struct {
	ids  []*ident
	eng  *engine.StorageEngine
	dir  string
	pol  *policer.Policer
	addr oid.Address // the stored object all scenarios talk about
	par  oid.ID      // pretended EC parent
	hdr  object.Object

	sc  *scenario
	out *outJ
	cur *taskJ
}

func (w *c26World) local() *ident { return w.ids[1] }

// policer.VerifNetwork
func (w *c26World) IsLocalNodeInNetmap() bool { return w.sc.InNetmap == "y" }
func (w *c26World) IsLocalNodePublicKey(k []byte) bool {
	return string(k) == string(w.local().pub)
}
func (w *c26World) nodeList(ids []int) []netmap.NodeInfo {
	res := make([]netmap.NodeInfo, len(ids))
	for i, id := range ids {
		ni := w.ids[id].info // value copy
		if w.sc.Nm[id-1] == "y" {
			ni.SetMaintenance()
		}
		res[i] = ni
	}
	return res
}
func (w *c26World) GetNodesForObject(a oid.Address) ([][]netmap.NodeInfo, []uint, []policer.VerifECRule, error) {
	switch w.sc.Neterr {
	case "notfound":
		return nil, nil, nil, fmt.Errorf("read container: %w", apistatus.ErrContainerNotFound)
	case "other":
		return nil, nil, nil, errors.New("netmap is not available")
	}
	var lists [][]netmap.NodeInfo
	rep := make([]uint, 0, len(w.sc.Rep))
	for _, r := range w.sc.Rep {
		lists = append(lists, w.nodeList(r.Nodes))
		rep = append(rep, uint(r.N))
	}
	var ec []policer.VerifECRule
	for _, r := range w.sc.Ec {
		lists = append(lists, w.nodeList(r.Nodes))
		ec = append(ec, policer.VerifECRule{DataPartNum: uint8(r.D), ParityPartNum: uint8(r.P)})
	}
	return lists, rep, ec, nil
}

// policer.VerifStorage (recorder)
func (w *c26World) ListWithCursor(context.Context, uint32, *engine.Cursor, ...string) ([]objectcore.AddressWithAttributes, *engine.Cursor, error) {
	return nil, nil, engine.ErrEndOfListing
}
func (w *c26World) Delete(_ context.Context, a oid.Address, m engine.GarbageMark) error {
	if a != w.addr {
		panic("delete of a foreign address")
	}
	v := "default"
	if m == engine.GarbageMarkRedundant {
		v = "redundant"
	}
	if w.out.Del != "none" {
		v = "multi"
	}
	w.out.Del = v
	return nil
}
func (w *c26World) DeleteRedundantCopies(_ context.Context, a oid.Address, _ []string) error {
	w.out.Dedup = true
	return nil
}
func (w *c26World) Put(context.Context, *object.Object, []byte) error { return errors.New("read-only") }
func (w *c26World) Head(context.Context, oid.Address, bool) (*object.Object, error) {
	return nil, apistatus.ErrObjectAlreadyRemoved
}

// The part-recreation branch (checkECParts) belongs to another property: every request about OTHER parts
// of the parent answers ALREADY_REMOVED, which makes that branch return at once.
func (w *c26World) HeadECPart(context.Context, cid.ID, oid.ID, int, int) (object.Object, error) {
	return object.Object{}, apistatus.ErrObjectAlreadyRemoved
}
func (w *c26World) GetRange(context.Context, oid.Address, uint64, uint64) ([]byte, error) {
	return nil, apistatus.ErrObjectAlreadyRemoved
}

// policer.VerifReplicator: records the task, then runs the REAL replicator.
type recReplicator struct {
	w    *c26World
	real *replicator.Replicator
}

func (r recReplicator) HandleTask(ctx context.Context, t replicator.Task, res replicator.TaskResult) {
	w := r.w
	tj := taskJ{Q: int(t.VerifCopiesNumber()), Nodes: []int{}, Ok: []int{}}
	for _, n := range t.Nodes() {
		tj.Nodes = append(tj.Nodes, idOf(w.ids, n.PublicKey()))
	}
	w.out.Tasks = append(w.out.Tasks, tj)
	w.cur = &w.out.Tasks[len(w.out.Tasks)-1]
	r.real.HandleTask(ctx, t, res)
	w.cur = nil
}

// remote node behaviour
func (w *c26World) head(node int, _ cid.ID, id oid.ID) (*object.Object, error) {
	if id != w.addr.Object() {
		return nil, apistatus.ErrObjectAlreadyRemoved // checkECParts, see HeadECPart
	}
	w.out.Heads = append(w.out.Heads, node)
	switch w.sc.Ans[node-1] {
	case "has":
		if !slices.Contains(w.out.Headok, node) {
			w.out.Headok = append(w.out.Headok, node)
		}
		h := w.hdr
		return &h, nil
	case "nfOk", "nfFail":
		return nil, apistatus.ErrObjectNotFound
	case "maint":
		return nil, apistatus.ErrNodeUnderMaintenance
	default:
		return nil, errors.New("dial tcp: connection refused")
	}
}

func (w *c26World) replicate(node int, id oid.ID, src io.ReadSeeker) error {
	if id != w.addr.Object() {
		return errors.New("unexpected object")
	}
	switch w.sc.Ans[node-1] {
	case "nfOk", "has":
		if !slices.Contains(w.out.Stored, node) {
			w.out.Stored = append(w.out.Stored, node)
		}
		if w.cur != nil {
			w.cur.Ok = append(w.cur.Ok, node)
		}
		return nil
	case "maint":
		return apistatus.ErrNodeUnderMaintenance
	default:
		return errors.New("write: broken pipe")
	}
}

func newC26World() *c26World {
	w := &c26World{ids: newIdents(NN), dir: tmpDir("putpol-c26-")}
	w.eng = newEngine(w.dir, 1)

	// the object every scenario talks about (the replicator reads it from the real engine)
	var cnr cid.ID
	rand.New(rand.NewSource(kit.Seed())).Read(cnr[:])
	signer := user.NewAutoIDSigner(*w.local().key)
	obj := object.New(cnr, signer.UserID())
	obj.SetPayload([]byte("policer verification payload"))
	obj.SetPayloadSize(uint64(len(obj.Payload())))
	kit.Must(obj.SetVerificationFields(signer))
	kit.Must(w.eng.Put(context.Background(), obj, nil))
	w.addr = oid.NewAddress(cnr, obj.GetID())
	w.hdr = *obj.CutPayload()
	rand.New(rand.NewSource(kit.Seed() + 7)).Read(w.par[:])

	cs := &clientSet{ids: w.ids, clients: map[int]*nodeClient{}}
	for i := 1; i <= NN; i++ {
		cs.clients[i] = &nodeClient{node: i, head: w.head, replicate: w.replicate}
	}
	ks := svcutil.NewKeyStorage(w.local().key, nil, nil)
	repl := replicator.New(
		replicator.WithLogger(zap.NewNop()),
		replicator.WithPutTimeout(5*time.Second),
		replicator.WithRemoteSender(putsvc.NewRemoteSender(ks, putCons{cs})),
		replicator.WithLocalStorage(w.eng),
		replicator.WithLocalNodeKey(w),
	)
	w.pol = policer.NewForVerif((*neofsecdsa.Signer)(w.local().key), w, w, recReplicator{w, repl},
		policer.WithLogger(zap.NewNop()),
		policer.WithHeadTimeout(5*time.Second),
		policer.WithRemoteHeader(headsvc.NewRemoteHeader(ks, headCons{cs})),
	)
	return w
}

func (w *c26World) close() {
	_ = w.eng.Close()
	_ = os.RemoveAll(w.dir)
}

var typeOf = map[string]object.Type{"REG": object.TypeRegular, "TOMB": object.TypeTombstone, "LOCK": object.TypeLock, "LINK": object.TypeLink}

func (w *c26World) run(sc scenario, variant int) outJ {
	out := outJ{Del: "none", Tasks: []taskJ{}, Headok: []int{}, Stored: []int{}, Heads: []int{}}
	w.sc, w.out = &sc, &out
	o := objectcore.AddressWithAttributes{Address: w.addr, Type: typeOf[sc.Typ], Attributes: []string{"", "", ""}}
	switch sc.Attr {
	case "ok":
		o.Attributes = []string{strconv.Itoa(sc.Part.Rule), strconv.Itoa(sc.Part.Idx), string(w.par[:])}
	case "bad":
		bad := [][]string{
			{"0", "", string(w.par[:])},         // rule index without part index
			{"", "1", string(w.par[:])},         // part index without rule index
			{"x", "0", string(w.par[:])},        // not a number
			{"0", "256", string(w.par[:])},      // out of uint8
			{"0", "0", string(w.par[:5])},       // parent ID of a wrong length
			{"0", "0", ""},                      // no parent at all
			{"-1", "0", string(w.par[:])},       // negative
			{"0", "0", string(w.par[:]) + "\x00"}, // too long parent
		}
		o.Attributes = bad[variant%len(bad)]
	}
	for i := 0; i < sc.Shards; i++ {
		o.ShardIDs = append(o.ShardIDs, "shard"+strconv.Itoa(i))
	}
	w.pol.VerifProcessObject(context.Background(), o)
	sort.Ints(out.Headok)
	sort.Ints(out.Stored)
	return out
}

// ------------------------------------------------------------------------------------------------
// scenario sources

// fill replaces every unresolved ("?" / 0) input left by the model with a seeded random value.
func fill(sc *scenario, r *rand.Rand) {
	for len(sc.Nm) < NN {
		sc.Nm = append(sc.Nm, "?")
	}
	for len(sc.Ans) < NN {
		sc.Ans = append(sc.Ans, "?")
	}
	for i := range sc.Nm {
		if sc.Nm[i] != "y" && sc.Nm[i] != "n" {
			sc.Nm[i] = []string{"n", "n", "y"}[r.Intn(3)]
		}
		if !slices.Contains(answers, sc.Ans[i]) {
			sc.Ans[i] = answers[r.Intn(len(answers))]
		}
	}
	if sc.InNetmap != "y" && sc.InNetmap != "n" {
		sc.InNetmap = []string{"y", "y", "n"}[r.Intn(3)]
	}
	if sc.Shards == 0 {
		sc.Shards = 1 + r.Intn(2)
	}
	if sc.Rep == nil {
		sc.Rep = []ruleJ{}
	}
	if sc.Ec == nil {
		sc.Ec = []ecJ{}
	}
}

// kinds of a remote node that the decision can tell apart
var kinds = [][2]string{{"y", "has"}, {"n", "has"}, {"n", "nfOk"}, {"n", "nfFail"}, {"n", "maint"}, {"n", "err"}}

// lists enumerates sequences of distinct nodes over {1 (local), 2..} of length 1..maxLen in which remote
// nodes appear in increasing order of first use (used = highest remote id taken so far): every placement
// up to renaming of the remote nodes.
func lists(maxLen, used, maxRemote int, f func(l []int, used int)) {
	var rec func(cur []int, used int)
	rec = func(cur []int, used int) {
		if len(cur) > 0 {
			f(slices.Clone(cur), used)
		}
		if len(cur) == maxLen {
			return
		}
		for n := 1; n <= used+1 && n <= maxRemote+1; n++ {
			if slices.Contains(cur, n) {
				continue
			}
			rec(append(cur, n), max(used, n))
		}
	}
	rec(nil, used)
}

func baseScenario() scenario {
	return scenario{Typ: "REG", Rep: []ruleJ{}, Ec: []ecJ{}, Attr: "none", Neterr: "none", InNetmap: "y", Shards: 1}
}

// withKinds calls f for every assignment of kinds to the remote nodes 2..used+... that occur in the scenario.
func withKinds(sc scenario, used int, r *rand.Rand, f func(scenario)) {
	n := used - 1 // remote nodes are 2..used
	if n < 0 {
		n = 0
	}
	total := 1
	for i := 0; i < n; i++ {
		total *= len(kinds)
	}
	for code := 0; code < total; code++ {
		s := sc
		s.Nm = make([]string, NN)
		s.Ans = make([]string, NN)
		c := code
		for i := range s.Nm {
			s.Nm[i], s.Ans[i] = "n", "err"
		}
		for i := 0; i < n; i++ {
			k := kinds[c%len(kinds)]
			c /= len(kinds)
			s.Nm[i+1], s.Ans[i+1] = k[0], k[1]
			if k[0] == "y" { // the answer of a node flagged in the netmap must not matter
				s.Ans[i+1] = answers[r.Intn(len(answers))]
			}
		}
		f(s)
	}
}

func hasLocal(sc scenario) bool {
	for _, x := range sc.Rep {
		if slices.Contains(x.Nodes, 1) {
			return true
		}
	}
	for _, x := range sc.Ec {
		if slices.Contains(x.Nodes, 1) {
			return true
		}
	}
	return false
}

// enumerate writes every scenario of the given family within the bounds.
//
//	rep1:   one REP rule, up to maxLen nodes, every type, every REP number, every kind assignment
//	rep2:   two REP rules (second list over the nodes of the first + one fresh), every kind assignment
//	eccnr:  REG/TOMB/LOCK/LINK without EC attributes in a container with one EC rule (+ optional REP rule)
//	ecpart: EC parts, rules 1/1, 2/1, 3/1, every local position, part index, rule index, kind (nm flag ignored)
//	pre:    failures before any node is asked
func enumerate(fam string, maxLen, maxRemote int, r *rand.Rand, emit func(scenario)) {
	final := func(s scenario) {
		if !hasLocal(s) {
			for _, inm := range []string{"y", "n"} {
				s2 := s
				s2.InNetmap = inm
				s2.Shards = 1 + r.Intn(2)
				emit(s2)
			}
			return
		}
		s.Shards = 1 + r.Intn(2)
		emit(s)
	}
	switch fam {
	case "rep1":
		lists(maxLen, 1, maxRemote, func(l []int, used int) {
			for _, t := range types {
				for n := 1; n <= len(l); n++ {
					sc := baseScenario()
					sc.Typ, sc.Rep = t, []ruleJ{{Nodes: l, N: n}}
					withKinds(sc, used, r, final)
				}
			}
		})
	case "rep2":
		lists(maxLen, 1, maxRemote, func(l1 []int, used1 int) {
			lists(maxLen, used1, maxRemote, func(l2 []int, used2 int) {
				for _, t := range types {
					for n1 := 1; n1 <= len(l1); n1++ {
						for n2 := 1; n2 <= len(l2); n2++ {
							sc := baseScenario()
							sc.Typ, sc.Rep = t, []ruleJ{{Nodes: l1, N: n1}, {Nodes: l2, N: n2}}
							withKinds(sc, used2, r, final)
						}
					}
				}
			})
		})
	case "eccnr":
		lists(maxLen, 1, maxRemote, func(le []int, used1 int) {
			if len(le) < 3 {
				return
			}
			for _, t := range types {
				sc := baseScenario()
				sc.Typ, sc.Ec = t, []ecJ{{Nodes: le, D: 2, P: 1}}
				withKinds(sc, used1, r, final)
				lists(2, used1, maxRemote, func(l []int, used2 int) {
					for n := 1; n <= len(l); n++ {
						sc := baseScenario()
						sc.Typ, sc.Rep, sc.Ec = t, []ruleJ{{Nodes: l, N: n}}, []ecJ{{Nodes: le, D: 2, P: 1}}
						withKinds(sc, used2, r, final)
					}
				})
			}
		})
	case "ecpart":
		lists(maxLen, 1, maxRemote, func(l []int, used int) {
			for _, dp := range [][2]int{{1, 1}, {2, 1}, {3, 1}} {
				if len(l) < dp[0]+dp[1] {
					continue
				}
				for ri := 0; ri <= 1; ri++ {
					for pi := 0; pi <= dp[0]+dp[1]; pi++ {
						sc := baseScenario()
						sc.Attr, sc.Part = "ok", partJ{Rule: ri, Idx: pi}
						sc.Ec = []ecJ{{Nodes: l, D: dp[0], P: dp[1]}}
						withKinds(sc, used, r, func(s scenario) {
							for i := range s.Nm { // the EC walk does not look at the netmap flag
								if s.Nm[i] == "y" {
									return
								}
							}
							s.Shards = 1
							emit(s)
						})
					}
				}
			}
		})
	case "pre":
		for _, t := range types {
			for _, a := range []string{"none", "ok", "bad"} {
				for _, ne := range []string{"none", "notfound", "other"} {
					for _, withEC := range []bool{false, true} {
						for _, withRep := range []bool{false, true} {
							for v := 0; v < 8; v++ {
								sc := baseScenario()
								sc.Typ, sc.Attr, sc.Neterr = t, a, ne
								sc.Part = partJ{Rule: v % 3, Idx: v % 4}
								if withEC {
									sc.Ec = []ecJ{{Nodes: []int{2, 1, 3}, D: 2, P: 1}}
								}
								if withRep {
									sc.Rep = []ruleJ{{Nodes: []int{3, 1}, N: 1}}
								}
								fill(&sc, r)
								emit(sc)
							}
						}
					}
				}
			}
		}
	default:
		panic("unknown family " + fam)
	}
}

// randomScenario draws from a universe wider than anything enumerated: up to 3 REP rules + 2 EC rules over
// NN nodes.
func randomScenario(r *rand.Rand) scenario {
	sc := baseScenario()
	sc.Typ = types[r.Intn(4)]
	if r.Intn(3) == 0 {
		sc.Typ = "REG"
	}
	pick := func(maxLen int) []int {
		p := r.Perm(NN)
		n := 1 + r.Intn(maxLen)
		l := make([]int, n)
		for i := range l {
			l[i] = p[i] + 1
		}
		if r.Intn(3) == 0 && !slices.Contains(l, 1) { // make the local node frequent
			l[r.Intn(n)] = 1
		}
		return l
	}
	nrep := r.Intn(4)
	for i := 0; i < nrep; i++ {
		l := pick(6)
		sc.Rep = append(sc.Rep, ruleJ{Nodes: l, N: 1 + r.Intn(len(l))})
	}
	if r.Intn(4) == 0 || nrep == 0 {
		nec := 1 + r.Intn(2)
		for i := 0; i < nec; i++ {
			d, p := 1+r.Intn(3), 1
			l := pick(NN)
			for len(l) < d+p {
				l = pick(NN)
			}
			sc.Ec = append(sc.Ec, ecJ{Nodes: l, D: d, P: p})
		}
		if r.Intn(2) == 0 {
			sc.Attr = "ok"
			sc.Typ = "REG"
			sc.Part = partJ{Rule: r.Intn(len(sc.Ec) + 1), Idx: r.Intn(5)}
		}
	}
	sc.InNetmap, sc.Shards = "", 0
	fill(&sc, r)
	// concentrate on the interesting answers
	for i := range sc.Ans {
		if r.Intn(3) == 0 {
			sc.Ans[i] = "has"
		}
	}
	return sc
}

// ------------------------------------------------------------------------------------------------

// c26 gen <family> <maxLen> <maxRemote> <out.ndjson> [stride offset]   exhaustive enumeration (or every stride-th)
// c26 rnd <n> <out.ndjson>                                seeded random scenarios
// c26 run <scenarios.ndjson> <records.ndjson>             execute on the real policer
func c26(args []string) {
	switch args[0] {
	case "gen":
		maxLen, _ := strconv.Atoi(args[2])
		maxRemote, _ := strconv.Atoi(args[3])
		w := kit.NewW(args[4])
		stride, off, k := 1, 0, 0
		if len(args) > 6 { // sample: every stride-th scenario starting at off
			stride, _ = strconv.Atoi(args[5])
			off, _ = strconv.Atoi(args[6])
		}
		enumerate(args[1], maxLen, maxRemote, kit.Rand(26), func(s scenario) {
			if k%stride == off%stride {
				w.Emit(s)
			}
			k++
		})
		w.Close()
		fmt.Println(k, w.N)
	case "rnd":
		n, _ := strconv.Atoi(args[1])
		w := kit.NewW(args[2])
		r := kit.Rand(2626)
		for i := 0; i < n; i++ {
			w.Emit(randomScenario(r))
		}
		w.Close()
	case "run":
		scs := kit.ReadNDJSON[scenario](args[1])
		out := kit.NewW(args[2])
		world := newC26World()
		defer world.close()
		r := kit.Rand(262626)
		for i, sc := range scs {
			fill(&sc, r)
			o := world.run(sc, i)
			out.Emit(record{In: sc, Out: o})
		}
		out.Close()
	default:
		panic("usage")
	}
}
