package main

// C27: an in-memory cluster of real nodes. Every node = real storage engine + REAL policer (local storage =
// that engine, real RemoteHeader) + REAL replicator (real RemoteSender). The only fakes are the network map
// and the API connections between the nodes, which call the target node's engine directly (HEAD -> engine.Head,
// REPLICATE -> engine.Put) unless the target is "down". One scenario = one object with an initial replica
// distribution; nodes run policy checks of the object in rounds (every current holder once per round, random
// order): first FaultRounds rounds with random unreachable nodes (safety only), then stable rounds until the
// cluster is quiet. Every check is one trace event validated by spec/TracePolicerCluster.tla.

import (
	"context"
	"errors"
	"fmt"
	"io"
	"math/rand"
	"os"
	"slices"
	"sort"
	"strconv"
	"time"

	objectcore "github.com/nspcc-dev/neofs-node/pkg/core/object"
	"github.com/nspcc-dev/neofs-node/pkg/local_object_storage/engine"
	headsvc "github.com/nspcc-dev/neofs-node/pkg/services/object/head"
	putsvc "github.com/nspcc-dev/neofs-node/pkg/services/object/put"
	svcutil "github.com/nspcc-dev/neofs-node/pkg/services/object/util"
	"github.com/nspcc-dev/neofs-node/pkg/services/policer"
	"github.com/nspcc-dev/neofs-node/pkg/services/replicator"
	apistatus "github.com/nspcc-dev/neofs-sdk-go/client/status"
	cid "github.com/nspcc-dev/neofs-sdk-go/container/id"
	neofsecdsa "github.com/nspcc-dev/neofs-sdk-go/crypto/ecdsa"
	"github.com/nspcc-dev/neofs-sdk-go/netmap"
	"github.com/nspcc-dev/neofs-sdk-go/object"
	oid "github.com/nspcc-dev/neofs-sdk-go/object/id"
	"github.com/nspcc-dev/neofs-sdk-go/user"
	"go.uber.org/zap"
	"verifharness/internal/kit"
)

const clusterMax = 6

type clusterScenario struct {
	N           int     `json:"n"`
	Rules       []ruleJ `json:"rules"`   // REP rules: container nodes sorted for the object + number of copies
	Holders     []int   `json:"holders"` // initial distribution
	FaultRounds int     `json:"faultRounds"`
}

type clusterEvent struct {
	Ev      string  `json:"ev"` // init | check | task | end
	N       int     `json:"n"`
	Rules   []ruleJ `json:"rules"`
	Node    int     `json:"node"`
	Down    []int   `json:"down"`
	Refuse  []int   `json:"refuse"` // answer HEAD, refuse replicas
	Del     string  `json:"del"`
	Tasks   []taskJ `json:"tasks"`
	Rep2    [][]int `json:"reported"` // per task: nodes passed to SubmitSuccessfulReplication
	Holders []int   `json:"holders"`  // after the event
	Round   int     `json:"round"`    // stable rounds completed so far
	Quiet   bool    `json:"quiet"`    // end: last stable round issued no task and removed nothing
}

type clusterNode struct {
	w    *clusterWorld
	id   int
	eng  *engine.StorageEngine
	pol  *policer.Policer
	repl *replicator.Replicator
}

type clusterWorld struct {
	ids   []*ident
	dir   string
	nodes []*clusterNode // 1-based
	cnr   cid.ID

	sc   *clusterScenario
	obj  *object.Object
	addr oid.Address
	down map[int]bool
	refuse map[int]bool
	ev   *clusterEvent
	cur  int // index of the task being executed in ev.Tasks, -1 = none
}

// per-node network view
type clusterNet struct{ n *clusterNode }

func (x clusterNet) IsLocalNodeInNetmap() bool { return true }
func (x clusterNet) IsLocalNodePublicKey(k []byte) bool {
	return string(k) == string(x.n.w.ids[x.n.id].pub)
}
func (x clusterNet) GetNodesForObject(oid.Address) ([][]netmap.NodeInfo, []uint, []policer.VerifECRule, error) {
	w := x.n.w
	var lists [][]netmap.NodeInfo
	var reps []uint
	for _, rl := range w.sc.Rules {
		l := make([]netmap.NodeInfo, len(rl.Nodes))
		for i, id := range rl.Nodes {
			l[i] = w.ids[id].info
		}
		lists = append(lists, l)
		reps = append(reps, uint(rl.N))
	}
	return lists, reps, nil, nil
}

// recording wrapper around the real replicator of the node
type clusterRepl struct{ n *clusterNode }

type recResult struct {
	w     *clusterWorld
	inner replicator.TaskResult
	task  int
}

func (r recResult) SubmitSuccessfulReplication(ni netmap.NodeInfo) {
	r.w.ev.Rep2[r.task] = append(r.w.ev.Rep2[r.task], idOf(r.w.ids, ni.PublicKey()))
	r.inner.SubmitSuccessfulReplication(ni)
}

func (x clusterRepl) HandleTask(ctx context.Context, t replicator.Task, res replicator.TaskResult) {
	w := x.n.w
	tj := taskJ{Q: int(t.VerifCopiesNumber()), Nodes: []int{}, Ok: []int{}}
	for _, n := range t.Nodes() {
		tj.Nodes = append(tj.Nodes, idOf(w.ids, n.PublicKey()))
	}
	w.ev.Tasks = append(w.ev.Tasks, tj)
	w.ev.Rep2 = append(w.ev.Rep2, []int{})
	w.cur = len(w.ev.Tasks) - 1
	x.n.repl.HandleTask(ctx, t, recResult{w: w, inner: res, task: w.cur})
	w.cur = -1
}

// connections between nodes
func (w *clusterWorld) head(node int, cnr cid.ID, id oid.ID) (*object.Object, error) {
	if w.down[node] {
		return nil, errors.New("dial tcp: i/o timeout")
	}
	return w.nodes[node].eng.Head(context.Background(), oid.NewAddress(cnr, id), false)
}

func (w *clusterWorld) replicate(node int, _ oid.ID, src io.ReadSeeker) error {
	if w.down[node] {
		return errors.New("dial tcp: i/o timeout")
	}
	if w.refuse[node] {
		return errors.New("status: code = 1024 message = no space left on device")
	}
	// the replicator shares one stream between the nodes of a task (client.DemuxReplicatedObject)
	if _, err := src.Seek(0, io.SeekStart); err != nil {
		return err
	}
	b, err := io.ReadAll(src)
	if err != nil {
		return err
	}
	var obj object.Object
	if err = obj.Unmarshal(b); err != nil {
		return fmt.Errorf("decode replicated object: %w", err)
	}
	if err = w.nodes[node].eng.Put(context.Background(), &obj, nil); err != nil {
		return err
	}
	if w.cur >= 0 {
		w.ev.Tasks[w.cur].Ok = append(w.ev.Tasks[w.cur].Ok, node)
	}
	return nil
}

func newClusterWorld() *clusterWorld {
	w := &clusterWorld{ids: newIdents(clusterMax), dir: tmpDir("putpol-c27-"), down: map[int]bool{}, cur: -1}
	rand.New(rand.NewSource(kit.Seed())).Read(w.cnr[:])
	cs := &clientSet{ids: w.ids, clients: map[int]*nodeClient{}}
	for i := 1; i <= clusterMax; i++ {
		cs.clients[i] = &nodeClient{node: i, head: w.head, replicate: w.replicate}
	}
	w.nodes = make([]*clusterNode, clusterMax+1)
	for i := 1; i <= clusterMax; i++ {
		n := &clusterNode{w: w, id: i}
		n.eng = newEngine(fmt.Sprintf("%s/node%d", w.dir, i), 1)
		ks := svcutil.NewKeyStorage(w.ids[i].key, nil, nil)
		n.repl = replicator.New(
			replicator.WithLogger(zap.NewNop()),
			replicator.WithPutTimeout(5*time.Second),
			replicator.WithRemoteSender(putsvc.NewRemoteSender(ks, putCons{cs})),
			replicator.WithLocalStorage(n.eng),
			replicator.WithLocalNodeKey(clusterNet{n}),
		)
		n.pol = policer.NewForVerif((*neofsecdsa.Signer)(w.ids[i].key), clusterNet{n}, nil, clusterRepl{n},
			policer.WithLogger(zap.NewNop()),
			policer.WithHeadTimeout(5*time.Second),
			policer.WithLocalStorage(n.eng),
			policer.WithRemoteHeader(headsvc.NewRemoteHeader(ks, headCons{cs})),
		)
		w.nodes[i] = n
	}
	return w
}

func (w *clusterWorld) close() {
	for _, n := range w.nodes[1:] {
		_ = n.eng.Close()
	}
	_ = os.RemoveAll(w.dir)
}

func (w *clusterWorld) holders() []int {
	res := []int{}
	for i := 1; i <= w.sc.N; i++ {
		if _, err := w.nodes[i].eng.Head(context.Background(), w.addr, false); err == nil {
			res = append(res, i)
		} else if !errors.Is(err, apistatus.ErrObjectNotFound) && !errors.Is(err, apistatus.ErrObjectAlreadyRemoved) {
			panic(fmt.Sprintf("unexpected HEAD error on node %d: %v", i, err))
		}
	}
	return res
}

// check runs one policy check of the object on node id and returns the event.
func (w *clusterWorld) check(id int, down, refuse []int, round int) clusterEvent {
	ev := clusterEvent{Ev: "check", Rules: []ruleJ{}, Node: id, Down: append([]int{}, down...), Refuse: append([]int{}, refuse...), Del: "none", Tasks: []taskJ{}, Rep2: [][]int{}, Round: round}
	w.ev = &ev
	w.down = map[int]bool{}
	for _, d := range down {
		w.down[d] = true
	}
	w.refuse = map[int]bool{}
	for _, d := range refuse {
		w.refuse[d] = true
	}
	before := slices.Contains(w.holders(), id)
	w.nodes[id].pol.VerifProcessObject(context.Background(), objectcore.AddressWithAttributes{
		Address: w.addr, Type: object.TypeRegular, Attributes: []string{"", "", ""}, ShardIDs: []string{"s"},
	})
	w.down, w.refuse = map[int]bool{}, map[int]bool{}
	// a copy marked redundant stays readable until the GC removes it; the model removes it at once, so the
	// node's GC is run synchronously after its check
	for _, sh := range w.nodes[id].eng.VerifShards() {
		sh.VerifRunGC()
	}
	ev.Holders = w.holders()
	if before && !slices.Contains(ev.Holders, id) {
		ev.Del = "redundant"
	}
	return ev
}

// task hands a replication task carrying the object to the REAL replicator of node id.
func (w *clusterWorld) task(id int, nodes []int, q int, down, refuse []int) clusterEvent {
	ev := clusterEvent{Ev: "task", Rules: []ruleJ{}, Node: id, Down: append([]int{}, down...), Refuse: append([]int{}, refuse...), Del: "none", Tasks: []taskJ{}, Rep2: [][]int{}}
	w.ev = &ev
	w.down, w.refuse = map[int]bool{}, map[int]bool{}
	for _, d := range down {
		w.down[d] = true
	}
	for _, d := range refuse {
		w.refuse[d] = true
	}
	var t replicator.Task
	t.SetObject(w.obj)
	t.SetObjectAddress(w.addr)
	t.SetCopiesNumber(uint32(q))
	nis := make([]netmap.NodeInfo, len(nodes))
	for i, x := range nodes {
		nis[i] = w.ids[x].info
	}
	t.SetNodes(nis)
	clusterRepl{w.nodes[id]}.HandleTask(context.Background(), t, nopResult{})
	w.down, w.refuse = map[int]bool{}, map[int]bool{}
	ev.Holders = w.holders()
	// remote stores are seen by the fake connections; the local node is written through the engine directly: it
	// counts as stored when the replicator reported it and the engine really holds the object now
	localStored := slices.Contains(ev.Rep2[0], id) && slices.Contains(ev.Holders, id)
	ok := []int{}
	for _, x := range nodes {
		if (x == id && localStored) || (x != id && slices.Contains(ev.Tasks[0].Ok, x)) {
			ok = append(ok, x)
		}
	}
	ev.Tasks[0].Ok = ok
	return ev
}

type nopResult struct{}

func (nopResult) SubmitSuccessfulReplication(netmap.NodeInfo) {}

// maxStable is larger than the model's bound: the trace spec, not the harness, decides whether the number
// of rounds needed is acceptable.
const maxStable = 8

func (w *clusterWorld) runScenario(sc clusterScenario, r *rand.Rand, out *kit.W) {
	w.sc = &sc
	signer := user.NewAutoIDSigner(*w.ids[1].key)
	obj := object.New(w.cnr, signer.UserID())
	pl := make([]byte, 16)
	r.Read(pl)
	obj.SetPayload(pl)
	obj.SetPayloadSize(uint64(len(pl)))
	kit.Must(obj.SetVerificationFields(signer))
	w.addr = oid.NewAddress(w.cnr, obj.GetID())
	w.obj = obj
	for _, h := range sc.Holders {
		kit.Must(w.nodes[h].eng.Put(context.Background(), obj, nil))
	}
	out.Emit(clusterEvent{Ev: "init", N: sc.N, Rules: sc.Rules, Holders: w.holders(), Down: []int{}, Refuse: []int{}, Tasks: []taskJ{}, Rep2: [][]int{}, Del: "none"})
	round := func(faulty bool, no int) (quiet bool) {
		quiet = true
		order := w.holders()
		r.Shuffle(len(order), func(i, j int) { order[i], order[j] = order[j], order[i] })
		for _, id := range order {
			if !slices.Contains(w.holders(), id) {
				continue // lost its copy earlier in this round
			}
			var down, refuse []int
			if faulty {
				for x := 1; x <= sc.N; x++ {
					if x == id {
						continue
					}
					switch r.Intn(5) {
					case 0:
						down = append(down, x)
					case 1, 2:
						refuse = append(refuse, x)
					}
				}
			}
			if faulty && r.Intn(3) == 0 {
				// the node's replicator gets a task that CARRIES the object (post-placement replication, re-created
				// EC part): the local node may be among the target nodes, fewer copies than nodes are requested
				p := r.Perm(sc.N)
				k := 2 + r.Intn(sc.N-1)
				nodes := make([]int, 0, k)
				for _, x := range p[:k] {
					nodes = append(nodes, x+1)
				}
				if !slices.Contains(nodes, id) || r.Intn(2) == 0 {
					nodes[r.Intn(len(nodes))] = id
					nodes = slices.Compact(nodes)
				}
				seen := map[int]bool{}
				uniq := nodes[:0]
				for _, x := range nodes {
					if !seen[x] {
						seen[x] = true
						uniq = append(uniq, x)
					}
				}
				tev := w.task(id, uniq, 1+r.Intn(len(uniq)), down, refuse)
				sort.Ints(tev.Holders)
				out.Emit(tev)
			}
			ev := w.check(id, down, refuse, no)
			sort.Ints(ev.Holders)
			out.Emit(ev)
			for _, tk := range ev.Tasks { // a task without candidate nodes copies nothing
				if len(tk.Nodes) > 0 {
					quiet = false
				}
			}
			if ev.Del != "none" {
				quiet = false
			}
		}
		return quiet
	}
	for i := 0; i < sc.FaultRounds; i++ {
		round(true, 0)
	}
	rounds, quiet := 0, false
	for rounds < maxStable && !quiet {
		quiet = round(false, rounds)
		rounds++
	}
	out.Emit(clusterEvent{Ev: "end", Rules: []ruleJ{}, Round: rounds, Quiet: quiet, Holders: w.holders(), Down: []int{}, Refuse: []int{}, Tasks: []taskJ{}, Rep2: [][]int{}, Del: "none"})
}

func randomCluster(r *rand.Rand, maxN int) clusterScenario {
	n := 3 + r.Intn(maxN-2)
	nr := 1
	if r.Intn(2) == 0 {
		nr = 2
	}
	var rules []ruleJ
	for k := 0; k < nr; k++ {
		p := r.Perm(n)
		ll := 1 + r.Intn(n)
		if nr == 1 && r.Intn(2) == 0 {
			ll = n
		}
		list := make([]int, ll)
		for i := range list {
			list[i] = p[i] + 1
		}
		rules = append(rules, ruleJ{Nodes: list, N: 1 + r.Intn(min(3, ll))})
	}
	var holders []int
	for len(holders) == 0 {
		for i := 1; i <= n; i++ {
			if r.Intn(3) == 0 {
				holders = append(holders, i)
			}
		}
	}
	return clusterScenario{N: n, Rules: rules, Holders: holders, FaultRounds: r.Intn(3)}
}

// c27 rnd <n> <maxNodes> <scenarios.ndjson>
// c27 all <nodes> <scenarios.ndjson>            every list / REP / initial distribution of a small cluster
// c27 run <scenarios.ndjson> <trace.ndjson>
func c27(args []string) {
	switch args[0] {
	case "rnd":
		n, _ := strconv.Atoi(args[1])
		maxN, _ := strconv.Atoi(args[2])
		out := kit.NewW(args[3])
		r := kit.Rand(27)
		for i := 0; i < n; i++ {
			out.Emit(randomCluster(r, maxN))
		}
		out.Close()
	case "all": // c27 all <nodes> <out> [two]: every policy of one rule (or of two rules with lists of <= 2 nodes)
		n, _ := strconv.Atoi(args[1])
		out := kit.NewW(args[2])
		two := len(args) > 3 && args[3] == "two"
		var single []ruleJ
		maxLen := n
		if two {
			maxLen = 2
		}
		seqsDistinct(n, maxLen, func(l []int) {
			for rep := 1; rep <= len(l) && rep <= 3; rep++ {
				single = append(single, ruleJ{Nodes: l, N: rep})
			}
		})
		var policies [][]ruleJ
		if two {
			for _, a := range single {
				for _, b := range single {
					policies = append(policies, []ruleJ{a, b})
				}
			}
		} else {
			for _, a := range single {
				policies = append(policies, []ruleJ{a})
			}
		}
		for _, pol := range policies {
			for mask := 1; mask < 1<<n; mask++ {
				var hs []int
				for i := 0; i < n; i++ {
					if mask&(1<<i) != 0 {
						hs = append(hs, i+1)
					}
				}
				out.Emit(clusterScenario{N: n, Rules: pol, Holders: hs})
			}
		}
		out.Close()
		fmt.Println(out.N)
	case "run":
		scs := kit.ReadNDJSON[clusterScenario](args[1])
		out := kit.NewW(args[2])
		w := newClusterWorld()
		defer w.close()
		r := kit.Rand(2727)
		for _, sc := range scs {
			w.runScenario(sc, r, out)
		}
		out.Close()
	default:
		panic("usage")
	}
}
