// Command putpol is the conformance harness of the family "putpol" (C24-C27): it drives the real policer,
// replicator and object PUT pipeline of neofs-node with scenarios taken from TLC or from seeded
// enumerators and writes records / traces that TLC validates against spec/Policer.tla, PutPolicy.tla,
// PolicerCluster.tla and Validation.tla.
//
//	putpol c26 gen|rnd|run ...   see c26.go
package main

import (
	"fmt"
	"os"
)

func main() {
	if len(os.Args) < 3 {
		fmt.Fprintln(os.Stderr, "usage: putpol <c24|c25|c26|c27> <sub-command> ...")
		os.Exit(2)
	}
	switch os.Args[1] {
	case "c24":
		c24(os.Args[2:])
	case "c25":
		c25(os.Args[2:])
	case "c26":
		c26(os.Args[2:])
	case "c27":
		c27(os.Args[2:])
	default:
		fmt.Fprintln(os.Stderr, "unknown property", os.Args[1])
		os.Exit(2)
	}
}
