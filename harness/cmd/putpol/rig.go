package main

import (
	"context"
	"crypto/ecdsa"
	crand "crypto/rand"
	"crypto/elliptic"
	"fmt"
	"io"
	"os"
	"path/filepath"
	"time"

	clientcore "github.com/nspcc-dev/neofs-node/pkg/core/client"
	"github.com/nspcc-dev/neofs-node/pkg/local_object_storage/blobstor/fstree"
	"github.com/nspcc-dev/neofs-node/pkg/local_object_storage/engine"
	meta "github.com/nspcc-dev/neofs-node/pkg/local_object_storage/metabase"
	"github.com/nspcc-dev/neofs-node/pkg/local_object_storage/shard"
	"github.com/nspcc-dev/neofs-sdk-go/client"
	cid "github.com/nspcc-dev/neofs-sdk-go/container/id"
	neofscrypto "github.com/nspcc-dev/neofs-sdk-go/crypto"
	neofsecdsa "github.com/nspcc-dev/neofs-sdk-go/crypto/ecdsa"
	"github.com/nspcc-dev/neofs-sdk-go/netmap"
	"github.com/nspcc-dev/neofs-sdk-go/object"
	oid "github.com/nspcc-dev/neofs-sdk-go/object/id"
	"github.com/nspcc-dev/neofs-sdk-go/user"
	"go.uber.org/zap"
	"verifharness/internal/kit"
)

// ---------------------------------------------------------------- node identities

// ident is one storage node of a simulated network. Identifiers are 1-based and equal the
// node identifiers of the TLA+ specs.
type ident struct {
	id   int
	key  *ecdsa.PrivateKey
	pub  []byte
	info netmap.NodeInfo
}

func newIdents(n int) []*ident {
	res := make([]*ident, n+1) // res[0] unused
	for i := 1; i <= n; i++ {
		k, err := ecdsa.GenerateKey(elliptic.P256(), crand.Reader)
		kit.Must(err)
		pub := neofscrypto.PublicKeyBytes((*neofsecdsa.PublicKey)(&k.PublicKey))
		var ni netmap.NodeInfo
		ni.SetPublicKey(pub)
		ni.SetNetworkEndpoints(fmt.Sprintf("/ip4/10.0.0.%d/tcp/8080", i))
		ni.SetOnline()
		res[i] = &ident{id: i, key: k, pub: pub, info: ni}
	}
	return res
}

// idOf maps a public key back to the node identifier (0 = unknown).
func idOf(ids []*ident, pub []byte) int {
	for _, x := range ids[1:] {
		if string(x.pub) == string(pub) {
			return x.id
		}
	}
	return 0
}

// ---------------------------------------------------------------- fake API clients

// nodeClient is a NeoFS API client of one remote node whose behaviour is given by callbacks.
// Methods that are not overridden panic through the nil embedded interface: any unexpected use of
// the connection by the code under test is therefore loud.
type nodeClient struct {
	clientcore.MultiAddressClient
	node      int
	head      func(node int, cnr cid.ID, id oid.ID) (*object.Object, error)
	replicate func(node int, id oid.ID, src io.ReadSeeker) error
	putInit   func(node int, hdr object.Object) (client.ObjectWriter, error)
}

func (c *nodeClient) ObjectHead(_ context.Context, cnr cid.ID, id oid.ID, _ user.Signer, _ client.PrmObjectHead) (*object.Object, error) {
	return c.head(c.node, cnr, id)
}

func (c *nodeClient) ReplicateObject(_ context.Context, id oid.ID, src io.ReadSeeker, _ neofscrypto.Signer, _ bool) (*neofscrypto.Signature, error) {
	return nil, c.replicate(c.node, id, src)
}

func (c *nodeClient) ObjectPutInit(_ context.Context, hdr object.Object, _ user.Signer, _ client.PrmObjectPutInit) (client.ObjectWriter, error) {
	return c.putInit(c.node, hdr)
}

// clientSet resolves node descriptors to fake clients; it implements the client constructor
// interfaces of the head, put and replicator services.
type clientSet struct {
	ids     []*ident
	clients map[int]*nodeClient
	dialErr func(node int) error
}

func (s *clientSet) get(ni netmap.NodeInfo) (*nodeClient, error) {
	id := idOf(s.ids, ni.PublicKey())
	if id == 0 {
		return nil, fmt.Errorf("unknown node %x", ni.PublicKey())
	}
	if s.dialErr != nil {
		if err := s.dialErr(id); err != nil {
			return nil, err
		}
	}
	return s.clients[id], nil
}

type headCons struct{ *clientSet }

func (s headCons) Get(_ context.Context, ni netmap.NodeInfo) (clientcore.Client, error) {
	c, err := s.get(ni)
	if err != nil {
		return nil, err
	}
	return c, nil
}

type putCons struct{ *clientSet }

func (s putCons) Get(_ context.Context, ni netmap.NodeInfo) (clientcore.MultiAddressClient, error) {
	c, err := s.get(ni)
	if err != nil {
		return nil, err
	}
	return c, nil
}

// ---------------------------------------------------------------- real engine

type epochZero struct{}

func (epochZero) CurrentEpoch() uint64 { return 0 }

type payOK struct{}

func (payOK) PaymentsDisabled() bool { return true }
func (payOK) UnpaidSince(cid.ID) (int64, error) { return -1, nil }

// newEngine creates a real one-shard (or n-shard) storage engine below dir.
func newEngine(dir string, shards int) *engine.StorageEngine {
	e := engine.New(engine.WithLogger(zap.NewNop()))
	for i := 0; i < shards; i++ {
		_, err := e.AddShard(
			shard.WithLogger(zap.NewNop()),
			shard.WithBlobstor(fstree.New(fstree.WithPath(filepath.Join(dir, fmt.Sprintf("fstree%d", i))), fstree.WithDepth(1), fstree.WithNoSync(true))),
			shard.WithMetaBaseOptions(
				meta.WithPath(filepath.Join(dir, fmt.Sprintf("meta%d", i))),
				meta.WithPermissions(0o700),
				meta.WithEpochState(epochZero{}),
				meta.WithMaxBatchDelay(time.Microsecond),
				meta.WithLogger(zap.NewNop()),
			),
			shard.WithContainerPayments(payOK{}),
			shard.WithGCRemoverSleepInterval(100*time.Hour),
		)
		kit.Must(err)
	}
	kit.Must(e.Init())
	return e
}

func tmpDir(prefix string) string {
	d, err := os.MkdirTemp("", prefix)
	kit.Must(err)
	return d
}
