package main

// C25: one object PUT per scenario through the REAL putsvc.Service (Streamer.Init/SendChunk/Close ->
// validatingTarget -> slicer -> distributedTarget.saveObject / handleREPRule / applyECRule). Fakes only at
// the edges: container source, network map (node lists per rule), local object storage and the
// connections to the remote nodes, each of which accepts or refuses everything according to the scenario.
// Observed: the result of Close and every acknowledgement (node, object kind). See spec/PutPolicy.tla.

import (
	"bytes"
	"context"
	"errors"
	"fmt"
	"io"
	"math"
	"math/rand"
	"sort"
	"strconv"
	"sync"

	clientcore "github.com/nspcc-dev/neofs-node/pkg/core/client"
	"github.com/nspcc-dev/neofs-node/pkg/services/object/common"
	putsvc "github.com/nspcc-dev/neofs-node/pkg/services/object/put"
	svcutil "github.com/nspcc-dev/neofs-node/pkg/services/object/util"
	"github.com/nspcc-dev/neofs-sdk-go/client"
	apistatus "github.com/nspcc-dev/neofs-sdk-go/client/status"
	"github.com/nspcc-dev/neofs-sdk-go/container"
	cid "github.com/nspcc-dev/neofs-sdk-go/container/id"
	"github.com/nspcc-dev/neofs-sdk-go/netmap"
	"github.com/nspcc-dev/neofs-sdk-go/object"
	oid "github.com/nspcc-dev/neofs-sdk-go/object/id"
	protoobject "github.com/nspcc-dev/neofs-sdk-go/proto/object"
	"github.com/nspcc-dev/neofs-sdk-go/user"
	"github.com/nspcc-dev/neofs-sdk-go/version"
	"go.uber.org/zap"
	"google.golang.org/protobuf/proto"
	"verifharness/internal/kit"
)

type initJ struct {
	On     bool  `json:"on"`
	Limits []int `json:"limits"` // empty or one per rule (REP rules first)
	Max    int   `json:"max"`
	Prefer bool  `json:"prefer"`
}

// putScenario is the JSON form of the PutPolicy scenario (node 1 serves the request).
type putScenario struct {
	Typ     string  `json:"typ"`     // REG | TOMB | LOCK
	Trusted bool    `json:"trusted"` // object formed (sliced, signed) by the node; false: signed by the client
	Rep     []ruleJ `json:"rep"`
	Ec      []ecJ   `json:"ec"`
	Init    initJ   `json:"init"`
	Ok      []string `json:"ok"` // per node: "y" accepts objects, "n" refuses
}

type partAck struct {
	Rule int `json:"rule"`
	Idx  int `json:"idx"`
	Node int `json:"node"`
}

type putOut struct {
	Res   string    `json:"res"`   // ok | incomplete | error | panic
	Main  []int     `json:"main"`  // nodes that acknowledged the object itself
	Parts []partAck `json:"parts"` // acknowledged EC parts
	Tried []int     `json:"tried"` // nodes contacted with the object itself (diagnostics)
	Post  int       `json:"post"`  // number of post-placement hand-offs
	Err   string    `json:"err"`
}

type putRecord struct {
	In  putScenario `json:"in"`
	Out putOut      `json:"out"`
}

const ecRuleAttr, ecPartAttr = "__NEOFS__EC_RULE_IDX", "__NEOFS__EC_PART_IDX"

type c25World struct {
	ids []*ident
	svc *putsvc.Service
	cnr cid.ID

	mu  sync.Mutex
	sc  *putScenario
	out *putOut
	pol netmap.PlacementPolicy
}

// ---- container source / network state / netmap
func (w *c25World) Get(cid.ID) (container.Container, error) {
	var c container.Container
	c.SetPlacementPolicy(w.pol)
	return c, nil
}
func (w *c25World) CurrentEpoch() uint64                        { return 10 }
func (w *c25World) CurrentBlock() uint32                        { return 100 }
func (w *c25World) CurrentEpochDuration() uint64                { return 240 }
func (w *c25World) GetEpochBlock(uint64) (uint32, error)        { return 1, nil }
func (w *c25World) GetEpochBlockByTime(uint32) (uint32, error)  { return 1, nil }
func (w *c25World) IsLocalNodePublicKey(k []byte) bool          { return string(k) == string(w.ids[1].pub) }
func (w *c25World) MaxObjectSize() uint64                       { return 1 << 20 }
func (w *c25World) AvailableQuotasLeft(cid.ID, user.ID) (uint64, uint64, error) {
	return math.MaxUint64, math.MaxUint64, nil
}
func (w *c25World) UnpaidSince(cid.ID) (int64, error) { return -1, nil }
func (w *c25World) VerifySplit(context.Context, cid.ID, oid.ID, []object.MeasuredObject) error {
	return nil
}
func (w *c25World) VerifyTombStoneWithoutPayload(context.Context, object.Object) error { return nil }

type c25Nodes struct{ w *c25World }

func (x c25Nodes) lists() [][]netmap.NodeInfo {
	w := x.w
	var res [][]netmap.NodeInfo
	for _, r := range w.sc.Rep {
		l := make([]netmap.NodeInfo, len(r.Nodes))
		for i, id := range r.Nodes {
			l[i] = w.ids[id].info
		}
		res = append(res, l)
	}
	for _, r := range w.sc.Ec {
		l := make([]netmap.NodeInfo, len(r.Nodes))
		for i, id := range r.Nodes {
			l[i] = w.ids[id].info
		}
		res = append(res, l)
	}
	return res
}
func (x c25Nodes) Unsorted() [][]netmap.NodeInfo                        { return x.lists() }
func (x c25Nodes) SortForObject(oid.ID) ([][]netmap.NodeInfo, error)     { return x.lists(), nil }
func (x c25Nodes) PrimaryCounts() []uint {
	res := make([]uint, len(x.w.sc.Rep))
	for i, r := range x.w.sc.Rep {
		res[i] = uint(r.N)
	}
	return res
}
func (x c25Nodes) ECRules() []putsvc.VerifPutECRule {
	var res []putsvc.VerifPutECRule
	for _, r := range x.w.sc.Ec {
		res = append(res, putsvc.VerifPutECRule{DataPartNum: uint8(r.D), ParityPartNum: uint8(r.P)})
	}
	return res
}
func (w *c25World) GetContainerNodes(cid.ID) (putsvc.VerifPutContainerNodes, error) {
	return c25Nodes{w}, nil
}

// ---- acknowledgements
func (w *c25World) deliver(node int, obj *object.Object) error {
	w.mu.Lock()
	defer w.mu.Unlock()
	rule, idx := -1, -1
	for _, a := range obj.Attributes() {
		switch a.Key() {
		case ecRuleAttr:
			rule, _ = strconv.Atoi(a.Value())
		case ecPartAttr:
			idx, _ = strconv.Atoi(a.Value())
		}
	}
	if rule < 0 {
		w.out.Tried = append(w.out.Tried, node)
	}
	if w.sc.Ok[node-1] != "y" {
		return errors.New("node refuses: no space left on device")
	}
	if rule >= 0 {
		w.out.Parts = append(w.out.Parts, partAck{Rule: rule, Idx: idx, Node: node})
	} else {
		w.out.Main = append(w.out.Main, node)
	}
	return nil
}

// local object storage (putsvc.ObjectStorage)
func (w *c25World) Put(_ context.Context, obj *object.Object, _ []byte) error {
	return w.deliver(1, obj)
}
func (w *c25World) IsLocked(context.Context, oid.Address) (bool, error) { return false, nil }

// putsvc.Transport: replication requests (used when the serving node belongs to the container)
func (w *c25World) SendReplicationRequestToNode(_ context.Context, reqBin []byte, node netmap.NodeInfo) ([]byte, error) {
	var req protoobject.ReplicateRequest
	if err := proto.Unmarshal(reqBin, &req); err != nil {
		return nil, fmt.Errorf("invalid request: %w", err)
	}
	var obj object.Object
	if err := obj.FromProtoMessage(req.Object); err != nil {
		return nil, fmt.Errorf("invalid object in request: %w", err)
	}
	return nil, w.deliver(idOf(w.ids, node.PublicKey()), &obj)
}

// object stream of the API client (used when the serving node is outside the container)
type putWriter struct {
	w    *c25World
	node int
	hdr  object.Object
	buf  bytes.Buffer
}

func (x *putWriter) Write(p []byte) (int, error) { return x.buf.Write(p) }
func (x *putWriter) ReadFrom(r io.Reader) (int64, error) { return x.buf.ReadFrom(r) }
func (x *putWriter) Close() error                { return x.w.deliver(x.node, &x.hdr) }
func (x *putWriter) GetResult() client.ResObjectPut { return client.ResObjectPut{} }

func (w *c25World) putInit(node int, hdr object.Object) (client.ObjectWriter, error) {
	return &putWriter{w: w, node: node, hdr: hdr}, nil
}

// post-placement replicator
func (w *c25World) HandlePostPlacement(*object.Object, []netmap.NodeInfo) {
	w.mu.Lock()
	w.out.Post++
	w.mu.Unlock()
}

type c25Clients struct{ *clientSet }

func (s c25Clients) Get(_ context.Context, ni netmap.NodeInfo) (clientcore.MultiAddressClient, error) {
	return s.get(ni)
}

func newC25World() *c25World {
	w := &c25World{ids: newIdents(NN)}
	rand.New(rand.NewSource(kit.Seed())).Read(w.cnr[:])
	cs := &clientSet{ids: w.ids, clients: map[int]*nodeClient{}}
	for i := 1; i <= NN; i++ {
		cs.clients[i] = &nodeClient{node: i, putInit: w.putInit}
	}
	ks := svcutil.NewKeyStorage(w.ids[1].key, nil, w)
	w.svc = putsvc.NewService(w, putsvc.VerifPutWrapNetwork(w), nil, w, w,
		putsvc.WithLogger(zap.NewNop()),
		putsvc.WithKeyStorage(ks),
		putsvc.WithObjectStorage(w),
		putsvc.WithMaxSizeSource(w),
		putsvc.WithContainerSource(w),
		putsvc.WithNetworkState(w),
		putsvc.WithClientConstructor(putCons{cs}),
		putsvc.WithSplitChainVerifier(w),
		putsvc.WithTombstoneVerifier(w),
		putsvc.WithPostPlacementReplicator(w),
	)
	return w
}

func (w *c25World) policy(sc *putScenario) netmap.PlacementPolicy {
	var p netmap.PlacementPolicy
	if sc.Init.On {
		var ip netmap.InitialPlacementPolicy
		if len(sc.Init.Limits) > 0 {
			l := make([]uint32, len(sc.Init.Limits))
			for i, v := range sc.Init.Limits {
				l[i] = uint32(v)
			}
			ip.SetReplicaLimits(l)
		}
		ip.SetMaxReplicas(uint32(sc.Init.Max))
		ip.SetPreferLocal(sc.Init.Prefer)
		p.SetInitial(ip)
	}
	return p
}

func (w *c25World) run(sc putScenario, r *rand.Rand) (out putOut) {
	out = putOut{Main: []int{}, Parts: []partAck{}, Tried: []int{}}
	w.sc, w.out = &sc, &out
	w.pol = w.policy(&sc)

	signer := user.NewAutoIDSigner(*w.ids[1].key)
	ver := version.Current()
	var obj object.Object
	obj.SetVersion(&ver)
	obj.SetContainerID(w.cnr)
	obj.SetOwner(signer.UserID())
	var target oid.ID
	r.Read(target[:])
	switch sc.Typ {
	case "TOMB":
		obj.SetAttributes(object.NewAttribute(object.AttributeExpirationEpoch, "123"))
		obj.AssociateDeleted(target)
	case "LOCK":
		obj.SetAttributes(object.NewAttribute(object.AttributeExpirationEpoch, "123"))
		obj.AssociateLocked(target)
	default:
		pl := make([]byte, 32+r.Intn(64))
		r.Read(pl)
		obj.SetPayload(pl)
		obj.SetPayloadSize(uint64(len(pl)))
		obj.SetAttributes(object.NewAttribute("k", strconv.Itoa(r.Int())))
	}
	if !sc.Trusted {
		obj.SetCreationEpoch(10)
		kit.Must(obj.SetVerificationFields(signer))
	}

	defer func() {
		if p := recover(); p != nil {
			out.Res, out.Err = "panic", fmt.Sprint(p)
		}
		sort.Ints(out.Main)
		sort.Ints(out.Tried)
		sort.Slice(out.Parts, func(i, j int) bool {
			a, b := out.Parts[i], out.Parts[j]
			if a.Rule != b.Rule {
				return a.Rule < b.Rule
			}
			if a.Idx != b.Idx {
				return a.Idx < b.Idx
			}
			return a.Node < b.Node
		})
	}()
	err := func() error {
		st, err := w.svc.Put(context.Background())
		if err != nil {
			return err
		}
		ip := new(putsvc.PutInitPrm).WithObject(obj.CutPayload()).
			WithCommonPrm(svcutil.CommonPrmFromRequest(2, nil, common.RequestTokens{}))
		if err = st.Init(ip); err != nil {
			return fmt.Errorf("init: %w", err)
		}
		pl := obj.Payload()
		for len(pl) > 0 {
			n := 1 + r.Intn(len(pl))
			if err = st.SendChunk(new(putsvc.PutChunkPrm).WithChunk(pl[:n])); err != nil {
				return fmt.Errorf("chunk: %w", err)
			}
			pl = pl[n:]
		}
		_, err = st.Close()
		return err
	}()
	switch {
	case err == nil:
		out.Res = "ok"
	case errors.Is(err, apistatus.ErrIncomplete):
		out.Res, out.Err = "incomplete", err.Error()
	default:
		out.Res, out.Err = "error", err.Error()
	}
	return out
}

// c25 run <scenarios.ndjson> <records.ndjson>
// c25 rnd <n> <out.ndjson>
func c25(args []string) {
	switch args[0] {
	case "run":
		scs := kit.ReadNDJSON[putScenario](args[1])
		out := kit.NewW(args[2])
		w := newC25World()
		r := kit.Rand(25)
		for _, sc := range scs {
			normPut(&sc, r)
			out.Emit(putRecord{In: sc, Out: w.run(sc, r)})
		}
		out.Close()
	case "gen": // c25 gen <family> <nodes> <maxLen> <out> [stride offset]
		m, _ := strconv.Atoi(args[2])
		maxLen, _ := strconv.Atoi(args[3])
		out := kit.NewW(args[4])
		stride, off, k := 1, 0, 0
		if len(args) > 6 {
			stride, _ = strconv.Atoi(args[5])
			off, _ = strconv.Atoi(args[6])
		}
		enumeratePut(args[1], m, maxLen, func(s putScenario) {
			if k%stride == off%stride {
				out.Emit(s)
			}
			k++
		})
		out.Close()
		fmt.Println(k, out.N)
	case "rnd":
		n, _ := strconv.Atoi(args[1])
		out := kit.NewW(args[2])
		r := kit.Rand(2525)
		for i := 0; i < n; i++ {
			out.Emit(randomPut(r))
		}
		out.Close()
	default:
		panic("usage")
	}
}

// normPut makes the JSON total (no nulls, Ok of length NN; unresolved outcomes are drawn at random).
func normPut(sc *putScenario, r *rand.Rand) {
	if sc.Rep == nil {
		sc.Rep = []ruleJ{}
	}
	if sc.Ec == nil {
		sc.Ec = []ecJ{}
	}
	if sc.Init.Limits == nil {
		sc.Init.Limits = []int{}
	}
	for len(sc.Ok) < NN {
		sc.Ok = append(sc.Ok, "?")
	}
	for i := range sc.Ok {
		if sc.Ok[i] != "y" && sc.Ok[i] != "n" {
			sc.Ok[i] = []string{"y", "y", "n"}[r.Intn(3)]
		}
	}
}

// randomPut draws a policy over NN nodes: 0-3 REP rules with overlapping lists, 0-2 EC rules, optional
// initial placement policy (limits, MaxReplicas, PreferLocal) that passes the SDK's own verification.
func randomPut(r *rand.Rand) putScenario {
	sc := putScenario{Typ: "REG", Trusted: true, Rep: []ruleJ{}, Ec: []ecJ{}, Init: initJ{Limits: []int{}}}
	pick := func(minLen, maxLen int) []int {
		p := r.Perm(NN)
		n := minLen + r.Intn(maxLen-minLen+1)
		l := make([]int, n)
		for i := range l {
			l[i] = p[i] + 1
		}
		return l
	}
	nrep := r.Intn(4)
	nec := 0
	if nrep == 0 || r.Intn(3) == 0 {
		nec = 1 + r.Intn(2)
	}
	for i := 0; i < nrep; i++ {
		l := pick(1, 5)
		sc.Rep = append(sc.Rep, ruleJ{Nodes: l, N: 1 + r.Intn(len(l))})
	}
	for i := 0; i < nec; i++ {
		d, p := 1+r.Intn(3), 1+r.Intn(2)
		sc.Ec = append(sc.Ec, ecJ{Nodes: pick(d+p, NN), D: d, P: p})
	}
	switch r.Intn(8) {
	case 0:
		sc.Typ = "TOMB"
	case 1:
		sc.Typ = "LOCK"
	case 2:
		if nrep > 0 {
			sc.Trusted = false
		}
	}
	if r.Intn(2) == 0 {
		sc.Init.On = true
		sum := 0
		if r.Intn(3) != 0 {
			for {
				sc.Init.Limits, sum = sc.Init.Limits[:0], 0
				for _, x := range sc.Rep {
					v := r.Intn(x.N + 1)
					sc.Init.Limits = append(sc.Init.Limits, v)
					sum += v
				}
				for range sc.Ec {
					v := r.Intn(2)
					sc.Init.Limits = append(sc.Init.Limits, v)
					sum += v
				}
				if sum > 0 {
					break
				}
			}
		} else {
			for _, x := range sc.Rep {
				sum += x.N
			}
			sum += len(sc.Ec)
		}
		if len(sc.Init.Limits) == 0 || r.Intn(2) == 0 {
			sc.Init.Max = 1 + r.Intn(sum)
			sc.Init.Prefer = r.Intn(2) == 0
		}
	}
	sc.Ok = make([]string, NN)
	for i := range sc.Ok {
		sc.Ok[i] = []string{"y", "y", "y", "n"}[r.Intn(4)]
	}
	return sc
}

// ------------------------------------------------------------------------------------------------
// exhaustive enumerations (the scenario universes that TLC walks and the real service executes)

func seqsDistinct(m, maxLen int, f func([]int)) {
	var rec func(cur []int)
	rec = func(cur []int) {
		if len(cur) > 0 {
			f(append([]int(nil), cur...))
		}
		if len(cur) == maxLen {
			return
		}
		for n := 1; n <= m; n++ {
			dup := false
			for _, x := range cur {
				dup = dup || x == n
			}
			if !dup {
				rec(append(cur, n))
			}
		}
	}
	rec(nil)
}

func subsetsAsc(m, minLen, maxLen int, f func([]int)) {
	for mask := 1; mask < 1<<m; mask++ {
		var l []int
		for i := 0; i < m; i++ {
			if mask&(1<<i) != 0 {
				l = append(l, i+1)
			}
		}
		if len(l) >= minLen && len(l) <= maxLen {
			f(l)
		}
	}
}

// validInits enumerates the initial placement policies that netmap.InitialPlacementPolicy.verify accepts
// (limits <= main rule, EC limit 0/1, not all zero, MaxReplicas <= sum, PreferLocal only with MaxReplicas).
func validInits(rep []ruleJ, ec []ecJ, f func(initJ)) {
	n := len(rep) + len(ec)
	mainSum := len(ec)
	for _, r := range rep {
		mainSum += r.N
	}
	emit := func(limits []int, sum int) {
		for max := 0; max <= sum && max <= 3; max++ {
			if len(limits) == 0 && max == 0 {
				continue
			}
			for _, pf := range []bool{false, true} {
				if pf && max == 0 {
					continue
				}
				f(initJ{On: true, Limits: append([]int{}, limits...), Max: max, Prefer: pf})
			}
		}
	}
	emit(nil, mainSum)
	lim := make([]int, n)
	var rec func(i, sum int)
	rec = func(i, sum int) {
		if i == n {
			if sum > 0 {
				emit(lim, sum)
			}
			return
		}
		hi := 1
		if i < len(rep) {
			hi = rep[i].N
		}
		for v := 0; v <= hi; v++ {
			lim[i] = v
			rec(i+1, sum+v)
		}
	}
	rec(0, 0)
}

func okVectors(m int, f func([]string)) {
	for mask := 0; mask < 1<<m; mask++ {
		ok := make([]string, NN)
		for i := range ok {
			ok[i] = "n"
			if i < m && mask&(1<<i) != 0 {
				ok[i] = "y"
			}
		}
		f(ok)
	}
}

// enumeratePut: families
//
//	rep      1-2 REP rules over lists of <= maxLen of m nodes; REG trusted / signed, TOMBSTONE, LOCK; no initial policy
//	repinit  the same rules, REG trusted / signed, every valid initial policy
//	ec       optional one-node REP rule + 1-2 EC rules (1/1, 2/1; ascending lists of d+p..d+p+1 nodes), REG trusted
//	         with every valid initial policy or none, TOMBSTONE
func enumeratePut(fam string, m, maxLen int, emit func(putScenario)) {
	var repRules []ruleJ
	seqsDistinct(m, maxLen, func(l []int) {
		for n := 1; n <= len(l); n++ {
			repRules = append(repRules, ruleJ{Nodes: l, N: n})
		}
	})
	var repSets [][]ruleJ
	for _, a := range repRules {
		repSets = append(repSets, []ruleJ{a})
	}
	for _, a := range repRules {
		for _, b := range repRules {
			repSets = append(repSets, []ruleJ{a, b})
		}
	}
	off := initJ{Limits: []int{}}
	switch fam {
	case "rep":
		for _, rep := range repSets {
			okVectors(m, func(ok []string) {
				for _, v := range []struct {
					typ string
					tr  bool
				}{{"REG", true}, {"REG", false}, {"TOMB", true}, {"LOCK", true}} {
					emit(putScenario{Typ: v.typ, Trusted: v.tr, Rep: rep, Ec: []ecJ{}, Init: off, Ok: ok})
				}
			})
		}
	case "repinit":
		for _, rep := range repSets {
			validInits(rep, nil, func(ini initJ) {
				okVectors(m, func(ok []string) {
					for _, tr := range []bool{true, false} {
						emit(putScenario{Typ: "REG", Trusted: tr, Rep: rep, Ec: []ecJ{}, Init: ini, Ok: ok})
					}
				})
			})
		}
	case "ec":
		var ecRules []ecJ
		for _, dp := range [][2]int{{1, 1}, {2, 1}} {
			subsetsAsc(m, dp[0]+dp[1], dp[0]+dp[1]+1, func(l []int) {
				ecRules = append(ecRules, ecJ{Nodes: l, D: dp[0], P: dp[1]})
			})
		}
		var ecSets [][]ecJ
		for _, a := range ecRules {
			ecSets = append(ecSets, []ecJ{a})
		}
		for _, a := range ecRules {
			for _, b := range ecRules {
				ecSets = append(ecSets, []ecJ{a, b})
			}
		}
		reps := [][]ruleJ{{}}
		for x := 1; x <= m; x++ {
			reps = append(reps, []ruleJ{{Nodes: []int{x}, N: 1}})
		}
		for _, rep := range reps {
			for _, ec := range ecSets {
				okVectors(m, func(ok []string) {
					emit(putScenario{Typ: "REG", Trusted: true, Rep: rep, Ec: ec, Init: off, Ok: ok})
					emit(putScenario{Typ: "TOMB", Trusted: true, Rep: rep, Ec: ec, Init: off, Ok: ok})
				})
				validInits(rep, ec, func(ini initJ) {
					okVectors(m, func(ok []string) {
						emit(putScenario{Typ: "REG", Trusted: true, Rep: rep, Ec: ec, Init: ini, Ok: ok})
					})
				})
			}
		}
	default:
		panic("unknown family " + fam)
	}
}
