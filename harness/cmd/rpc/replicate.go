package main

import (
	"context"
	"crypto/ecdsa"
	"encoding/json"
	"fmt"
	"os"
	"time"

	"github.com/google/uuid"
	neofscrypto "github.com/nspcc-dev/neofs-sdk-go/crypto"
	neofsecdsa "github.com/nspcc-dev/neofs-sdk-go/crypto/ecdsa"
	"github.com/nspcc-dev/neofs-sdk-go/object"
	protoobject "github.com/nspcc-dev/neofs-sdk-go/proto/object"
	"github.com/nspcc-dev/neofs-sdk-go/proto/refs"

	"verifharness/internal/kit"
)

// ReplIn is the abstract input of one Replicate call (C31).
type ReplIn struct {
	Sig    string `json:"sig"`    // ok | bad | otherkey
	Scheme string `json:"scheme"` // sha512 | rfc6979 | walletconnect | n3 | unknown
	Client string `json:"client"` // cur | prev | none : membership of the signer in the object's container
	Server string `json:"server"` // cur | prev | none : membership of the local node
	Obj    string `json:"obj"`    // valid | badpayload | badheader | nochecksum
	Cnr    string `json:"cnr"`    // known | unknown
}

func schemeSigner(scheme string, k *ecdsa.PrivateKey) (neofscrypto.Signer, refs.SignatureScheme) {
	switch scheme {
	case "rfc6979":
		return neofsecdsa.SignerRFC6979(*k), refs.SignatureScheme_ECDSA_RFC6979_SHA256
	case "walletconnect":
		return neofsecdsa.SignerWalletConnect(*k), refs.SignatureScheme_ECDSA_RFC6979_SHA256_WALLET_CONNECT
	case "n3": // not accepted for replication; bytes signed as sha512
		return neofsecdsa.Signer(*k), refs.SignatureScheme_N3
	case "unknown":
		return neofsecdsa.Signer(*k), refs.SignatureScheme(77)
	}
	return neofsecdsa.Signer(*k), refs.SignatureScheme_ECDSA_SHA512
}

// replicateOnce performs one Replicate call on the real server and returns the record.
func (w *World) replicateOnce(in ReplIn, signObject bool) kit.M {
	d := w.cnrs["pub"]
	obj := w.newObject(d, w.owner, "replica "+uuid.NewString(), "k", "v")
	mo := obj.ProtoMessage()
	switch in.Obj {
	case "badpayload":
		mo.Payload = append([]byte("x"), mo.Payload[1:]...) // same length, other bytes: checksum mismatch
	case "badheader":
		mo.Header.Attributes[0].Value = "tampered" // header no longer hashes to the ID / signature
	case "nochecksum":
		o2 := object.New(d.id, w.owner.UserID())
		o2.SetPayload(obj.Payload())
		o2.SetPayloadSize(uint64(len(obj.Payload())))
		o2.SetID(obj.GetID()) // no checksum, no signature
		mo = o2.ProtoMessage()
	}
	sender := newKey()
	signer, scheme := schemeSigner(in.Scheme, sender)
	id := obj.GetID()
	data := id[:]
	if in.Sig == "bad" {
		data = []byte("something else")
	}
	sig, err := signer.Sign(data)
	kit.Must(err)
	keyBytes := pubBytes(sender)
	if in.Sig == "otherkey" { // a valid signature, but of another key than the one presented
		keyBytes = pubBytes(newKey())
	}
	req := &protoobject.ReplicateRequest{Object: mo, Signature: &refs.Signature{Key: keyBytes, Sign: sig, Scheme: scheme}, SignObject: signObject}

	w.repl = &replCfg{clientKey: keyBytes, client: in.Client, server: in.Server, unknownContainer: in.Cnr == "unknown"}
	defer func() { w.repl = nil }()
	w.maint.Store(false)
	w.rec.Start()
	ctx, cancel := context.WithTimeout(context.Background(), 20*time.Second)
	resp, err := protoobject.NewObjectServiceClient(w.conn).Replicate(ctx, req)
	cancel()
	raw := w.rec.Stop()
	code, grpcErr := 0, grpcErrString(err)
	if err == nil {
		code = int(resp.GetStatus().GetCode())
	}
	stored, verify := false, false
	for _, e := range raw {
		if e["ev"] == "StWrite" {
			stored = true
		}
		if e["ev"] == "StVerifyStore" {
			verify = true
		}
	}
	// independent observation of the effect: is the object in the engine now?
	_, herr := w.eng.Head(context.Background(), obj.Address(), true)
	return kit.M{"in": in, "out": kit.M{"ok": code == 0 && grpcErr == "", "stored": stored, "present": herr == nil, "code": code, "grpc": grpcErr, "verify": verify}}
}

// cmdReplicate: rpc replicate <records.ndjson>: all combinations of the abstract input.
func cmdReplicate(out string) {
	dir, err := os.MkdirTemp("", "rpcworld")
	kit.Must(err)
	w := NewWorld(dir)
	defer w.Close()
	thorough := kit.Thorough()
	rnd := kit.Rand(31)
	sigs := []string{"ok", "bad", "otherkey"}
	schemes := []string{"sha512", "rfc6979", "walletconnect", "n3", "unknown"}
	mem := []string{"cur", "prev", "none"}
	objs := []string{"valid", "badpayload", "badheader", "nochecksum"}
	cnrs := []string{"known"}
	if thorough {
		cnrs = []string{"known", "unknown"}
	}
	var ins []ReplIn
	for _, sg := range sigs {
		for _, sc := range schemes {
			for _, cl := range mem {
				for _, sv := range mem {
					for _, ob := range objs {
						for _, cn := range cnrs {
							ins = append(ins, ReplIn{sg, sc, cl, sv, ob, cn})
						}
					}
				}
			}
		}
	}
	rnd.Shuffle(len(ins), func(i, j int) { ins[i], ins[j] = ins[j], ins[i] })
	wr := kit.NewW(out)
	nOK := 0
	for i, in := range ins {
		rec := w.replicateOnce(in, i%2 == 1 && false)
		if rec["out"].(kit.M)["ok"].(bool) {
			nOK++
		}
		wr.Emit(rec)
	}
	wr.Close()
	b, _ := json.Marshal(kit.M{"records": len(ins), "accepted": nOK})
	fmt.Println(string(b))
}

// cmdReplicateReplay: rpc replicate-replay <replay.json> <records.ndjson>
func cmdReplicateReplay(in, out string) {
	b, err := os.ReadFile(in)
	kit.Must(err)
	var doc struct {
		Replay struct {
			In ReplIn `json:"in"`
		} `json:"replay"`
	}
	kit.Must(json.Unmarshal(b, &doc))
	dir, err := os.MkdirTemp("", "rpcworld")
	kit.Must(err)
	w := NewWorld(dir)
	defer w.Close()
	wr := kit.NewW(out)
	wr.Emit(w.replicateOnce(doc.Replay.In, false))
	wr.Close()
	fmt.Println(`{"records":1}`)
}
