package main

import (
	"context"
	"crypto/ecdsa"
	"encoding/json"
	"fmt"
	"os"
	"time"

	"github.com/google/uuid"
	neofscrypto "github.com/nspcc-dev/neofs-sdk-go/crypto"
	neofsecdsa "github.com/nspcc-dev/neofs-sdk-go/crypto/ecdsa"
	"github.com/nspcc-dev/neofs-sdk-go/object"
	protoobject "github.com/nspcc-dev/neofs-sdk-go/proto/object"
	"github.com/nspcc-dev/neofs-sdk-go/proto/refs"

	"verifharness/internal/kit"
)

// ReplIn is the abstract input of one Replicate call (C31).
type ReplIn struct {
	Sig    string `json:"sig"`    // ok | bad | otherkey
	Scheme string `json:"scheme"` // sha512 | rfc6979 | walletconnect | n3 | unknown
	Client string `json:"client"` // cur | prev | none : membership of the signer in the object's container
	Server string `json:"server"` // cur | prev | none : membership of the local node
	Obj    string `json:"obj"`    // valid | badpayload | badheader | nochecksum
	Cnr    string `json:"cnr"`    // known | unknown
}

func schemeSigner(scheme string, k *ecdsa.PrivateKey) (neofscrypto.Signer, refs.SignatureScheme) {
	switch scheme {
	case "rfc6979":
		return neofsecdsa.SignerRFC6979(*k), refs.SignatureScheme_ECDSA_RFC6979_SHA256
	case "walletconnect":
		return neofsecdsa.SignerWalletConnect(*k), refs.SignatureScheme_ECDSA_RFC6979_SHA256_WALLET_CONNECT
	case "n3": // not accepted for replication; bytes signed as sha512
		return neofsecdsa.Signer(*k), refs.SignatureScheme_N3
	case "unknown":
		return neofsecdsa.Signer(*k), refs.SignatureScheme(77)
	}
	return neofsecdsa.Signer(*k), refs.SignatureScheme_ECDSA_SHA512
}

// replRequest builds a Replicate request with the given abstract defects, signed (or mis-signed) by sender.
// Returns the request, the (undamaged) object and the presented key bytes.
func (w *World) replRequest(sigCls, schemeCls, objCls string, sender *ecdsa.PrivateKey) (*protoobject.ReplicateRequest, *object.Object, []byte) {
	d := w.cnrs["pub"]
	obj := w.newObject(d, w.owner, "replica "+uuid.NewString(), "k", "v")
	mo := obj.ProtoMessage()
	switch objCls {
	case "badpayload":
		mo.Payload = append([]byte("x"), mo.Payload[1:]...) // same length, other bytes: checksum mismatch
	case "badheader":
		mo.Header.Attributes[0].Value = "tampered" // header no longer hashes to the ID / signature
	case "nochecksum":
		o2 := object.New(d.id, w.owner.UserID())
		o2.SetPayload(obj.Payload())
		o2.SetPayloadSize(uint64(len(obj.Payload())))
		o2.SetID(obj.GetID()) // no checksum, no signature
		mo = o2.ProtoMessage()
	}
	signer, scheme := schemeSigner(schemeCls, sender)
	id := obj.GetID()
	data := id[:]
	if sigCls == "bad" {
		data = []byte("something else")
	}
	sig, err := signer.Sign(data)
	kit.Must(err)
	keyBytes := pubBytes(sender)
	if sigCls == "otherkey" { // a valid signature, but of another key than the one presented
		keyBytes = pubBytes(newKey())
	}
	return &protoobject.ReplicateRequest{Object: mo, Signature: &refs.Signature{Key: keyBytes, Sign: sig, Scheme: scheme}}, obj, keyBytes
}

// replicateOnce performs one Replicate call on the real server and returns the record.
func (w *World) replicateOnce(in ReplIn, signObject bool) kit.M {
	req, obj, keyBytes := w.replRequest(in.Sig, in.Scheme, in.Obj, newKey())
	req.SignObject = signObject

	w.repl = &replCfg{clientKey: keyBytes, client: in.Client, server: in.Server, unknownContainer: in.Cnr == "unknown"}
	defer func() { w.repl = nil }()
	w.maint.Store(false)
	w.rec.Start()
	ctx, cancel := context.WithTimeout(context.Background(), 20*time.Second)
	resp, err := protoobject.NewObjectServiceClient(w.conn).Replicate(ctx, req)
	cancel()
	raw := w.rec.Stop()
	code, grpcErr := 0, grpcErrString(err)
	if err == nil {
		code = int(resp.GetStatus().GetCode())
	}
	stored, verify := false, false
	for _, e := range raw {
		if e["ev"] == "StWrite" {
			stored = true
		}
		if e["ev"] == "StVerifyStore" {
			verify = true
		}
	}
	// independent observation of the effect: is the object in the engine now?
	_, herr := w.eng.Head(context.Background(), obj.Address(), true)
	return kit.M{"in": in, "out": kit.M{"ok": code == 0 && grpcErr == "", "stored": stored, "present": herr == nil, "code": code, "grpc": grpcErr, "verify": verify}}
}

// cmdReplicate: rpc replicate <records.ndjson>: all combinations of the abstract input.
func cmdReplicate(out string) {
	dir, err := os.MkdirTemp("", "rpcworld")
	kit.Must(err)
	w := NewWorld(dir)
	defer w.Close()
	thorough := kit.Thorough()
	rnd := kit.Rand(31)
	sigs := []string{"ok", "bad", "otherkey"}
	schemes := []string{"sha512", "rfc6979", "walletconnect", "n3", "unknown"}
	mem := []string{"cur", "prev", "none"}
	objs := []string{"valid", "badpayload", "badheader", "nochecksum"}
	cnrs := []string{"known"}
	if thorough {
		cnrs = []string{"known", "unknown"}
	}
	var ins []ReplIn
	for _, sg := range sigs {
		for _, sc := range schemes {
			for _, cl := range mem {
				for _, sv := range mem {
					for _, ob := range objs {
						for _, cn := range cnrs {
							ins = append(ins, ReplIn{sg, sc, cl, sv, ob, cn})
						}
					}
				}
			}
		}
	}
	rnd.Shuffle(len(ins), func(i, j int) { ins[i], ins[j] = ins[j], ins[i] })
	wr := kit.NewW(out)
	nOK := 0
	for i, in := range ins {
		rec := w.replicateOnce(in, i%2 == 1 && false)
		if rec["out"].(kit.M)["ok"].(bool) {
			nOK++
		}
		wr.Emit(rec)
	}
	wr.Close()
	b, _ := json.Marshal(kit.M{"records": len(ins), "accepted": nOK})
	fmt.Println(string(b))
}

// cmdReplicateReplay: rpc replicate-replay <replay.json> <records.ndjson>
func cmdReplicateReplay(in, out string) {
	b, err := os.ReadFile(in)
	kit.Must(err)
	var doc struct {
		Replay struct {
			In ReplIn `json:"in"`
		} `json:"replay"`
	}
	kit.Must(json.Unmarshal(b, &doc))
	dir, err := os.MkdirTemp("", "rpcworld")
	kit.Must(err)
	w := NewWorld(dir)
	defer w.Close()
	wr := kit.NewW(out)
	wr.Emit(w.replicateOnce(doc.Replay.In, false))
	wr.Close()
	fmt.Println(`{"records":1}`)
}

// ---------------------------------------------------------------------------------------------
// histories: several requests against ONE server instance while epochs advance and membership changes

type histStep struct {
	Ev     string `json:"ev"` // Tick | Req
	C      []bool `json:"c,omitempty"`
	S      bool   `json:"s,omitempty"`
	Snd    int    `json:"snd,omitempty"`
	Sig    string `json:"sig,omitempty"`
	Scheme string `json:"scheme,omitempty"`
	Obj    string `json:"obj,omitempty"`
	Cnr    string `json:"cnr,omitempty"`
}
type histScript struct {
	Steps []histStep `json:"steps"`
	Src   string     `json:"src,omitempty"`
}

const histSenders = 2

// runHistory replays one history on a fresh objectsvc.Server (same world underneath) and appends its events.
func (w *World) runHistory(sc histScript, tw *kit.W) (nReq, nOK int) {
	srv := w.mkSrv()
	keys := make([]*ecdsa.PrivateKey, histSenders)
	h := &histCfg{mem: map[uint64]histMem{}}
	for i := range keys {
		keys[i] = newKey()
		h.keys = append(h.keys, pubBytes(keys[i]))
	}
	w.epoch.Store(curEpoch)
	h.mem[curEpoch] = histMem{c: make([]bool, histSenders)}
	w.hist = h
	defer func() { w.hist = nil; w.epoch.Store(curEpoch) }()
	w.maint.Store(false)
	tw.Emit(kit.M{"ev": "New"})
	for _, st := range sc.Steps {
		switch st.Ev {
		case "Tick":
			c := make([]bool, histSenders)
			copy(c, st.C)
			e := w.epoch.Add(1)
			h.mem[e] = histMem{c: c, s: st.S}
			tw.Emit(kit.M{"ev": "Tick", "c": c, "s": st.S})
		case "Req":
			cnr := st.Cnr
			if cnr == "" {
				cnr = "known"
			}
			req, obj, _ := w.replRequest(st.Sig, st.Scheme, st.Obj, keys[st.Snd-1])
			if cnr == "unknown" {
				panic("unknown container is not part of the history alphabet")
			}
			w.rec.Start()
			ctx, cancel := context.WithTimeout(context.Background(), 20*time.Second)
			resp, err := srv.Replicate(ctx, req)
			cancel()
			raw := w.rec.Stop()
			code := -1
			if err == nil {
				code = int(resp.GetStatus().GetCode())
			}
			stored := false
			for _, e := range raw {
				if e["ev"] == "StWrite" {
					stored = true
				}
			}
			_, herr := w.eng.Head(context.Background(), obj.Address(), true)
			ok := err == nil && code == 0
			nReq++
			if ok {
				nOK++
			}
			tw.Emit(kit.M{"ev": "Req", "snd": st.Snd, "sig": st.Sig, "scheme": st.Scheme, "obj": st.Obj, "cnr": cnr, "code": code,
				"epoch": int(w.epoch.Load() - curEpoch), "out": kit.M{"ok": ok, "stored": stored, "present": herr == nil}})
		default:
			panic("unknown history step " + st.Ev)
		}
	}
	return
}

// cmdReplicateHist: rpc replicate-hist <scripts.ndjson> <trace.ndjson>
func cmdReplicateHist(in, out string) {
	scripts := kit.ReadNDJSON[histScript](in)
	dir, err := os.MkdirTemp("", "rpcworld")
	kit.Must(err)
	w := NewWorld(dir)
	defer w.Close()
	tw := kit.NewW(out)
	nReq, nOK := 0, 0
	for _, sc := range scripts {
		a, b := w.runHistory(sc, tw)
		nReq += a
		nOK += b
	}
	tw.Close()
	b, _ := json.Marshal(kit.M{"histories": len(scripts), "requests": nReq, "accepted": nOK, "events": tw.N})
	fmt.Println(string(b))
}

// cmdReplicateGen: rpc replicate-gen <n> <scripts.ndjson>: seeded random histories, biased towards the interesting
// region (valid requests of few senders, the local node mostly in the container, membership flapping).
func cmdReplicateGen(n int, out string) {
	rnd := kit.Rand(3131)
	wr := kit.NewW(out)
	pick := func(xs []string, w0 int) string { // first element with weight w0, the others 1 each
		k := rnd.Intn(w0 + len(xs) - 1)
		if k < w0 {
			return xs[0]
		}
		return xs[k-w0+1]
	}
	for i := 0; i < n; i++ {
		ln := 3 + rnd.Intn(8)
		var sc histScript
		sc.Src = "random"
		reqs := 0
		for j := 0; j < ln; j++ {
			if rnd.Intn(100) < 45 {
				c := make([]bool, histSenders)
				for k := range c {
					c[k] = rnd.Intn(100) < 45
				}
				sc.Steps = append(sc.Steps, histStep{Ev: "Tick", C: c, S: rnd.Intn(100) < 85})
				continue
			}
			if reqs >= 4 {
				continue
			}
			reqs++
			sc.Steps = append(sc.Steps, histStep{Ev: "Req", Snd: 1 + rnd.Intn(histSenders),
				Sig:    pick([]string{"ok", "bad", "otherkey"}, 12),
				Scheme: pick([]string{"sha512", "rfc6979", "walletconnect", "n3", "unknown"}, 6),
				Obj:    pick([]string{"valid", "badpayload", "badheader", "nochecksum"}, 12),
				Cnr:    "known"})
		}
		wr.Emit(sc)
	}
	wr.Close()
}
