// Command rpc is the conformance harness of family `rpc` (C45, C29, C31, C32).
//
//	rpc methods                       print the RPCs of ObjectServiceServer (reflection) and which have drivers
//	rpc obj <out.ndjson> [c45|c29]    call every object RPC with every request class, write the call traces
//	rpc replicate <out.ndjson>        enumerate Replicate inputs (C31), write {in,out} records
//	rpc control <out.ndjson>          enumerate control-plane methods x signature classes (C32), write call traces
//	rpc replay-obj <in.json> <out>    re-run one stored object call
package main

import (
	"encoding/json"
	"fmt"
	"os"
	"strconv"

	"verifharness/internal/kit"
)

func main() {
	if len(os.Args) < 2 {
		fmt.Fprintln(os.Stderr, "usage: rpc <methods|obj|replicate|control|...>")
		os.Exit(2)
	}
	switch os.Args[1] {
	case "methods":
		out := kit.M{}
		for _, m := range serviceMethods() {
			_, ok := drivers[m]
			out[m] = ok
		}
		b, _ := json.Marshal(out)
		fmt.Println(string(b))
	case "try":
		cmdTry()
	case "obj":
		cmdObj(os.Args[2], os.Args[3], os.Args[4])
	case "replicate":
		cmdReplicate(os.Args[2])
	case "replicate-hist":
		cmdReplicateHist(os.Args[2], os.Args[3])
	case "replicate-gen":
		n, err := strconv.Atoi(os.Args[2])
		kit.Must(err)
		cmdReplicateGen(n, os.Args[3])
	case "replicate-replay":
		cmdReplicateReplay(os.Args[2], os.Args[3])
	case "control":
		cmdControl(os.Args[2], os.Args[3])
	case "control-replay":
		cmdControlReplay(os.Args[2], os.Args[3], os.Args[4])
	case "obj-replay":
		cmdObjReplay(os.Args[2], os.Args[3], os.Args[4])
	default:
		fmt.Fprintln(os.Stderr, "unknown command", os.Args[1])
		os.Exit(2)
	}
}

func cmdTry() {
	dir, err := os.MkdirTemp("", "rpcworld")
	kit.Must(err)
	w := NewWorld(dir)
	defer w.Close()
	base := Class{Sig: "ok", Body: "ok", Tok: "none", Basic: true, EReq: "allow", EHdr: "na", Cnr: "pub", Obj: "local", TTL: 1, As: "other"}
	if len(os.Args) > 3 {
		kit.Must(json.Unmarshal([]byte(os.Args[3]), &base))
	}
	ms := serviceMethods()
	if len(os.Args) > 2 && os.Args[2] != "all" {
		ms = []string{os.Args[2]}
	}
	for _, m := range ms {
		if drivers[m] == nil {
			fmt.Println(m, "unmodelled")
			continue
		}
		for _, e := range w.Call(m, base) {
			b, _ := json.Marshal(e)
			fmt.Println(string(b))
		}
		fmt.Println()
	}
}
