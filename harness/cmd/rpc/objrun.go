package main

import (
	"encoding/json"
	"fmt"
	"os"
	"sort"

	"verifharness/internal/kit"
)

// project maps the raw events of the recording leaves onto the event alphabet of spec/ObjectRPC.tla.
func project(raw []kit.M) []kit.M {
	var out []kit.M
	for _, e := range raw {
		switch e["ev"] {
		case "Recv":
			out = append(out, kit.M{"ev": "Recv", "m": e["m"], "cls": e["cls"]})
		case "Maint":
			out = append(out, kit.M{"ev": "Maint", "ok": e["res"]})
		case "Tok", "Info", "Basic", "Sticky":
			out = append(out, kit.M{"ev": e["ev"], "ok": e["ok"]})
		case "EACLBegin":
			out = append(out, kit.M{"ev": "EACLBegin", "a": e["phase"]})
		case "EACL":
			out = append(out, kit.M{"ev": "EACL", "a": e["phase"], "res": e["res"]})
		case "Handler":
			out = append(out, kit.M{"ev": "Eff", "a": "handler"})
		case "StRead":
			out = append(out, kit.M{"ev": "Eff", "a": "read"})
		case "StWrite", "StVerifyStore":
			out = append(out, kit.M{"ev": "Eff", "a": "write"})
		case "Conn":
			out = append(out, kit.M{"ev": "Eff", "a": "conn"})
		case "Remote":
			out = append(out, kit.M{"ev": "Eff", "a": "remote"})
		case "Send":
			switch e["kind"] {
			case "hdr", "chunk", "result", "split":
				out = append(out, kit.M{"ev": "Data", "a": e["kind"]})
			}
		case "Flip":
			out = append(out, kit.M{"ev": "Flip"})
		case "Reply":
			out = append(out, kit.M{"ev": "Reply", "code": e["code"], "grpc": e["grpc"]})
		default:
			panic(fmt.Sprintf("unknown raw event %v", e))
		}
	}
	return out
}

// truth fills the ACL ground truth of a scenario (who asks what about which object in which container).
func truth(m string, c Class) Class {
	if c.Sig == "exempt" { // authenticated container node, no verification header, TTL 1: author = the peer's TLS key, role CONTAINER
		c.Basic = m == "Get" || m == "Head" || m == "SearchV2" || m == "Put" // system role: no DELETE / RANGE in the basic ACL words of the world
		c.EReq, c.EHdr = "allow", "na"                                       // eACL does not apply to the system role
		return c
	}
	owner := c.As == "owner" || c.Tok == "ok" || c.Tok == "expired" || c.Tok == "badsig" || c.Tok == "wrongverb" // a session token makes its issuer (the owner) the author
	c.Basic = owner || c.Cnr != "priv"
	c.EReq, c.EHdr = "allow", "na"
	if owner || c.Tok == "bearer_ok" { // eACL rules of the world target OTHERS; a bearer token carries its own (empty) table
		return c
	}
	switch c.Cnr {
	case "denyreq":
		c.EReq = "deny"
	case "denyhdr", "allowhdr":
		deny := c.Cnr == "denyhdr"
		switch m {
		case "Put": // the header travels in the request
			if deny {
				c.EReq = "deny"
			}
		case "Get", "Head":
			if c.Obj == "local" { // header found in the local storage by the request-time evaluation
				if deny {
					c.EReq = "deny"
				}
			} else {
				c.EReq = "nm"
				c.EHdr = "allow"
				if deny {
					c.EHdr = "deny"
				}
			}
		}
	}
	return c
}

// flagsOf lists the request flags of the op that change the shape of the reply.
func flagsOf(m string) []string {
	switch m {
	case "Get":
		return []string{"payload_only", "raw", "range", "xrange", "payload_only+range", "payload_only+xrange", "payload_only+raw"}
	case "Head":
		return []string{"raw", "main_only", "raw+main_only"}
	case "GetRange":
		return []string{"raw"}
	case "SearchV2":
		return []string{"q_attr", "q_notpresent", "q_numgt"}
	}
	return nil
}

type callSpec struct {
	M   string `json:"m"`
	Cls Class  `json:"cls"`
}

func valid(cnr, obj, as string, ttl int, tok string) Class {
	return Class{Sig: "ok", Body: "ok", Tok: tok, Cnr: cnr, Obj: obj, TTL: ttl, As: as}
}

// validScenarios: requests valid in every respect (they differ in who asks, where the object lives, how far the request may travel).
func validScenarios(m string, thorough bool) []Class {
	var out []Class
	objs := []string{"local"}
	if m == "Get" || m == "Head" || m == "GetRange" {
		objs = []string{"local", "remote", "late"}
	}
	for _, obj := range objs {
		for _, ttl := range []int{1, 2} {
			if obj == "remote" && ttl == 1 {
				continue // not found locally: a valid request, but nothing to serve
			}
			out = append(out, valid("pub", obj, "other", ttl, "none"))
			out = append(out, valid("priv", obj, "owner", ttl, "none"))
			out = append(out, valid("allowhdr", obj, "other", ttl, "none"))
			if thorough {
				out = append(out, valid("pub", obj, "owner", ttl, "none"), valid("denyhdr", obj, "owner", ttl, "none"),
					valid("denyreq", obj, "owner", ttl, "none"), valid("allowhdr", obj, "owner", ttl, "none"))
			}
		}
	}
	// request flags that change the shape of the reply, crossed with where the object lives and with the header-time eACL stage
	for _, fl := range flagsOf(m) {
		for _, sc := range [][3]any{{"pub", "local", 1}, {"pub", "remote", 2}, {"allowhdr", "remote", 2}, {"allowhdr", "late", 1}} {
			c := valid(sc[0].(string), sc[1].(string), "other", sc[2].(int), "none")
			c.Flags = fl
			out = append(out, c)
		}
	}
	// PUT: maintenance switched on in mid-stream (heading accepted before, a later message arrives under maintenance)
	if m == "Put" {
		for _, at := range []string{"chunk1", "chunk2"} {
			for _, ttl := range []int{1, 2} {
				c := valid("pub", "local", "other", ttl, "none")
				c.MaintAt = at
				out = append(out, c)
			}
			c := valid("priv", "local", "owner", 1, "none")
			c.MaintAt = at
			out = append(out, c)
		}
	}
	// authenticated container node (mTLS), TTL 1, no verification header: the documented exemption
	if m == "Get" || m == "Head" || m == "SearchV2" || m == "Put" {
		c := valid("pub", "local", "peer", 1, "none")
		c.Sig, c.Peer = "exempt", "mtls"
		out = append(out, c)
	}
	out = append(out, valid("pub", "local", "other", 1, "bearer_ok"))
	if m != "Delete" { // a session token for DELETE needs the node-side session key (session service), outside this world
		out = append(out, valid("pub", "local", "other", 1, "ok"), valid("priv", "local", "other", 1, "ok"))
	}
	return out
}

// failingScenarios: exactly one thing is wrong with each of them.
func failingScenarios(m string, thorough bool) []Class {
	var out []Class
	mod := func(base Class, f func(*Class)) { f(&base); out = append(out, base) }
	bases := []Class{valid("pub", "local", "other", 1, "none")}
	if thorough {
		bases = append(bases, valid("pub", "local", "other", 2, "none"), valid("priv", "local", "owner", 1, "none"))
		if m == "Get" || m == "Head" || m == "GetRange" {
			bases = append(bases, valid("pub", "remote", "other", 2, "none"))
		}
	}
	for _, b := range bases {
		for _, s := range []string{"none", "bad"} {
			mod(b, func(c *Class) { c.Sig = s })
		}
		if m == "Put" {
			mod(b, func(c *Class) { c.Sig = "chunkbad" })
			mod(b, func(c *Class) { c.Sig = "chunknone" })
		}
		for _, s := range []string{"missing", "badaddr"} {
			mod(b, func(c *Class) { c.Body = s })
		}
		for _, s := range []string{"expired", "badsig", "wrongverb", "bearer_expired", "bearer_badsig"} {
			mod(b, func(c *Class) { c.Tok = s })
		}
	}
	// signature classes that depend on the transport: a verification header that is present but invalid must be refused
	// even from an authenticated peer with TTL 1; an authenticated peer with TTL > 1 still needs a signature
	for _, pc := range []struct {
		peer, sig string
		ttl       int
	}{{"mtls", "forged", 1}, {"", "forged", 1}, {"mtls", "none", 2}, {"mtls", "bad", 1}, {"mtls", "forged", 2}} {
		c := valid("pub", "local", "other", pc.ttl, "none")
		c.Peer, c.Sig = pc.peer, pc.sig
		out = append(out, c)
		if thorough {
			c.Cnr, c.As = "priv", "owner"
			out = append(out, c)
		}
	}
	if m == "Delete" || m == "GetRange" { // the exemption lets the peer in, the basic ACL (system role) refuses
		c := valid("pub", "local", "peer", 1, "none")
		c.Sig, c.Peer = "exempt", "mtls"
		out = append(out, c)
	}
	// eACL at header time x every reply shape, local ("late") and fetched copies
	for _, fl := range flagsOf(m) {
		for _, sc := range [][2]any{{"remote", 2}, {"late", 1}, {"late", 2}} {
			c := valid("denyhdr", sc[0].(string), "other", sc[1].(int), "none")
			c.Flags = fl
			out = append(out, c)
		}
		c := valid("denyhdr", "local", "other", 1, "none") // denied at request time through the local header lookup
		c.Flags = fl
		out = append(out, c)
		c = valid("denyreq", "remote", "other", 2, "none")
		c.Flags = fl
		out = append(out, c)
	}
	for _, ttl := range []int{1, 2} {
		out = append(out, valid("priv", "local", "other", ttl, "none"))    // basic ACL
		out = append(out, valid("denyreq", "local", "other", ttl, "none")) // eACL on the request
		out = append(out, valid("denyhdr", "local", "other", ttl, "none")) // eACL on the request, header looked up locally (Get/Head), in the request (Put)
		if m == "Get" || m == "Head" {
			out = append(out, valid("denyhdr", "late", "other", ttl, "none")) // eACL at header time, local copy
			if ttl == 2 {
				out = append(out, valid("denyhdr", "remote", "other", ttl, "none")) // eACL at header time, copy of another node
			}
		}
		if !thorough {
			break
		}
	}
	if m == "Get" || m == "Head" {
		out = append(out, valid("denyhdr", "remote", "other", 2, "none"), valid("denyhdr", "late", "other", 2, "none"))
	}
	return out
}

// cmdObj: rpc obj <mode> <trace.ndjson> <calls.ndjson>
func cmdObj(mode, tracePath, callsPath string) {
	thorough := kit.Thorough()
	rnd := kit.Rand(29)
	methods := serviceMethods()
	status := kit.M{}
	var calls []callSpec
	for _, m := range methods {
		switch {
		case m == "Replicate":
			status[m] = "outside (not a client operation; decided by C31)"
			continue
		case drivers[m] == nil || os.Getenv("VERIF_RPC_FORGET") == m: // the env knob simulates an RPC added to the service without a driver
			status[m] = "unmodelled"
			continue
		}
		status[m] = "modelled"
		if !clientOps[m] { // legacy RPCs: any request must be refused without effect
			calls = append(calls, callSpec{m, truth(m, valid("pub", "local", "other", 1, "none"))})
			calls = append(calls, callSpec{m, truth(m, valid("pub", "local", "owner", 2, "none"))})
			mc := truth(m, valid("pub", "local", "other", 1, "none"))
			mc.Maint = true
			calls = append(calls, callSpec{m, mc})
			continue
		}
		vs := validScenarios(m, thorough)
		for _, c := range vs {
			c = truth(m, c)
			calls = append(calls, callSpec{m, c}) // control: maintenance off (or switched on in mid-stream)
			if c.MaintAt != "" {
				continue
			}
			c.Maint = true
			calls = append(calls, callSpec{m, c})
		}
		if mode == "c29" {
			for _, c := range failingScenarios(m, thorough) {
				c = truth(m, c)
				calls = append(calls, callSpec{m, c})
				if thorough {
					c.Maint = true
					calls = append(calls, callSpec{m, c})
				}
			}
		}
	}
	// the order of the calls (hence the state of token / session caches they meet) depends on the seed;
	// the thorough tier repeats the enumeration in 3 fresh worlds with different orders
	rounds := 1
	if thorough {
		rounds = 3
	}
	var all [][]callSpec
	for r := 0; r < rounds; r++ {
		cs := append([]callSpec(nil), calls...)
		rnd.Shuffle(len(cs), func(i, j int) { cs[i], cs[j] = cs[j], cs[i] })
		all = append(all, cs)
	}
	runCalls(all, tracePath, callsPath, status)
}

// runCalls runs every batch of calls in a fresh world.
func runCalls(batches [][]callSpec, tracePath, callsPath string, status kit.M) {
	tw, cw := kit.NewW(tracePath), kit.NewW(callsPath)
	perMethod := map[string]int{}
	n := 0
	for _, calls := range batches {
		dir, err := os.MkdirTemp("", "rpcworld")
		kit.Must(err)
		w := NewWorld(dir)
		for _, cs := range calls {
			raw := w.Call(cs.M, cs.Cls)
			first := tw.N + 1
			for _, e := range project(raw) {
				tw.Emit(e)
			}
			cw.Emit(kit.M{"i": n, "m": cs.M, "cls": cs.Cls, "first": first, "last": tw.N, "raw": raw})
			perMethod[cs.M]++
			n++
		}
		w.Close()
	}
	tw.Close()
	cw.Close()
	var ms []string
	for m := range perMethod {
		ms = append(ms, m)
	}
	sort.Strings(ms)
	b, _ := json.Marshal(kit.M{"methods": status, "calls": n, "per_method": perMethod, "events": tw.N})
	fmt.Println(string(b))
}

// cmdObjReplay: rpc obj-replay <replay.json> <trace.ndjson> <calls.ndjson>: re-run stored calls in a fresh world
func cmdObjReplay(in, tracePath, callsPath string) {
	b, err := os.ReadFile(in)
	kit.Must(err)
	var doc struct {
		Replay struct {
			Calls []callSpec `json:"calls"`
		} `json:"replay"`
	}
	kit.Must(json.Unmarshal(b, &doc))
	runCalls([][]callSpec{doc.Replay.Calls}, tracePath, callsPath, kit.M{})
}
