package main

import (
	"context"
	"crypto/ecdsa"
	"crypto/elliptic"
	"crypto/rand"
	"errors"
	"fmt"
	"io"
	"math"
	"net"
	"os"
	"path/filepath"
	"sync/atomic"
	"time"

	"github.com/nspcc-dev/neo-go/pkg/core/block"
	"github.com/nspcc-dev/neo-go/pkg/core/transaction"
	"github.com/nspcc-dev/neo-go/pkg/crypto/keys"
	"github.com/nspcc-dev/neo-go/pkg/neorpc/result"
	"github.com/nspcc-dev/neo-go/pkg/smartcontract/trigger"
	neoutil "github.com/nspcc-dev/neo-go/pkg/util"
	clientcore "github.com/nspcc-dev/neofs-node/pkg/core/client"
	objectcore "github.com/nspcc-dev/neofs-node/pkg/core/object"
	"github.com/nspcc-dev/neofs-node/pkg/local_object_storage/blobstor/common"
	"github.com/nspcc-dev/neofs-node/pkg/local_object_storage/blobstor/fstree"
	"github.com/nspcc-dev/neofs-node/pkg/local_object_storage/engine"
	meta "github.com/nspcc-dev/neofs-node/pkg/local_object_storage/metabase"
	"github.com/nspcc-dev/neofs-node/pkg/local_object_storage/shard"
	"github.com/nspcc-dev/neofs-node/pkg/network/peerauth"
	objectsvc "github.com/nspcc-dev/neofs-node/pkg/services/object"
	aclreal "github.com/nspcc-dev/neofs-node/pkg/services/object/acl"
	aclsvc "github.com/nspcc-dev/neofs-node/pkg/services/object/acl/v2"
	svccommon "github.com/nspcc-dev/neofs-node/pkg/services/object/common"
	deletesvc "github.com/nspcc-dev/neofs-node/pkg/services/object/delete"
	getsvc "github.com/nspcc-dev/neofs-node/pkg/services/object/get"
	putsvc "github.com/nspcc-dev/neofs-node/pkg/services/object/put"
	objutil "github.com/nspcc-dev/neofs-node/pkg/services/object/util"
	sessionstorage "github.com/nspcc-dev/neofs-node/pkg/util/state/session"
	"github.com/nspcc-dev/neofs-node/pkg/util/verifexport"
	"github.com/nspcc-dev/neofs-sdk-go/bearer"
	"github.com/nspcc-dev/neofs-sdk-go/client"
	apistatus "github.com/nspcc-dev/neofs-sdk-go/client/status"
	"github.com/nspcc-dev/neofs-sdk-go/container"
	"github.com/nspcc-dev/neofs-sdk-go/container/acl"
	cid "github.com/nspcc-dev/neofs-sdk-go/container/id"
	"github.com/nspcc-dev/neofs-sdk-go/eacl"
	"github.com/nspcc-dev/neofs-sdk-go/netmap"
	"github.com/nspcc-dev/neofs-sdk-go/object"
	oid "github.com/nspcc-dev/neofs-sdk-go/object/id"
	protoacl "github.com/nspcc-dev/neofs-sdk-go/proto/acl"
	protoobject "github.com/nspcc-dev/neofs-sdk-go/proto/object"
	iprotobuf "github.com/nspcc-dev/neofs-sdk-go/proto/protobuf"
	"github.com/nspcc-dev/neofs-sdk-go/proto/refs"
	protosession "github.com/nspcc-dev/neofs-sdk-go/proto/session"
	protostatus "github.com/nspcc-dev/neofs-sdk-go/proto/status"
	"github.com/nspcc-dev/neofs-sdk-go/session"
	sessionv2 "github.com/nspcc-dev/neofs-sdk-go/session/v2"
	"github.com/nspcc-dev/neofs-sdk-go/stat"
	"github.com/nspcc-dev/neofs-sdk-go/user"
	"github.com/nspcc-dev/neofs-sdk-go/version"
	"go.uber.org/zap"
	"google.golang.org/grpc"
	"google.golang.org/grpc/credentials"
	"google.golang.org/grpc/credentials/insecure"
	"google.golang.org/grpc/mem"
	"google.golang.org/grpc/test/bufconn"
	"google.golang.org/protobuf/proto"

	"verifharness/internal/kit"
)

const (
	curEpoch      = 10
	epochDuration = 240
	secretKey     = "secret"
	secretVal     = "yes"
	maxObjSize    = 1 << 20
)

func newKey() *ecdsa.PrivateKey {
	k, err := ecdsa.GenerateKey(elliptic.P256(), rand.Reader)
	kit.Must(err)
	return k
}

func pubBytes(k *ecdsa.PrivateKey) []byte { return (*keys.PublicKey)(&k.PublicKey).Bytes() }

// cnrDesc is one container of the world.
type cnrDesc struct {
	name   string
	id     cid.ID
	cnr    container.Container
	eacl   *eacl.Table
	local  *object.Object // stored in the local engine
	remote *object.Object // held only by the (fake) peer container node
	late   *object.Object // stored locally, but invisible to reads made while an eACL check runs ("arrives late")
}

// World is a real objectsvc.Server wired to real sub-services (get/put/delete, ACL) whose leaves are
// recording fakes.
type World struct {
	rec *Recorder
	dir string

	nodeKey, ownerKey, otherKey, peerKey, irKey, strangerKey *ecdsa.PrivateKey
	owner, other                                             user.Signer

	cnrs map[string]*cnrDesc
	byID map[cid.ID]*cnrDesc

	maint     atomic.Bool
	inEACL    atomic.Int32
	eng       *engine.StorageEngine
	srv       *objectsvc.Server
	put       *putsvc.Service
	grpcSrv   *grpc.Server
	conn      *grpc.ClientConn
	grpcTLS   *grpc.Server     // the same service behind a transport that reports every peer as TLS-authenticated
	connTLS   *grpc.ClientConn // ... as the fake peer container node
	peerSrv   *grpc.Server
	peerConn  *grpc.ClientConn
	closeFns  []func()
	lateAddrs map[oid.Address]bool
	repl      *replCfg // C31: container membership override, nil = {node, peer} in both epochs
	hist      *histCfg // C31 histories: per-epoch membership, takes precedence over repl
	epoch     atomic.Uint64
	mkSrv     func() *objectsvc.Server // a fresh objectsvc.Server over the same dependencies
}

// histCfg is the FS chain's view of the container(s) during one replayed history: who is a container node in which epoch.
type histCfg struct {
	keys [][]byte // sender keys, index = sender number - 1
	mem  map[uint64]histMem
}
type histMem struct {
	c []bool // per sender
	s bool   // local node
}

// replCfg describes who belongs to every container for a Replicate call: "cur" | "prev" | "none".
type replCfg struct {
	clientKey        []byte
	client, server   string
	unknownContainer bool
}

// ---------------------------------------------------------------------------------------------
// FS chain / network fakes (pure data providers, not effects; LocalNodeUnderMaintenance is logged)

type chain struct{ w *World }

func (c chain) Get(id cid.ID) (container.Container, error) {
	d, ok := c.w.byID[id]
	if !ok {
		return container.Container{}, apistatus.ErrContainerNotFound
	}
	return d.cnr, nil
}
func (c chain) CurrentEpoch() uint64         { return c.w.epoch.Load() }
func (c chain) CurrentBlock() uint32         { return uint32(c.w.epoch.Load() * epochDuration) }
func (c chain) CurrentEpochDuration() uint64 { return epochDuration }
func (c chain) InvokeContainedScript(*transaction.Transaction, *block.Header, *trigger.Type, *bool) (*result.Invoke, error) {
	return nil, errors.New("N3 witnesses are not modelled")
}
func (c chain) nodes() []netmap.NodeInfo {
	var a, b netmap.NodeInfo
	a.SetPublicKey(pubBytes(c.w.nodeKey))
	a.SetNetworkEndpoints("/ip4/127.0.0.1/tcp/1")
	b.SetPublicKey(pubBytes(c.w.peerKey))
	b.SetNetworkEndpoints("/ip4/127.0.0.1/tcp/2")
	return []netmap.NodeInfo{a, b}
}
func (c chain) histMembers(id cid.ID, f func([]byte) bool, prevToo bool) error {
	h := c.w.hist
	if _, ok := c.w.byID[id]; !ok {
		return apistatus.ErrContainerNotFound
	}
	if !f(pubBytes(c.w.peerKey)) { // some third node is always there
		return nil
	}
	e := c.w.epoch.Load()
	eps := []uint64{e}
	if prevToo {
		eps = append(eps, e-1)
	}
	for _, ep := range eps {
		m, ok := h.mem[ep]
		if !ok {
			continue
		}
		for i, in := range m.c {
			if in && !f(h.keys[i]) {
				return nil
			}
		}
		if m.s && !f(pubBytes(c.w.nodeKey)) {
			return nil
		}
	}
	return nil
}
func (c chain) replMembers(id cid.ID, f func([]byte) bool, prevToo bool) error {
	if c.w.hist != nil {
		return c.histMembers(id, f, prevToo)
	}
	r := c.w.repl
	if _, ok := c.w.byID[id]; !ok || r.unknownContainer {
		return apistatus.ErrContainerNotFound
	}
	in := func(st string) bool { return st == "cur" || prevToo && st == "prev" }
	if !f(pubBytes(c.w.peerKey)) { // some third node is always there
		return nil
	}
	if in(r.client) && !f(r.clientKey) {
		return nil
	}
	if in(r.server) && !f(pubBytes(c.w.nodeKey)) {
		return nil
	}
	return nil
}
func (c chain) ForEachContainerNodePublicKey(id cid.ID, f func([]byte) bool) error {
	if c.w.repl != nil || c.w.hist != nil {
		return c.replMembers(id, f, false)
	}
	if _, ok := c.w.byID[id]; !ok {
		return apistatus.ErrContainerNotFound
	}
	for _, n := range c.nodes() {
		if !f(n.PublicKey()) {
			return nil
		}
	}
	return nil
}
func (c chain) ForEachContainerNodePublicKeyInLastTwoEpochs(id cid.ID, f func([]byte) bool) error {
	if c.w.repl != nil || c.w.hist != nil {
		return c.replMembers(id, f, true)
	}
	return c.ForEachContainerNodePublicKey(id, f)
}
func (c chain) SelectContainerNodes(id cid.ID) ([][]netmap.NodeInfo, []uint, []verifexport.RPCECRule, error) {
	if _, ok := c.w.byID[id]; !ok {
		return nil, nil, nil, apistatus.ErrContainerNotFound
	}
	return [][]netmap.NodeInfo{c.nodes()}, []uint{2}, nil, nil
}
func (c chain) IsOwnPublicKey(pub []byte) bool { return string(pub) == string(pubBytes(c.w.nodeKey)) }
func (c chain) LocalNodeUnderMaintenance() bool {
	m := c.w.maint.Load()
	c.w.rec.Emit("Maint", "res", m)
	return m
}

// ACL service's view of the chain.
func (c chain) InContainerInLastTwoEpochs(id cid.ID, pub []byte) (bool, error) {
	for _, n := range c.nodes() {
		if string(n.PublicKey()) == string(pub) {
			return true, nil
		}
	}
	return false, nil
}
func (c chain) HasUserInNNS(string, neoutil.Uint160) (bool, error) { return false, nil }

type netmapper struct{ chain }

func (n netmapper) GetNetMapByEpoch(uint64) (*netmap.NetMap, error) { return n.NetMap() }
func (n netmapper) Epoch() (uint64, error)                          { return curEpoch, nil }
func (n netmapper) NetMap() (*netmap.NetMap, error) {
	var nm netmap.NetMap
	nm.SetEpoch(curEpoch)
	nm.SetNodes(n.nodes())
	return &nm, nil
}
func (n netmapper) ServerInContainer(cid.ID) (bool, error)     { return true, nil }
func (n netmapper) GetEpochBlock(e uint64) (uint32, error)     { return uint32(e * epochDuration), nil }
func (n netmapper) GetEpochBlockByTime(uint32) (uint32, error) { return curEpoch * epochDuration, nil }
func (n netmapper) InnerRingKeys() [][]byte                    { return [][]byte{pubBytes(n.w.irKey)} }
func (n netmapper) Now() time.Time                             { return time.Unix(1_700_000_000, 0) }
func (n netmapper) GetEACL(id cid.ID) (eacl.Table, error) {
	d, ok := n.w.byID[id]
	if !ok || d.eacl == nil {
		return eacl.Table{}, apistatus.ErrEACLNotFound
	}
	return *d.eacl, nil
}

// getsvc / putsvc network views
type objNet struct{ chain }

func (n objNet) GetNodesForObject(a oid.Address) ([][]netmap.NodeInfo, []uint, []verifexport.RPCECRule, error) {
	return n.SelectContainerNodes(a.Container())
}
func (n objNet) IsLocalNodePublicKey(pub []byte) bool { return n.IsOwnPublicKey(pub) }
func (n objNet) GetContainerNodes(id cid.ID) (putsvc.ContainerNodes, error) {
	if _, ok := n.w.byID[id]; !ok {
		return nil, apistatus.ErrContainerNotFound
	}
	return cnrNodes{n.nodes()}, nil
}
func (n objNet) GetEpochBlock(e uint64) (uint32, error)     { return uint32(e * epochDuration), nil }
func (n objNet) GetEpochBlockByTime(uint32) (uint32, error) { return curEpoch * epochDuration, nil }

type cnrNodes struct{ ns []netmap.NodeInfo }

func (c cnrNodes) Unsorted() [][]netmap.NodeInfo { return [][]netmap.NodeInfo{c.ns} }
func (c cnrNodes) SortForObject(oid.ID) ([][]netmap.NodeInfo, error) {
	return [][]netmap.NodeInfo{c.ns}, nil
}
func (c cnrNodes) PrimaryCounts() []uint            { return []uint{2} }
func (c cnrNodes) ECRules() []verifexport.RPCECRule { return nil }

type quotas struct{}

func (quotas) AvailableQuotasLeft(cid.ID, user.ID) (uint64, uint64, error) {
	return math.MaxUint64, math.MaxUint64, nil
}

type payments struct{}

func (payments) UnpaidSince(cid.ID) (int64, error) { return -1, nil }

type maxSize struct{}

func (maxSize) MaxObjectSize() uint64 { return maxObjSize }

type nopSplit struct{}

func (nopSplit) VerifySplit(context.Context, cid.ID, oid.ID, []object.MeasuredObject) error {
	return nil
}

type nopTomb struct{}

func (nopTomb) VerifyTomb(context.Context, cid.ID, object.Tombstone) error { return nil }
func (nopTomb) VerifyTombStoneWithoutPayload(context.Context, object.Object) error {
	return nil
}

type nopPostPlacement struct{}

func (nopPostPlacement) HandlePostPlacement(*object.Object, []netmap.NodeInfo) {}

type delNet struct{ w *World }

func (d delNet) CurrentEpoch() uint64               { return curEpoch }
func (d delNet) TombstoneLifetime() (uint64, error) { return 5, nil }
func (d delNet) LocalNodeID() user.ID               { return user.NewFromECDSAPublicKey(d.w.nodeKey.PublicKey) }

type noSessions struct{}

func (noSessions) GetToken(user.ID) *sessionstorage.PrivateToken                       { return nil }
func (noSessions) FindTokenBySubjects([]sessionv2.Target) *sessionstorage.PrivateToken { return nil }

// ---------------------------------------------------------------------------------------------
// recording leaves

// recBlob decorates the shard's blobstor: every object-data access is an event.
type recBlob struct {
	common.Storage
	w *World
}

func (b recBlob) hidden(a oid.Address) bool {
	return b.w.inEACL.Load() > 0 && b.w.lateAddrs[a]
}
func (b recBlob) rd(op string, a oid.Address) error {
	b.w.rec.Emit("StRead", "op", op)
	if b.hidden(a) {
		return apistatus.ErrObjectNotFound
	}
	return nil
}
func (b recBlob) GetBytes(a oid.Address) ([]byte, error) {
	if err := b.rd("GetBytes", a); err != nil {
		return nil, err
	}
	return b.Storage.GetBytes(a)
}
func (b recBlob) Get(a oid.Address) (*object.Object, error) {
	if err := b.rd("Get", a); err != nil {
		return nil, err
	}
	return b.Storage.Get(a)
}
func (b recBlob) GetRangeStream(a oid.Address, r common.PayloadRange, h bool) (*object.Object, uint64, io.ReadCloser, error) {
	if err := b.rd("GetRangeStream", a); err != nil {
		return nil, 0, nil, err
	}
	return b.Storage.GetRangeStream(a, r, h)
}
func (b recBlob) GetStream(a oid.Address) (*object.Object, io.ReadCloser, error) {
	if err := b.rd("GetStream", a); err != nil {
		return nil, nil, err
	}
	return b.Storage.GetStream(a)
}
func (b recBlob) Head(a oid.Address) (*object.Object, error) {
	if err := b.rd("Head", a); err != nil {
		return nil, err
	}
	return b.Storage.Head(a)
}
func (b recBlob) ReadHeader(a oid.Address, buf []byte) (int, error) {
	if err := b.rd("ReadHeader", a); err != nil {
		return 0, err
	}
	return b.Storage.ReadHeader(a, buf)
}
func (b recBlob) ReadObject(a oid.Address, buf []byte) (int, io.ReadCloser, error) {
	if err := b.rd("ReadObject", a); err != nil {
		return 0, nil, err
	}
	return b.Storage.ReadObject(a, buf)
}
func (b recBlob) ReadPayloadRange(a oid.Address, off, ln uint64, buf []byte, f func([]byte) error) (io.ReadCloser, error) {
	if err := b.rd("ReadPayloadRange", a); err != nil {
		return nil, err
	}
	return b.Storage.ReadPayloadRange(a, off, ln, buf, f)
}
func (b recBlob) ReadObjectParts(buf []byte, a oid.Address, r common.PayloadRange, f func([]byte) error) (int, io.ReadCloser, error) {
	if err := b.rd("ReadObjectParts", a); err != nil {
		return 0, nil, err
	}
	return b.Storage.ReadObjectParts(buf, a, r, f)
}
func (b recBlob) Exists(a oid.Address) (bool, error) {
	if err := b.rd("Exists", a); err != nil {
		return false, nil
	}
	return b.Storage.Exists(a)
}
func (b recBlob) Put(a oid.Address, d []byte) error {
	b.w.rec.Emit("StWrite", "op", "Put")
	return b.Storage.Put(a, d)
}
func (b recBlob) PutBatch(m map[oid.Address][]byte) error {
	b.w.rec.Emit("StWrite", "op", "PutBatch")
	return b.Storage.PutBatch(m)
}
func (b recBlob) Delete(a oid.Address) error {
	b.w.rec.Emit("StWrite", "op", "Delete")
	return b.Storage.Delete(a)
}

// recLocal is putsvc's ObjectStorage (the local engine): writes are events.
type recLocal struct{ w *World }

func (l recLocal) Put(ctx context.Context, o *object.Object, bin []byte) error {
	l.w.rec.Emit("StWrite", "op", "EnginePut")
	return l.w.eng.Put(ctx, o, bin)
}
func (l recLocal) IsLocked(ctx context.Context, a oid.Address) (bool, error) {
	return l.w.eng.IsLocked(ctx, a)
}

// recStorage is objectsvc.Storage, mirroring cmd/neofs-node's storageForObjectService.
type recStorage struct {
	w    *World
	keys *objutil.KeyStorage
}

func (s recStorage) SearchObjects(ctx context.Context, c cid.ID, fs []objectcore.SearchFilter, attrs []string, cur *objectcore.SearchCursor, n uint16) ([]client.SearchResultItem, []byte, error) {
	s.w.rec.Emit("StRead", "op", "Search")
	return s.w.eng.Search(ctx, c, fs, attrs, cur, n)
}
func (s recStorage) VerifyAndStoreObjectLocally(ctx context.Context, o object.Object) error {
	s.w.rec.Emit("StVerifyStore")
	return s.w.put.ValidateAndStoreObjectLocally(ctx, o)
}
func (s recStorage) GetSessionPrivateKey(u user.ID) (ecdsa.PrivateKey, error) {
	k, err := s.keys.GetKey(&u)
	if err != nil {
		return ecdsa.PrivateKey{}, err
	}
	return *k, nil
}
func (s recStorage) GetSessionV2PrivateKey(sub []sessionv2.Target) (ecdsa.PrivateKey, error) {
	k, err := s.keys.GetKeyBySubjects(sub)
	if err != nil {
		return ecdsa.PrivateKey{}, err
	}
	return *k, nil
}

// recHandlers wraps the real get/put/delete services: entering one of them is an event.
type recHandlers struct {
	w   *World
	get *getsvc.Service
	put *putsvc.Service
	del *deletesvc.Service
}

func (h recHandlers) Get(ctx context.Context, p getsvc.Prm) error {
	h.w.rec.Emit("Handler", "op", "Get")
	return h.get.Get(ctx, p)
}
func (h recHandlers) Put(ctx context.Context) (*putsvc.Streamer, error) {
	// creating the streamer touches nothing (DESIGN §6 C29/C45): not an event
	return h.put.Put(ctx)
}
func (h recHandlers) Head(ctx context.Context, p getsvc.HeadPrm) error {
	h.w.rec.Emit("Handler", "op", "Head")
	return h.get.Head(ctx, p)
}
func (h recHandlers) Delete(ctx context.Context, p deletesvc.Prm) error {
	h.w.rec.Emit("Handler", "op", "Delete")
	return h.del.Delete(ctx, p)
}
func (h recHandlers) GetRange(ctx context.Context, p getsvc.RangePrm) error {
	h.w.rec.Emit("Handler", "op", "GetRange")
	return h.get.GetRange(ctx, p)
}

// recACL wraps the real ACL checker.
type recACL struct {
	w    *World
	real *aclreal.Checker
}

func (a recACL) CheckBasicACL(i aclsvc.RequestInfo) bool {
	ok := a.real.CheckBasicACL(i)
	a.w.rec.Emit("Basic", "ok", ok)
	return ok
}
func (a recACL) StickyBitCheck(i aclsvc.RequestInfo, o user.ID) bool {
	ok := a.real.StickyBitCheck(i, o)
	a.w.rec.Emit("Sticky", "ok", ok)
	return ok
}
func (a recACL) CheckEACL(ctx context.Context, msg any, c cid.ID, o oid.ID, i aclsvc.RequestInfo) error {
	phase := "hdr"
	if _, ok := msg.(interface {
		GetMetaHeader() *protosession.RequestMetaHeader
	}); ok {
		phase = "req"
	}
	a.w.rec.Emit("EACLBegin", "phase", phase)
	a.w.inEACL.Add(1)
	err := a.real.CheckEACL(ctx, msg, c, o, i)
	a.w.inEACL.Add(-1)
	res := "allow"
	switch {
	case err == nil:
	case errors.Is(err, aclsvc.ErrNotMatched):
		res = "nm"
	default:
		res = "deny"
	}
	a.w.rec.Emit("EACL", "phase", phase, "res", res)
	return err
}

// recInfo wraps the real ACL service (token verification + request classification).
type recInfo struct {
	w    *World
	real aclsvc.Service
}

func (r recInfo) info(err error) {
	if errors.Is(err, aclsvc.ErrSkipRequest) {
		r.w.rec.Emit("Info", "ok", true, "skip", true)
		return
	}
	r.w.rec.Emit("Info", "ok", err == nil)
}
func (r recInfo) PutRequestToInfo(ctx context.Context, q *protoobject.PutRequest, in *protoobject.PutRequest_Body_Init, c cid.ID, op acl.Op, t svccommon.RequestTokens) (aclsvc.RequestInfo, user.ID, error) {
	i, u, err := r.real.PutRequestToInfo(ctx, q, in, c, op, t)
	r.info(err)
	return i, u, err
}
func (r recInfo) DeleteRequestToInfo(ctx context.Context, q *protoobject.DeleteRequest, c cid.ID, t svccommon.RequestTokens) (aclsvc.RequestInfo, error) {
	i, err := r.real.DeleteRequestToInfo(ctx, q, c, t)
	r.info(err)
	return i, err
}
func (r recInfo) HeadRequestToInfo(ctx context.Context, q *protoobject.HeadRequest, c cid.ID, t svccommon.RequestTokens) (aclsvc.RequestInfo, error) {
	i, err := r.real.HeadRequestToInfo(ctx, q, c, t)
	r.info(err)
	return i, err
}
func (r recInfo) GetRequestToInfo(ctx context.Context, q *protoobject.GetRequest, c cid.ID, t svccommon.RequestTokens) (aclsvc.RequestInfo, error) {
	i, err := r.real.GetRequestToInfo(ctx, q, c, t)
	r.info(err)
	return i, err
}
func (r recInfo) RangeRequestToInfo(ctx context.Context, q *protoobject.GetRangeRequest, c cid.ID, t svccommon.RequestTokens) (aclsvc.RequestInfo, error) {
	i, err := r.real.RangeRequestToInfo(ctx, q, c, t)
	r.info(err)
	return i, err
}
func (r recInfo) SearchV2RequestToInfo(ctx context.Context, q *protoobject.SearchV2Request, c cid.ID, t svccommon.RequestTokens) (aclsvc.RequestInfo, error) {
	i, err := r.real.SearchV2RequestToInfo(ctx, q, c, t)
	r.info(err)
	return i, err
}
func (r recInfo) VerifySessionTokenMessage(m *protosession.SessionTokenV2, v sessionv2.Verb, c cid.ID) (sessionv2.Token, error) {
	t, err := r.real.VerifySessionTokenMessage(m, v, c)
	r.w.rec.Emit("Tok", "kind", "sessionV2", "ok", err == nil)
	return t, err
}
func (r recInfo) VerifySessionV1TokenMessage(m *protosession.SessionToken, v session.ObjectVerb, c cid.ID, o oid.ID) (session.Object, error) {
	t, err := r.real.VerifySessionV1TokenMessage(m, v, c, o)
	r.w.rec.Emit("Tok", "kind", "sessionV1", "ok", err == nil)
	return t, err
}
func (r recInfo) VerifyBearerTokenMessage(m *protoacl.BearerToken) (bearer.Token, error) {
	t, err := r.real.VerifyBearerTokenMessage(m)
	r.w.rec.Emit("Tok", "kind", "bearer", "ok", err == nil)
	return t, err
}

type nopMetrics struct{}

func (nopMetrics) HandleOpExecResult(stat.Method, bool, time.Duration) {}
func (nopMetrics) AddPutPayload(int)                                   {}
func (nopMetrics) AddGetPayload(int)                                   {}

// recClients is the ClientConstructor of every component: asking for a connection to another node is
// an event; the only reachable node is the fake peer.
type recClients struct{ w *World }

func (c recClients) Get(_ context.Context, n netmap.NodeInfo) (clientcore.MultiAddressClient, error) {
	c.w.rec.Emit("Conn")
	if string(n.PublicKey()) != string(pubBytes(c.w.peerKey)) {
		return nil, errors.New("unknown node")
	}
	return peerClient{w: c.w}, nil
}

// putsvc.Transport
func (c recClients) SendReplicationRequestToNode(context.Context, []byte, netmap.NodeInfo) ([]byte, error) {
	c.w.rec.Emit("Remote", "m", "Replicate")
	return nil, errors.New("peer refuses replication in this world")
}

type peerClient struct {
	clientcore.MultiAddressClient // nil: typed SDK calls are not used by the paths under test (panic = visible)
	w                             *World
}

func (p peerClient) ForAnyGRPCConn(ctx context.Context, f func(context.Context, *grpc.ClientConn) error) error {
	return f(ctx, p.w.peerConn)
}
func (p peerClient) APIVersion() *refs.Version { return version.Current().ProtoMessage() }

// ---------------------------------------------------------------------------------------------
// the fake peer node: a raw gRPC ObjectService that serves the "remote" objects of the world

func (w *World) remoteObject(a *refs.Address) *object.Object {
	var c cid.ID
	var o oid.ID
	if a == nil || c.FromProtoMessage(a.ContainerId) != nil || o.FromProtoMessage(a.ObjectId) != nil {
		return nil
	}
	d := w.byID[c]
	if d == nil || d.remote == nil || d.remote.GetID() != o {
		return nil
	}
	return d.remote
}

func statusMeta(code uint32) *protosession.ResponseMetaHeader {
	return &protosession.ResponseMetaHeader{Status: &protostatus.Status{Code: code}}
}

func (w *World) peerDesc() *grpc.ServiceDesc {
	return &grpc.ServiceDesc{
		ServiceName: protoobject.ObjectService_ServiceDesc.ServiceName,
		HandlerType: (*any)(nil),
		Methods: []grpc.MethodDesc{
			{MethodName: "Head", Handler: func(_ any, _ context.Context, dec func(any) error, _ grpc.UnaryServerInterceptor) (any, error) {
				var req protoobject.HeadRequest
				if err := dec(&req); err != nil {
					return nil, err
				}
				w.rec.Emit("Remote", "m", "Head")
				obj := w.remoteObject(req.GetBody().GetAddress())
				if obj == nil {
					return &protoobject.HeadResponse{MetaHeader: statusMeta(protostatus.ObjectNotFound)}, nil
				}
				mo := obj.ProtoMessage()
				return &protoobject.HeadResponse{Body: &protoobject.HeadResponse_Body{Head: &protoobject.HeadResponse_Body_Header{
					Header: &protoobject.HeaderWithSignature{Header: mo.Header, Signature: mo.Signature}}}}, nil
			}},
			{MethodName: "SearchV2", Handler: func(_ any, _ context.Context, dec func(any) error, _ grpc.UnaryServerInterceptor) (any, error) {
				var req protoobject.SearchV2Request
				if err := dec(&req); err != nil {
					return nil, err
				}
				w.rec.Emit("Remote", "m", "SearchV2")
				return &protoobject.SearchV2Response{Body: &protoobject.SearchV2Response_Body{}}, nil
			}},
			{MethodName: "Delete", Handler: func(_ any, _ context.Context, dec func(any) error, _ grpc.UnaryServerInterceptor) (any, error) {
				var req protoobject.DeleteRequest
				if err := dec(&req); err != nil {
					return nil, err
				}
				w.rec.Emit("Remote", "m", "Delete")
				return &protoobject.DeleteResponse{MetaHeader: statusMeta(1024)}, nil
			}},
			{MethodName: "Replicate", Handler: func(_ any, _ context.Context, dec func(any) error, _ grpc.UnaryServerInterceptor) (any, error) {
				var req protoobject.ReplicateRequest
				if err := dec(&req); err != nil {
					return nil, err
				}
				w.rec.Emit("Remote", "m", "Replicate")
				return &protoobject.ReplicateResponse{Status: &protostatus.Status{Code: 1024}}, nil
			}},
		},
		Streams: []grpc.StreamDesc{
			{StreamName: "Get", ServerStreams: true, Handler: func(_ any, st grpc.ServerStream) error {
				var req protoobject.GetRequest
				if err := st.RecvMsg(&req); err != nil {
					return err
				}
				w.rec.Emit("Remote", "m", "Get")
				obj := w.remoteObject(req.GetBody().GetAddress())
				if obj == nil {
					return st.SendMsg(&protoobject.GetResponse{MetaHeader: statusMeta(protostatus.ObjectNotFound)})
				}
				mo := obj.ProtoMessage()
				if err := st.SendMsg(&protoobject.GetResponse{Body: &protoobject.GetResponse_Body{ObjectPart: &protoobject.GetResponse_Body_Init_{
					Init: &protoobject.GetResponse_Body_Init{ObjectId: mo.ObjectId, Signature: mo.Signature, Header: mo.Header}}}}); err != nil {
					return err
				}
				pl := obj.Payload()
				if r := req.GetBody().GetRange(); r != nil && r.Length > 0 {
					pl = pl[r.Offset : r.Offset+r.Length]
				}
				for len(pl) > 0 {
					n := min(len(pl), 7)
					if err := st.SendMsg(&protoobject.GetResponse{Body: &protoobject.GetResponse_Body{ObjectPart: &protoobject.GetResponse_Body_Chunk{Chunk: pl[:n]}}}); err != nil {
						return err
					}
					pl = pl[n:]
				}
				return nil
			}},
			{StreamName: "GetRange", ServerStreams: true, Handler: func(_ any, st grpc.ServerStream) error {
				var req protoobject.GetRangeRequest
				if err := st.RecvMsg(&req); err != nil {
					return err
				}
				w.rec.Emit("Remote", "m", "GetRange")
				obj := w.remoteObject(req.GetBody().GetAddress())
				if obj == nil {
					return st.SendMsg(&protoobject.GetRangeResponse{MetaHeader: statusMeta(protostatus.ObjectNotFound)})
				}
				pl := obj.Payload()
				if r := req.GetBody().GetRange(); r != nil && r.Length > 0 {
					pl = pl[r.Offset : r.Offset+r.Length]
				}
				return st.SendMsg(&protoobject.GetRangeResponse{Body: &protoobject.GetRangeResponse_Body{RangePart: &protoobject.GetRangeResponse_Body_Chunk{Chunk: pl}}})
			}},
			{StreamName: "Put", ClientStreams: true, Handler: func(_ any, st grpc.ServerStream) error {
				w.rec.Emit("Remote", "m", "Put")
				for {
					var req protoobject.PutRequest
					if err := st.RecvMsg(&req); err != nil {
						break
					}
				}
				return st.SendMsg(&protoobject.PutResponse{MetaHeader: statusMeta(1024)})
			}},
		},
	}
}

// fakeMTLS is a transport credential that performs no handshake and reports the remote side as a peer authenticated
// by TLS with the given public key - the state pkg/network/peerauth leaves in the context after a real mTLS handshake.
type fakeMTLS struct{ key *keys.PublicKey }

func (f fakeMTLS) ClientHandshake(_ context.Context, _ string, c net.Conn) (net.Conn, credentials.AuthInfo, error) {
	return c, peerauth.AuthInfo{}, nil
}
func (f fakeMTLS) ServerHandshake(c net.Conn) (net.Conn, credentials.AuthInfo, error) {
	return c, peerauth.AuthInfo{PublicKey: f.key}, nil
}
func (f fakeMTLS) Info() credentials.ProtocolInfo {
	return credentials.ProtocolInfo{SecurityProtocol: "tls"}
}
func (f fakeMTLS) Clone() credentials.TransportCredentials { return f }
func (f fakeMTLS) OverrideServerName(string) error         { return nil }

func bufServeCreds(srv *grpc.Server, creds credentials.TransportCredentials) (*grpc.ClientConn, func()) {
	lis := bufconn.Listen(1 << 20)
	go func() { _ = srv.Serve(lis) }()
	c, err := grpc.NewClient("passthrough:///buf",
		grpc.WithContextDialer(func(ctx context.Context, _ string) (net.Conn, error) { return lis.DialContext(ctx) }),
		grpc.WithTransportCredentials(creds))
	kit.Must(err)
	return c, func() { c.Close(); srv.Stop() }
}

func bufServe(srv *grpc.Server) (*grpc.ClientConn, func()) {
	lis := bufconn.Listen(1 << 20)
	go func() { _ = srv.Serve(lis) }()
	c, err := grpc.NewClient("passthrough:///buf",
		grpc.WithContextDialer(func(ctx context.Context, _ string) (net.Conn, error) { return lis.DialContext(ctx) }),
		grpc.WithTransportCredentials(insecure.NewCredentials()))
	kit.Must(err)
	return c, func() { c.Close(); srv.Stop() }
}

// ---------------------------------------------------------------------------------------------
// server-side observation of everything sent to the client

type sendSpy struct {
	grpc.ServerStream
	w      *World
	method string
}

func msgBytes(m any) []byte {
	switch v := m.(type) {
	case mem.BufferSlice:
		return v.Materialize()
	case mem.Buffer:
		return append([]byte(nil), v.ReadOnlyData()...)
	case proto.Message:
		b, err := proto.Marshal(v)
		kit.Must(err)
		return b
	}
	panic(fmt.Sprintf("unexpected response message type %T", m))
}

func (s sendSpy) SendMsg(m any) error {
	b := msgBytes(m)
	switch s.method {
	case "Get":
		var r protoobject.GetResponse
		kit.Must(proto.Unmarshal(b, &r))
		switch p := r.GetBody().GetObjectPart().(type) {
		case *protoobject.GetResponse_Body_Init_:
			s.w.rec.Emit("Send", "kind", "hdr")
		case *protoobject.GetResponse_Body_Chunk:
			s.w.rec.Emit("Send", "kind", "chunk", "n", len(p.Chunk))
		case *protoobject.GetResponse_Body_SplitInfo:
			s.w.rec.Emit("Send", "kind", "split")
		default:
			s.w.rec.Emit("Send", "kind", "status", "code", int(r.GetMetaHeader().GetStatus().GetCode()))
		}
	case "GetRange":
		var r protoobject.GetRangeResponse
		kit.Must(proto.Unmarshal(b, &r))
		switch p := r.GetBody().GetRangePart().(type) {
		case *protoobject.GetRangeResponse_Body_Chunk:
			s.w.rec.Emit("Send", "kind", "chunk", "n", len(p.Chunk))
		case *protoobject.GetRangeResponse_Body_SplitInfo:
			s.w.rec.Emit("Send", "kind", "split")
		default:
			s.w.rec.Emit("Send", "kind", "status", "code", int(r.GetMetaHeader().GetStatus().GetCode()))
		}
	case "Put":
		var r protoobject.PutResponse
		kit.Must(proto.Unmarshal(b, &r))
		s.w.rec.Emit("Send", "kind", "status", "code", int(r.GetMetaHeader().GetStatus().GetCode()))
	default:
		s.w.rec.Emit("Send", "kind", "other")
	}
	return s.ServerStream.SendMsg(m)
}

func replaceUnary[REQ any](d *grpc.ServiceDesc, method string, h func(context.Context, *REQ) any) {
	for i := range d.Methods {
		if d.Methods[i].MethodName == method {
			d.Methods[i].Handler = func(_ any, ctx context.Context, dec func(any) error, _ grpc.UnaryServerInterceptor) (any, error) {
				req := new(REQ)
				if err := dec(req); err != nil {
					return nil, err
				}
				return h(ctx, req), nil
			}
			return
		}
	}
	panic("no method " + method)
}

// ---------------------------------------------------------------------------------------------

func (w *World) newObject(d *cnrDesc, owner user.Signer, payload string, attrs ...string) *object.Object {
	o := object.New(d.id, owner.UserID())
	var as []object.Attribute
	for i := 0; i+1 < len(attrs); i += 2 {
		as = append(as, object.NewAttribute(attrs[i], attrs[i+1]))
	}
	o.SetAttributes(as...)
	o.SetCreationEpoch(w.epoch.Load())
	o.SetPayload([]byte(payload))
	o.SetPayloadSize(uint64(len(payload)))
	kit.Must(o.SetVerificationFields(owner))
	return o
}

func (w *World) addContainer(name string, basic acl.Basic, table func(cid.ID) *eacl.Table) *cnrDesc {
	var c container.Container
	c.Init()
	c.SetOwner(w.owner.UserID())
	c.SetBasicACL(basic)
	c.SetName(name)
	var pp netmap.PlacementPolicy
	var rd netmap.ReplicaDescriptor
	rd.SetNumberOfObjects(2)
	pp.SetReplicas([]netmap.ReplicaDescriptor{rd})
	pp.SetContainerBackupFactor(1)
	c.SetPlacementPolicy(pp)
	d := &cnrDesc{name: name, cnr: c, id: cid.NewFromMarshalledContainer(c.Marshal())}
	if table != nil {
		d.eacl = table(d.id)
	}
	w.cnrs[name] = d
	w.byID[d.id] = d
	return d
}

// NewWorldLite creates the keys and containers only (no engine, no servers).
func NewWorldLite() *World {
	w := &World{rec: new(Recorder), cnrs: map[string]*cnrDesc{}, byID: map[cid.ID]*cnrDesc{}, lateAddrs: map[oid.Address]bool{}}
	w.epoch.Store(curEpoch)
	w.nodeKey, w.ownerKey, w.otherKey, w.peerKey, w.irKey, w.strangerKey = newKey(), newKey(), newKey(), newKey(), newKey(), newKey()
	w.owner = user.NewAutoIDSigner(*w.ownerKey)
	w.other = user.NewAutoIDSigner(*w.otherKey)
	// containers
	othersTarget := []eacl.Target{eacl.NewTargetByRole(eacl.RoleOthers)}
	allOps := []eacl.Operation{eacl.OperationGet, eacl.OperationHead, eacl.OperationPut, eacl.OperationDelete, eacl.OperationSearch, eacl.OperationRange, eacl.OperationRangeHash}
	w.addContainer("pub", acl.PublicRWExtended, nil)
	w.addContainer("priv", acl.Private, nil)
	w.addContainer("denyreq", acl.PublicRWExtended, func(id cid.ID) *eacl.Table {
		var rs []eacl.Record
		for _, op := range allOps {
			rs = append(rs, eacl.ConstructRecord(eacl.ActionDeny, op, othersTarget))
		}
		t := eacl.NewTableForContainer(id, rs)
		return &t
	})
	w.addContainer("denyhdr", acl.PublicRWExtended, func(id cid.ID) *eacl.Table {
		var rs []eacl.Record
		for _, op := range allOps {
			rs = append(rs, eacl.ConstructRecord(eacl.ActionDeny, op, othersTarget, eacl.NewObjectPropertyFilter(secretKey, eacl.MatchStringEqual, secretVal)))
		}
		t := eacl.NewTableForContainer(id, rs)
		return &t
	})
	// allow-at-header: the rule needs the header but does not match it
	w.addContainer("allowhdr", acl.PublicRWExtended, func(id cid.ID) *eacl.Table {
		var rs []eacl.Record
		for _, op := range allOps {
			rs = append(rs, eacl.ConstructRecord(eacl.ActionDeny, op, othersTarget, eacl.NewObjectPropertyFilter(secretKey, eacl.MatchStringEqual, "no")))
		}
		t := eacl.NewTableForContainer(id, rs)
		return &t
	})

	return w
}

func NewWorld(dir string) *World {
	w := NewWorldLite()
	w.dir = dir
	ch := chain{w}
	nm := netmapper{ch}
	on := objNet{ch}
	log := zap.NewNop()

	// local engine with a recording blobstor
	w.eng = engine.New(engine.WithLogger(log), engine.WithContainersSource(ch))
	fst := fstree.New(fstree.WithPath(filepath.Join(dir, "fstree")))
	_, err := w.eng.AddShard(
		shard.WithLogger(log),
		shard.WithBlobstor(recBlob{Storage: fst, w: w}),
		// the periodic garbage remover works on behalf of EARLIER calls (tombstones of previous DELETEs); keep it out of the
		// recording window of unrelated calls
		shard.WithGCRemoverSleepInterval(time.Hour),
		shard.WithMetaBaseOptions(meta.WithPath(filepath.Join(dir, "meta")), meta.WithEpochState(ch), meta.WithLogger(log)),
	)
	kit.Must(err)
	kit.Must(w.eng.Init())
	w.closeFns = append(w.closeFns, func() { w.eng.Close() })

	for _, d := range w.cnrs {
		d.local = w.newObject(d, w.owner, "local payload of "+d.name, secretKey, secretVal, "where", "local")
		d.remote = w.newObject(d, w.owner, "remote payload of "+d.name, secretKey, secretVal, "where", "remote")
		d.late = w.newObject(d, w.owner, "late payload of "+d.name, secretKey, secretVal, "where", "late")
		kit.Must(w.eng.Put(context.Background(), d.local, nil))
		kit.Must(w.eng.Put(context.Background(), d.late, nil))
		w.lateAddrs[d.late.Address()] = true
	}

	// peer node
	w.peerSrv = grpc.NewServer(grpc.ForceServerCodecV2(iprotobuf.BufferedCodec{}))
	w.peerSrv.RegisterService(w.peerDesc(), nil)
	var cl func()
	w.peerConn, cl = bufServe(w.peerSrv)
	w.closeFns = append(w.closeFns, cl)

	// real services
	clients := recClients{w}
	keyStorage := objutil.NewKeyStorage(w.nodeKey, noSessions{}, ch)
	sGet := getsvc.New(on,
		getsvc.WithLogger(log),
		getsvc.WithLocalStorageEngine(w.eng),
		getsvc.WithClientConstructor(clients),
		getsvc.WithKeyStorage(keyStorage),
	)
	w.put = putsvc.NewService(clients, on, nil, quotas{}, payments{},
		putsvc.WithLogger(log),
		putsvc.WithKeyStorage(keyStorage),
		putsvc.WithClientConstructor(clients),
		putsvc.WithMaxSizeSource(maxSize{}),
		putsvc.WithObjectStorage(recLocal{w}),
		putsvc.WithContainerSource(ch),
		putsvc.WithNetworkState(ch),
		putsvc.WithSplitChainVerifier(nopSplit{}),
		putsvc.WithTombstoneVerifier(nopTomb{}),
		putsvc.WithPostPlacementReplicator(nopPostPlacement{}),
		putsvc.WithSessionsCache(verifexport.RPCNewSessionsCache(16)),
	)
	sDel := deletesvc.New(
		deletesvc.WithLogger(log),
		deletesvc.WithPutService(w.put),
		deletesvc.WithNetworkInfo(delNet{w}),
		deletesvc.WithKeyStorage(keyStorage),
	)
	aclSvc := aclsvc.New(ch, verifexport.RPCNewSessionsCache(16),
		aclsvc.WithLogger(log),
		aclsvc.WithIRFetcher(nm),
		aclsvc.WithNetmapper(nm),
		aclsvc.WithContainerSource(ch),
		aclsvc.WithTimeProvider(nm),
	)
	checker := aclreal.NewChecker(new(aclreal.CheckerPrm).
		SetEACLSource(nm).
		SetValidator(eacl.NewValidator()).
		SetLocalStorage(w.eng).
		SetHeaderSource(hdrSource{w}))

	w.mkSrv = func() *objectsvc.Server {
		return objectsvc.New(recHandlers{w: w, get: sGet, put: w.put, del: sDel}, ch, recStorage{w: w, keys: keyStorage}, nil, *w.nodeKey,
			nopMetrics{}, recACL{w: w, real: checker}, recInfo{w: w, real: aclSvc}, clients, log)
	}
	w.srv = w.mkSrv()

	// gRPC front: the same wiring as cmd/neofs-node/object.go (Head / SearchV2 are served by the buffered variants)
	desc := protoobject.ObjectService_ServiceDesc
	desc.Methods = append([]grpc.MethodDesc(nil), desc.Methods...)
	replaceUnary(&desc, "Head", func(ctx context.Context, r *protoobject.HeadRequest) any { return w.srv.HeadBuffered(ctx, r) })
	replaceUnary(&desc, "SearchV2", func(ctx context.Context, r *protoobject.SearchV2Request) any { return w.srv.SearchV2Buffered(ctx, r) })
	w.grpcSrv = grpc.NewServer(
		grpc.ForceServerCodecV2(iprotobuf.BufferedCodec{}),
		grpc.StreamInterceptor(func(srv any, ss grpc.ServerStream, info *grpc.StreamServerInfo, h grpc.StreamHandler) error {
			return h(srv, sendSpy{ServerStream: ss, w: w, method: filepath.Base(info.FullMethod)})
		}),
	)
	w.grpcSrv.RegisterService(&desc, w.srv)
	w.conn, cl = bufServe(w.grpcSrv)
	w.closeFns = append(w.closeFns, cl)
	// second front: same server object, but the transport credentials say "mutually authenticated peer with peerKey"
	// (what pkg/network/peerauth produces after a real mTLS handshake)
	w.grpcTLS = grpc.NewServer(
		grpc.Creds(fakeMTLS{key: (*keys.PublicKey)(&w.peerKey.PublicKey)}),
		grpc.ForceServerCodecV2(iprotobuf.BufferedCodec{}),
		grpc.StreamInterceptor(func(srv any, ss grpc.ServerStream, info *grpc.StreamServerInfo, h grpc.StreamHandler) error {
			return h(srv, sendSpy{ServerStream: ss, w: w, method: filepath.Base(info.FullMethod)})
		}),
	)
	w.grpcTLS.RegisterService(&desc, w.srv)
	w.connTLS, cl = bufServeCreds(w.grpcTLS, fakeMTLS{})
	w.closeFns = append(w.closeFns, cl)
	return w
}

// hdrSource is the eACL checker's source of "first object" headers (V2 split): not exercised.
type hdrSource struct{ w *World }

func (h hdrSource) Head(context.Context, oid.Address) (*object.Object, error) {
	h.w.rec.Emit("StRead", "op", "HeaderSource")
	return nil, apistatus.ErrObjectNotFound
}

func (w *World) Close() {
	for i := len(w.closeFns) - 1; i >= 0; i-- {
		w.closeFns[i]()
	}
	os.RemoveAll(w.dir)
}
