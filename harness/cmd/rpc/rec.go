package main

import (
	"sync"
	"time"

	"verifharness/internal/kit"
)

// Recorder collects the events of ONE call. All fakes / wrappers / interceptors write into it;
// emission is serialised, so the order of events is the real-time order in which the server
// reached the instrumented points.
type Recorder struct {
	mu  sync.Mutex
	evs []kit.M
	on  bool
}

func (r *Recorder) Emit(ev string, kv ...any) {
	r.mu.Lock()
	defer r.mu.Unlock()
	if !r.on {
		return
	}
	m := kit.M{"ev": ev}
	for i := 0; i+1 < len(kv); i += 2 {
		m[kv[i].(string)] = kv[i+1]
	}
	r.evs = append(r.evs, m)
}

// Start begins a new call trace.
func (r *Recorder) Start() {
	r.mu.Lock()
	defer r.mu.Unlock()
	r.evs = nil
	r.on = true
}

// Stop ends the call trace and returns its events.
func (r *Recorder) Stop() []kit.M {
	r.mu.Lock()
	defer r.mu.Unlock()
	r.on = false
	out := r.evs
	r.evs = nil
	return out
}

// WaitFor polls until pred holds for the events recorded so far (harness-side synchronisation with the server's
// progress inside a streaming call). Returns false on timeout.
func (r *Recorder) WaitFor(pred func([]kit.M) bool, timeout time.Duration) bool {
	deadline := time.Now().Add(timeout)
	for {
		r.mu.Lock()
		ok := pred(r.evs)
		r.mu.Unlock()
		if ok {
			return true
		}
		if time.Now().After(deadline) {
			return false
		}
		time.Sleep(200 * time.Microsecond)
	}
}

// Pause runs f with recording switched off (harness-side preparation inside a call).
func (r *Recorder) Pause(f func()) {
	r.mu.Lock()
	was := r.on
	r.on = false
	r.mu.Unlock()
	f()
	r.mu.Lock()
	r.on = was
	r.mu.Unlock()
}
