package main

import (
	"context"
	"crypto/ecdsa"
	"errors"
	"fmt"
	"google.golang.org/grpc"
	"io"
	"reflect"
	"sort"
	"strings"
	"time"

	"github.com/google/uuid"
	"github.com/nspcc-dev/neofs-sdk-go/bearer"
	neofscrypto "github.com/nspcc-dev/neofs-sdk-go/crypto"
	neofsecdsa "github.com/nspcc-dev/neofs-sdk-go/crypto/ecdsa"
	"github.com/nspcc-dev/neofs-sdk-go/eacl"
	"github.com/nspcc-dev/neofs-sdk-go/object"
	protoacl "github.com/nspcc-dev/neofs-sdk-go/proto/acl"
	protoobject "github.com/nspcc-dev/neofs-sdk-go/proto/object"
	"github.com/nspcc-dev/neofs-sdk-go/proto/refs"
	protosession "github.com/nspcc-dev/neofs-sdk-go/proto/session"
	"github.com/nspcc-dev/neofs-sdk-go/session"
	"github.com/nspcc-dev/neofs-sdk-go/user"
	"github.com/nspcc-dev/neofs-sdk-go/version"
	grpcstatus "google.golang.org/grpc/status"

	"verifharness/internal/kit"
)

// Class is the abstract class of one request = the harness's ground truth about it.
// It is the `cls` field of the Recv event and the input of the spec.
type Class struct {
	Sig   string `json:"sig"`   // ok | none | bad
	Maint bool   `json:"maint"` // node under maintenance
	Body  string `json:"body"`  // ok | missing | badaddr
	Tok   string `json:"tok"`   // none | ok | expired | badsig | wrongverb | bearer_ok | bearer_expired | bearer_badsig
	Basic bool   `json:"basic"` // basic ACL lets the sender's role do the op
	EReq  string `json:"ereq"`  // allow | deny | nm   (eACL on the request; "na" if not reached by construction)
	EHdr  string `json:"ehdr"`  // allow | deny | na   (eACL on the object header, only when ereq = nm and the op has a header stage)
	// scenario details (not used by the spec's rules, kept for replay / diagnostics)
	Cnr string `json:"cnr"`
	Obj string `json:"obj"`
	TTL int    `json:"ttl"`
	As  string `json:"as"` // other | owner | peer (an authenticated container node, no verification header)
	// request flags that change the shape of the reply: payload_only | raw | range | xrange | payload_only+range | main_only
	Flags string `json:"flags"`
	// transport: "" = plain connection, "mtls" = the peer was authenticated by the TLS handshake (peerauth.AuthInfo in the context)
	Peer string `json:"peer"`
	// PUT only: the node is switched to maintenance in mid-stream, right before the given message is sent
	// ("chunk1" | "chunk2"), after the server has processed the previous ones
	MaintAt string `json:"maint_at"`
}

// client operations that must be refused in maintenance (C45); Replicate is deliberately outside.
var clientOps = map[string]bool{"Get": true, "Head": true, "GetRange": true, "Put": true, "Delete": true, "SearchV2": true}

// ops with a header stage (eACL re-evaluated on the object's header)
var hdrStageOps = map[string]bool{"Get": true, "Head": true}

func (w *World) signerFor(as string) (*ecdsa.PrivateKey, user.Signer) {
	if as == "owner" {
		return w.ownerKey, w.owner
	}
	return w.otherKey, w.other
}

func (w *World) objOf(c Class) (*cnrDesc, *object.Object) {
	d := w.cnrs[c.Cnr]
	switch c.Obj {
	case "remote":
		return d, d.remote
	case "late":
		return d, d.late
	}
	return d, d.local
}

func verbsFor(method string) (session.ObjectVerb, session.ObjectVerb) { // right, wrong
	switch method {
	case "Get":
		return session.VerbObjectGet, session.VerbObjectPut
	case "Head":
		return session.VerbObjectHead, session.VerbObjectPut
	case "GetRange":
		return session.VerbObjectRange, session.VerbObjectPut
	case "Put":
		return session.VerbObjectPut, session.VerbObjectGet
	case "Delete":
		return session.VerbObjectDelete, session.VerbObjectGet
	case "SearchV2":
		return session.VerbObjectSearch, session.VerbObjectPut
	}
	return session.VerbObjectGet, session.VerbObjectPut
}

// metaFor builds the request meta header (TTL, version, tokens) for the class.
func (w *World) metaFor(method string, c Class) *protosession.RequestMetaHeader {
	m := &protosession.RequestMetaHeader{Version: version.Current().ProtoMessage(), Ttl: uint32(c.TTL)}
	d := w.cnrs[c.Cnr]
	key, _ := w.signerFor(c.As)
	switch c.Tok {
	case "none":
	case "ok", "expired", "badsig", "wrongverb":
		right, wrong := verbsFor(method)
		var t session.Object
		t.SetID(uuid.New())
		t.SetAuthKey((*neofsecdsa.PublicKey)(&key.PublicKey))
		t.BindContainer(d.id)
		t.SetIat(curEpoch - 1)
		t.SetNbf(curEpoch - 1)
		t.SetExp(curEpoch + 5)
		t.ForVerb(right)
		if c.Tok == "expired" {
			t.SetIat(1)
			t.SetNbf(1)
			t.SetExp(curEpoch - 1)
		}
		if c.Tok == "wrongverb" {
			t.ForVerb(wrong)
		}
		kit.Must(t.Sign(w.owner))
		pm := t.ProtoMessage()
		if c.Tok == "badsig" {
			pm.Body.Lifetime.Exp++ // body changed after signing
		}
		m.SessionToken = pm
	case "bearer_ok", "bearer_expired", "bearer_badsig":
		var b bearer.Token
		b.SetEACLTable(eacl.NewTableForContainer(d.id, nil))
		b.SetIat(curEpoch - 1)
		b.SetNbf(curEpoch - 1)
		b.SetExp(curEpoch + 5)
		if c.Tok == "bearer_expired" {
			b.SetIat(1)
			b.SetNbf(1)
			b.SetExp(curEpoch - 1)
		}
		kit.Must(b.Sign(w.owner))
		pm := b.ProtoMessage()
		if c.Tok == "bearer_badsig" {
			pm.Body.Lifetime.Exp++
		}
		m.BearerToken = pm
	default:
		panic("unknown token class " + c.Tok)
	}
	return m
}

func addrMsg(d *cnrDesc, o *object.Object, body string) *refs.Address {
	a := &refs.Address{ContainerId: d.id.ProtoMessage(), ObjectId: o.GetID().ProtoMessage()}
	if body == "badaddr" {
		a.ObjectId = &refs.ObjectID{Value: []byte{1, 2, 3}}
	}
	return a
}

func signReq[B neofscrypto.ProtoMessage](key *ecdsa.PrivateKey, req neofscrypto.SignedRequest[B]) *protosession.RequestVerificationHeader {
	vh, err := neofscrypto.SignRequestWithBuffer(neofsecdsa.Signer(*key), req, nil)
	kit.Must(err)
	return vh
}

// vhFor returns the verification header of the request for the signature class:
// none / exempt -> no header; forged -> a well-formed header of the CONTAINER OWNER's key whose signatures were made over
// another request (present but invalid, TTL untouched); otherwise the result of sign().
func (w *World) vhFor(c Class, sign func() *protosession.RequestVerificationHeader) *protosession.RequestVerificationHeader {
	switch c.Sig {
	case "none", "exempt":
		return nil
	case "forged":
		other := &protoobject.HeadRequest{Body: &protoobject.HeadRequest_Body{Address: addrMsg(w.cnrs["pub"], w.cnrs["pub"].remote, "ok")},
			MetaHeader: &protosession.RequestMetaHeader{Version: version.Current().ProtoMessage(), Ttl: 7}}
		return signReq(w.ownerKey, other)
	}
	return sign()
}

func (w *World) connFor(c Class) *grpc.ClientConn {
	if c.Peer == "mtls" {
		return w.connTLS
	}
	return w.conn
}

func hasFlag(c Class, f string) bool {
	for _, x := range strings.Split(c.Flags, "+") {
		if x == f {
			return true
		}
	}
	return false
}

type callResult struct {
	code    int    // NeoFS status code of the reply (0 = OK)
	grpcErr string // transport-level error, "" if none
}

func grpcErrString(err error) string {
	if err == nil {
		return ""
	}
	if s, ok := grpcstatus.FromError(err); ok {
		return s.Code().String()
	}
	return "error"
}

// ---------------------------------------------------------------------------------------------
// drivers: one per RPC of the generated service. A driver builds the request of class c, performs the
// call through the real gRPC stack and returns the final status.

type driver func(w *World, ctx context.Context, c Class) callResult

var drivers = map[string]driver{
	"Get": func(w *World, ctx context.Context, c Class) callResult {
		d, o := w.objOf(c)
		req := &protoobject.GetRequest{MetaHeader: w.metaFor("Get", c)}
		if c.Body != "missing" {
			req.Body = &protoobject.GetRequest_Body{Address: addrMsg(d, o, c.Body), Raw: hasFlag(c, "raw"), PayloadOnly: hasFlag(c, "payload_only")}
			if hasFlag(c, "range") {
				req.Body.Range = &protoobject.Range{Offset: 2, Length: 5}
			}
			if hasFlag(c, "xrange") {
				first, last := uint64(2), uint64(6)
				req.Body.ExtendedRange = &protoobject.ExtendedRange{FirstPos: &first, LastPos: &last}
			}
		}
		key, _ := w.signerFor(c.As)
		req.VerifyHeader = w.vhFor(c, func() *protosession.RequestVerificationHeader { return signReq(key, req) })
		if c.Sig == "bad" {
			req.MetaHeader.Ttl++ // signed part changed after signing
		}
		st, err := protoobject.NewObjectServiceClient(w.connFor(c)).Get(ctx, req)
		if err != nil {
			return callResult{grpcErr: grpcErrString(err)}
		}
		var res callResult
		for {
			r, err := st.Recv()
			if err != nil {
				if !errors.Is(err, io.EOF) {
					res.grpcErr = grpcErrString(err)
				}
				return res
			}
			if code := r.GetMetaHeader().GetStatus().GetCode(); code != 0 {
				res.code = int(code)
			}
		}
	},
	"GetRange": func(w *World, ctx context.Context, c Class) callResult {
		d, o := w.objOf(c)
		req := &protoobject.GetRangeRequest{MetaHeader: w.metaFor("GetRange", c)}
		if c.Body != "missing" {
			req.Body = &protoobject.GetRangeRequest_Body{Address: addrMsg(d, o, c.Body), Range: &protoobject.Range{Offset: 2, Length: 5}, Raw: hasFlag(c, "raw")}
		}
		key, _ := w.signerFor(c.As)
		req.VerifyHeader = w.vhFor(c, func() *protosession.RequestVerificationHeader { return signReq(key, req) })
		if c.Sig == "bad" {
			req.MetaHeader.Ttl++
		}
		st, err := protoobject.NewObjectServiceClient(w.connFor(c)).GetRange(ctx, req)
		if err != nil {
			return callResult{grpcErr: grpcErrString(err)}
		}
		var res callResult
		for {
			r, err := st.Recv()
			if err != nil {
				if !errors.Is(err, io.EOF) {
					res.grpcErr = grpcErrString(err)
				}
				return res
			}
			if code := r.GetMetaHeader().GetStatus().GetCode(); code != 0 {
				res.code = int(code)
			}
		}
	},
	"Head": func(w *World, ctx context.Context, c Class) callResult {
		d, o := w.objOf(c)
		req := &protoobject.HeadRequest{MetaHeader: w.metaFor("Head", c)}
		if c.Body != "missing" {
			req.Body = &protoobject.HeadRequest_Body{Address: addrMsg(d, o, c.Body), Raw: hasFlag(c, "raw"), MainOnly: hasFlag(c, "main_only")}
		}
		key, _ := w.signerFor(c.As)
		req.VerifyHeader = w.vhFor(c, func() *protosession.RequestVerificationHeader { return signReq(key, req) })
		if c.Sig == "bad" {
			req.MetaHeader.Ttl++
		}
		r, err := protoobject.NewObjectServiceClient(w.connFor(c)).Head(ctx, req)
		if err != nil {
			return callResult{grpcErr: grpcErrString(err)}
		}
		kind := "status"
		if r.GetBody().GetHead() != nil {
			kind = "hdr"
		}
		w.rec.Emit("Send", "kind", kind, "code", int(r.GetMetaHeader().GetStatus().GetCode()))
		return callResult{code: int(r.GetMetaHeader().GetStatus().GetCode())}
	},
	"Delete": func(w *World, ctx context.Context, c Class) callResult {
		d, o := w.objOf(c)
		if c.Obj == "local" { // a fresh victim per call (stored before the recording starts being relevant: no event is emitted by Engine.Put itself)
			o = w.victim(d)
		}
		req := &protoobject.DeleteRequest{MetaHeader: w.metaFor("Delete", c)}
		if c.Body != "missing" {
			req.Body = &protoobject.DeleteRequest_Body{Address: addrMsg(d, o, c.Body)}
		}
		key, _ := w.signerFor(c.As)
		req.VerifyHeader = w.vhFor(c, func() *protosession.RequestVerificationHeader { return signReq(key, req) })
		if c.Sig == "bad" {
			req.MetaHeader.Ttl++
		}
		r, err := protoobject.NewObjectServiceClient(w.connFor(c)).Delete(ctx, req)
		if err != nil {
			return callResult{grpcErr: grpcErrString(err)}
		}
		return callResult{code: int(r.GetMetaHeader().GetStatus().GetCode())}
	},
	"SearchV2": func(w *World, ctx context.Context, c Class) callResult {
		d := w.cnrs[c.Cnr]
		req := &protoobject.SearchV2Request{MetaHeader: w.metaFor("SearchV2", c)}
		if c.Body != "missing" {
			req.Body = &protoobject.SearchV2Request_Body{ContainerId: d.id.ProtoMessage(), Version: 1, Count: 10}
			switch { // degenerate but valid queries: recognised as unreachable by the query preprocessor (answered without any lookup)
			case hasFlag(c, "q_notpresent"):
				req.Body.Filters = []*protoobject.SearchFilter{{MatchType: protoobject.MatchType_NOT_PRESENT, Key: "$Object:ownerID"}}
			case hasFlag(c, "q_numgt"):
				req.Body.Filters = []*protoobject.SearchFilter{{MatchType: protoobject.MatchType_NUM_GT, Key: "$Object:payloadLength",
					Value: "115792089237316195423570985008687907853269984665640564039457584007913129639935"}}
			case hasFlag(c, "q_attr"):
				req.Body.Filters = []*protoobject.SearchFilter{{MatchType: protoobject.MatchType_STRING_EQUAL, Key: secretKey, Value: secretVal}}
				req.Body.Attributes = []string{secretKey}
			}
			if c.Body == "badaddr" {
				req.Body.ContainerId = &refs.ContainerID{Value: []byte{1, 2, 3}}
			}
		}
		key, _ := w.signerFor(c.As)
		req.VerifyHeader = w.vhFor(c, func() *protosession.RequestVerificationHeader { return signReq(key, req) })
		if c.Sig == "bad" {
			req.MetaHeader.Ttl++
		}
		r, err := protoobject.NewObjectServiceClient(w.connFor(c)).SearchV2(ctx, req)
		if err != nil {
			return callResult{grpcErr: grpcErrString(err)}
		}
		if r.GetBody() != nil && r.GetMetaHeader().GetStatus().GetCode() == 0 {
			w.rec.Emit("Send", "kind", "result", "n", len(r.GetBody().GetResult()))
		}
		return callResult{code: int(r.GetMetaHeader().GetStatus().GetCode())}
	},
	"Put": func(w *World, ctx context.Context, c Class) callResult {
		d := w.cnrs[c.Cnr]
		key, signer := w.signerFor(c.As)
		obj := w.newObject(d, signer, "put payload "+uuid.NewString(), secretKey, secretVal)
		mo := obj.ProtoMessage()
		st, err := protoobject.NewObjectServiceClient(w.connFor(c)).Put(ctx)
		if err != nil {
			return callResult{grpcErr: grpcErrString(err)}
		}
		init := &protoobject.PutRequest{MetaHeader: w.metaFor("Put", c)}
		if c.Body != "missing" {
			in := &protoobject.PutRequest_Body_Init{ObjectId: mo.ObjectId, Signature: mo.Signature, Header: mo.Header}
			if c.Body == "badaddr" {
				in.Header.ContainerId = &refs.ContainerID{Value: []byte{1, 2, 3}}
			}
			init.Body = &protoobject.PutRequest_Body{ObjectPart: &protoobject.PutRequest_Body_Init_{Init: in}}
		}
		init.VerifyHeader = w.vhFor(c, func() *protosession.RequestVerificationHeader { return signReq(key, init) })
		if c.Sig == "bad" {
			init.MetaHeader.Ttl++
		}
		send := func(m *protoobject.PutRequest) bool { return st.Send(m) == nil }
		// flip switches maintenance on once the server has consulted the flag for the first n messages (i.e. has taken
		// them) and, for the heading, has finished its ACL checks
		flip := func(n int) {
			// best-effort synchronisation that does not depend on WHERE the server consults the flag: the heading is known
			// to be processed when its eACL verdict is recorded; a later chunk is usually announced by one more look at the
			// flag (soft wait: a server that does not look is exactly what the check is after)
			count := func(evs []kit.M, name string) int {
				k := 0
				for _, e := range evs {
					if e["ev"] == name {
						k++
					}
				}
				return k
			}
			w.rec.WaitFor(func(evs []kit.M) bool { return count(evs, "EACL") > 0 }, 3*time.Second)
			if n > 1 {
				w.rec.WaitFor(func(evs []kit.M) bool { return count(evs, "Maint") >= n }, 150*time.Millisecond)
			}
			time.Sleep(3 * time.Millisecond) // let the handler finish the message and block in Recv
			w.maint.Store(true)
			w.rec.Emit("Flip")
		}
		if send(init) {
			pl := obj.Payload()
			half := len(pl) / 2
			for i, part := range [][]byte{pl[:half], pl[half:]} {
				ch := &protoobject.PutRequest{MetaHeader: &protosession.RequestMetaHeader{Version: version.Current().ProtoMessage(), Ttl: uint32(c.TTL)},
					Body: &protoobject.PutRequest_Body{ObjectPart: &protoobject.PutRequest_Body_Chunk{Chunk: part}}}
				if c.Sig != "none" && !(c.Sig == "chunknone" && i == 1) {
					ch.VerifyHeader = signReq(key, ch)
				}
				if c.Sig == "chunkbad" && i == 1 {
					ch.MetaHeader.Ttl++
				}
				if c.MaintAt == fmt.Sprintf("chunk%d", i+1) {
					flip(i + 1)
				}
				if !send(ch) {
					break
				}
			}
		}
		r, err := st.CloseAndRecv()
		if err != nil {
			return callResult{grpcErr: grpcErrString(err)}
		}
		return callResult{code: int(r.GetMetaHeader().GetStatus().GetCode())}
	},
	// legacy RPCs kept in the service descriptor: they must be refused without any effect for every class
	"Search": func(w *World, ctx context.Context, c Class) callResult {
		d := w.cnrs[c.Cnr]
		req := &protoobject.SearchRequest{MetaHeader: w.metaFor("SearchV2", c), Body: &protoobject.SearchRequest_Body{ContainerId: d.id.ProtoMessage(), Version: 1}}
		key, _ := w.signerFor(c.As)
		req.VerifyHeader = w.vhFor(c, func() *protosession.RequestVerificationHeader { return signReq(key, req) })
		st, err := protoobject.NewObjectServiceClient(w.connFor(c)).Search(ctx, req)
		if err != nil {
			return callResult{grpcErr: grpcErrString(err)}
		}
		for {
			if _, err := st.Recv(); err != nil {
				if errors.Is(err, io.EOF) {
					return callResult{}
				}
				return callResult{grpcErr: grpcErrString(err)}
			}
		}
	},
	"GetRangeHash": func(w *World, ctx context.Context, c Class) callResult {
		d, o := w.objOf(c)
		req := &protoobject.GetRangeHashRequest{MetaHeader: w.metaFor("GetRange", c), Body: &protoobject.GetRangeHashRequest_Body{Address: addrMsg(d, o, "ok"),
			Ranges: []*protoobject.Range{{Offset: 0, Length: 1}}}}
		key, _ := w.signerFor(c.As)
		req.VerifyHeader = w.vhFor(c, func() *protosession.RequestVerificationHeader { return signReq(key, req) })
		_, err := protoobject.NewObjectServiceClient(w.connFor(c)).GetRangeHash(ctx, req)
		return callResult{grpcErr: grpcErrString(err)}
	},
}

// serviceMethods enumerates the RPCs of the generated ObjectServiceServer interface by reflection.
func serviceMethods() []string {
	t := reflect.TypeOf((*protoobject.ObjectServiceServer)(nil)).Elem()
	var ms []string
	for i := 0; i < t.NumMethod(); i++ {
		ms = append(ms, t.Method(i).Name)
	}
	sort.Strings(ms)
	// cross-check with the service descriptor actually registered in gRPC
	var ds []string
	for _, m := range protoobject.ObjectService_ServiceDesc.Methods {
		ds = append(ds, m.MethodName)
	}
	for _, m := range protoobject.ObjectService_ServiceDesc.Streams {
		ds = append(ds, m.StreamName)
	}
	sort.Strings(ds)
	if fmt.Sprint(ms) != fmt.Sprint(ds) {
		panic(fmt.Sprintf("server interface %v != service descriptor %v", ms, ds))
	}
	return ms
}

// victim stores a fresh object to be deleted; recording is suspended meanwhile.
func (w *World) victim(d *cnrDesc) *object.Object {
	o := w.newObject(d, w.owner, "victim "+uuid.NewString(), secretKey, secretVal)
	w.rec.Pause(func() { kit.Must(w.eng.Put(context.Background(), o, nil)) })
	return o
}

// Call performs one call of class c and returns its trace.
func (w *World) Call(method string, c Class) []kit.M {
	w.maint.Store(c.Maint)
	w.rec.Start()
	w.rec.Emit("Recv", "m", method, "cls", c)
	ctx, cancel := context.WithTimeout(context.Background(), 20*time.Second)
	res := drivers[method](w, ctx, c)
	cancel()
	w.rec.Emit("Reply", "code", res.code, "grpc", res.grpcErr)
	return w.rec.Stop()
}

var _ = protoacl.BearerToken{}
