package main

import (
	"context"
	"crypto/ecdsa"
	"crypto/rand"
	"encoding/json"
	"fmt"
	"os"
	"path/filepath"
	"reflect"
	"sort"
	"strings"
	"sync"
	"time"

	"github.com/nspcc-dev/neo-go/pkg/crypto/keys"
	neoutil "github.com/nspcc-dev/neo-go/pkg/util"
	"github.com/nspcc-dev/neofs-node/pkg/local_object_storage/blobstor/common"
	"github.com/nspcc-dev/neofs-node/pkg/local_object_storage/blobstor/fstree"
	"github.com/nspcc-dev/neofs-node/pkg/local_object_storage/engine"
	meta "github.com/nspcc-dev/neofs-node/pkg/local_object_storage/metabase"
	"github.com/nspcc-dev/neofs-node/pkg/local_object_storage/shard"
	"github.com/nspcc-dev/neofs-node/pkg/local_object_storage/shard/mode"
	"github.com/nspcc-dev/neofs-node/pkg/services/control"
	ircontrol "github.com/nspcc-dev/neofs-node/pkg/services/control/ir"
	ircontrolsrv "github.com/nspcc-dev/neofs-node/pkg/services/control/ir/server"
	controlsrv "github.com/nspcc-dev/neofs-node/pkg/services/control/server"
	"github.com/nspcc-dev/neofs-node/pkg/services/object/placement"
	putsvc "github.com/nspcc-dev/neofs-node/pkg/services/object/put"
	objutil "github.com/nspcc-dev/neofs-node/pkg/services/object/util"
	"github.com/nspcc-dev/neofs-node/pkg/services/replicator"
	neofsecdsa "github.com/nspcc-dev/neofs-sdk-go/crypto/ecdsa"
	"github.com/nspcc-dev/neofs-sdk-go/object"
	oid "github.com/nspcc-dev/neofs-sdk-go/object/id"
	"go.uber.org/zap"
	"google.golang.org/grpc"
	"google.golang.org/grpc/codes"
	"google.golang.org/grpc/metadata"
	grpcstatus "google.golang.org/grpc/status"

	"verifharness/internal/kit"
)

// signedMsg is what every control request / response implements (both services).
type signedMsg interface {
	ReadSignedData([]byte) ([]byte, error)
}

// ---------------------------------------------------------------------------------------------
// recording dependencies

type ctlHealth struct{ rec *Recorder }

func (h ctlHealth) NetmapStatus() control.NetmapStatus {
	h.rec.Emit("Dep", "name", "HealthChecker.NetmapStatus")
	return control.NetmapStatus_ONLINE
}
func (h ctlHealth) HealthStatus() control.HealthStatus {
	h.rec.Emit("Dep", "name", "HealthChecker.HealthStatus")
	return control.HealthStatus_READY
}

type irHealth struct{ rec *Recorder }

func (h irHealth) HealthStatus() ircontrol.HealthStatus {
	h.rec.Emit("Dep", "name", "HealthChecker.HealthStatus")
	return ircontrol.HealthStatus_READY
}

type ctlNodeState struct {
	rec *Recorder
	own []byte
}

func (s ctlNodeState) SetNetmapStatus(st control.NetmapStatus) error {
	s.rec.Emit("Dep", "name", "NodeState.SetNetmapStatus")
	return nil
}
func (s ctlNodeState) IsLocalNodePublicKey(k []byte) bool { return string(k) == string(s.own) }

type irNotary struct{ rec *Recorder }

func (n irNotary) ListNotaryRequests() ([]neoutil.Uint256, error) {
	n.rec.Emit("Dep", "name", "NotaryManager.ListNotaryRequests")
	return []neoutil.Uint256{{1}}, nil
}
func (n irNotary) RequestNotary(string, ...[]byte) (neoutil.Uint256, error) {
	n.rec.Emit("Dep", "name", "NotaryManager.RequestNotary")
	return neoutil.Uint256{2}, nil
}
func (n irNotary) SignNotary(neoutil.Uint256) error {
	n.rec.Emit("Dep", "name", "NotaryManager.SignNotary")
	return nil
}

// ctlBlob: every blobstor access of the control world's engine is a dependency call.
type ctlBlob struct {
	common.Storage
	rec *Recorder
}

func (b ctlBlob) Get(a oid.Address) (*object.Object, error) {
	b.rec.Emit("Dep", "name", "Blobstor.Get")
	return b.Storage.Get(a)
}
func (b ctlBlob) GetBytes(a oid.Address) ([]byte, error) {
	b.rec.Emit("Dep", "name", "Blobstor.GetBytes")
	return b.Storage.GetBytes(a)
}
func (b ctlBlob) Head(a oid.Address) (*object.Object, error) {
	b.rec.Emit("Dep", "name", "Blobstor.Head")
	return b.Storage.Head(a)
}
func (b ctlBlob) Exists(a oid.Address) (bool, error) {
	b.rec.Emit("Dep", "name", "Blobstor.Exists")
	return b.Storage.Exists(a)
}
func (b ctlBlob) Put(a oid.Address, d []byte) error {
	b.rec.Emit("Dep", "name", "Blobstor.Put")
	return b.Storage.Put(a, d)
}
func (b ctlBlob) PutBatch(m map[oid.Address][]byte) error {
	b.rec.Emit("Dep", "name", "Blobstor.PutBatch")
	return b.Storage.PutBatch(m)
}
func (b ctlBlob) Delete(a oid.Address) error {
	b.rec.Emit("Dep", "name", "Blobstor.Delete")
	return b.Storage.Delete(a)
}
func (b ctlBlob) Iterate(f func(oid.Address, []byte) error, g func(oid.Address, error) error) error {
	b.rec.Emit("Dep", "name", "Blobstor.Iterate")
	return b.Storage.Iterate(f, g)
}
func (b ctlBlob) IterateAddresses(f func(oid.Address) error, ign bool) error {
	b.rec.Emit("Dep", "name", "Blobstor.IterateAddresses")
	return b.Storage.IterateAddresses(f, ign)
}

// ---------------------------------------------------------------------------------------------

// ctlWorld holds one storage-node control server over a real 2-shard engine and one IR control server.
type ctlWorld struct {
	rec      *Recorder
	dir      string
	srvKey   *ecdsa.PrivateKey   // key of the node / IR (signs responses)
	admins   []*ecdsa.PrivateKey // configured administrator keys
	stranger *ecdsa.PrivateKey
	eng      *engine.StorageEngine
	shards   []common.ID
	objs     []*object.Object
	node     *controlsrv.Server
	ir       *ircontrolsrv.Server
	saved    map[string]savedSig // signatures of the correctly signed requests made so far on this world, by method#variant
	replayOK bool                // set by setSig for class "replay": the replayed signature covers exactly the bytes of this request
	dumpPath string              // target of DumpShard
	restPath string              // prepared dump, source of RestoreShard
	closers  []func()
}

type savedSig struct{ data, sig []byte }

// newCtlWorld prepares the world for calls of method `forMethod` (DumpShard / EvacuateShard need a read-only shard).
func newCtlWorld(dir string, forMethod string) *ctlWorld {
	w := &ctlWorld{rec: new(Recorder), dir: dir, srvKey: newKey(), admins: []*ecdsa.PrivateKey{newKey(), newKey()}, stranger: newKey(), saved: map[string]savedSig{}}
	log := zap.NewNop()
	ow := NewWorldLite() // containers / network fakes
	ch := chain{ow}
	w.eng = engine.New(engine.WithLogger(log), engine.WithContainersSource(ch))
	for i := 0; i < 2; i++ {
		fst := fstree.New(fstree.WithPath(filepath.Join(dir, fmt.Sprintf("fstree%d", i))))
		id, err := w.eng.AddShard(shard.WithLogger(log), shard.WithBlobstor(ctlBlob{Storage: fst, rec: w.rec}), shard.WithGCRemoverSleepInterval(time.Hour),
			shard.WithMetaBaseOptions(meta.WithPath(filepath.Join(dir, fmt.Sprintf("meta%d", i))), meta.WithEpochState(ch), meta.WithLogger(log)))
		kit.Must(err)
		w.shards = append(w.shards, id)
	}
	kit.Must(w.eng.Init())
	w.closers = append(w.closers, func() { w.eng.Close() })
	d := ow.cnrs["pub"]
	for i := 0; i < 6; i++ {
		o := ow.newObject(d, ow.owner, fmt.Sprintf("control object %d", i), "n", fmt.Sprint(i))
		kit.Must(w.eng.Put(context.Background(), o, nil))
		w.objs = append(w.objs, o)
	}
	// a dump to restore from
	w.restPath = filepath.Join(dir, "prepared.dump")
	f, err := os.Create(w.restPath)
	kit.Must(err)
	kit.Must(w.eng.SetShardMode(w.shards[0], mode.ReadOnly, false))
	kit.Must(w.eng.DumpShard(w.shards[0], f, true))
	f.Close()
	if forMethod != "node.DumpShard" && forMethod != "node.EvacuateShard" {
		kit.Must(w.eng.SetShardMode(w.shards[0], mode.ReadWrite, false))
	}
	w.dumpPath = filepath.Join(dir, "out.dump")

	pl, err := placement.New(ch, netmapper{ch})
	kit.Must(err)
	keyStorage := objutil.NewKeyStorage(w.srvKey, noSessions{}, ch)
	repl := replicator.New(replicator.WithLogger(log), replicator.WithLocalStorage(w.eng),
		replicator.WithRemoteSender(putsvc.NewRemoteSender(keyStorage, recClients{ow})))
	var allowed [][]byte
	for _, k := range w.admins {
		allowed = append(allowed, pubBytes(k))
	}
	w.node = controlsrv.New(w.srvKey, allowed, ctlHealth{w.rec}, log)
	w.node.MarkReady(w.eng, pl, repl, ctlNodeState{rec: w.rec, own: pubBytes(w.srvKey)})

	var prm ircontrolsrv.Prm
	prm.SetPrivateKey(keys.PrivateKey{PrivateKey: *w.srvKey})
	prm.SetHealthChecker(irHealth{w.rec})
	prm.SetNetworkManager(irNotary{w.rec})
	w.ir = ircontrolsrv.New(prm, ircontrolsrv.WithAllowedKeys(allowed))
	return w
}

func (w *ctlWorld) Close() {
	for i := len(w.closers) - 1; i >= 0; i-- {
		w.closers[i]()
	}
	os.RemoveAll(w.dir)
}

// digest projects everything a control call may change: shard modes / error counters, object placement and
// status in every shard, the listing, the files the server may create.
func (w *ctlWorld) digest() string {
	var parts []string
	info := w.eng.DumpInfo()
	for _, s := range info.Shards {
		parts = append(parts, fmt.Sprintf("shard %s mode=%v err=%d", s.ID, s.Mode, s.ErrorCount))
	}
	w.rec.Pause(func() {
		for _, o := range w.objs {
			st, err := w.eng.ObjectStatus(context.Background(), o.Address())
			var ss []string
			for _, sh := range st.Shards {
				ss = append(ss, fmt.Sprintf("%s:%s", sh.ID, strings.Join(sh.Shard.Metabase.State, ",")))
			}
			sort.Strings(ss)
			parts = append(parts, fmt.Sprintf("obj %s %v %v", o.GetID(), ss, err))
		}
		var cur *engine.Cursor
		n := 0
		for {
			as, c, err := w.eng.ListWithCursor(context.Background(), 100, cur)
			if err != nil {
				break
			}
			n += len(as)
			cur = c
		}
		parts = append(parts, fmt.Sprintf("listed %d", n))
	})
	if _, err := os.Stat(w.dumpPath); err == nil {
		parts = append(parts, "dumpfile")
	}
	sort.Strings(parts)
	return strings.Join(parts, ";")
}

// ---------------------------------------------------------------------------------------------
// request bodies (a method without an entry is still called with an empty body for the refusal classes)

func (w *ctlWorld) bodies() map[string]func() any {
	sid := w.shards[0].Bytes()
	addr := w.objs[0].Address().EncodeToString()
	return map[string]func() any{
		"node.HealthCheck":     func() any { return &control.HealthCheckRequest_Body{} },
		"node.SetNetmapStatus": func() any { return &control.SetNetmapStatusRequest_Body{Status: control.NetmapStatus_MAINTENANCE} },
		"node.DropObjects":     func() any { return &control.DropObjectsRequest_Body{AddressList: [][]byte{[]byte(addr)}} },
		"node.ListShards":      func() any { return &control.ListShardsRequest_Body{} },
		"node.ListObjects":     func() any { return &control.ListObjectsRequest_Body{} },
		"node.SetShardMode": func() any {
			return &control.SetShardModeRequest_Body{Shard_ID: [][]byte{sid}, Mode: control.ShardMode_READ_ONLY}
		},
		"node.DumpShard": func() any { return &control.DumpShardRequest_Body{Shard_ID: sid, Filepath: w.dumpPath} },
		"node.RestoreShard": func() any {
			return &control.RestoreShardRequest_Body{Shard_ID: w.shards[1].Bytes(), Filepath: w.restPath}
		},
		"node.EvacuateShard": func() any { return &control.EvacuateShardRequest_Body{Shard_ID: [][]byte{sid}} },
		"node.FlushCache":    func() any { return &control.FlushCacheRequest_Body{Shard_ID: [][]byte{sid}} },
		"node.ObjectStatus":  func() any { return &control.ObjectStatusRequest_Body{ObjectAddress: addr} },
		"node.ReviveObject":  func() any { return &control.ReviveObjectRequest_Body{ObjectAddress: []byte(addr)} },
		"ir.HealthCheck":     func() any { return &ircontrol.HealthCheckRequest_Body{} },
		"ir.NotaryList":      func() any { return &ircontrol.NotaryListRequest_Body{} },
		"ir.NotaryRequest": func() any {
			return &ircontrol.NotaryRequestRequest_Body{Method: "removeNode", Args: [][]byte{{1, 2, 3}}}
		},
		"ir.NotarySign": func() any { return &ircontrol.NotarySignRequest_Body{Hash: make([]byte, 32)} },
	}
}

// zeroBodies: request bodies that are filled in but marshal to ZERO bytes (the signature then covers the empty string)
func (w *ctlWorld) zeroBodies() map[string]func() any {
	return map[string]func() any{
		"node.DropObjects":     func() any { return &control.DropObjectsRequest_Body{} },
		"node.SetNetmapStatus": func() any { return &control.SetNetmapStatusRequest_Body{Status: control.NetmapStatus_STATUS_UNDEFINED} },
		"node.FlushCache":      func() any { return &control.FlushCacheRequest_Body{} },
		"node.EvacuateShard":   func() any { return &control.EvacuateShardRequest_Body{} },
	}
}

// methods whose only observable effect of an AUTHORISED call is the data in the response
var ctlReadOnly = map[string]bool{"node.ListShards": true, "node.ListObjects": true, "node.ObjectStatus": true}

// methods whose authorised effect goes on asynchronously (GC, evacuation): no second refusal round after them
var ctlAsync = map[string]bool{"node.DropObjects": true, "node.EvacuateShard": true, "node.RestoreShard": true, "node.SetShardMode": true, "node.ReviveObject": true}

// setSig signs (or mis-signs) req according to the signature class. Returns false if the class does not
// apply to the request (corrupted body of a request that has no body fields).
func (w *ctlWorld) setSig(req any, cls string, filled bool, c ctlCall) bool {
	rv := reflect.ValueOf(req)
	sm := req.(signedMsg)
	set := rv.MethodByName("SetSignature")
	mk := func(key, sig []byte) {
		s := reflect.New(set.Type().In(0).Elem())
		s.Elem().FieldByName("Key").SetBytes(key)
		s.Elem().FieldByName("Sign").SetBytes(sig)
		set.Call([]reflect.Value{s})
	}
	sign := func(k *ecdsa.PrivateKey) []byte {
		data, err := sm.ReadSignedData(nil)
		kit.Must(err)
		sig, err := neofsecdsa.Signer(*k).Sign(data)
		kit.Must(err)
		return sig
	}
	switch cls {
	case "none":
	case "wrongkey": // a perfectly valid signature of a key that is not configured
		mk(pubBytes(w.stranger), sign(w.stranger))
	case "ownkey": // the server's own key (IR: white-listed by construction; node: not an administrator)
		mk(pubBytes(w.srvKey), sign(w.srvKey))
	case "valid":
		sg := sign(w.admins[0])
		mk(pubBytes(w.admins[0]), sg)
		data, _ := sm.ReadSignedData(nil)
		w.saved[c.M+"#"+c.Var] = savedSig{data: data, sig: sg}
	case "replay": // the administrator's key with a signature that WAS valid - for an earlier request of this server instance
		sv, ok := w.saved[c.Of]
		if !ok {
			return false
		}
		data, _ := sm.ReadSignedData(nil)
		w.replayOK = string(data) == string(sv.data)
		mk(pubBytes(w.admins[0]), sv.sig)
	case "garbage": // administrator's key, random bytes of a plausible length instead of a signature
		g := make([]byte, 65)
		_, _ = rand.Read(g)
		g[0] = 4
		mk(pubBytes(w.admins[0]), g)
	case "valid2":
		mk(pubBytes(w.admins[1]), sign(w.admins[1]))
	case "keymismatch": // administrator's key presented, signature made by another key
		mk(pubBytes(w.admins[0]), sign(w.stranger))
	case "badsig": // administrator's signature with one byte flipped
		s := sign(w.admins[0])
		s[len(s)/2] ^= 0x40
		mk(pubBytes(w.admins[0]), s)
	case "emptysig":
		mk(pubBytes(w.admins[0]), nil)
	case "badbody": // administrator signed ANOTHER body (the empty one); the body was filled in afterwards
		if !filled {
			return false
		}
		body := rv.Elem().FieldByName("Body")
		saved := reflect.New(body.Type()).Elem()
		saved.Set(body)
		body.Set(reflect.New(body.Type().Elem()))
		data0, err := sm.ReadSignedData(nil)
		kit.Must(err)
		s := sign(w.admins[0])
		body.Set(saved)
		data1, err := sm.ReadSignedData(nil)
		kit.Must(err)
		if string(data0) == string(data1) {
			return false // nothing to corrupt: the body carries no data
		}
		mk(pubBytes(w.admins[0]), s)
	default:
		panic("unknown signature class " + cls)
	}
	return true
}

// listStream is the server side of the ListObjects stream.
type listStream struct {
	mu  sync.Mutex
	n   int
	ctx context.Context
}

func (s *listStream) Send(*control.ListObjectsResponse) error {
	s.mu.Lock()
	s.n++
	s.mu.Unlock()
	return nil
}
func (s *listStream) SetHeader(metadata.MD) error  { return nil }
func (s *listStream) SendHeader(metadata.MD) error { return nil }
func (s *listStream) SetTrailer(metadata.MD)       {}
func (s *listStream) Context() context.Context     { return s.ctx }
func (s *listStream) SendMsg(any) error            { s.mu.Lock(); s.n++; s.mu.Unlock(); return nil }
func (s *listStream) RecvMsg(any) error            { return nil }

var _ grpc.ServerStreamingServer[control.ListObjectsResponse] = (*listStream)(nil)

type ctlCall struct {
	Srv string `json:"srv"`
	M   string `json:"m"`
	Sig string `json:"sig"`
	Var string `json:"var"` // "" = filled body, "zero" = body that marshals to zero bytes
	Of  string `json:"of"`  // class "replay": method#variant whose (once valid) signature is re-used
}

// authorised is the ground truth: does the request carry a valid signature of a configured key?
func authorised(c ctlCall) bool {
	switch c.Sig {
	case "valid", "valid2":
		return true
	case "ownkey":
		return c.Srv == "ir" // ir/server.New: "forms white list from all keys specified via WithAllowedKeys and a public key of the parameterized private key"
	}
	return false
}

// call performs one control call and returns its trace, or nil if the class does not apply / the method cannot be driven.
func (w *ctlWorld) call(c ctlCall) ([]kit.M, string) {
	var srv any = w.node
	if c.Srv == "ir" {
		srv = w.ir
	}
	mv := reflect.ValueOf(srv).MethodByName(c.M)
	mt := mv.Type()
	// locate the request parameter
	var reqT reflect.Type
	for i := 0; i < mt.NumIn(); i++ {
		if mt.In(i).Kind() == reflect.Ptr && strings.HasSuffix(mt.In(i).Elem().Name(), "Request") {
			reqT = mt.In(i)
		}
	}
	if reqT == nil {
		return nil, "no request parameter"
	}
	req := reflect.New(reqT.Elem())
	if _, ok := req.Interface().(signedMsg); !ok {
		return nil, "request is not a signed message"
	}
	filler, filled := w.bodies()[c.Srv+"."+c.M]
	if c.Var == "zero" {
		filler, filled = w.zeroBodies()[c.Srv+"."+c.M]
		if !filled {
			return nil, "no zero-length body for the method"
		}
	}
	if filled {
		req.Elem().FieldByName("Body").Set(reflect.ValueOf(filler()))
	} else if authorised(c) {
		return nil, "no body filler (authorised class not driven)"
	}
	if !w.setSig(req.Interface(), c.Sig, filled, c) {
		return nil, "class not applicable (request body carries no data / nothing to replay)"
	}
	auth := authorised(c)
	if c.Sig == "replay" {
		auth = w.replayOK // the signature covers the body only: the same bytes under another method are legitimately signed
	}
	var args []reflect.Value
	var stream *listStream
	for i := 0; i < mt.NumIn(); i++ {
		switch {
		case mt.In(i) == reqT:
			args = append(args, req)
		case mt.In(i) == reflect.TypeOf((*context.Context)(nil)).Elem():
			args = append(args, reflect.ValueOf(context.Background()))
		case reflect.TypeOf(&listStream{}).Implements(mt.In(i)):
			stream = &listStream{ctx: context.Background()}
			args = append(args, reflect.ValueOf(stream))
		default:
			return nil, fmt.Sprintf("parameter #%d of type %s cannot be constructed", i, mt.In(i))
		}
	}
	before := w.digest()
	w.rec.Start()
	w.rec.Emit("Call", "srv", c.Srv, "m", c.M, "sig", c.Sig, "auth", auth)
	outs := mv.Call(args)
	raw := w.rec.Stop()
	after := w.digest()
	var err error
	hasResp := stream != nil && stream.n > 0
	for _, o := range outs {
		if o.Type().Implements(reflect.TypeOf((*error)(nil)).Elem()) {
			if !o.IsNil() {
				err = o.Interface().(error)
			}
		} else if o.Kind() == reflect.Ptr && !o.IsNil() {
			hasResp = true
		}
	}
	evs := []kit.M{{"ev": "Call", "srv": c.Srv, "m": c.M, "sig": c.Sig, "auth": auth, "var": c.Var, "of": c.Of}}
	for _, e := range raw[1:] {
		evs = append(evs, kit.M{"ev": "Dep", "name": e["name"]})
	}
	if before != after {
		evs = append(evs, kit.M{"ev": "Change"})
	}
	kind, code := "ok", "OK"
	if err != nil {
		kind = "error"
		code = grpcstatus.Code(err).String()
		if grpcstatus.Code(err) == codes.PermissionDenied {
			kind = "denied"
		}
	}
	evs = append(evs, kit.M{"ev": "Reply", "kind": kind, "code": code, "resp": hasResp})
	return evs, ""
}

func ifaceMethods(t reflect.Type) []string {
	var ms []string
	for i := 0; i < t.NumMethod(); i++ {
		ms = append(ms, t.Method(i).Name)
	}
	sort.Strings(ms)
	return ms
}

// cmdControl: rpc control <trace.ndjson> <calls.ndjson>
func cmdControl(tracePath, callsPath string) {
	rnd := kit.Rand(32)
	refusal := []string{"none", "wrongkey", "keymismatch", "badsig", "emptysig", "garbage", "badbody", "ownkey"}
	type srvDesc struct {
		name string
		ms   []string
	}
	srvs := []srvDesc{
		{"node", ifaceMethods(reflect.TypeOf((*control.ControlServiceServer)(nil)).Elem())},
		{"ir", ifaceMethods(reflect.TypeOf((*ircontrol.ControlServiceServer)(nil)).Elem())},
	}
	tw, cw := kit.NewW(tracePath), kit.NewW(callsPath)
	status := kit.M{}
	n := 0
	emit := func(c ctlCall, evs []kit.M) {
		first := tw.N + 1
		for _, e := range evs {
			tw.Emit(e)
		}
		cw.Emit(kit.M{"i": n, "m": c.Srv + "." + c.M, "cls": c, "first": first, "last": tw.N})
		n++
	}
	rounds := 1
	if kit.Thorough() {
		rounds = 3 // other orders of the classes, fresh keys, fresh worlds
	}
	for r := 0; r < rounds; r++ {
		for _, sd := range srvs {
			for _, m := range sd.ms {
				for _, variant := range []string{"", "zero"} {
					// a fresh world per method: refusal classes (shuffled) -> authorised classes -> refusal classes again
					dir, err := os.MkdirTemp("", "ctlworld")
					kit.Must(err)
					key := sd.name + "." + m
					w := newCtlWorld(dir, key)
					_, filled := w.bodies()[key]
					if variant == "zero" {
						if _, ok := w.zeroBodies()[key]; !ok {
							w.Close()
							continue
						}
					} else {
						status[key] = "modelled"
						if !filled {
							status[key] = "unmodelled (no request body for the authorised class; refusal classes are still checked)"
						}
					}
					round := func(classes []string) {
						cs := append([]string(nil), classes...)
						rnd.Shuffle(len(cs), func(i, j int) { cs[i], cs[j] = cs[j], cs[i] })
						for _, sc := range cs {
							c := ctlCall{Srv: sd.name, M: m, Sig: sc, Var: variant}
							evs, why := w.call(c)
							if evs == nil {
								if strings.HasPrefix(why, "parameter") || strings.HasPrefix(why, "no request") || strings.HasPrefix(why, "request is not") {
									status[key] = "unmodelled (" + why + ")"
								}
								continue
							}
							emit(c, evs)
						}
					}
					round(refusal)
					round([]string{"valid", "valid2"})
					if !ctlAsync[key] {
						round(refusal)
					}
					w.Close()
				}
			}
			// replay sequences on ONE server instance: a correctly signed request of method A, then its signature (with the
			// administrator's key) attached to requests of every method / body
			type mv struct{ m, v string }
			var all []mv
			{
				dir, err := os.MkdirTemp("", "ctlworld")
				kit.Must(err)
				w0 := newCtlWorld(dir, "")
				for _, m := range sd.ms {
					if _, ok := w0.bodies()[sd.name+"."+m]; ok {
						all = append(all, mv{m, ""})
					}
					if _, ok := w0.zeroBodies()[sd.name+"."+m]; ok {
						all = append(all, mv{m, "zero"})
					}
				}
				w0.Close()
			}
			srcs := append([]mv(nil), all...)
			rnd.Shuffle(len(srcs), func(i, j int) { srcs[i], srcs[j] = srcs[j], srcs[i] })
			if !kit.Thorough() && len(srcs) > 5 {
				srcs = srcs[:5]
			}
			for _, src := range srcs {
				dir, err := os.MkdirTemp("", "ctlworld")
				kit.Must(err)
				w := newCtlWorld(dir, sd.name+"."+src.m)
				c := ctlCall{Srv: sd.name, M: src.m, Sig: "valid", Var: src.v}
				if evs, _ := w.call(c); evs != nil {
					emit(c, evs)
					tg := append([]mv(nil), all...)
					rnd.Shuffle(len(tg), func(i, j int) { tg[i], tg[j] = tg[j], tg[i] })
					for _, t := range tg {
						rc := ctlCall{Srv: sd.name, M: t.m, Sig: "replay", Var: t.v, Of: src.m + "#" + src.v}
						if evs, _ := w.call(rc); evs != nil {
							emit(rc, evs)
						}
					}
				}
				w.Close()
			}
		}
	}
	tw.Close()
	cw.Close()
	b, _ := json.Marshal(kit.M{"methods": status, "calls": n, "events": tw.N})
	fmt.Println(string(b))
}

// cmdControlReplay: rpc control-replay <replay.json> <trace.ndjson> <calls.ndjson>
func cmdControlReplay(in, tracePath, callsPath string) {
	b, err := os.ReadFile(in)
	kit.Must(err)
	var doc struct {
		Replay struct {
			Calls []ctlCall `json:"calls"`
		} `json:"replay"`
	}
	kit.Must(json.Unmarshal(b, &doc))
	tw, cw := kit.NewW(tracePath), kit.NewW(callsPath)
	dir, err := os.MkdirTemp("", "ctlworld")
	kit.Must(err)
	last := doc.Replay.Calls[len(doc.Replay.Calls)-1]
	w := newCtlWorld(dir, last.Srv+"."+doc.Replay.Calls[0].M) // all the calls of the replay on ONE server instance, in order
	for i, c := range doc.Replay.Calls {
		evs, why := w.call(c)
		if evs == nil {
			fmt.Fprintln(os.Stderr, "cannot replay:", why)
			os.Exit(2)
		}
		first := tw.N + 1
		for _, e := range evs {
			tw.Emit(e)
		}
		cw.Emit(kit.M{"i": i, "m": c.Srv + "." + c.M, "cls": c, "first": first, "last": tw.N})
	}
	w.Close()
	tw.Close()
	cw.Close()
	fmt.Println(`{"methods":{},"calls":1}`)
}
