package main

import (
	"strconv"

	"github.com/nspcc-dev/neofs-node/pkg/util/verifexport"
	"verifharness/internal/kit"
)

func init() { commands["nodeseq"] = nodeseq }

// nodeseq records, for every (totalParts, nodes) pair, the sequences yielded by the REAL iterator for
// every part index: {"t":5,"n":3,"seqs":[[0,1,2],[1,2,0],...]} (seqs[p] = sequence of part p).
func nodeseq(args []string) {
	maxT, err := strconv.Atoi(args[0])
	kit.Must(err)
	maxN, err := strconv.Atoi(args[1])
	kit.Must(err)
	w := kit.NewW(args[2])
	onlyT, onlyN := -1, -1
	if len(args) >= 5 { // replay of one pair
		onlyT, err = strconv.Atoi(args[3])
		kit.Must(err)
		onlyN, err = strconv.Atoi(args[4])
		kit.Must(err)
	}
	for t := 1; t <= maxT; t++ {
		for n := 0; n <= maxN; n++ {
			if onlyT >= 0 && (t != onlyT || n != onlyN) {
				continue
			}
			seqs := make([][]int, t)
			for p := 0; p < t; p++ {
				s := make([]int, 0, n)
				limit := 4*n + 8 // a broken iterator must not hang the harness
				for i := range verifexport.ECNodeSequenceForPart(p, t, n) {
					s = append(s, i)
					if len(s) >= limit {
						break
					}
				}
				seqs[p] = s
			}
			w.Emit(kit.M{"t": t, "n": n, "seqs": seqs})
		}
	}
	w.Close()
}
