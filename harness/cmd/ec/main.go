// Command ec is the conformance harness of the `ec` family (C22, C21, C23, C41).
//
//	ec nodeseq <maxParts> <maxNodes> <out.ndjson> [t n]    C22: real NodeSequenceForPart over the full range (or one pair)
//	ec eccode  <out.ndjson>                                 C21: real Encode/Decode/DecodeRange/DecodeIndexes records
//	ec assemble <cases.ndjson> <out.ndjson>                 C23: real getsvc.Service over a real StorageEngine
//	ec wire    <cases.ndjson> <out.ndjson>                  C41: real fast wire paths vs object.Unmarshal
package main

import (
	"fmt"
	"os"
)

var commands = map[string]func(args []string){}

func main() {
	if len(os.Args) < 2 || commands[os.Args[1]] == nil {
		fmt.Fprintln(os.Stderr, "usage: ec <nodeseq|eccode|eccode-run|assemble|wire> ...")
		os.Exit(2)
	}
	commands[os.Args[1]](os.Args[2:])
}
