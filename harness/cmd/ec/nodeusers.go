package main

import (
	"context"
	"encoding/binary"
	"strconv"

	putsvc "github.com/nspcc-dev/neofs-node/pkg/services/object/put"
	"github.com/nspcc-dev/neofs-node/pkg/services/policer"
	"github.com/nspcc-dev/neofs-node/pkg/services/replicator"
	"github.com/nspcc-dev/neofs-sdk-go/netmap"
	"github.com/nspcc-dev/neofs-sdk-go/object"
	"github.com/nspcc-dev/neofs-sdk-go/user"
	"go.uber.org/zap"
	"verifharness/internal/kit"
)

func init() { commands["nodeusers"] = nodeusers }

type captureRepl struct{ nodes []netmap.NodeInfo }

func (c *captureRepl) HandleTask(_ context.Context, t replicator.Task, _ replicator.TaskResult) {
	c.nodes = t.Nodes()
}

func nodeList(n int) []netmap.NodeInfo {
	out := make([]netmap.NodeInfo, n)
	for i := range out {
		key := make([]byte, 33)
		key[0] = 2
		binary.BigEndian.PutUint32(key[1:], uint32(i))
		out[i].SetPublicKey(key)
	}
	return out
}

func indexesOf(nodes []netmap.NodeInfo) []int {
	out := make([]int, len(nodes))
	for i := range nodes {
		k := nodes[i].PublicKey()
		if len(k) != 33 {
			out[i] = -1 // an unset slot
			continue
		}
		out[i] = int(binary.BigEndian.Uint32(k[1:]))
	}
	return out
}

// nodeusers <maxParts> <maxNodes> <out.ndjson>: the node order as the USERS of NodeSequenceForPart apply it:
//   - policer recreateECPart: node list of the replication task of a recreated part
//   - put ecNodesForPart: node list used to place a part
//
// one record per (user, parts, nodes, part): {"user":..,"t":..,"n":..,"p":..,"seq":[node indexes]}
func nodeusers(args []string) {
	maxT, err := strconv.Atoi(args[0])
	kit.Must(err)
	maxN, err := strconv.Atoi(args[1])
	kit.Must(err)
	w := kit.NewW(args[2])
	key := detKey(9)
	signer := user.NewAutoIDSigner(*key)
	var cap captureRepl
	pol := policer.NewForVerif(signer, nil, nil, &cap, policer.WithLogger(zap.NewNop()))
	e := &env{signer: signer, owner: signer.UserID()}
	payload := []byte("recreated part parent payload")
	parent := e.parentHeader(e.newCID(), payload)
	kit.Must(parent.CalculateAndSetID())
	for t := 1; t <= maxT; t++ {
		k := (t + 1) / 2
		m := t - k
		for n := 0; n <= maxN; n++ {
			if n > 3*t+1 && n%7 != 0 && n != maxN { // a sample of the larger node counts
				continue
			}
			nodes := nodeList(n)
			for p := 0; p < t; p++ {
				cap.nodes = nil
				pol.VerifRecreateECPart(context.Background(), parent, uint8(k), uint8(m), 0, p, []byte{1, 2, 3}, nodes)
				w.Emit(kit.M{"user": "policer-recreate", "t": t, "n": n, "p": p, "seq": indexesOf(cap.nodes)})
				w.Emit(kit.M{"user": "put-nodes", "t": t, "n": n, "p": p, "seq": indexesOf(putsvc.VerifECNodesForPart(nodes, p, t))})
			}
		}
	}
	_ = object.TypeRegular
	w.Close()
}
