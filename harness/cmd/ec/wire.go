package main

import (
	"bytes"
	"crypto/sha256"
	"encoding/hex"
	"fmt"
	"io"
	"math"
	"math/rand"
	"os"
	"sort"
	"strconv"

	"github.com/klauspost/compress/zstd"
	"github.com/nspcc-dev/neofs-node/pkg/local_object_storage/blobstor/common"
	"github.com/nspcc-dev/neofs-node/pkg/local_object_storage/blobstor/fstree"

	"github.com/nspcc-dev/neofs-node/pkg/util/verifexport"
	"github.com/nspcc-dev/neofs-sdk-go/checksum"
	cid "github.com/nspcc-dev/neofs-sdk-go/container/id"
	neofscrypto "github.com/nspcc-dev/neofs-sdk-go/crypto"
	"github.com/nspcc-dev/neofs-sdk-go/object"
	oid "github.com/nspcc-dev/neofs-sdk-go/object/id"
	protoobject "github.com/nspcc-dev/neofs-sdk-go/proto/object"
	iprotobuf "github.com/nspcc-dev/neofs-sdk-go/proto/protobuf"
	"github.com/nspcc-dev/neofs-sdk-go/proto/refs"
	"github.com/nspcc-dev/neofs-sdk-go/user"
	"github.com/nspcc-dev/neofs-sdk-go/version"
	"google.golang.org/protobuf/encoding/protowire"
	"google.golang.org/protobuf/proto"
	"verifharness/internal/kit"
)

func init() { commands["wire"] = wire; commands["wirefs"] = wirefs }

// wField is one field of an abstract message layout (spec/Wire.tla): number, wire type (0 varint, 2 LEN, others
// only for malformed variants), byte length of the tag varint and of the length varint, value length, nested layout.
type wField struct {
	Num int      `json:"num"`
	Wt  int      `json:"wt"`
	Tl  int      `json:"tl"`
	Ll  int      `json:"ll"`
	N   int      `json:"n"`
	V   int64    `json:"v"`
	Sub []wField `json:"sub"`
	val []byte
}

func varintW(v uint64, width int) []byte {
	b := protowire.AppendVarint(nil, v)
	for len(b) < width { // non-minimal encoding: continuation bit on the last byte, then zero
		b[len(b)-1] |= 0x80
		b = append(b, 0)
	}
	return b
}

// encode materialises the layout and fills in the actual tl/ll/n
func encode(fs []wField) []byte {
	var out []byte
	for i := range fs {
		f := &fs[i]
		if f.Sub != nil && len(f.Sub) > 0 {
			f.val = encode(f.Sub)
		}
		if f.Sub == nil {
			f.Sub = []wField{}
		}
		tag := varintW(protowire.EncodeTag(protowire.Number(f.Num), protowire.Type(f.Wt)), f.Tl)
		f.Tl = len(tag)
		out = append(out, tag...)
		f.N = len(f.val)
		f.V = 0
		if f.Wt == 0 {
			if u, n := protowire.ConsumeVarint(f.val); n > 0 && u < 1<<30 {
				f.V = int64(u)
			}
		}
		if f.Wt == 2 {
			l := varintW(uint64(len(f.val)), f.Ll)
			f.Ll = len(l)
			out = append(out, l...)
		} else {
			f.Ll = 0
		}
		out = append(out, f.val...)
	}
	return out
}

// decompose parses one message level into fields with minimal widths
func decompose(b []byte) []wField {
	var fs []wField
	for len(b) > 0 {
		num, typ, n := protowire.ConsumeTag(b)
		kit.Must(protowire.ParseError(n))
		b = b[n:]
		m := protowire.ConsumeFieldValue(num, typ, b)
		kit.Must(protowire.ParseError(m))
		f := wField{Num: int(num), Wt: int(typ), Tl: 1, Ll: 1}
		if typ == protowire.BytesType {
			v, _ := protowire.ConsumeBytes(b)
			f.val = bytes.Clone(v)
		} else {
			f.val = bytes.Clone(b[:m])
		}
		fs = append(fs, f)
		b = b[m:]
	}
	return fs
}

func cloneFields(fs []wField) []wField {
	out := make([]wField, len(fs))
	for i := range fs {
		out[i] = fs[i]
		out[i].val = bytes.Clone(fs[i].val)
		if fs[i].Sub != nil {
			out[i].Sub = cloneFields(fs[i].Sub)
		}
	}
	return out
}

func randID(r *rand.Rand) oid.ID {
	var b [32]byte
	r.Read(b[:])
	b[0] |= 1
	var id oid.ID
	kit.Must(id.Decode(b[:]))
	return id
}

func randObject(r *rand.Rand, withParent bool, payloadLen int) object.Object {
	mk := func(pl int) object.Object {
		var o object.Object
		ver := version.New(2, uint32(16+r.Intn(5)))
		o.SetVersion(&ver)
		var cb [32]byte
		r.Read(cb[:])
		var c cid.ID
		kit.Must(c.Decode(cb[:]))
		o.SetContainerID(c)
		key := detKey(int64(r.Intn(1000)))
		o.SetOwner(user.NewFromECDSAPublicKey(key.PublicKey))
		o.SetCreationEpoch(uint64(r.Intn(1 << 20)))
		o.SetPayloadSize(uint64(pl))
		var h [32]byte
		r.Read(h[:])
		o.SetPayloadChecksum(checksum.NewSHA256(h))
		o.SetType([]object.Type{object.TypeRegular, object.TypeTombstone, object.TypeLock, object.TypeLink}[r.Intn(4)])
		for i := r.Intn(4); i > 0; i-- {
			o.SetAttributes(append(o.Attributes(), object.NewAttribute("k"+strconv.Itoa(i), "value-"+strconv.Itoa(r.Intn(1000))))...)
		}
		o.SetID(randID(r))
		sig := make([]byte, 64)
		r.Read(sig)
		pub := make([]byte, 33)
		r.Read(pub)
		s := neofscrypto.NewSignatureFromRawKey(neofscrypto.ECDSA_DETERMINISTIC_SHA256, pub, sig)
		o.SetSignature(&s)
		return o
	}
	o := mk(payloadLen)
	if withParent {
		par := mk(payloadLen * 3)
		if r.Intn(2) == 0 {
			o.SetPreviousID(randID(r))
		}
		o.SetParent(&par)
		o.SetParentID(par.GetID())
		if r.Intn(2) == 0 {
			o.SetFirstID(randID(r))
		}
	}
	pl := make([]byte, payloadLen)
	r.Read(pl)
	o.SetPayload(pl)
	return o
}

type bnd = iprotobuf.FieldBounds

func b9(a, b, c bnd) []int {
	return []int{a.From, a.ValueFrom, a.To, b.From, b.ValueFrom, b.To, c.From, c.ValueFrom, c.To}
}

func protoEq(a, b proto.Message) bool {
	x, err1 := proto.MarshalOptions{Deterministic: true}.Marshal(a)
	y, err2 := proto.MarshalOptions{Deterministic: true}.Marshal(b)
	return err1 == nil && err2 == nil && bytes.Equal(x, y)
}

// boundsAgree: the non-missing bounds decode to the given reference messages
// (lenient: on a truncated buffer a field that was cut off may be reported missing)
func boundsAgree(buf []byte, idf, sigf, hdrf bnd, id *refs.ObjectID, sig *refs.Signature, hdr *protoobject.Header, lenient bool) bool {
	in := func(f bnd) bool {
		return f.From >= 0 && f.From <= f.ValueFrom && f.ValueFrom <= f.To && f.To <= len(buf)
	}
	if !in(idf) || !in(sigf) || !in(hdrf) {
		return false
	}
	ok := true
	if !idf.IsMissing() {
		var m refs.ObjectID
		ok = ok && proto.Unmarshal(buf[idf.ValueFrom:idf.To], &m) == nil && id != nil && protoEq(&m, id)
	} else {
		ok = ok && (id == nil || lenient)
	}
	if !sigf.IsMissing() {
		var m refs.Signature
		ok = ok && proto.Unmarshal(buf[sigf.ValueFrom:sigf.To], &m) == nil && sig != nil && protoEq(&m, sig)
	} else {
		ok = ok && (sig == nil || lenient)
	}
	if !hdrf.IsMissing() {
		var m protoobject.Header
		ok = ok && proto.Unmarshal(buf[hdrf.ValueFrom:hdrf.To], &m) == nil && hdr != nil && protoEq(&m, hdr)
	} else {
		ok = ok && (hdr == nil || lenient)
	}
	return ok
}

func guard(f func()) (panicked bool) {
	defer func() {
		if recover() != nil {
			panicked = true
		}
	}()
	f()
	return false
}

// objRecord: object-level message, cut to `cut` bytes
func objRecord(full []byte, cut int) kit.M {
	buf := bytes.Clone(full[:cut])
	rec := kit.M{"cut": cut}
	// full decoding of the COMPLETE message is the reference
	var fullMsg protoobject.Object
	fullOK := proto.Unmarshal(full, &fullMsg) == nil
	var fullObj object.Object
	if fullOK {
		fullOK = fullObj.FromProtoMessage(&fullMsg) == nil
	}
	var parID *refs.ObjectID
	var parSig *refs.Signature
	var parHdr *protoobject.Header
	if fullOK && fullMsg.Header != nil && fullMsg.Header.Split != nil {
		parID, parSig, parHdr = fullMsg.Header.Split.Parent, fullMsg.Header.Split.ParentSignature, fullMsg.Header.Split.ParentHeader
	}
	panicked := guard(func() {
		idf, sigf, hdrf, err := verifexport.WireGetNonPayloadFieldBounds(buf)
		nb := kit.M{"err": err != nil, "b": b9(idf, sigf, hdrf), "agree": false}
		if err == nil && fullOK {
			nb["agree"] = boundsAgree(buf, idf, sigf, hdrf, fullMsg.ObjectId, fullMsg.Signature, fullMsg.Header, cut < len(full))
		}
		rec["nb"] = nb

		hdr, pfx, err := verifexport.WireExtractHeaderAndPayload(buf)
		ex := kit.M{"err": err != nil, "pfx": 0, "agree": false}
		if err == nil {
			ex["pfx"] = len(buf) - len(pfx)
			if fullOK {
				got := hdr.ProtoMessage()
				lenient := cut < len(full)
				part := func(have bool, eq func() bool, want bool) bool {
					if have {
						return want && eq()
					}
					return !want || lenient
				}
				ex["agree"] = part(got.ObjectId != nil, func() bool { return protoEq(got.ObjectId, fullMsg.ObjectId) }, fullMsg.ObjectId != nil) &&
					part(got.Signature != nil, func() bool { return protoEq(got.Signature, fullMsg.Signature) }, fullMsg.Signature != nil) &&
					part(got.Header != nil, func() bool { return protoEq(got.Header, fullMsg.Header) }, fullMsg.Header != nil) &&
					bytes.HasPrefix(fullObj.Payload(), pfx) && (lenient || len(pfx) == len(fullObj.Payload()))
			}
		}
		rec["ex"] = ex

		pidf, psigf, phdrf, err := verifexport.WireGetParentNonPayloadFieldBounds(buf)
		pb := kit.M{"err": err != nil, "b": b9(pidf, psigf, phdrf), "agree": false}
		if err == nil && fullOK {
			pb["agree"] = boundsAgree(buf, pidf, psigf, phdrf, parID, parSig, parHdr, cut < len(full))
		}
		rec["pb"] = pb
	})
	rec["panic"] = panicked
	if panicked {
		for _, k := range []string{"nb", "ex", "pb"} {
			if _, ok := rec[k]; !ok {
				rec[k] = kit.M{"err": true, "b": make([]int, 9), "pfx": 0, "agree": false}
			}
		}
	}
	return rec
}

// hdrRecord: header-level message, cut to `cut` bytes
func hdrRecord(full []byte, cut int) kit.M {
	buf := bytes.Clone(full[:cut])
	rec := kit.M{"cut": cut}
	var fullMsg protoobject.Header
	fullOK := proto.Unmarshal(full, &fullMsg) == nil
	var parID *refs.ObjectID
	var parSig *refs.Signature
	var parHdr *protoobject.Header
	if fullOK && fullMsg.Split != nil {
		parID, parSig, parHdr = fullMsg.Split.Parent, fullMsg.Split.ParentSignature, fullMsg.Split.ParentHeader
	}
	panicked := guard(func() {
		v, err := verifexport.WireGetPayloadLengthHeader(buf)
		rec["pl"] = kit.M{"err": err != nil, "v": int64(v & 0x3fffffff), "agree": err == nil && fullOK && (v == fullMsg.PayloadLength || (cut < len(full) && v == 0))}
		t, err := verifexport.WireGetTypeHeader(buf)
		rec["ty"] = kit.M{"err": err != nil, "v": int64(t), "agree": err == nil && fullOK && (int32(t) == int32(fullMsg.ObjectType) || (cut < len(full) && t == 0))}
		if len(buf) > 0 {
			idf, sigf, hdrf, err := verifexport.WireGetParentNonPayloadFieldBoundsHeader(buf)
			pb := kit.M{"err": err != nil, "b": b9(idf, sigf, hdrf), "agree": false}
			if err == nil && fullOK {
				pb["agree"] = boundsAgree(buf, idf, sigf, hdrf, parID, parSig, parHdr, cut < len(full))
			}
			rec["pb"] = pb
		} else {
			rec["pb"] = kit.M{"err": true, "b": make([]int, 9), "agree": false}
		}
	})
	rec["panic"] = panicked
	if panicked {
		for _, k := range []string{"pl", "ty", "pb"} {
			if _, ok := rec[k]; !ok {
				rec[k] = kit.M{"err": true, "b": make([]int, 9), "v": 0, "agree": false}
			}
		}
	}
	return rec
}

// structural cut points: every field boundary, tag/len boundaries, +-1 around them, first/last value byte
func cutPoints(fs []wField, total int, every bool, r *rand.Rand) []int {
	set := map[int]bool{0: true, total: true}
	if every {
		for i := 0; i <= total; i++ {
			set[i] = true
		}
	} else {
		var walk func(fs []wField, base int) int
		walk = func(fs []wField, base int) int {
			off := base
			for _, f := range fs {
				for _, p := range []int{off, off + 1, off + f.Tl, off + f.Tl + f.Ll, off + f.Tl + f.Ll + 1, off + f.Tl + f.Ll + f.N - 1} {
					set[p] = true
				}
				if len(f.Sub) > 0 {
					walk(f.Sub, off+f.Tl+f.Ll)
				}
				off += f.Tl + f.Ll + f.N
				set[off] = true
			}
			return off
		}
		walk(fs, 0)
		for i := 0; i < 3; i++ {
			set[r.Intn(total+1)] = true
		}
	}
	var out []int
	for p := range set {
		if p >= 0 && p <= total {
			out = append(out, p)
		}
	}
	sort.Ints(out)
	return out
}

type variant struct {
	name string
	fs   []wField
}

// variants of one message level: canonical, dropped / swapped / duplicated fields, wide tag / length varints,
// wrong wire type, unknown field number
func variantsOf(base []wField, r *rand.Rand, unknownNum int, all bool) []variant {
	vs := []variant{{"canonical", cloneFields(base)}}
	n := len(base)
	for i := 0; i < n; i++ {
		d := cloneFields(base)
		vs = append(vs, variant{fmt.Sprintf("drop%d", base[i].Num), append(d[:i], d[i+1:]...)})
		w := cloneFields(base)
		w[i].Tl = 2
		vs = append(vs, variant{fmt.Sprintf("widetag%d", base[i].Num), w})
		if base[i].Wt == 2 {
			w2 := cloneFields(base)
			w2[i].Ll = 2
			if len(w2[i].val) >= 128 {
				w2[i].Ll = 3
			}
			vs = append(vs, variant{fmt.Sprintf("widelen%d", base[i].Num), w2})
		}
		dup := cloneFields(base)
		dup = append(dup[:i+1], append([]wField{cloneFields(base[i : i+1])[0]}, dup[i+1:]...)...)
		vs = append(vs, variant{fmt.Sprintf("dup%d", base[i].Num), dup})
		wt := cloneFields(base)
		if wt[i].Wt == 2 {
			wt[i].Wt, wt[i].val, wt[i].Sub = 0, []byte{0x2a}, nil
		} else {
			wt[i].Wt, wt[i].val = 2, []byte{1, 2, 3}
		}
		vs = append(vs, variant{fmt.Sprintf("wrongtype%d", base[i].Num), wt})
		if i+1 < n {
			s := cloneFields(base)
			s[i], s[i+1] = s[i+1], s[i]
			vs = append(vs, variant{fmt.Sprintf("swap%d_%d", base[i].Num, base[i+1].Num), s})
		}
	}
	for pos := 0; pos <= n; pos += max(n, 1) {
		u := cloneFields(base)
		uf := wField{Num: unknownNum, Wt: 2, Tl: 1, Ll: 1, val: []byte{9, 9}}
		u = append(u[:pos], append([]wField{uf}, u[pos:]...)...)
		vs = append(vs, variant{fmt.Sprintf("unknown@%d", pos), u})
	}
	// reversed and a random permutation
	rev := cloneFields(base)
	for i, j := 0, len(rev)-1; i < j; i, j = i+1, j-1 {
		rev[i], rev[j] = rev[j], rev[i]
	}
	vs = append(vs, variant{"reversed", rev})
	p := cloneFields(base)
	r.Shuffle(len(p), func(i, j int) { p[i], p[j] = p[j], p[i] })
	vs = append(vs, variant{"shuffled", p})
	vs = append(vs, variant{"empty", []wField{}})
	if !all && len(vs) > 14 { // quick: canonical + a seeded sample of the malformed variants
		keep := []variant{vs[0]}
		idx := r.Perm(len(vs) - 1)
		for _, i := range idx[:13] {
			keep = append(keep, vs[i+1])
		}
		vs = keep
	}
	return vs
}

// wire <out.ndjson>
func wire(args []string) {
	w := kit.NewW(args[0])
	r := kit.Rand(41)
	thorough := kit.Thorough()
	nObj := 4
	if thorough {
		nObj = 24
	}
	for i := 0; i < nObj; i++ {
		withParent := i%2 == 0
		plen := []int{5, 0, 200, 1, 1000}[i%5]
		o := randObject(r, withParent, plen)
		objFields := decompose(o.Marshal())
		// expose the header and its split message as nested layouts
		for j := range objFields {
			if objFields[j].Num == protoobject.FieldObjectHeader {
				objFields[j].Sub = decompose(objFields[j].val)
				for k := range objFields[j].Sub {
					if objFields[j].Sub[k].Num == protoobject.FieldHeaderSplit {
						objFields[j].Sub[k].Sub = decompose(objFields[j].Sub[k].val)
					}
				}
			}
		}
		every := thorough && i < 6
		for _, v := range variantsOf(objFields, r, 5, thorough || i == 0) {
			full := encode(v.fs)
			w.Emit(layoutRecord("obj", v.name, v.fs, full, cutPoints(v.fs, len(full), every && v.name == "canonical", r)))
		}
		// object level with variants of the split header (the parent walk must stay inside it, whatever follows)
		for j := range objFields {
			if objFields[j].Num != protoobject.FieldObjectHeader {
				continue
			}
			for k := range objFields[j].Sub {
				if objFields[j].Sub[k].Num != protoobject.FieldHeaderSplit {
					continue
				}
				base := objFields[j].Sub[k].Sub
				svs := variantsOf(base, r, 9, thorough || i == 0)
				for _, maxNum := range []int{3, 2, 1} { // split headers WITHOUT a parent header: only fields <= maxNum
					var keep []wField
					for _, f := range cloneFields(base) {
						if f.Num <= maxNum {
							keep = append(keep, f)
						}
					}
					svs = append(svs, variant{"dropgt" + strconv.Itoa(maxNum), keep})
				}
				for _, sv := range svs {
					o2 := cloneFields(objFields)
					o2[j].Sub[k].Sub = sv.fs
					if len(sv.fs) == 0 {
						o2[j].Sub[k].Sub, o2[j].Sub[k].val = []wField{}, nil
					}
					full := encode(o2)
					w.Emit(layoutRecord("obj", "split:"+sv.name, o2, full, cutPoints(o2, len(full), false, r)))
				}
			}
		}
		// header level
		var hdrFields []wField
		for _, f := range objFields {
			if f.Num == protoobject.FieldObjectHeader {
				hdrFields = cloneFields(f.Sub)
			}
		}
		for _, v := range variantsOf(hdrFields, r, 15, thorough || i == 0) {
			full := encode(v.fs)
			w.Emit(layoutRecord("hdr", v.name, v.fs, full, cutPoints(v.fs, len(full), every && v.name == "canonical", r)))
		}
		// split level (inside a canonical header)
		for si, f := range hdrFields {
			if f.Num != protoobject.FieldHeaderSplit {
				continue
			}
			for _, sv := range variantsOf(f.Sub, r, 9, thorough || i == 0) {
				h := cloneFields(hdrFields)
				h[si].Sub = sv.fs
				if len(sv.fs) == 0 {
					h[si].Sub, h[si].val = []wField{}, nil
				}
				full := encode(h)
				w.Emit(layoutRecord("hdr", "split:"+sv.name, h, full, cutPoints(h, len(full), false, r)))
			}
		}
	}
	_ = sha256.Size
	w.Close()
}

func isEncoding(variant string) bool {
	if len(variant) > 6 && variant[:6] == "split:" {
		variant = variant[6:]
	}
	for _, p := range []string{"canonical", "drop", "widetag", "widelen"} {
		if len(variant) >= len(p) && variant[:len(p)] == p {
			return true
		}
	}
	return false
}

// layoutRecord runs the fast paths on every cut of one materialised layout
func layoutRecord(level, variant string, fs []wField, full []byte, cuts []int) kit.M {
	var fullOK bool
	if level == "obj" {
		var m protoobject.Object
		fullOK = proto.Unmarshal(full, &m) == nil
		if fullOK {
			var o object.Object
			fullOK = o.FromProtoMessage(&m) == nil
		}
	} else {
		var m protoobject.Header
		fullOK = proto.Unmarshal(full, &m) == nil
	}
	runs := make([]kit.M, 0, len(cuts))
	for _, c := range cuts {
		if level == "obj" {
			runs = append(runs, objRecord(full, c))
		} else {
			runs = append(runs, hdrRecord(full, c))
		}
	}
	return kit.M{"level": level, "variant": variant, "enc": isEncoding(variant), "fields": fs, "total": len(full), "fullOK": fullOK, "runs": runs}
}

// ---------------------------------------------------------------- fstree head paths (fstree/head.go)

// wirefs <out.ndjson>: objects whose ID + signature + header grow up to the maximum are stored in a real FSTree,
// plain and as legacy zstd-compressed files (one object per file and combined files), and the header fast paths
// (Head, GetStream, ReadHeader, ReadObjectParts) are compared with full decoding (Get).
func wirefs(args []string) {
	w := kit.NewW(args[0])
	r := kit.Rand(42)
	enc, err := zstd.NewWriter(nil)
	kit.Must(err)
	defer enc.Close()
	attrLens := []int{100, 4000, 6500, 7400, 7800, 8000, 8100, 8168}
	if kit.Thorough() {
		for a := 7000; a < 8168; a += 97 {
			attrLens = append(attrLens, a)
		}
	}
	for ci, combined := range []bool{false, true} {
		dir, err := os.MkdirTemp("", "ec-wirefs-")
		kit.Must(err)
		opts := []fstree.Option{fstree.WithPath(dir), fstree.WithNoSync(true)}
		if !combined {
			opts = append(opts, fstree.WithCombinedCountLimit(1))
		}
		fst := fstree.New(opts...)
		kit.Must(fst.Open(false))
		kit.Must(fst.Init(common.ID{}))
		for _, attrRaw := range attrLens {
			for _, compressed := range []bool{true, false} {
				for _, plen := range []int{64 << 10, 3000} {
					obj := maxHeaderObject(r, attrRaw, plen)
					bin := obj.Marshal()
					stored := bin
					if compressed {
						stored = enc.EncodeAll(bin, nil)
					}
					addr := obj.Address()
					kit.Must(fst.Put(addr, stored))
					fs := decompose(bin)
					encode(fs)
					rec := kit.M{"level": "fs", "variant": "attr" + strconv.Itoa(attrRaw), "enc": true, "compressed": compressed, "combined": combined,
						"fields": fs, "total": len(bin), "stored": len(stored), "np": len(obj.CutPayload().Marshal()), "runs": []kit.M{}}
					rec["fs"] = fsRun(fst, addr, obj)
					rec["fullOK"] = rec["fs"].(kit.M)["getOK"]
					w.Emit(rec)
				}
			}
		}
		_ = fst.Close()
		_ = os.RemoveAll(dir)
		_ = ci
	}
	w.Close()
}

func maxHeaderObject(r *rand.Rand, attrRawLen, payloadLen int) object.Object {
	rb := func(n int) []byte { b := make([]byte, n); r.Read(b); return b }
	sig := neofscrypto.NewSignatureFromRawKey(math.MaxInt32, rb(neofscrypto.MaxVerificationScriptLength), rb(neofscrypto.MaxInvocationScriptLength))
	var obj object.Object
	obj.SetID(randID(r))
	var c cid.ID
	kit.Must(c.Decode(rb(32)))
	obj.SetContainerID(c)
	obj.SetSignature(&sig)
	obj.SetAttributes(object.NewAttribute("attr", hex.EncodeToString(rb(attrRawLen))))
	obj.SetPayload(rb(payloadLen))
	obj.SetPayloadSize(uint64(payloadLen))
	return obj
}

func fsRun(fst *fstree.FSTree, addr oid.Address, obj object.Object) (out kit.M) {
	out = kit.M{"getOK": false, "headOK": false, "headEq": false, "streamOK": false, "streamEq": false, "rhOK": false, "rhCovers": false,
		"partsOK": false, "partsEq": false, "panic": false}
	defer func() {
		if recover() != nil {
			out["panic"] = true
		}
	}()
	full, err := fst.Get(addr)
	if err != nil || !bytes.Equal(full.Marshal(), obj.Marshal()) {
		return out
	}
	out["getOK"] = true
	want := full.CutPayload().Marshal()
	if hdr, err := fst.Head(addr); err == nil {
		out["headOK"], out["headEq"] = true, bytes.Equal(hdr.Marshal(), want)
	}
	if hdr, stream, err := fst.GetStream(addr); err == nil {
		pld, rerr := io.ReadAll(stream)
		_ = stream.Close()
		out["streamOK"], out["streamEq"] = true, bytes.Equal(hdr.CutPayload().Marshal(), want) && rerr == nil && bytes.Equal(pld, full.Payload())
	}
	buf := make([]byte, 2*verifexport.WireNonPayloadFieldsBufferLength)
	if n, err := fst.ReadHeader(addr, buf); err == nil {
		out["rhOK"], out["rhCovers"] = true, n >= len(want) && bytes.HasPrefix(buf[:n], want)
	}
	var hdrLen int
	if n, stream, err := fst.ReadObjectParts(buf, addr, common.PayloadRange{}, func(b []byte) error { hdrLen = len(b); return nil }); err == nil {
		rest, rerr := io.ReadAll(stream)
		_ = stream.Close()
		out["partsOK"] = true
		out["partsEq"] = rerr == nil && hdrLen == full.HeaderLen() && bytes.Equal(full.Marshal(), append(buf[:n:n], rest...))
	}
	return out
}
