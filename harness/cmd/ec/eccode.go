package main

import (
	"bytes"
	"crypto/sha256"
	"encoding/hex"
	"encoding/json"
	"io"
	"math/rand"
	"os"
	"sort"
	"strings"

	putsvc "github.com/nspcc-dev/neofs-node/pkg/services/object/put"
	"github.com/nspcc-dev/neofs-node/pkg/util/verifexport"
	"github.com/nspcc-dev/neofs-sdk-go/object"
	"verifharness/internal/kit"
)

func init() {
	commands["eccode"] = eccode
	commands["eccode-replay"] = eccodeReplay
	commands["eccode-hazard"] = eccodeHazard
}

const (
	ecAttrPartsHashes = "__NEOFS__EC_PART_HASHES"
	ecMaxLen          = 4096
)

type ecRule = verifexport.ECRule

func payloadOf(r *rand.Rand, n int) []byte {
	b := make([]byte, n)
	for i := range b {
		b[i] = byte(1 + r.Intn(255)) // never zero, so that zero padding is distinguishable
	}
	return b
}

func cloneParts(p [][]byte) [][]byte {
	c := make([][]byte, len(p))
	for i := range p {
		if p[i] != nil {
			c[i] = bytes.Clone(p[i])
		}
	}
	return c
}

func erase(p [][]byte, miss []int) [][]byte {
	c := cloneParts(p)
	for _, i := range miss {
		c[i-1] = nil
	}
	return c
}

func contains(s []int, x int) bool {
	for _, v := range s {
		if v == x {
			return true
		}
	}
	return false
}

// all subsets of 1..t with at most maxSize elements, in a fixed order
func subsets(t, maxSize int) [][]int {
	var out [][]int
	var rec func(start int, cur []int)
	rec = func(start int, cur []int) {
		out = append(out, append([]int{}, cur...))
		if len(cur) == maxSize {
			return
		}
		for i := start; i <= t; i++ {
			rec(i+1, append(cur, i))
		}
	}
	rec(1, nil)
	sort.SliceStable(out, func(a, b int) bool { return len(out[a]) < len(out[b]) })
	return out
}

func lengthsFor(r *rand.Rand, k int, thorough bool) []int {
	set := map[int]bool{}
	add := func(v int) {
		if v >= 0 && v <= ecMaxLen {
			set[v] = true
		}
	}
	if thorough {
		for v := 0; v <= ecMaxLen; v++ {
			add(v)
		}
	} else {
		for v := 0; v <= 2*k+2; v++ {
			add(v)
		}
		for _, c := range []int{64, 256, 512, 1000, 1024, 2048, 4096} {
			for d := -1; d <= 1; d++ {
				add(c + d)
			}
			add(c / k * k)
			add(c/k*k + 1)
			add(c/k*k - 1)
		}
		for i := 0; i < 10; i++ {
			add(r.Intn(ecMaxLen + 1))
		}
	}
	out := make([]int, 0, len(set))
	for v := range set {
		out = append(out, v)
	}
	sort.Ints(out)
	return out
}

// encRecord runs the real Encode and records what the spec has expectations about.
func encRecord(rule ecRule, data []byte) (kit.M, [][]byte) {
	k, m := int(rule.DataPartNum), int(rule.ParityPartNum)
	parts, hashes, err := verifexport.ECEncode(rule, bytes.Clone(data))
	rec := kit.M{"kind": "enc", "k": k, "m": m, "len": len(data), "err": err != nil}
	if err != nil {
		rec["n"], rec["plen"], rec["hashN"], rec["hashOK"], rec["padZero"], rec["dataOK"] = 0, []int{}, 0, false, false, false
		return rec, nil
	}
	plen := make([]int, len(parts))
	hashOK := len(hashes) == len(parts)
	for i := range parts {
		plen[i] = len(parts[i])
		if i < len(hashes) {
			h := sha256.Sum256(parts[i])
			if hex.EncodeToString(h[:]) != hashes[i] {
				hashOK = false
			}
		}
	}
	var cat []byte
	for i := 0; i < k && i < len(parts); i++ {
		cat = append(cat, parts[i]...)
	}
	dataOK := len(cat) >= len(data) && bytes.Equal(cat[:len(data)], data)
	padZero := true
	if len(cat) >= len(data) {
		for _, b := range cat[len(data):] {
			if b != 0 {
				padZero = false
			}
		}
	}
	rec["n"], rec["plen"], rec["hashN"], rec["hashOK"], rec["padZero"], rec["dataOK"] = len(parts), plen, len(hashes), hashOK, padZero, dataOK
	return rec, parts
}

func decRecord(rule ecRule, data []byte, parts [][]byte, miss []int) kit.M {
	got, err := verifexport.ECDecode(rule, uint64(len(data)), erase(parts, miss))
	return kit.M{"kind": "dec", "k": int(rule.DataPartNum), "m": int(rule.ParityPartNum), "len": len(data), "miss": miss,
		"ok": err == nil, "eq": err == nil && bytes.Equal(got, data)}
}

// reconRecord: DecodeRange (idxs == nil) or DecodeIndexes.
func reconRecord(rule ecRule, data []byte, parts [][]byte, miss []int, from, to int, idxs []int) kit.M {
	in := erase(parts, miss)
	var err error
	var req []int
	rec := kit.M{"k": int(rule.DataPartNum), "m": int(rule.ParityPartNum), "len": len(data), "miss": miss}
	if idxs == nil {
		rec["kind"], rec["from"], rec["to"] = "rng", from, to
		for i := from; i <= to; i++ {
			req = append(req, i)
		}
		err = verifexport.ECDecodeRange(rule, from-1, to-1, in)
	} else {
		rec["kind"], rec["idxs"] = "idx", idxs
		req = idxs
		z := make([]int, len(idxs))
		for i := range idxs {
			z[i] = idxs[i] - 1
		}
		err = verifexport.ECDecodeIndexes(rule, in, z)
	}
	reqEq, presSame, othersNil := true, true, true
	for i := range parts {
		switch {
		case contains(req, i+1):
			if !bytes.Equal(in[i], parts[i]) {
				reqEq = false
			}
		case !contains(miss, i+1):
			if !bytes.Equal(in[i], parts[i]) {
				presSame = false
			}
		default:
			if len(in[i]) != 0 {
				othersNil = false
			}
		}
	}
	for i := range parts { // present requested parts must stay as they were as well
		if !contains(miss, i+1) && !bytes.Equal(in[i], parts[i]) {
			presSame = false
		}
	}
	rec["ok"], rec["reqEq"], rec["presSame"], rec["othersNil"] = err == nil, err == nil && reqEq, presSame, othersNil
	return rec
}

// multiRecord runs the real modifyECParentObject for several rules over one payload.
func multiRecord(rules []ecRule, data []byte, chunks int) kit.M {
	var hdr object.Object
	hdr.SetType(object.TypeRegular)
	hdr.SetPayloadSize(uint64(len(data)))
	// the SDK slicer passes io.MultiReader over bytes.Readers of its payload buffers
	src := bytes.Clone(data)
	var rs []io.Reader
	if chunks < 1 {
		chunks = 1
	}
	step := (len(src) + chunks - 1) / chunks
	if step == 0 {
		step = 1
	}
	for off := 0; off < len(src); off += step {
		rs = append(rs, bytes.NewReader(src[off:min(off+step, len(src))]))
	}
	rl := make([][2]int, len(rules))
	for i := range rules {
		rl[i] = [2]int{int(rules[i].DataPartNum), int(rules[i].ParityPartNum)}
	}
	rec := kit.M{"kind": "multi", "rules": rl, "len": len(data)}
	enc, retained, err := putsvc.VerifEncodeECParent(rules, &hdr, io.MultiReader(rs...))
	rec["err"] = err != nil
	per := make([]kit.M, 0, len(rules))
	var wantHashes []string
	for i := range rules {
		freshParts, freshHashes, ferr := verifexport.ECEncode(rules[i], bytes.Clone(data))
		kit.Must(ferr)
		wantHashes = append(wantHashes, freshHashes...)
		p := kit.M{"fresh": false, "decOK": false}
		if err == nil && i < len(enc) && len(enc[i]) == len(freshParts) {
			same := true
			for j := range freshParts {
				if !bytes.Equal(enc[i][j], freshParts[j]) {
					same = false
				}
			}
			p["fresh"] = same
			if len(data) > 0 {
				// erase the first m parts and decode from what modifyECParentObject produced
				var miss []int
				for j := 1; j <= int(rules[i].ParityPartNum); j++ {
					miss = append(miss, j)
				}
				got, derr := verifexport.ECDecode(rules[i], uint64(len(data)), erase(enc[i], miss))
				p["decOK"] = derr == nil && bytes.Equal(got, data)
			} else {
				p["decOK"] = true
			}
		}
		per = append(per, p)
	}
	rec["per"] = per
	attrOK := false
	for _, a := range hdr.Attributes() {
		if a.Key() == ecAttrPartsHashes {
			attrOK = a.Value() == strings.Join(wantHashes, ",")
		}
	}
	rec["attrOK"] = attrOK
	rec["payloadSame"] = err == nil && bytes.Equal(retained, data)
	return rec
}

func allRules() []ecRule {
	var out []ecRule
	for k := 1; k <= 8; k++ {
		for m := 0; m <= 4; m++ {
			out = append(out, ecRule{DataPartNum: uint8(k), ParityPartNum: uint8(m)})
		}
	}
	return out
}

// eccode <out.ndjson>
func eccode(args []string) {
	w := kit.NewW(args[0])
	thorough := kit.Thorough()
	r := kit.Rand(21)
	perLen := 3
	if thorough {
		perLen = 4
	}
	for _, rule := range allRules() {
		k, m := int(rule.DataPartNum), int(rule.ParityPartNum)
		t := k + m
		all := subsets(t, min(m+1, t))
		var good, bad [][]int // |miss| <= m: must decode (the property); |miss| = m+1: must not
		for _, p := range all {
			if len(p) <= m {
				good = append(good, p)
			} else {
				bad = append(bad, p)
			}
		}
		lens := lengthsFor(r, k, thorough)
		gi, bi := r.Intn(len(good)), 0
		if len(bad) > 0 {
			bi = r.Intn(len(bad))
		}
		for li, n := range lens {
			data := payloadOf(r, n)
			rec, parts := encRecord(rule, data)
			w.Emit(rec)
			if parts == nil {
				continue
			}
			if thorough && li%5 != 0 && n > 2*k+2 && n%k > 1 && n != ecMaxLen {
				continue // thorough: every length is encoded; decoding on every 5th and on all boundary lengths
			}
			for j := 0; j < perLen; j++ {
				var miss []int
				if j == perLen-1 && len(bad) > 0 {
					miss = bad[bi%len(bad)]
					bi++
				} else {
					miss = good[gi%len(good)]
					gi++
				}
				w.Emit(decRecord(rule, data, parts, miss))
				from := 1 + r.Intn(t)
				to := from + r.Intn(t-from+1)
				if len(miss) > 0 && r.Intn(2) == 0 { // make the range hit a missing part
					x := miss[r.Intn(len(miss))]
					from, to = min(from, x), max(to, x)
				}
				w.Emit(reconRecord(rule, data, parts, miss, from, to, nil))
				var idxs []int
				for i := 1; i <= t; i++ {
					if r.Intn(3) == 0 || (contains(miss, i) && r.Intn(2) == 0) {
						idxs = append(idxs, i)
					}
				}
				if len(idxs) == 0 {
					idxs = []int{1 + r.Intn(t)}
				}
				w.Emit(reconRecord(rule, data, parts, miss, 0, 0, idxs))
			}
		}
	}
	// several rules from one buffer (the real modifyECParentObject); the pooled buffer has cap 1024
	rules := allRules()
	nMulti := 400
	if thorough {
		nMulti = 6000
	}
	special := []int{0, 1, 2, 3, 5, 7, 8, 64, 511, 512, 513, 1000, 1023, 1024, 1025, 2047, 2048, 4095, 4096}
	for i := 0; i < nMulti; i++ {
		nr := 1 + r.Intn(4)
		rs := make([]ecRule, nr)
		for j := range rs {
			rs[j] = rules[r.Intn(len(rules))]
		}
		if i%7 == 0 && nr > 1 {
			rs[1] = rs[0] // repeated rule
		}
		n := special[i%len(special)]
		if i%3 == 0 {
			n = r.Intn(ecMaxLen + 1)
		}
		w.Emit(multiRecord(rs, payloadOf(r, n), 1+r.Intn(3)))
	}
	w.Close()
}

// eccode-replay <record.json> <out.ndjson>: re-run one recorded input against the current tree
func eccodeReplay(args []string) {
	raw, err := os.ReadFile(args[0])
	kit.Must(err)
	var in struct {
		Kind     string
		K, M     int
		Len      int
		Miss     []int
		From, To int
		Idxs     []int
		Rules    [][2]int
	}
	kit.Must(json.Unmarshal(raw, &in))
	w := kit.NewW(args[1])
	r := kit.Rand(22)
	data := payloadOf(r, in.Len)
	rule := ecRule{DataPartNum: uint8(in.K), ParityPartNum: uint8(in.M)}
	switch in.Kind {
	case "enc":
		rec, _ := encRecord(rule, data)
		w.Emit(rec)
	case "dec", "rng", "idx":
		_, parts := encRecord(rule, data)
		if parts == nil {
			break
		}
		switch in.Kind {
		case "dec":
			w.Emit(decRecord(rule, data, parts, in.Miss))
		case "rng":
			w.Emit(reconRecord(rule, data, parts, in.Miss, in.From, in.To, nil))
		default:
			w.Emit(reconRecord(rule, data, parts, in.Miss, 0, 0, in.Idxs))
		}
	case "multi":
		rs := make([]ecRule, len(in.Rules))
		for i := range rs {
			rs[i] = ecRule{DataPartNum: uint8(in.Rules[i][0]), ParityPartNum: uint8(in.Rules[i][1])}
		}
		for chunks := 1; chunks <= 3; chunks++ {
			w.Emit(multiRecord(rs, data, chunks))
		}
	}
	w.Close()
}

// eccode-hazard <k1> <m1> <k2> <m2> <len> <cap>: replays the counterexample of ECMulti with Guard = FALSE on the
// real iec.Encode: two rules encoded from one slice WITH spare capacity. Prints {"corrupted":bool}.
// This is a demonstration that the modelled library behaviour is real; it is never a verdict.
func eccodeHazard(args []string) {
	v := make([]int, 6)
	for i := range v {
		kit.Must(json.Unmarshal([]byte(args[i]), &v[i]))
	}
	r := kit.Rand(23)
	data := payloadOf(r, v[4])
	buf := make([]byte, v[4], v[5])
	copy(buf, data)
	r1 := ecRule{DataPartNum: uint8(v[0]), ParityPartNum: uint8(v[1])}
	r2 := ecRule{DataPartNum: uint8(v[2]), ParityPartNum: uint8(v[3])}
	p1, _, err := verifexport.ECEncode(r1, buf)
	kit.Must(err)
	snapshot := cloneParts(p1)
	_, _, err = verifexport.ECEncode(r2, buf)
	kit.Must(err)
	corrupted := false
	for i := range p1 {
		if !bytes.Equal(p1[i], snapshot[i]) {
			corrupted = true
		}
	}
	out, _ := json.Marshal(kit.M{"corrupted": corrupted, "payloadIntact": bytes.Equal(buf[:v[4]], data)})
	os.Stdout.Write(append(out, '\n'))
}
