package main

import (
	"bytes"
	"crypto/sha256"
	"encoding/hex"
	"encoding/json"
	"fmt"
	"io"
	"math/rand"
	"os"
	"sort"
	"strconv"
	"strings"

	putsvc "github.com/nspcc-dev/neofs-node/pkg/services/object/put"
	"github.com/nspcc-dev/neofs-node/pkg/util/verifexport"
	"github.com/nspcc-dev/neofs-sdk-go/object"
	"verifharness/internal/kit"
)

func init() {
	commands["eccode"] = eccode
	commands["eccode-replay"] = eccodeReplay
	commands["eccode-hazard"] = eccodeHazard
}

const (
	ecAttrPartsHashes = "__NEOFS__EC_PART_HASHES"
	ecMaxLen          = 4096
)

type ecRule = verifexport.ECRule

func payloadOf(r *rand.Rand, n int) []byte {
	b := make([]byte, n)
	for i := range b {
		b[i] = byte(1 + r.Intn(255)) // never zero, so that zero padding is distinguishable
	}
	return b
}

func cloneParts(p [][]byte) [][]byte {
	c := make([][]byte, len(p))
	for i := range p {
		if p[i] != nil {
			c[i] = bytes.Clone(p[i])
		}
	}
	return c
}

func erase(p [][]byte, miss []int) [][]byte {
	c := cloneParts(p)
	for _, i := range miss {
		c[i-1] = nil
	}
	return c
}

func contains(s []int, x int) bool {
	for _, v := range s {
		if v == x {
			return true
		}
	}
	return false
}

// all subsets of 1..t with at most maxSize elements, in a fixed order
func subsets(t, maxSize int) [][]int {
	var out [][]int
	var rec func(start int, cur []int)
	rec = func(start int, cur []int) {
		out = append(out, append([]int{}, cur...))
		if len(cur) == maxSize {
			return
		}
		for i := start; i <= t; i++ {
			rec(i+1, append(cur, i))
		}
	}
	rec(1, nil)
	sort.SliceStable(out, func(a, b int) bool { return len(out[a]) < len(out[b]) })
	return out
}

func lengthsFor(r *rand.Rand, k int, thorough bool) []int {
	set := map[int]bool{}
	add := func(v int) {
		if v >= 0 && v <= ecMaxLen {
			set[v] = true
		}
	}
	if thorough {
		for v := 0; v <= ecMaxLen; v++ {
			add(v)
		}
	} else {
		for v := 0; v <= 2*k+2; v++ {
			add(v)
		}
		for _, c := range []int{64, 256, 512, 1000, 1024, 2048, 4096} {
			for d := -1; d <= 1; d++ {
				add(c + d)
			}
			add(c / k * k)
			add(c/k*k + 1)
			add(c/k*k - 1)
		}
		for i := 0; i < 10; i++ {
			add(r.Intn(ecMaxLen + 1))
		}
	}
	out := make([]int, 0, len(set))
	for v := range set {
		out = append(out, v)
	}
	sort.Ints(out)
	return out
}

// encRecord runs the real Encode and records what the spec has expectations about.
func encRecord(rule ecRule, data []byte) (kit.M, [][]byte) {
	k, m := int(rule.DataPartNum), int(rule.ParityPartNum)
	parts, hashes, err := verifexport.ECEncode(rule, bytes.Clone(data))
	rec := kit.M{"kind": "enc", "k": k, "m": m, "len": len(data), "err": err != nil}
	if err != nil {
		rec["n"], rec["plen"], rec["hashN"], rec["hashOK"], rec["padZero"], rec["dataOK"] = 0, []int{}, 0, false, false, false
		return rec, nil
	}
	plen := make([]int, len(parts))
	hashOK := len(hashes) == len(parts)
	for i := range parts {
		plen[i] = len(parts[i])
		if i < len(hashes) {
			h := sha256.Sum256(parts[i])
			if hex.EncodeToString(h[:]) != hashes[i] {
				hashOK = false
			}
		}
	}
	var cat []byte
	for i := 0; i < k && i < len(parts); i++ {
		cat = append(cat, parts[i]...)
	}
	dataOK := len(cat) >= len(data) && bytes.Equal(cat[:len(data)], data)
	padZero := true
	if len(cat) >= len(data) {
		for _, b := range cat[len(data):] {
			if b != 0 {
				padZero = false
			}
		}
	}
	rec["n"], rec["plen"], rec["hashN"], rec["hashOK"], rec["padZero"], rec["dataOK"] = len(parts), plen, len(hashes), hashOK, padZero, dataOK
	return rec, parts
}

func decRecord(rule ecRule, data []byte, parts [][]byte, miss []int) kit.M {
	got, err := verifexport.ECDecode(rule, uint64(len(data)), erase(parts, miss))
	return kit.M{"kind": "dec", "k": int(rule.DataPartNum), "m": int(rule.ParityPartNum), "len": len(data), "miss": miss,
		"ok": err == nil, "eq": err == nil && bytes.Equal(got, data)}
}

// reconRecord: DecodeRange (idxs == nil) or DecodeIndexes.
func reconRecord(rule ecRule, data []byte, parts [][]byte, miss []int, from, to int, idxs []int) kit.M {
	in := erase(parts, miss)
	var err error
	var req []int
	rec := kit.M{"k": int(rule.DataPartNum), "m": int(rule.ParityPartNum), "len": len(data), "miss": miss}
	if idxs == nil {
		rec["kind"], rec["from"], rec["to"] = "rng", from, to
		for i := from; i <= to; i++ {
			req = append(req, i)
		}
		err = verifexport.ECDecodeRange(rule, from-1, to-1, in)
	} else {
		rec["kind"], rec["idxs"] = "idx", idxs
		req = idxs
		z := make([]int, len(idxs))
		for i := range idxs {
			z[i] = idxs[i] - 1
		}
		err = verifexport.ECDecodeIndexes(rule, in, z)
	}
	reqEq, presSame, othersNil := true, true, true
	for i := range parts {
		switch {
		case contains(req, i+1):
			if !bytes.Equal(in[i], parts[i]) {
				reqEq = false
			}
		case !contains(miss, i+1):
			if !bytes.Equal(in[i], parts[i]) {
				presSame = false
			}
		default:
			if len(in[i]) != 0 {
				othersNil = false
			}
		}
	}
	for i := range parts { // present requested parts must stay as they were as well
		if !contains(miss, i+1) && !bytes.Equal(in[i], parts[i]) {
			presSame = false
		}
	}
	rec["ok"], rec["reqEq"], rec["presSame"], rec["othersNil"] = err == nil, err == nil && reqEq, presSame, othersNil
	return rec
}

// multiEval runs the real modifyECParentObject for several rules over one payload and examines EVERY rule's
// parts AFTER all rules were encoded: equal lengths, announced hashes (parent header attribute) match the parts,
// parts equal an independent encoding of a private copy, decoding with lost parts returns the payload.
type multiRes struct {
	err, attrOK, payloadSame bool
	slack                    int // cap - len of the buffer retained by the target (spare capacity seen by the EC library)
	per                      []kit.M
}

func lossPatterns(k, m int, all bool) [][]int {
	t := k + m
	if m == 0 {
		return [][]int{{}}
	}
	if all && t <= 6 {
		return subsets(t, m)
	}
	pats := [][]int{{}}
	for i := 1; i <= t; i++ { // every single part
		pats = append(pats, []int{i})
	}
	first, last := []int{}, []int{}
	for i := 1; i <= m; i++ {
		first = append(first, i)
		last = append(last, t-m+i)
	}
	return append(pats, first, last)
}

func multiEval(rules []ecRule, data []byte, chunks int, allPatterns bool) multiRes {
	var hdr object.Object
	hdr.SetType(object.TypeRegular)
	hdr.SetPayloadSize(uint64(len(data)))
	// the SDK slicer passes io.MultiReader over bytes.Readers of its payload buffers
	src := bytes.Clone(data)
	var rs []io.Reader
	if chunks < 1 {
		chunks = 1
	}
	step := (len(src) + chunks - 1) / chunks
	if step == 0 {
		step = 1
	}
	for off := 0; off < len(src); off += step {
		rs = append(rs, bytes.NewReader(src[off:min(off+step, len(src))]))
	}
	enc, retained, err := putsvc.VerifEncodeECParent(rules, &hdr, io.MultiReader(rs...))
	res := multiRes{err: err != nil, slack: cap(retained) - len(retained)}
	var announced []string
	for _, a := range hdr.Attributes() {
		if a.Key() == ecAttrPartsHashes {
			announced = strings.Split(a.Value(), ",")
		}
	}
	var wantHashes []string
	pos := 0
	for i := range rules {
		k, m := int(rules[i].DataPartNum), int(rules[i].ParityPartNum)
		freshParts, freshHashes, ferr := verifexport.ECEncode(rules[i], bytes.Clone(data))
		kit.Must(ferr)
		wantHashes = append(wantHashes, freshHashes...)
		p := kit.M{"fresh": false, "decOK": false, "lensEq": false, "hashOK": false}
		if err == nil && i < len(enc) && len(enc[i]) == len(freshParts) {
			same, lensEq, hashOK := true, true, pos+len(enc[i]) <= len(announced)
			for j := range freshParts {
				if !bytes.Equal(enc[i][j], freshParts[j]) {
					same = false
				}
				if len(enc[i][j]) != len(enc[i][0]) {
					lensEq = false
				}
				if hashOK {
					h := sha256.Sum256(enc[i][j])
					hashOK = hex.EncodeToString(h[:]) == announced[pos+j]
				}
			}
			p["fresh"], p["lensEq"], p["hashOK"] = same, lensEq, hashOK
			decOK := true
			if len(data) > 0 {
				for _, miss := range lossPatterns(k, m, allPatterns) {
					got, derr := verifexport.ECDecode(rules[i], uint64(len(data)), erase(enc[i], miss))
					if derr != nil || !bytes.Equal(got, data) {
						decOK = false
					}
				}
			}
			p["decOK"] = decOK
		}
		pos += k + m
		res.per = append(res.per, p)
	}
	res.attrOK = len(announced) == len(wantHashes) && strings.Join(announced, ",") == strings.Join(wantHashes, ",")
	res.payloadSame = err == nil && bytes.Equal(retained, data)
	return res
}

func rulePairs(rules []ecRule) [][2]int {
	rl := make([][2]int, len(rules))
	for i := range rules {
		rl[i] = [2]int{int(rules[i].DataPartNum), int(rules[i].ParityPartNum)}
	}
	return rl
}

// multiRecord: one rule sequence, one payload
func multiRecord(rules []ecRule, data []byte, chunks int) kit.M {
	res := multiEval(rules, data, chunks, false)
	return kit.M{"kind": "multi", "rules": rulePairs(rules), "len": len(data), "err": res.err, "per": res.per,
		"attrOK": res.attrOK, "payloadSame": res.payloadSame, "slack": res.slack}
}

// mseqRecord: one ORDERED rule sequence x many payload lengths. bad[i] = 1-based indexes of the rules for which
// any of the per-rule checks fails at lens[i]; gen[i] = general failure (error, attribute, payload buffer changed).
func mseqRecord(r *rand.Rand, rules []ecRule, lens []int, allPatterns bool) kit.M {
	bad := make([][]int, len(lens))
	gen := make([]bool, len(lens))
	slack := make([]int, len(lens))
	why := ""
	for i, n := range lens {
		res := multiEval(rules, payloadOf(r, n), 1+i%2, allPatterns)
		bad[i] = []int{}
		for j, p := range res.per {
			if !(p["fresh"].(bool) && p["lensEq"].(bool) && p["hashOK"].(bool) && p["decOK"].(bool)) {
				bad[i] = append(bad[i], j+1)
				if why == "" {
					why = "len=" + strconv.Itoa(n) + " rule#" + strconv.Itoa(j) + " " + fmt.Sprint(p)
				}
			}
		}
		gen[i] = res.err || !res.attrOK || !res.payloadSame
		if gen[i] && why == "" {
			why = "len=" + strconv.Itoa(n) + fmt.Sprintf(" err=%v attrOK=%v payloadSame=%v", res.err, res.attrOK, res.payloadSame)
		}
		slack[i] = res.slack
	}
	return kit.M{"kind": "mseq", "rules": rulePairs(rules), "lens": lens, "slack": slack, "bad": bad, "gen": gen, "why": why}
}

func allRules() []ecRule {
	var out []ecRule
	for k := 1; k <= 8; k++ {
		for m := 0; m <= 4; m++ {
			out = append(out, ecRule{DataPartNum: uint8(k), ParityPartNum: uint8(m)})
		}
	}
	return out
}

// eccode <out.ndjson>
func eccode(args []string) {
	w := kit.NewW(args[0])
	thorough := kit.Thorough()
	r := kit.Rand(21)
	perLen := 3
	if thorough {
		perLen = 4
	}
	for _, rule := range allRules() {
		k, m := int(rule.DataPartNum), int(rule.ParityPartNum)
		t := k + m
		all := subsets(t, min(m+1, t))
		var good, bad [][]int // |miss| <= m: must decode (the property); |miss| = m+1: must not
		for _, p := range all {
			if len(p) <= m {
				good = append(good, p)
			} else {
				bad = append(bad, p)
			}
		}
		lens := lengthsFor(r, k, thorough)
		gi, bi := r.Intn(len(good)), 0
		if len(bad) > 0 {
			bi = r.Intn(len(bad))
		}
		for li, n := range lens {
			data := payloadOf(r, n)
			rec, parts := encRecord(rule, data)
			w.Emit(rec)
			if parts == nil {
				continue
			}
			if thorough && li%5 != 0 && n > 2*k+2 && n%k > 1 && n != ecMaxLen {
				continue // thorough: every length is encoded; decoding on every 5th and on all boundary lengths
			}
			for j := 0; j < perLen; j++ {
				var miss []int
				if j == perLen-1 && len(bad) > 0 {
					miss = bad[bi%len(bad)]
					bi++
				} else {
					miss = good[gi%len(good)]
					gi++
				}
				w.Emit(decRecord(rule, data, parts, miss))
				from := 1 + r.Intn(t)
				to := from + r.Intn(t-from+1)
				if len(miss) > 0 && r.Intn(2) == 0 { // make the range hit a missing part
					x := miss[r.Intn(len(miss))]
					from, to = min(from, x), max(to, x)
				}
				w.Emit(reconRecord(rule, data, parts, miss, from, to, nil))
				var idxs []int
				for i := 1; i <= t; i++ {
					if r.Intn(3) == 0 || (contains(miss, i) && r.Intn(2) == 0) {
						idxs = append(idxs, i)
					}
				}
				if len(idxs) == 0 {
					idxs = []int{1 + r.Intn(t)}
				}
				w.Emit(reconRecord(rule, data, parts, miss, 0, 0, idxs))
			}
		}
	}
	// several rules from one buffer (the real modifyECParentObject); the pooled buffer has cap 1024
	rules := allRules()
	nMulti := 400
	if thorough {
		nMulti = 6000
	}
	special := []int{0, 1, 2, 3, 5, 7, 8, 64, 511, 512, 513, 1000, 1023, 1024, 1025, 2047, 2048, 4095, 4096}
	for i := 0; i < nMulti; i++ {
		nr := 1 + r.Intn(4)
		rs := make([]ecRule, nr)
		for j := range rs {
			rs[j] = rules[r.Intn(len(rules))]
		}
		if i%7 == 0 && nr > 1 {
			rs[1] = rs[0] // repeated rule
		}
		n := special[i%len(special)]
		if i%3 == 0 {
			n = r.Intn(ecMaxLen + 1)
		}
		w.Emit(multiRecord(rs, payloadOf(r, n), 1+r.Intn(3)))
	}
	// systematic: ALL ordered pairs of rules (and some triples) x EVERY small length. Spare capacity handed to the EC
	// library matters only when a later rule's shards fit into it, i.e. for tiny payloads and a particular ORDER.
	var pairRules []ecRule
	for _, rl := range rules {
		if thorough || rl.ParityPartNum <= 2 {
			pairRules = append(pairRules, rl)
		}
	}
	var lens []int
	maxSmall := 64
	if thorough {
		maxSmall = 256
	}
	for n := 0; n <= maxSmall; n++ {
		lens = append(lens, n)
	}
	if thorough {
		lens = append(lens, 511, 512, 513, 1023, 1024, 1025, 4095, 4096)
	}
	for _, a := range pairRules {
		for _, b := range pairRules {
			w.Emit(mseqRecord(r, []ecRule{a, b}, lens, thorough))
		}
	}
	nTriples := 80
	if thorough {
		nTriples = 600
	}
	for i := 0; i < nTriples; i++ {
		t3 := []ecRule{rules[r.Intn(len(rules))], rules[r.Intn(len(rules))], rules[r.Intn(len(rules))]}
		if i%2 == 0 { // descending data counts: later rules have shorter... longer parts, the order that can alias
			sort.Slice(t3, func(x, y int) bool { return t3[x].DataPartNum > t3[y].DataPartNum })
		}
		w.Emit(mseqRecord(r, t3, lens, false))
	}
	w.Close()
}

// eccode-replay <record.json> <out.ndjson>: re-run one recorded input against the current tree
func eccodeReplay(args []string) {
	raw, err := os.ReadFile(args[0])
	kit.Must(err)
	var in struct {
		Kind     string
		K, M     int
		Len      int
		Miss     []int
		From, To int
		Idxs     []int
		Rules    [][2]int
	}
	kit.Must(json.Unmarshal(raw, &in))
	w := kit.NewW(args[1])
	r := kit.Rand(22)
	data := payloadOf(r, in.Len)
	rule := ecRule{DataPartNum: uint8(in.K), ParityPartNum: uint8(in.M)}
	switch in.Kind {
	case "enc":
		rec, _ := encRecord(rule, data)
		w.Emit(rec)
	case "dec", "rng", "idx":
		_, parts := encRecord(rule, data)
		if parts == nil {
			break
		}
		switch in.Kind {
		case "dec":
			w.Emit(decRecord(rule, data, parts, in.Miss))
		case "rng":
			w.Emit(reconRecord(rule, data, parts, in.Miss, in.From, in.To, nil))
		default:
			w.Emit(reconRecord(rule, data, parts, in.Miss, 0, 0, in.Idxs))
		}
	case "multi":
		rs := make([]ecRule, len(in.Rules))
		for i := range rs {
			rs[i] = ecRule{DataPartNum: uint8(in.Rules[i][0]), ParityPartNum: uint8(in.Rules[i][1])}
		}
		for chunks := 1; chunks <= 3; chunks++ {
			w.Emit(multiRecord(rs, data, chunks))
		}
	}
	w.Close()
}

// eccode-hazard <k1> <m1> <k2> <m2> <len> <cap>: replays the counterexample of ECMulti with Guard = FALSE on the
// real iec.Encode: two rules encoded from one slice WITH spare capacity. Prints {"corrupted":bool}.
// This is a demonstration that the modelled library behaviour is real; it is never a verdict.
func eccodeHazard(args []string) {
	v := make([]int, 6)
	for i := range v {
		kit.Must(json.Unmarshal([]byte(args[i]), &v[i]))
	}
	r := kit.Rand(23)
	data := payloadOf(r, v[4])
	buf := make([]byte, v[4], v[5])
	copy(buf, data)
	r1 := ecRule{DataPartNum: uint8(v[0]), ParityPartNum: uint8(v[1])}
	r2 := ecRule{DataPartNum: uint8(v[2]), ParityPartNum: uint8(v[3])}
	p1, _, err := verifexport.ECEncode(r1, buf)
	kit.Must(err)
	snapshot := cloneParts(p1)
	_, _, err = verifexport.ECEncode(r2, buf)
	kit.Must(err)
	corrupted := false
	for i := range p1 {
		if !bytes.Equal(p1[i], snapshot[i]) {
			corrupted = true
		}
	}
	out, _ := json.Marshal(kit.M{"corrupted": corrupted, "payloadIntact": bytes.Equal(buf[:v[4]], data)})
	os.Stdout.Write(append(out, '\n'))
}
