package main

import (
	"bytes"
	"context"
	"crypto/ecdsa"
	"crypto/elliptic"
	"crypto/sha256"
	"errors"
	"fmt"
	"io"
	"math/rand"
	"os"
	"path/filepath"
	"sort"
	"strconv"
	"time"

	"github.com/nspcc-dev/bbolt"
	clientcore "github.com/nspcc-dev/neofs-node/pkg/core/client"
	"github.com/nspcc-dev/neofs-node/pkg/local_object_storage/blobstor/fstree"
	"github.com/nspcc-dev/neofs-node/pkg/local_object_storage/engine"
	meta "github.com/nspcc-dev/neofs-node/pkg/local_object_storage/metabase"
	"github.com/nspcc-dev/neofs-node/pkg/local_object_storage/shard"
	getsvc "github.com/nspcc-dev/neofs-node/pkg/services/object/get"
	putsvc "github.com/nspcc-dev/neofs-node/pkg/services/object/put"
	objutil "github.com/nspcc-dev/neofs-node/pkg/services/object/util"
	nodesession "github.com/nspcc-dev/neofs-node/pkg/util/state/session"
	"github.com/nspcc-dev/neofs-node/pkg/util/verifexport"
	"github.com/nspcc-dev/neofs-sdk-go/checksum"
	"github.com/nspcc-dev/neofs-sdk-go/client"
	apistatus "github.com/nspcc-dev/neofs-sdk-go/client/status"
	"github.com/nspcc-dev/neofs-sdk-go/container"
	cid "github.com/nspcc-dev/neofs-sdk-go/container/id"
	"github.com/nspcc-dev/neofs-sdk-go/netmap"
	"github.com/nspcc-dev/neofs-sdk-go/object"
	oid "github.com/nspcc-dev/neofs-sdk-go/object/id"
	"github.com/nspcc-dev/neofs-sdk-go/object/slicer"
	sessionv2 "github.com/nspcc-dev/neofs-sdk-go/session/v2"
	"github.com/nspcc-dev/neofs-sdk-go/user"
	"github.com/nspcc-dev/neofs-sdk-go/version"
	"go.uber.org/zap"
	"verifharness/internal/kit"
)

func init() {
	commands["assemble"] = assemble
	commands["assemble-gen"] = assembleGen
}

// ---------------------------------------------------------------- case format

type asmRead struct {
	API  string `json:"api"`  // "get" (Service.Get, any range mode) | "range" (Service.GetRange, offset/length)
	Mode string `json:"mode"` // none | offlen | bounds | from | suffix
	A    uint64 `json:"a"`
	B    uint64 `json:"b"`
}

type asmCase struct {
	Layout string    `json:"layout"` // whole | v1 | v1nolink | v2 | v2nolink | ec | ecv2 | ecv2nolink
	L      int       `json:"L"`      // payload length
	S      int       `json:"S"`      // child payload size limit (split layouts)
	K      int       `json:"k"`
	M      int       `json:"m"`
	Miss   []int     `json:"miss"` // 1-based indexes of EC parts that are not stored
	Unit   int       `json:"unit"` // > 1: the case comes from the model; L, S and range values are multiplied by unit
	Reads  []asmRead `json:"reads"`
}

// ---------------------------------------------------------------- environment

type epochOne struct{}

func (epochOne) CurrentEpoch() uint64 { return 1 }

type paid struct{}

func (paid) PaymentsDisabled() bool            { return true }
func (paid) UnpaidSince(cid.ID) (int64, error) { return -1, nil }

type noSessions struct{}

func (noSessions) GetToken(user.ID) *nodesession.PrivateToken                       { return nil }
func (noSessions) FindTokenBySubjects([]sessionv2.Target) *nodesession.PrivateToken { return nil }

type fakeNet struct {
	node netmap.NodeInfo
	ec   map[cid.ID][]verifexport.ECRule
}

func (n *fakeNet) GetNodesForObject(a oid.Address) ([][]netmap.NodeInfo, []uint, []verifexport.ECRule, error) {
	if rules, ok := n.ec[a.Container()]; ok {
		lists := make([][]netmap.NodeInfo, len(rules))
		for i, r := range rules {
			t := int(r.DataPartNum) + int(r.ParityPartNum)
			lists[i] = make([]netmap.NodeInfo, t)
			for j := range lists[i] {
				lists[i][j] = n.node
			}
		}
		return lists, nil, rules, nil
	}
	return [][]netmap.NodeInfo{{n.node}}, []uint{1}, nil, nil
}

func (n *fakeNet) IsLocalNodePublicKey([]byte) bool { return true }

type noConns struct{}

func (noConns) Get(context.Context, netmap.NodeInfo) (clientcore.MultiAddressClient, error) {
	return nil, errors.New("verif: no remote nodes")
}

type env struct {
	dir    string
	eng    *engine.StorageEngine
	svc    *getsvc.Service
	net    *fakeNet
	signer user.Signer
	owner  user.ID
	seq    uint64
}

func detKey(seed int64) *ecdsa.PrivateKey {
	k, err := ecdsa.GenerateKey(elliptic.P256(), rand.New(rand.NewSource(seed)))
	kit.Must(err)
	return k
}

func newEnv() *env {
	dir, err := os.MkdirTemp("", "ec-asm-")
	kit.Must(err)
	e := &env{dir: dir}
	e.eng = engine.New(engine.WithLogger(zap.NewNop()))
	_, err = e.eng.AddShard(
		shard.WithLogger(zap.NewNop()),
		shard.WithBlobstor(fstree.New(fstree.WithPath(filepath.Join(dir, "fstree")), fstree.WithDepth(1), fstree.WithNoSync(true))),
		shard.WithMetaBaseOptions(
			meta.WithPath(filepath.Join(dir, "meta")),
			meta.WithPermissions(0o700),
			meta.WithEpochState(epochOne{}),
			meta.WithMaxBatchDelay(time.Microsecond),
			meta.WithLogger(zap.NewNop()),
			meta.WithBoltDBOptions(&bbolt.Options{NoSync: true, NoFreelistSync: true, Timeout: time.Second}),
		),
		shard.WithContainerPayments(paid{}),
	)
	kit.Must(err)
	kit.Must(e.eng.Init())
	key := detKey(7)
	e.signer = user.NewAutoIDSigner(*key)
	e.owner = e.signer.UserID()
	var node netmap.NodeInfo
	node.SetPublicKey(elliptic.MarshalCompressed(elliptic.P256(), key.X, key.Y))
	e.net = &fakeNet{node: node, ec: map[cid.ID][]verifexport.ECRule{}}
	e.svc = getsvc.New(e.net,
		getsvc.WithLogger(zap.NewNop()),
		getsvc.WithLocalStorageEngine(e.eng),
		getsvc.WithClientConstructor(noConns{}),
		getsvc.WithKeyStorage(objutil.NewKeyStorage(key, noSessions{}, epochOne{})),
	)
	return e
}

func (e *env) close() {
	_ = e.eng.Close()
	_ = os.RemoveAll(e.dir)
}

func (e *env) newCID() cid.ID {
	e.seq++
	h := sha256.Sum256([]byte("cnr" + strconv.FormatUint(e.seq, 10)))
	var c cid.ID
	kit.Must(c.Decode(h[:]))
	return c
}

func (e *env) put(o *object.Object) { kit.Must(e.eng.Put(context.Background(), o, nil)) }

// ---------------------------------------------------------------- layouts

func (e *env) parentHeader(cnr cid.ID, payload []byte) object.Object {
	var o object.Object
	ver := version.Current()
	o.SetVersion(&ver)
	o.SetContainerID(cnr)
	o.SetOwner(e.owner)
	o.SetCreationEpoch(1)
	o.SetType(object.TypeRegular)
	o.SetAttributes(object.NewAttribute("verif", strconv.FormatUint(e.seq, 10)))
	o.SetPayloadSize(uint64(len(payload)))
	o.SetPayloadChecksum(checksum.NewSHA256(sha256.Sum256(payload)))
	return o
}

func finish(o *object.Object) {
	kit.Must(o.CalculateAndSetID())
}

// whole object
func (e *env) buildWhole(cnr cid.ID, payload []byte) oid.ID {
	o := e.parentHeader(cnr, payload)
	o.SetPayload(payload)
	finish(&o)
	e.put(&o)
	return o.GetID()
}

// capture is the slicer's object sink
type capture struct{ objs []*object.Object }

type captureWriter struct {
	c   *capture
	hdr object.Object
	buf bytes.Buffer
}

func (c *capture) ObjectPutInit(_ context.Context, hdr object.Object, _ user.Signer, _ client.PrmObjectPutInit) (client.ObjectWriter, error) {
	return &captureWriter{c: c, hdr: hdr}, nil
}
func (w *captureWriter) Write(p []byte) (int, error)         { return w.buf.Write(p) }
func (w *captureWriter) ReadFrom(r io.Reader) (int64, error) { return w.buf.ReadFrom(r) }
func (w *captureWriter) Close() error {
	o := w.hdr
	o.SetPayload(bytes.Clone(w.buf.Bytes()))
	w.c.objs = append(w.c.objs, &o)
	return nil
}
func (w *captureWriter) GetResult() client.ResObjectPut { return client.ResObjectPut{} }

// split v2 with the real SDK slicer; returns (parent ID, children+link objects)
func (e *env) sliceV2(cnr cid.ID, payload []byte, limit int) (oid.ID, []*object.Object) {
	hdr := e.parentHeader(cnr, payload)
	var opts slicer.Options
	opts.SetObjectPayloadLimit(uint64(limit))
	opts.SetCurrentNeoFSEpoch(1)
	var c capture
	id, err := slicer.Put(context.Background(), &c, hdr, e.signer, bytes.NewReader(payload), opts)
	kit.Must(err)
	return id, c.objs
}

func (e *env) buildV2(cnr cid.ID, payload []byte, limit int, withLink bool) (oid.ID, []int) {
	id, objs := e.sliceV2(cnr, payload, limit)
	var sizes []int
	for _, o := range objs {
		if o.Type() == object.TypeLink {
			if !withLink {
				continue
			}
		} else {
			sizes = append(sizes, len(o.Payload())) // the slicer emits children in payload order
		}
		e.put(o)
	}
	return id, sizes
}

// legacy split v1 (split ID, children chained by previous ID, last child and link carry the parent header,
// the link lists children in its header and has no payload)
func (e *env) buildV1(cnr cid.ID, payload []byte, limit int, withLink bool) (oid.ID, []int) {
	parent := e.parentHeader(cnr, payload)
	finish(&parent)
	sid := object.NewSplitID()
	var prev oid.ID
	var ids []oid.ID
	var sizes []int
	n := (len(payload) + limit - 1) / limit
	for i := 0; i < n; i++ {
		chunk := payload[i*limit : min((i+1)*limit, len(payload))]
		var c object.Object
		ver := version.Current()
		c.SetVersion(&ver)
		c.SetContainerID(cnr)
		c.SetOwner(e.owner)
		c.SetCreationEpoch(1)
		c.SetType(object.TypeRegular)
		c.SetSplitID(sid)
		if i > 0 {
			c.SetPreviousID(prev)
		}
		if i == n-1 {
			c.SetParent(&parent)
			c.SetParentID(parent.GetID())
		}
		c.SetPayload(chunk)
		c.SetPayloadSize(uint64(len(chunk)))
		c.SetPayloadChecksum(checksum.NewSHA256(sha256.Sum256(chunk)))
		finish(&c)
		e.put(&c)
		prev = c.GetID()
		ids = append(ids, prev)
		sizes = append(sizes, len(chunk))
	}
	if withLink {
		var l object.Object
		ver := version.Current()
		l.SetVersion(&ver)
		l.SetContainerID(cnr)
		l.SetOwner(e.owner)
		l.SetCreationEpoch(1)
		l.SetType(object.TypeRegular)
		l.SetSplitID(sid)
		l.SetParent(&parent)
		l.SetParentID(parent.GetID())
		l.SetChildren(ids...)
		l.SetPayloadChecksum(checksum.NewSHA256(sha256.Sum256(nil)))
		finish(&l)
		e.put(&l)
	}
	return parent.GetID(), sizes
}

// EC-encodes obj (header with ID + payload) under rule #0 with the real encoder and stores the parts that are not missing
func (e *env) putEC(rule verifexport.ECRule, obj object.Object, payload []byte, miss []int) {
	hdr := obj
	hdr.SetPayload(nil)
	parts, _, err := putsvc.VerifEncodeECParent([]verifexport.ECRule{rule}, &hdr, io.MultiReader(bytes.NewReader(bytes.Clone(payload))))
	kit.Must(err)
	if hdr.Type() != object.TypeRegular { // modifyECParentObject does not encode non-regular objects; the put path encodes them too
		var p [][]byte
		p, _, err = verifexport.ECEncode(rule, bytes.Clone(payload))
		kit.Must(err)
		parts = [][][]byte{p}
	}
	for i := range parts[0] {
		if contains(miss, i+1) {
			continue
		}
		po, err := verifexport.ECFormObjectForECPart(e.signer, hdr, parts[0][i], 0, i)
		kit.Must(err)
		e.put(&po)
	}
}

func (e *env) buildEC(cnr cid.ID, payload []byte, k, m int, miss []int) oid.ID {
	rule := verifexport.ECRule{DataPartNum: uint8(k), ParityPartNum: uint8(m)}
	e.net.ec[cnr] = []verifexport.ECRule{rule}
	// the put path attaches the part hashes to the parent header BEFORE the ID is calculated
	hdr := e.parentHeader(cnr, payload)
	_, _, err := putsvc.VerifEncodeECParent([]verifexport.ECRule{rule}, &hdr, io.MultiReader(bytes.NewReader(bytes.Clone(payload))))
	kit.Must(err)
	finish(&hdr)
	e.putECParts(rule, hdr, payload, miss)
	return hdr.GetID()
}

func (e *env) putECParts(rule verifexport.ECRule, hdr object.Object, payload []byte, miss []int) {
	parts, _, err := verifexport.ECEncode(rule, bytes.Clone(payload))
	kit.Must(err)
	hdr.SetPayload(nil)
	for i := range parts {
		if contains(miss, i+1) {
			continue
		}
		po, err := verifexport.ECFormObjectForECPart(e.signer, hdr, parts[i], 0, i)
		kit.Must(err)
		e.put(&po)
	}
}

// size-split (v2, real slicer) object in an EC container: every child and the link are EC-encoded;
// the same parts are missing for every one of them
func (e *env) buildECSplit(cnr cid.ID, payload []byte, limit, k, m int, miss []int, withLink bool) oid.ID {
	rule := verifexport.ECRule{DataPartNum: uint8(k), ParityPartNum: uint8(m)}
	e.net.ec[cnr] = []verifexport.ECRule{rule}
	id, objs := e.sliceV2(cnr, payload, limit)
	for _, o := range objs {
		if o.Type() == object.TypeLink && !withLink {
			continue
		}
		pl := o.Payload()
		e.putECParts(rule, *o, pl, miss)
	}
	return id
}

// ---------------------------------------------------------------- reads

type sink struct {
	hdr *object.Object
	buf bytes.Buffer
}

func (s *sink) WriteHeader(h *object.Object) error { s.hdr = h; return nil }
func (s *sink) WriteChunk(p []byte) error          { s.buf.Write(p); return nil }

func (e *env) read(cnr cid.ID, id oid.ID, ecCnr bool, rd asmRead) (st string, got []byte, msg string) {
	defer func() { // a panic of the service on the calling goroutine is an observed outcome, not a harness failure
		if p := recover(); p != nil {
			st, got, msg = "panic", nil, fmt.Sprint(p)
		}
	}()
	var w sink
	var err error
	addr := oid.NewAddress(cnr, id)
	var cnrV container.Container
	ctx, cancel := context.WithTimeout(context.Background(), 60*time.Second)
	defer cancel()
	switch rd.API {
	case "range":
		var p getsvc.RangePrm
		p.SetCommonParameters(new(objutil.CommonPrm))
		p.WithAddress(addr)
		p.WithContainer(cnrV)
		p.SetChunkWriter(&w)
		var r object.Range
		r.SetOffset(rd.A)
		r.SetLength(rd.B)
		p.SetRange(&r)
		err = e.svc.GetRange(ctx, p)
	default:
		var p getsvc.Prm
		p.SetCommonParameters(new(objutil.CommonPrm))
		p.WithAddress(addr)
		p.WithContainer(cnrV)
		p.SetObjectWriter(&w)
		switch rd.Mode {
		case "offlen":
			var r object.Range
			r.SetOffset(rd.A)
			r.SetLength(rd.B)
			p.SetRange(&r)
		case "bounds":
			p.SetRangeBounds(rd.A, rd.B)
		case "from":
			p.SetRangeFrom(rd.A)
		case "suffix":
			p.SetRangeSuffix(rd.A)
		}
		err = e.svc.Get(ctx, p)
	}
	switch {
	case err == nil:
		return "ok", w.buf.Bytes(), ""
	case errors.Is(err, apistatus.ErrObjectOutOfRange):
		return "oor", nil, err.Error()
	case errors.Is(err, apistatus.ErrObjectNotFound):
		return "notfound", nil, err.Error()
	default:
		return "err", nil, err.Error()
	}
}

// offsets at which got occurs in payload, among a few candidates derived from the request (facts only: the
// spec decides which offset is the right one)
func matchOffsets(payload, got []byte, rd asmRead) []int {
	L, n := uint64(len(payload)), uint64(len(got))
	cand := map[uint64]bool{0: true, rd.A: true, rd.B: true, L - min(rd.A, L): true, L - min(n, L): true}
	var out []int
	for o := range cand {
		if o <= L && n <= L-o && bytes.Equal(payload[o:o+n], got) {
			out = append(out, int(o))
		}
	}
	sort.Ints(out)
	if out == nil {
		out = []int{}
	}
	return out
}

func (e *env) runCase(c asmCase, r *rand.Rand, w *kit.W) {
	u := max(c.Unit, 1)
	L, S := c.L*u, c.S*u
	payload := payloadOf(r, L)
	cnr := e.newCID()
	var id oid.ID
	sizes := []int{}
	switch c.Layout {
	case "whole":
		id = e.buildWhole(cnr, payload)
	case "v1":
		id, sizes = e.buildV1(cnr, payload, S, true)
	case "v1nolink":
		id, sizes = e.buildV1(cnr, payload, S, false)
	case "v2":
		id, sizes = e.buildV2(cnr, payload, S, true)
	case "v2nolink":
		id, sizes = e.buildV2(cnr, payload, S, false)
	case "ec":
		id = e.buildEC(cnr, payload, c.K, c.M, c.Miss)
	case "ecv2":
		id = e.buildECSplit(cnr, payload, S, c.K, c.M, c.Miss, true)
	case "ecv2nolink":
		id = e.buildECSplit(cnr, payload, S, c.K, c.M, c.Miss, false)
	default:
		kit.Must(fmt.Errorf("unknown layout %q", c.Layout))
	}
	miss := c.Miss
	if miss == nil {
		miss = []int{}
	}
	for _, rd := range c.Reads {
		srd := rd
		if u > 1 { // scale model ranges
			srd.A *= uint64(u)
			srd.B *= uint64(u)
			if rd.Mode == "bounds" { // inclusive last position: (b+1)*u - 1
				srd.B = (rd.B+1)*uint64(u) - 1
			}
		}
		st, got, msg := e.read(cnr, id, c.Layout == "ec", srd)
		rec := kit.M{
			"in": kit.M{"layout": c.Layout, "L": L, "S": S, "sizes": sizes, "k": c.K, "m": c.M, "miss": miss,
				"api": srd.API, "mode": srd.Mode, "a": int64(srd.A), "b": int64(srd.B)},
			"out": kit.M{"st": st, "n": len(got), "at": matchOffsets(payload, got, srd)},
		}
		if msg != "" {
			rec["msg"] = msg
		}
		w.Emit(rec)
	}
}

// assemble <cases.ndjson> <out.ndjson>
func assemble(args []string) {
	cases := kit.ReadNDJSON[asmCase](args[0])
	w := kit.NewW(args[1])
	e := newEnv()
	defer e.close()
	r := kit.Rand(23)
	for _, c := range cases {
		e.runCase(c, r, w)
	}
	w.Close()
}

// ---------------------------------------------------------------- boundary-directed real-size cases

func readsFor(r *rand.Rand, L int, bounds []int, n int) []asmRead {
	// interesting positions: 0, ends, child / part boundaries +-1, random
	pos := []int{0, 1, L - 1, L, L + 1, L / 2}
	for _, b := range bounds {
		pos = append(pos, b-1, b, b+1)
	}
	pick := func() uint64 {
		if r.Intn(4) == 0 {
			return uint64(r.Intn(L + 3))
		}
		p := pos[r.Intn(len(pos))]
		if p < 0 {
			p = 0
		}
		return uint64(p)
	}
	out := []asmRead{{API: "get", Mode: "none"}, {API: "range", Mode: "offlen", A: 0, B: 0}}
	for len(out) < n {
		a, b := pick(), pick()
		switch r.Intn(6) {
		case 0, 1:
			ln := uint64(0)
			if b > a {
				ln = b - a
			} else if r.Intn(3) > 0 {
				ln = uint64(1 + r.Intn(max(L/4, 1)+1))
			}
			api := "get"
			if r.Intn(2) == 0 {
				api = "range"
			}
			out = append(out, asmRead{API: api, Mode: "offlen", A: a, B: ln})
		case 2:
			if b < a && r.Intn(4) > 0 {
				a, b = b, a
			}
			out = append(out, asmRead{API: "get", Mode: "bounds", A: a, B: b})
		case 3:
			out = append(out, asmRead{API: "get", Mode: "from", A: a})
		case 4:
			out = append(out, asmRead{API: "get", Mode: "suffix", A: a})
		default:
			out = append(out, asmRead{API: "range", Mode: "offlen", A: a, B: uint64(1 + r.Intn(max(L, 1)))})
		}
	}
	return out
}

func splitBounds(L, S int) []int {
	var b []int
	for x := S; x < L; x += S {
		b = append(b, x)
	}
	if len(b) > 12 {
		b = append(b[:6], b[len(b)-6:]...)
	}
	return b
}

func randomMiss(r *rand.Rand, k, m int) []int {
	n := r.Intn(m + 1)
	if r.Intn(3) == 0 {
		n = m
	}
	perm := r.Perm(k + m)
	miss := []int{}
	for _, p := range perm[:n] {
		miss = append(miss, p+1)
	}
	sort.Ints(miss)
	return miss
}

// assemble-gen <n> <reads-per-case> <out.ndjson>: seeded real-size cases
func assembleGen(args []string) {
	n, err := strconv.Atoi(args[0])
	kit.Must(err)
	per, err := strconv.Atoi(args[1])
	kit.Must(err)
	w := kit.NewW(args[2])
	r := kit.Rand(24)
	layouts := []string{"whole", "v1", "v1nolink", "v2", "v2nolink", "ec", "ec", "ec"}
	rules := [][2]int{{1, 1}, {2, 1}, {3, 1}, {2, 2}, {3, 2}, {4, 2}, {6, 3}, {3, 0}, {5, 4}, {1, 0}}
	// fixed corner cases, independent of the seed
	for _, c := range []asmCase{
		{Layout: "ec", L: 0, K: 1, M: 1, Miss: []int{1}},
		{Layout: "ec", L: 0, K: 2, M: 1, Miss: []int{2}},
		{Layout: "ec", L: 700, K: 1, M: 1, Miss: []int{1}},
		{Layout: "ec", L: 1001, K: 2, M: 2, Miss: []int{1, 2}},
		{Layout: "ec", L: 1001, K: 2, M: 2, Miss: []int{3, 4}},
		{Layout: "ec", L: 5, K: 4, M: 2, Miss: []int{2, 4}},
		{Layout: "ec", L: 3, K: 4, M: 1, Miss: []int{}},
		{Layout: "v1nolink", L: 2306, S: 1024},
		{Layout: "v2nolink", L: 2306, S: 1024},
		{Layout: "v1", L: 2049, S: 1024},
		{Layout: "v2", L: 2049, S: 1024},
	} {
		var bounds []int
		if c.S > 0 {
			bounds = splitBounds(c.L, c.S)
		} else if pl := (c.L + c.K - 1) / c.K; pl > 0 {
			for j := 1; j < c.K; j++ {
				bounds = append(bounds, j*pl)
			}
		}
		c.Reads = readsFor(r, c.L, bounds, per)
		w.Emit(c)
	}
	for i := 0; i < n; i++ {
		c := asmCase{Layout: layouts[i%len(layouts)]}
		c.S = 1024 * (1 + r.Intn(4))
		if r.Intn(3) == 0 {
			c.S = 1 + r.Intn(4096)
		}
		switch r.Intn(5) {
		case 0:
			c.L = r.Intn(64 * 1024)
		case 1:
			c.L = c.S*(1+r.Intn(6)) + []int{-1, 0, 1}[r.Intn(3)]
		case 2:
			c.L = 1 + r.Intn(200)
		default:
			c.L = 1 + r.Intn(16*1024)
		}
		c.L = max(c.L, 0)
		var bounds []int
		switch c.Layout {
		case "whole":
			if i%18 == 0 {
				c.L = 0
			}
		case "ec", "ecv2", "ecv2nolink":
			rl := rules[r.Intn(len(rules))]
			c.K, c.M = rl[0], rl[1]
			c.Miss = randomMiss(r, c.K, c.M)
			if c.Layout == "ec" {
				if i%24 == 5 {
					c.L = 0
				}
				pl := (c.L + c.K - 1) / c.K
				for j := 1; j < c.K && pl > 0; j++ {
					bounds = append(bounds, j*pl)
				}
			} else {
				if c.L <= c.S {
					c.L = c.S + 1 + r.Intn(3*c.S)
				}
				c.L = min(c.L, 24*1024)
				bounds = splitBounds(c.L, c.S)
			}
		default:
			if c.L <= c.S { // must really be split
				c.L = c.S + 1 + r.Intn(3*c.S)
			}
			if c.L/c.S > 40 {
				c.L = c.S*(2+r.Intn(30)) + r.Intn(c.S)
			}
			if c.Layout == "v2" || c.Layout == "v2nolink" {
				// the slicer's link object (about 41 bytes per child) must fit into the payload limit itself
				if c.S < 100 {
					c.S = 100 + r.Intn(400)
				}
				if maxN := c.S / 45; c.L > maxN*c.S {
					c.L = c.S*max(maxN-1, 1) + 1 + r.Intn(c.S)
				}
				if c.L <= c.S {
					c.L = c.S + 1 + r.Intn(c.S)
				}
			}
			bounds = splitBounds(c.L, c.S)
		}
		c.Reads = readsFor(r, c.L, bounds, per)
		w.Emit(c)
	}
	w.Close()
}
