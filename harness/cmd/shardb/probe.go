package main

import (
	"fmt"
	"os"

	oid "github.com/nspcc-dev/neofs-sdk-go/object/id"
)

func probe() {
	installHooks()
	root, _ := os.MkdirTemp("", "probe")
	defer os.RemoveAll(root)
	in := newInst(params{Level: "shard", NAddr: 3, Threshold: 1, MaxCount: 2, MaxBSize: 100, MaxCache: 6, NW: 1, LiveK: 2}, root, 1)
	defer in.shutdown()
	func() {
		defer func() { fmt.Println("recover:", recover()) }()
		err := in.sh.Delete(in.cnr, []oid.ID{in.objs[1].addr.Object()})
		fmt.Println("delete before any put:", err)
	}()
	fmt.Println("put:", in.sh.Put(in.objs[1].obj, in.objs[1].data))
	fmt.Println("put again:", in.sh.Put(in.objs[1].obj, in.objs[1].data))
	fmt.Println("del:", in.sh.Delete(in.cnr, []oid.ID{in.objs[1].addr.Object()}))
	func() {
		defer func() { fmt.Println("recover:", recover()) }()
		fmt.Println("del2:", in.sh.Delete(in.cnr, []oid.ID{in.objs[1].addr.Object()}))
	}()
}
