package main

import (
	"bytes"
	"crypto/sha256"
	"encoding/binary"
	"errors"
	"fmt"
	"io"
	"math/rand"
	"os"
	"path/filepath"
	"sort"
	"strconv"
	"sync"
	"time"

	"github.com/nspcc-dev/neofs-node/pkg/local_object_storage/blobstor/fstree"
	meta "github.com/nspcc-dev/neofs-node/pkg/local_object_storage/metabase"
	"github.com/nspcc-dev/neofs-node/pkg/local_object_storage/shard"
	"github.com/nspcc-dev/neofs-node/pkg/local_object_storage/shard/mode"
	"github.com/nspcc-dev/neofs-node/pkg/local_object_storage/writecache"
	"github.com/nspcc-dev/neofs-sdk-go/checksum"
	cid "github.com/nspcc-dev/neofs-sdk-go/container/id"
	cidtest "github.com/nspcc-dev/neofs-sdk-go/container/id/test"
	"github.com/nspcc-dev/neofs-sdk-go/object"
	oid "github.com/nspcc-dev/neofs-sdk-go/object/id"
	usertest "github.com/nspcc-dev/neofs-sdk-go/user/test"
	"verifharness/internal/kit"
)

// C46: shardb dump <cases.ndjson> <out.ndjson> <nrandom>
//
// Every case is one REAL dump of a shard (with or without write-cache) into a buffer and one REAL
// Shard.Restore of that buffer into an empty shard through an io.Reader that stops exactly at the
// cut positions of the case (unit boundaries of spec/DumpRestore.tla scaled to the real offsets:
// magic 2+2 bytes, length 2+2 bytes, data first byte | middle | last byte). <nrandom> more cases use
// random byte offsets (projected onto the unit boundaries of the segment they fall in).

type dumpIn struct {
	N       int   `json:"n"`
	Cuts    []int `json:"cuts"`
	Corrupt []int `json:"corrupt"`
	Ignore  bool  `json:"ignore"`
	EofData bool  `json:"eofdata"`
	// harness-only
	WC      bool  `json:"wc"`
	RawCuts []int `json:"rawcuts,omitempty"` // byte offsets at which the reader stops (random cases)
	Rand    int   `json:"rand,omitempty"`    // >0: draw RawCuts after the dump is known
}

type dumpOut struct {
	Res      string `json:"res"`
	Count    int    `json:"count"`
	Fail     int    `json:"fail"`
	Restored []int  `json:"restored"`
	// diagnostics (not compared by the spec)
	Err   string `json:"err,omitempty"`
	Extra int    `json:"extra"`   // objects in the destination that are not byte-identical dumped objects
	Reads int    `json:"reads"`   // Read calls served
	Short int    `json:"short"`   // Read calls that returned less than asked
	Bytes int    `json:"bytes"`   // stream length
}

var errFramingLost = errors.New("verif: the restore lost the record framing")

// framed tells whether a request for k bytes at the current position is what a reader of the dump
// format asks for: the rest of the magic, of a length field, or of a record's data.
func (r *chunkReader) framed(k int) bool {
	if r.pos < 4 {
		return k == 4-r.pos
	}
	for _, f := range r.frames {
		if r.pos >= f.lenOff && r.pos < f.dataOff {
			return k == f.dataOff-r.pos
		}
		if r.pos >= f.dataOff && r.pos < f.dataOff+f.n {
			return k == f.dataOff+f.n-r.pos
		}
	}
	return true
}

type chunkReader struct {
	frames  []frame
	data    []byte
	pos     int
	cuts    []int // sorted absolute offsets at which a Read call stops
	eofdata bool
	reads   int
	short   int
}

func (r *chunkReader) Read(p []byte) (int, error) {
	if r.pos >= len(r.data) {
		return 0, io.EOF
	}
	if len(p) == 0 {
		return 0, nil
	}
	if !r.framed(len(p)) {
		// The restore has lost the framing (after a short read it takes object bytes for a record
		// length and allocates that much - up to 4 GiB). Stop it before the next garbage length.
		return 0, errFramingLost
	}
	end := len(r.data)
	for _, c := range r.cuts {
		if c > r.pos {
			end = min(end, c)
			break
		}
	}
	n := min(len(p), end-r.pos)
	copy(p, r.data[r.pos:r.pos+n])
	r.pos += n
	r.reads++
	if n < len(p) {
		r.short++
	}
	if r.eofdata && r.pos == len(r.data) {
		return n, io.EOF
	}
	return n, nil
}

func newShardAt(root string, wc bool) *shard.Shard {
	fst := fstree.New(fstree.WithPath(filepath.Join(root, "blob")), fstree.WithDepth(1), fstree.WithNoSync(true))
	sh := shard.New(
		shard.WithBlobstor(fst),
		shard.WithMetaBaseOptions(meta.WithPath(filepath.Join(root, "meta")), meta.WithEpochState(epochState{}),
			meta.WithMaxBatchDelay(time.Microsecond)),
		shard.WithWriteCache(wc),
		shard.WithWriteCacheOptions(writecache.WithPath(filepath.Join(root, "wc")), writecache.WithNoSync(true)),
	)
	kit.Must(sh.Open())
	kit.Must(sh.Init())
	return sh
}

type frame struct{ lenOff, dataOff, n int }

func parseDump(b []byte) ([]frame, bool) {
	if len(b) < 4 || string(b[:4]) != "NEOF" {
		return nil, false
	}
	var fr []frame
	off := 4
	for off+4 <= len(b) {
		n := int(binary.LittleEndian.Uint32(b[off:]))
		if n < 3 || off+4+n > len(b) {
			return fr, false
		}
		fr = append(fr, frame{off, off + 4, n})
		off += 4 + n
	}
	return fr, off == len(b)
}

// unitEnds returns the absolute end offset of every unit of the abstract stream.
func unitEnds(fr []frame) []int {
	ends := []int{2, 4}
	for _, f := range fr {
		ends = append(ends, f.lenOff+2, f.lenOff+4, f.dataOff+1, f.dataOff+f.n-1, f.dataOff+f.n)
	}
	return ends
}

// project maps a byte offset to the abstract cut (index of the unit that ends there); offsets inside a
// unit are moved to a unit boundary strictly inside the same segment.
func project(off int, fr []frame) (int, bool) {
	ends := unitEnds(fr)
	for u, e := range ends {
		if off == e {
			return u + 1, true
		}
	}
	if off > 0 && off < 4 {
		return 1, true
	}
	for i, f := range fr {
		base := 2 + 5*i
		switch {
		case off > f.lenOff && off < f.dataOff:
			return base + 1, true
		case off > f.dataOff && off < f.dataOff+f.n:
			return base + 3, true
		}
	}
	return 0, false
}

func runDumpCase(root string, in *dumpIn, r *rand.Rand, idx int) dumpOut {
	dir := filepath.Join(root, strconv.Itoa(idx))
	defer os.RemoveAll(dir)
	// ---- source shard
	src := newShardAt(filepath.Join(dir, "src"), in.WC)
	cnr := cidtest.ID()
	sizes := []int{260 + r.Intn(200), 700 + r.Intn(2000), 3000 + r.Intn(6000), 300 + r.Intn(300)}
	byAddr := map[oid.Address][]byte{}
	for i := 0; i < in.N; i++ {
		obj, data := mkDumpObj(r, cnr, sizes[i%len(sizes)])
		kit.Must(src.Put(obj, data))
		byAddr[obj.Address()] = data
		if in.WC && i == in.N/2-1 {
			kit.Must(src.FlushWriteCache(false)) // some objects in the main storage, the rest stays in the cache
		}
	}
	kit.Must(src.SetMode(mode.ReadOnly))
	var buf bytes.Buffer
	cnt, err := src.Dump(&buf, false)
	kit.Must(err)
	kit.Must(src.Close())
	stream := buf.Bytes()
	// C46, first half: the dump holds exactly the stored objects, byte for byte
	fr, ok := parseDump(stream)
	addrs := make([]oid.Address, len(fr))
	owners := make([][]byte, len(fr))
	seen := map[oid.Address]bool{}
	if ok && (cnt != in.N || len(fr) != in.N) {
		ok = false
	}
	for i, f := range fr {
		if !ok {
			break
		}
		o := new(object.Object)
		if o.Unmarshal(stream[f.dataOff:f.dataOff+f.n]) != nil {
			ok = false
			break
		}
		addrs[i] = o.Address()
		ow := o.Owner()
		owners[i] = append([]byte(nil), ow[:]...)
		if seen[addrs[i]] || !bytes.Equal(byAddr[addrs[i]], stream[f.dataOff:f.dataOff+f.n]) {
			ok = false
		}
		seen[addrs[i]] = true
	}
	if !ok {
		return dumpOut{Res: "baddump", Count: cnt, Restored: []int{}, Err: fmt.Sprintf("dump of %d objects: %d records reported, %d framed", in.N, cnt, len(fr)), Bytes: len(stream)}
	}
	for _, c := range in.Corrupt {
		f := fr[c-1]
		data := stream[f.dataOff : f.dataOff+f.n]
		// three corruption styles, length unchanged: (a) the record is not a protobuf message any more;
		// (b) valid protobuf, but an early header field is invalid (a byte of the owner ID flipped: its
		// checksum fails); (c) valid protobuf, the LAST validated header field is invalid (second attribute
		// key made equal to the first: "duplicated attribute"), i.e. decoding fails after the object has been
		// filled in almost completely
		switch (idx + c) % 3 {
		case 1:
			if pos := bytes.Index(data, owners[c-1]); pos >= 0 {
				data[pos+10] ^= 0x5A
				continue
			}
		case 2:
			if pos := bytes.Index(data, []byte(attrKeyB)); pos >= 0 {
				data[pos+len(attrKeyB)-1] = attrKeyA[len(attrKeyA)-1]
				continue
			}
		}
		for k := 0; k < 8 && k < f.n; k++ {
			data[k] = 0xFF
		}
	}
	// ---- reader
	var cuts []int
	if in.Rand > 0 && in.RawCuts == nil {
		in.RawCuts = drawCuts(r, fr, sizes, in.Rand)
	}
	if in.RawCuts != nil {
		cuts = append(cuts, in.RawCuts...)
		set := map[int]bool{}
		for _, o := range in.RawCuts {
			if u, ok := project(o, fr); ok && u < 2+5*in.N {
				set[u] = true
			}
		}
		in.Cuts = in.Cuts[:0]
		for u := range set {
			in.Cuts = append(in.Cuts, u)
		}
		sort.Ints(in.Cuts)
	} else {
		ends := unitEnds(fr)
		for _, c := range in.Cuts {
			cuts = append(cuts, ends[c-1])
		}
	}
	sort.Ints(cuts)
	rd := &chunkReader{frames: fr, data: stream, cuts: cuts, eofdata: in.EofData}
	// ---- destination shard
	dst := newShardAt(filepath.Join(dir, "dst"), idx%3 == 1)
	okN, failN, rerr := dst.Restore(rd, in.Ignore)
	out := dumpOut{Res: "ok", Count: okN, Fail: failN, Restored: []int{}, Reads: rd.reads, Short: rd.short, Bytes: len(stream)}
	if rerr != nil {
		out.Res = "err"
		out.Err = rerr.Error()
		if errors.Is(rerr, io.EOF) {
			out.Err = "io.EOF"
		}
	}
	known := map[oid.Address]bool{}
	for i, a := range addrs {
		known[a] = true
		b, err := dst.GetBytes(a)
		if err == nil && bytes.Equal(b, byAddr[a]) {
			out.Restored = append(out.Restored, i+1)
		} else if err == nil {
			out.Extra++
		}
	}
	lst, err := dst.List()
	kit.Must(err)
	for _, a := range lst {
		if !known[a] {
			out.Extra++
		}
	}
	kit.Must(dst.Close())
	return out
}

// mkDumpObj: as long as Restore uses a single Read (H4), a short read makes it take 4 object bytes for
// a record length and allocate that much; the bytes a cut of this harness can expose are kept small
// (payload of 0/1 bytes, object ID starting with zeros) so that this costs megabytes, not gigabytes.
func mkDumpObj(r *rand.Rand, cnr cid.ID, pl int) (*object.Object, []byte) {
	payload := make([]byte, pl)
	for i := range payload {
		payload[i] = byte(r.Intn(2))
	}
	var id oid.ID
	r.Read(id[:])
	id[0], id[1], id[2], id[3] = 0, 0, 0, 1
	obj := object.New(cnr, usertest.ID())
	obj.SetID(id)
	obj.SetPayload(payload)
	obj.SetPayloadSize(uint64(pl))
	obj.SetPayloadChecksum(checksum.NewSHA256(sha256.Sum256(payload)))
	// two attributes whose keys differ in the last byte (corruption style c makes them equal)
	obj.SetAttributes(object.NewAttribute(attrKeyA, "x"), object.NewAttribute(attrKeyB, "y"))
	return obj, obj.Marshal()
}

const (
	attrKeyA = "verif-attr-A"
	attrKeyB = "verif-attr-B"
)

// drawCuts draws byte offsets: segment boundaries, inside magic / length fields, and inside the payload
// part of the records (see mkDumpObj), either a few or a fixed-size chunking restricted to those places.
func drawCuts(r *rand.Rand, fr []frame, sizes []int, style int) []int {
	var cand []int
	cand = append(cand, 1, 2, 3, 4)
	for i, f := range fr {
		_ = i
		cand = append(cand, f.lenOff+1, f.lenOff+2, f.lenOff+3, f.dataOff, f.dataOff+1, f.dataOff+f.n-1, f.dataOff+f.n)
	}
	payloadCut := func(f frame) int {
		// the payload is the last field of the binary; stay 16 bytes inside it
		pl := 0
		for _, s := range sizes {
			if s+16 < f.n && s > pl {
				pl = s
			}
		}
		if pl < 64 {
			return f.dataOff + f.n - 1
		}
		return f.dataOff + f.n - pl + 16 + r.Intn(pl-32)
	}
	set := map[int]bool{}
	if style == 1 { // a handful of cuts
		for k := 1 + r.Intn(5); k > 0; k-- {
			if r.Intn(2) == 0 {
				set[cand[r.Intn(len(cand))]] = true
			} else {
				set[payloadCut(fr[r.Intn(len(fr))])] = true
			}
		}
	} else { // dense: every candidate with probability 1/2 plus several payload cuts per record
		for _, c := range cand {
			if r.Intn(2) == 0 {
				set[c] = true
			}
		}
		for _, f := range fr {
			for k := r.Intn(4); k > 0; k-- {
				set[payloadCut(f)] = true
			}
		}
	}
	out := make([]int, 0, len(set))
	for c := range set {
		out = append(out, c)
	}
	sort.Ints(out)
	return out
}

func dumpMain(args []string) {
	cases := kit.ReadNDJSON[dumpIn](args[0])
	nrand, _ := strconv.Atoi(args[2])
	r := kit.Rand(46)
	root, err := os.MkdirTemp("", "shardb-dump")
	kit.Must(err)
	defer os.RemoveAll(root)
	n := 0
	if len(cases) > 0 {
		n = cases[0].N
	}
	for i := 0; i < nrand; i++ {
		c := dumpIn{N: n, Ignore: r.Intn(2) == 0, EofData: r.Intn(4) == 0}
		for k := 1; k <= n; k++ {
			if r.Intn(5) == 0 {
				c.Corrupt = append(c.Corrupt, k)
			}
		}
		if c.Corrupt == nil {
			c.Corrupt = []int{}
		}
		c.Rand = 1 + r.Intn(2)
		c.RawCuts = nil
		cases = append(cases, c)
	}
	outs := make([]dumpOut, len(cases))
	sem := make(chan struct{}, 8)
	var wg sync.WaitGroup
	for i := range cases {
		c := &cases[i]
		c.WC = i%2 == 1
		if c.Corrupt == nil {
			c.Corrupt = []int{}
		}
		if c.Cuts == nil {
			c.Cuts = []int{}
		}
		wg.Add(1)
		sem <- struct{}{}
		go func() {
			defer wg.Done()
			defer func() { <-sem }()
			t0 := time.Now()
			outs[i] = runDumpCase(root, c, kit.Rand(4600+int64(i)), i)
			if d := time.Since(t0); d > 20*time.Second {
				fmt.Fprintf(os.Stderr, "slow case %d: %v in=%+v out=%+v\n", i, d, *c, outs[i])
			}
		}()
	}
	wg.Wait()
	w := kit.NewW(args[1])
	for i := range cases {
		w.Emit(kit.M{"in": cases[i], "out": outs[i]})
	}
	w.Close()
}
