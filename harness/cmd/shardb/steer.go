package main

import (
	"fmt"
	"strings"
	"time"
)

// step is one action of a TLC-generated behaviour of spec/WriteCacheGen.tla.
type step struct {
	S string `json:"s"`
	P int    `json:"p"`
	A int    `json:"a"`
	X string `json:"x"`
	B []int  `json:"b"`
}

type script struct {
	Steps []step `json:"steps"`
	NW    int    `json:"nw,omitempty"`   // overrides params.nw (probes derived with one worker)
	Name  string `json:"name,omitempty"` // label of a probe
}

const procWait = 700 * time.Millisecond

// gate kind released by a hidden step of a client process
var procGate = map[string]string{
	"PutCount": "pfs", "DelCount": "dfs", "FlushDelCount": "dfs", "GetRead": "has",
	"BlobRead": "bread", "BlobDel": "bdel", "BlobPutC": "bput", "BlobPutF": "bput",
}

// first hidden step of a call: the goroutine of the call is started here
var firstStep = map[string]bool{"PutAdmit": true, "DelFS": true, "GetMeta": true, "GetHas": true,
	"FlushStart": true, "SetModeStart": true, "ReopenClose": true}

// runScript steers the real code through the schedule of one model behaviour as closely as the gates
// allow. It never decides anything: whatever the real code did is in the event log and is judged by
// trace validation.
func (in *inst) runScript(sc script) error {
	in.mu.Lock()
	in.steer = true
	in.holdRound = true
	in.mu.Unlock()
	cur := map[int]*call{}
	for _, st := range sc.Steps {
		switch {
		case st.S == "Begin":
			op, m, _ := strings.Cut(st.X, ":")
			if c := cur[st.P]; c != nil {
				in.forceFinish(c)
			}
			if op == "setmode" || op == "reopen" {
				// exclusive calls: the model starts them only when every other call has returned
				for _, c := range cur {
					if c != nil {
						in.forceFinish(c)
					}
				}
			}
			cur[st.P] = in.begin(st.P, op, st.A, m)
		case firstStep[st.S]:
			c := cur[st.P]
			if c == nil || c.started {
				continue
			}
			if c.op == "reopen" {
				in.launch(c)
				in.waitFor(func() bool { return c.done }, 60*time.Second)
				in.mu.Lock()
				in.steer = true
				in.holdRound = true
				in.mu.Unlock()
				continue
			}
			in.launch(c)
			in.waitProc(c, procWait)
		case procGate[st.S] != "":
			c := cur[st.P]
			if c == nil || !c.started {
				continue
			}
			kind := procGate[st.S]
			ok := in.release(func(pk *park) bool { return pk.kind == kind && in.gidProc[pk.gid] == c.p },
				decision{fail: st.X == "fail"})
			if !ok {
				in.steerMiss++
				continue
			}
			in.waitProc(c, procWait)
		case st.S == "Ret":
			if c := cur[st.P]; c != nil {
				in.forceFinish(c) // the model's call has returned: all its steps are over
			}
		case st.S == "DoneMark":
			in.awaitWorker("done", 500*time.Millisecond)
			if !in.release(func(pk *park) bool { return pk.kind == "done" }, decision{}) {
				in.steerMiss++
				continue
			}
			in.settle(2*time.Millisecond, 60*time.Millisecond)
		case st.S == "RoundMark" || st.S == "SchedWake":
			// the scheduler has passed its select: wait until it sits in the round hook (not released yet)
			in.waitFor(func() bool {
				for _, pk := range in.parked {
					if pk.kind == "round" {
						return true
					}
				}
				return false
			}, 1500*time.Millisecond)
		case st.S == "SchedSnap": // the round hook sits right before the snapshot: release it here
			if !in.roundOnce(1500 * time.Millisecond) {
				in.steerMiss++
				continue
			}
			in.settle(2*time.Millisecond, 60*time.Millisecond)
		case st.S == "BlobPutW":
			want := fmt.Sprint(st.B)
			d := decision{fail: st.X == "fail"}
			worker := func(pk *park) bool { return pk.kind == "bput" && in.gidProc[pk.gid] == 0 }
			in.awaitWorker("bput", 2500*time.Millisecond)
			ok := in.release(func(pk *park) bool { return worker(pk) && fmt.Sprint(pk.addrs) == want }, d)
			if !ok {
				ok = in.release(worker, d)
			}
			if !ok {
				in.steerMiss++
				continue
			}
			in.settle(2*time.Millisecond, 60*time.Millisecond)
		case st.S == "WDelFS":
			// the worker is between its storage put and its cache deletes: let it start deleting
			in.awaitWorker("bputx", 500*time.Millisecond)
			if in.release(func(pk *park) bool { return pk.kind == "bputx" && in.gidProc[pk.gid] == 0 }, decision{}) {
				in.settle(2*time.Millisecond, 60*time.Millisecond)
			}
		case st.S == "FlushDelFS" || st.S == "MetaPut":
			if c := cur[st.P]; c != nil && c.started {
				if in.release(func(pk *park) bool { return pk.kind == "bputx" && in.gidProc[pk.gid] == c.p }, decision{}) {
					in.waitProc(c, procWait)
				}
			}
		case st.S == "WDelCount":
			in.awaitWorker("dfs", 500*time.Millisecond)
			ok := in.release(func(pk *park) bool { return pk.kind == "dfs" && in.gidProc[pk.gid] == 0 }, decision{})
			if !ok {
				in.steerMiss++
				continue
			}
			in.settle(2*time.Millisecond, 60*time.Millisecond)
		}
	}
	return in.finish()
}

// awaitWorker waits (bounded) until a flush worker is parked at the given gate; it gives up at once when no
// batch is in flight and the scheduler sits at its round gate again (nothing can arrive). Steering only:
// on a loaded machine the worker may need more than a moment to get there.
func (in *inst) awaitWorker(kind string, d time.Duration) {
	in.waitFor(func() bool {
		idle := in.sent == in.done
		for _, pk := range in.parked {
			if pk.kind == kind && in.gidProc[pk.gid] == 0 {
				return true
			}
			if pk.kind == "round" && idle && kind != "done" {
				return true // nothing in flight
			}
		}
		return false
	}, d)
}

// forceFinish makes a call of the script that is still running complete (the script moved on to the
// next call of the same process): its gates are released, then, if it is still blocked (e.g. on a
// lock held by a parked flusher), every gate except the scheduler's.
func (in *inst) forceFinish(c *call) {
	if !c.started {
		in.launch(c)
	}
	for i := 0; i < 200; i++ {
		if in.waitFor(func() bool { return c.done }, 5*time.Millisecond) {
			return
		}
		if !in.release(func(pk *park) bool { return in.gidProc[pk.gid] == c.p }, decision{}) && i > 5 {
			in.release(func(pk *park) bool { return pk.kind != "round" }, decision{})
		}
	}
	in.waitFor(func() bool { return c.done }, 30*time.Second)
}
