package main

import (
	"sync"
	"time"

	"verifharness/internal/kit"
)

// stress: free-running concurrent driver (no gates): client goroutines issue random calls while the
// real background flusher runs and the main storage fails at random; call start / end, storage steps
// and scheduler markers are logged, quiescent observations are taken in pauses and at the end.
func (in *inst) stress(ops int, salt int64) error {
	r := kit.Rand(7000 + salt)
	in.mu.Lock()
	in.steer = false
	in.holdRound = false
	in.failRate = 0.2
	in.mu.Unlock()
	shardLvl := in.p.Level == "shard"
	nproc := 3
	// excl serialises mode switches / reopen with the other calls (the model's Begin requires it; the
	// Shard does the same with its own lock)
	var excl sync.RWMutex
	phases := 2 + r.Intn(2)
	for ph := range phases {
		var wg sync.WaitGroup
		for p := 1; p <= nproc; p++ {
			pr := kit.Rand(salt*100 + int64(ph*10+p))
			wg.Add(1)
			go func() {
				defer wg.Done()
				for range ops {
					x := pr.Intn(100)
					a := 1 + pr.Intn(in.p.NAddr)
					op, m := "put", ""
					switch {
					case x < 45:
					case x < 65:
						op = "get"
					case x < 80:
						op = "del"
					case x < 86:
						op, a = "flush", 0
					case x < 93 && p == 1:
						op, a = "setmode", 0
						m = []string{"rw", "ro", "deg", "rw"}[pr.Intn(4)]
						if !shardLvl && m == "deg" {
							m = "ro"
						}
					case x < 96 && p == 1:
						op, a = "reopen", 0
					}
					if op == "setmode" || op == "reopen" {
						excl.Lock()
						in.mu.Lock()
						cm := in.curMod
						in.mu.Unlock()
						if op == "setmode" && cm == "ro" && m == "deg" {
							m = "rw"
						}
						c := in.begin(p, op, a, m)
						in.launch(c)
						in.waitFor(func() bool { return c.done }, 120*time.Second)
						if op == "reopen" {
							in.mu.Lock()
							in.failRate = 0.2
							in.mu.Unlock()
						}
						excl.Unlock()
					} else {
						excl.RLock()
						c := in.begin(p, op, a, m)
						in.launch(c)
						in.waitFor(func() bool { return c.done }, 120*time.Second)
						excl.RUnlock()
					}
					if pr.Intn(4) == 0 {
						time.Sleep(time.Duration(pr.Intn(400)) * time.Millisecond)
					}
				}
			}()
		}
		wg.Wait()
		if ph < phases-1 {
			// intermediate quiescent observation
			in.mu.Lock()
			in.holdRound = true
			in.mu.Unlock()
			if in.quiescent(40 * time.Second) {
				in.observe(nil)
			}
			in.mu.Lock()
			in.holdRound = false
			in.mu.Unlock()
			in.release(func(pk *park) bool { return pk.kind == "round" }, decision{})
		}
	}
	// leave the modes that stop the flusher so that the liveness phase is meaningful in most runs
	if r.Intn(3) > 0 {
		in.mu.Lock()
		cm := in.curMod
		in.mu.Unlock()
		if cm != "rw" {
			c := in.begin(1, "setmode", 0, "rw")
			in.launch(c)
			in.waitFor(func() bool { return c.done }, 120*time.Second)
		}
	}
	return in.finish()
}
