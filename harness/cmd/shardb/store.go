package main

import (
	"bytes"
	"errors"
	"io"
	"sort"

	"github.com/nspcc-dev/neofs-node/pkg/local_object_storage/blobstor/common"
	"github.com/nspcc-dev/neofs-sdk-go/object"
	oid "github.com/nspcc-dev/neofs-sdk-go/object/id"
	"verifharness/internal/kit"
)

var errInjected = errors.New("verif: injected main storage failure")

// faultStore decorates the main storage (blobstor) of a write-cache / shard:
//   - entry of Put/PutBatch is a gate (= after the flusher has read the cache, before the storage
//     write) and may fail by decision of the steering script (transient failure, storage untouched);
//   - every write / read / delete is logged as an exact step: the inner call and its log record are
//     made under the instance mutex, so the record order is the order of the real effects.
type faultStore struct {
	common.Storage
	in *inst
}

func (f *faultStore) Put(addr oid.Address, data []byte) error {
	in := f.in
	a := in.abs(addr)
	d := in.gate("bput", []int{a})
	in.mu.Lock()
	if a != 0 && !bytes.Equal(data, in.objs[a].data) {
		a = -a
	}
	var err error
	if d.fail {
		err = common.ErrNoSpace
	} else {
		err = f.Storage.Put(addr, data)
	}
	in.logLocked(kit.M{"e": "bp", "k": "single", "b": []int{a}, "ok": err == nil})
	in.change++
	in.cond.Broadcast()
	in.mu.Unlock()
	if err == nil {
		in.gate("bputx", []int{a}) // stored in the main storage, the caller has not continued yet
	}
	return err
}

func (f *faultStore) PutBatch(m map[oid.Address][]byte) error {
	in := f.in
	ids := make([]int, 0, len(m))
	for addr, data := range m {
		a := in.abs(addr)
		if a != 0 && !bytes.Equal(data, in.objs[a].data) {
			a = -a
		}
		ids = append(ids, a)
	}
	sort.Ints(ids)
	d := in.gate("bput", ids)
	in.mu.Lock()
	var err error
	if d.fail {
		err = errInjected
	} else {
		err = f.Storage.PutBatch(m)
	}
	in.logLocked(kit.M{"e": "bp", "k": "batch", "b": ids, "ok": err == nil})
	in.change++
	in.cond.Broadcast()
	in.mu.Unlock()
	if err == nil {
		in.gate("bputx", ids)
	}
	return err
}

func (f *faultStore) logRead(addr oid.Address, data []byte, err error) {
	in := f.in
	a := in.abs(addr)
	found := err == nil
	if found && a != 0 && !bytes.Equal(data, in.objs[a].data) {
		a = -a
	}
	in.logLocked(kit.M{"e": "br", "a": a, "found": found})
	in.change++
	in.cond.Broadcast()
}

func (f *faultStore) Get(addr oid.Address) (*object.Object, error) {
	in := f.in
	in.gate("bread", []int{in.abs(addr)})
	in.mu.Lock()
	defer in.mu.Unlock()
	obj, err := f.Storage.Get(addr)
	var data []byte
	if err == nil {
		data = obj.Marshal()
	}
	f.logRead(addr, data, err)
	return obj, err
}

func (f *faultStore) GetBytes(addr oid.Address) ([]byte, error) {
	in := f.in
	in.gate("bread", []int{in.abs(addr)})
	in.mu.Lock()
	defer in.mu.Unlock()
	data, err := f.Storage.GetBytes(addr)
	f.logRead(addr, data, err)
	return data, err
}

func (f *faultStore) GetStream(addr oid.Address) (*object.Object, io.ReadCloser, error) {
	in := f.in
	in.gate("bread", []int{in.abs(addr)})
	in.mu.Lock()
	defer in.mu.Unlock()
	// the stream is materialised here so that the logged step covers the whole read
	data, err := f.Storage.GetBytes(addr)
	f.logRead(addr, data, err)
	if err != nil {
		return nil, nil, err
	}
	obj := new(object.Object)
	if err := obj.Unmarshal(data); err != nil {
		return nil, nil, err
	}
	pl := obj.Payload()
	hdr := obj.CutPayload()
	return hdr, io.NopCloser(bytes.NewReader(pl)), nil
}

func (f *faultStore) Delete(addr oid.Address) error {
	in := f.in
	a := in.abs(addr)
	in.gate("bdel", []int{a})
	in.mu.Lock()
	defer in.mu.Unlock()
	err := f.Storage.Delete(addr)
	in.logLocked(kit.M{"e": "bd", "a": a})
	in.change++
	in.cond.Broadcast()
	return err
}

// mode switches of the shard close and reopen the storage; serialise them with the data calls
func (f *faultStore) Close() error {
	f.in.mu.Lock()
	defer f.in.mu.Unlock()
	return f.Storage.Close()
}

func (f *faultStore) Open(ro bool) error {
	f.in.mu.Lock()
	defer f.in.mu.Unlock()
	return f.Storage.Open(ro)
}

func (f *faultStore) Init(id common.ID) error {
	f.in.mu.Lock()
	defer f.in.mu.Unlock()
	return f.Storage.Init(id)
}
