package main

import (
	"bytes"
	"crypto/sha256"
	"errors"
	"fmt"
	"math/rand"
	"os"
	"path/filepath"
	"runtime"
	"sort"
	"strconv"
	"sync"
	"time"

	"github.com/nspcc-dev/neofs-node/pkg/local_object_storage/blobstor/common"
	"github.com/nspcc-dev/neofs-node/pkg/local_object_storage/blobstor/fstree"
	meta "github.com/nspcc-dev/neofs-node/pkg/local_object_storage/metabase"
	"github.com/nspcc-dev/neofs-node/pkg/local_object_storage/shard"
	"github.com/nspcc-dev/neofs-node/pkg/local_object_storage/shard/mode"
	"github.com/nspcc-dev/neofs-node/pkg/local_object_storage/writecache"
	"github.com/nspcc-dev/neofs-node/pkg/util/verifhook"
	"github.com/nspcc-dev/neofs-sdk-go/checksum"
	apistatus "github.com/nspcc-dev/neofs-sdk-go/client/status"
	cid "github.com/nspcc-dev/neofs-sdk-go/container/id"
	cidtest "github.com/nspcc-dev/neofs-sdk-go/container/id/test"
	"github.com/nspcc-dev/neofs-sdk-go/object"
	oid "github.com/nspcc-dev/neofs-sdk-go/object/id"
	oidtest "github.com/nspcc-dev/neofs-sdk-go/object/id/test"
	usertest "github.com/nspcc-dev/neofs-sdk-go/user/test"
	"verifharness/internal/kit"
)

// params mirror the constants of spec/WriteCache*.cfg (sizes in abstract units).
type params struct {
	Level     string `json:"level"` // "cache" | "shard"
	NAddr     int    `json:"naddr"`
	Threshold int    `json:"threshold"`
	MaxCount  int    `json:"maxcount"`
	MaxBSize  int    `json:"maxbsize"`
	MaxCache  int    `json:"maxcache"`
	NW        int    `json:"nw"`
	LiveK     int    `json:"livek"`
}

// unit is the number of bytes of one abstract size unit: address a is an object whose binary is
// exactly a*unit bytes long.
const unit = 512

type objInfo struct {
	a    int
	obj  *object.Object
	addr oid.Address
	data []byte
}

type epochState struct{}

func (epochState) CurrentEpoch() uint64 { return 0 }

// mkObj makes a regular object of container cnr whose binary form has exactly size bytes.
func mkObj(r *rand.Rand, cnr cid.ID, size int) (*object.Object, []byte) {
	pl := size - 230
	if pl < 1 {
		pl = 1
	}
	owner := usertest.ID()
	id := oidtest.ID()
	for range 20 {
		payload := make([]byte, pl)
		r.Read(payload)
		obj := object.New(cnr, owner)
		obj.SetID(id)
		obj.SetPayload(payload)
		obj.SetPayloadSize(uint64(pl))
		obj.SetPayloadChecksum(checksum.NewSHA256(sha256.Sum256(payload)))
		data := obj.Marshal()
		if len(data) == size {
			return obj, data
		}
		pl += size - len(data)
		if pl < 1 {
			panic("object size too small for the header")
		}
	}
	panic("cannot fit object size")
}

// mkObjPayload makes a regular object with a random payload of pl bytes.
func mkObjPayload(r *rand.Rand, cnr cid.ID, pl int) (*object.Object, []byte) {
	payload := make([]byte, pl)
	r.Read(payload)
	obj := object.New(cnr, usertest.ID())
	obj.SetID(oidtest.ID())
	obj.SetPayload(payload)
	obj.SetPayloadSize(uint64(pl))
	obj.SetPayloadChecksum(checksum.NewSHA256(sha256.Sum256(payload)))
	return obj, obj.Marshal()
}

type decision struct {
	fail bool
}

type park struct {
	kind  string // round | done | has | pfs | dfs | bput | bread | bdel
	addrs []int
	gid   int64
	ch    chan decision
}

type call struct {
	p       int
	op      string
	a       int
	m       string
	started bool
	done    bool
	res     string
}

// inst is one system under test: a write-cache over a fault-injecting main storage, alone or inside a Shard.
type inst struct {
	p      params
	dir    string
	cnr    cid.ID
	objs   map[int]*objInfo
	byAddr map[oid.Address]int
	rnd    *rand.Rand

	inner  *fstree.FSTree
	store  *faultStore
	wc     writecache.Cache
	sh     *shard.Shard
	wcPath string
	curMod string
	warm   bool
	frozen bool // shutting down: the log is complete

	mu        sync.Mutex
	cond      *sync.Cond
	events    []kit.M
	parked    []*park
	steer     bool // gates block
	holdRound bool // the round gate blocks even when not steering
	passAll   bool // closing: nothing blocks
	sent      int
	done      int
	calls     map[int]*call
	gidProc   map[int64]int
	failRate  float64 // free mode: probability of an injected main-storage put failure
	change    int     // bumped on every event / park / unpark (settle detection)

	steerMiss int
	timeouts  int
}

var instances sync.Map // write-cache path -> *inst

func gid() int64 {
	var b [64]byte
	n := runtime.Stack(b[:], false)
	// "goroutine 123 [running]:"
	s := b[len("goroutine "):n]
	i := bytes.IndexByte(s, ' ')
	v, _ := strconv.ParseInt(string(s[:i]), 10, 64)
	return v
}

func installHooks() {
	verifhook.Set(func(name string, args ...any) {
		if len(args) == 0 {
			return
		}
		path, ok := args[0].(string)
		if !ok {
			return
		}
		v, ok := instances.Load(path)
		if !ok {
			return
		}
		in := v.(*inst)
		switch name {
		case "writecache.sched.round":
			in.gate("round", nil)
			in.emit(kit.M{"e": "round"})
		case "writecache.sched.sent":
			b := args[1].([]oid.Address)
			ids := make([]int, len(b))
			in.mu.Lock()
			for i := range b {
				ids[i] = in.byAddr[b[i]]
			}
			in.sent++
			in.logLocked(kit.M{"e": "sent", "b": ids})
			in.change++
			in.cond.Broadcast()
			in.mu.Unlock()
		case "writecache.worker.done":
			in.mu.Lock()
			in.done++
			in.logLocked(kit.M{"e": "done"})
			in.change++
			in.cond.Broadcast()
			in.mu.Unlock()
			in.gate("done", nil) // the worker has reported its result but does not take the next batch yet
		case "writecache.get.afterHas":
			in.gate("has", []int{in.abs(args[1].(oid.Address))})
		case "writecache.put.afterFS":
			in.gate("pfs", []int{in.abs(args[1].(oid.Address))})
		case "writecache.delete.afterFS":
			in.gate("dfs", []int{in.abs(args[1].(oid.Address))})
		}
	})
}

func (in *inst) abs(a oid.Address) int {
	return in.byAddr[a] // immutable after construction
}

// logLocked appends a record to the log (in.mu held). Nothing is logged once the instance is being
// shut down: Close switches the cache to read-only, which is not part of the recorded behaviour.
func (in *inst) logLocked(ev kit.M) {
	if !in.frozen {
		in.events = append(in.events, ev)
	}
}

func (in *inst) emit(ev kit.M) {
	in.mu.Lock()
	in.logLocked(ev)
	in.change++
	in.cond.Broadcast()
	in.mu.Unlock()
}

const gateTimeout = 40 * time.Second

// gate blocks the calling goroutine of the real code at a step boundary until the steering loop
// releases it (steer mode); in free mode it returns immediately.
func (in *inst) gate(kind string, addrs []int) decision {
	in.mu.Lock()
	if kind == "pfs" || kind == "dfs" || kind == "has" {
		// marker: this goroutine is exactly between two steps of the model
		in.logLocked(kit.M{"e": "g", "k": kind, "p": in.gidProc[gid()], "a": addrs[0]})
		in.change++
	}
	block := !in.passAll && (in.steer || (kind == "round" && in.holdRound))
	if !block {
		d := decision{}
		if kind == "bput" && in.failRate > 0 && !in.passAll && in.rnd.Float64() < in.failRate {
			d.fail = true
		}
		in.mu.Unlock()
		return d
	}
	pk := &park{kind: kind, addrs: addrs, gid: gid(), ch: make(chan decision, 1)}
	in.parked = append(in.parked, pk)
	in.change++
	in.cond.Broadcast()
	in.mu.Unlock()
	select {
	case d := <-pk.ch:
		return d
	case <-time.After(gateTimeout):
		in.mu.Lock()
		in.unparkLocked(pk)
		in.timeouts++
		in.mu.Unlock()
		return decision{}
	}
}

func (in *inst) unparkLocked(pk *park) {
	for i, q := range in.parked {
		if q == pk {
			in.parked = append(in.parked[:i], in.parked[i+1:]...)
			in.change++
			return
		}
	}
}

// release lets the first parked goroutine matching pred continue. Returns false if none is parked.
func (in *inst) release(pred func(*park) bool, d decision) bool {
	in.mu.Lock()
	defer in.mu.Unlock()
	for _, pk := range in.parked {
		if pred(pk) {
			in.unparkLocked(pk)
			pk.ch <- d
			in.cond.Broadcast()
			return true
		}
	}
	return false
}

func (in *inst) releaseAll() {
	in.mu.Lock()
	for _, pk := range in.parked {
		pk.ch <- decision{}
	}
	in.parked = nil
	in.change++
	in.cond.Broadcast()
	in.mu.Unlock()
}

// waitFor waits until pred (evaluated under the lock) holds or the timeout expires.
func (in *inst) waitFor(pred func() bool, d time.Duration) bool {
	deadline := time.Now().Add(d)
	in.mu.Lock()
	defer in.mu.Unlock()
	for !pred() {
		left := time.Until(deadline)
		if left <= 0 {
			return false
		}
		t := time.AfterFunc(left, func() { in.mu.Lock(); in.cond.Broadcast(); in.mu.Unlock() })
		in.cond.Wait()
		t.Stop()
	}
	return true
}

// settle waits until nothing has happened for quiet (bounded by max).
func (in *inst) settle(quiet, max time.Duration) {
	deadline := time.Now().Add(max)
	in.mu.Lock()
	last := in.change
	in.mu.Unlock()
	for time.Now().Before(deadline) {
		time.Sleep(quiet)
		in.mu.Lock()
		c := in.change
		in.mu.Unlock()
		if c == last {
			return
		}
		last = c
	}
}

func (in *inst) procOf(g int64) int { return in.gidProc[g] } // call with in.mu held

// ---------------------------------------------------------------------------------- construction

func newInst(p params, root string, salt int64) *inst {
	in := &inst{p: p, dir: root, objs: map[int]*objInfo{}, byAddr: map[oid.Address]int{},
		calls: map[int]*call{}, gidProc: map[int64]int{}, curMod: "rw"}
	in.cond = sync.NewCond(&in.mu)
	in.rnd = kit.Rand(salt)
	in.cnr = cidtest.ID()
	for a := 1; a <= p.NAddr; a++ {
		obj, data := mkObj(in.rnd, in.cnr, a*unit)
		oi := &objInfo{a: a, obj: obj, addr: obj.Address(), data: data}
		in.objs[a] = oi
		in.byAddr[oi.addr] = a
	}
	in.inner = fstree.New(fstree.WithPath(filepath.Join(root, "blob")), fstree.WithDepth(1),
		fstree.WithNoSync(true), fstree.WithCombinedCountLimit(1))
	in.store = &faultStore{Storage: in.inner, in: in}
	in.wcPath = filepath.Join(root, "wc")
	instances.Store(in.wcPath, in)
	in.open()
	return in
}

func (in *inst) wcOpts() []writecache.Option {
	return []writecache.Option{
		writecache.WithPath(in.wcPath),
		writecache.WithNoSync(true),
		writecache.WithMaxCacheSize(uint64(in.p.MaxCache * unit)),
		writecache.WithFlushWorkersCount(in.p.NW),
		writecache.WithMaxFlushBatchThreshold(uint64(in.p.Threshold * unit)),
		writecache.WithMaxFlushBatchCount(in.p.MaxCount),
		writecache.WithMaxFlushBatchSize(uint64(in.p.MaxBSize * unit)),
	}
}

func (in *inst) open() {
	if in.p.Level == "shard" {
		in.sh = shard.New(
			shard.WithBlobstor(in.store),
			shard.WithMetaBaseOptions(meta.WithPath(filepath.Join(in.dir, "meta")), meta.WithEpochState(epochState{}),
				meta.WithMaxBatchDelay(time.Microsecond)),
			shard.WithWriteCache(true),
			shard.WithWriteCacheOptions(in.wcOpts()...),
		)
		kit.Must(in.sh.Open())
		kit.Must(in.sh.Init())
		in.wc = in.sh.VerifWriteCache()
		if !in.warm {
			// Shard.Delete panics (res[len(addrs):] on a nil result) for a container the metabase has
			// no bucket for yet; create the bucket with an object outside the model's universe.
			in.warm = true
			in.mu.Lock()
			hold := in.holdRound
			in.holdRound = true // no background flush of the warm-up object
			in.mu.Unlock()
			obj, data := mkObj(in.rnd, in.cnr, unit)
			kit.Must(in.sh.Put(obj, data))
			kit.Must(in.sh.Delete(in.cnr, []oid.ID{obj.Address().Object()}))
			in.mu.Lock()
			in.holdRound = hold
			in.events = nil
			in.mu.Unlock()
			in.release(func(pk *park) bool { return pk.kind == "round" }, decision{})
		}
		return
	}
	kit.Must(in.inner.Open(false))
	kit.Must(in.inner.Init(common.ID{}))
	in.wc = writecache.New(append(in.wcOpts(), writecache.WithStorage(in.store))...)
	kit.Must(in.wc.Open(false))
	kit.Must(in.wc.Init(common.ID{}))
}

// reopen = Close + a new instance on the same directories.
func (in *inst) reopen() string {
	in.mu.Lock()
	in.passAll = true
	in.mu.Unlock()
	in.releaseAll()
	var err error
	if in.p.Level == "shard" {
		err = in.sh.Close()
	} else {
		err = in.wc.Close()
		if e := in.inner.Close(); err == nil {
			err = e
		}
	}
	in.releaseAll()
	in.mu.Lock()
	in.sent, in.done = 0, 0
	in.mu.Unlock()
	if err != nil {
		return "err:" + err.Error()
	}
	in.open()
	in.mu.Lock()
	in.passAll = false
	in.curMod = "rw"
	in.mu.Unlock()
	return "ok"
}

func (in *inst) shutdown() {
	in.mu.Lock()
	in.frozen = true
	in.passAll = true
	in.mu.Unlock()
	in.releaseAll()
	if in.p.Level == "shard" {
		_ = in.sh.Close()
	} else {
		_ = in.wc.Close()
		_ = in.inner.Close()
	}
	in.releaseAll()
	instances.Delete(in.wcPath)
	_ = os.RemoveAll(in.dir)
}

// ---------------------------------------------------------------------------------- client calls

func modeOf(m string) mode.Mode {
	switch m {
	case "ro":
		return mode.ReadOnly
	case "deg":
		return mode.Degraded
	}
	return mode.ReadWrite
}

func classify(err error) string {
	switch {
	case err == nil:
		return "ok"
	case errors.Is(err, writecache.ErrOutOfSpace):
		return "nospace"
	case errors.Is(err, writecache.ErrReadOnly), errors.Is(err, shard.ErrReadOnlyMode):
		return "readonly"
	case errors.Is(err, shard.ErrDegradedMode):
		return "degraded"
	case errors.Is(err, apistatus.ErrObjectNotFound):
		return "notfound"
	case errors.Is(err, errInjected), errors.Is(err, common.ErrNoSpace):
		return "err"
	}
	return "err"
}

// exec runs one client call against the real code and returns the abstract result.
func (in *inst) exec(c *call) string {
	var oi *objInfo
	if c.a != 0 {
		oi = in.objs[c.a]
	}
	if in.p.Level == "shard" {
		switch c.op {
		case "put":
			return classify(in.sh.Put(oi.obj, oi.data))
		case "del":
			return classify(in.sh.Delete(in.cnr, []oid.ID{oi.addr.Object()}))
		case "get":
			obj, err := in.sh.Get(oi.addr, false)
			if err != nil {
				return classify(err)
			}
			if !bytes.Equal(obj.Marshal(), oi.data) {
				return "corrupt"
			}
			return "ok"
		case "flush":
			return classify(in.sh.FlushWriteCache(false))
		case "setmode":
			err := in.sh.SetMode(modeOf(c.m))
			if err == nil {
				in.mu.Lock()
				in.curMod = c.m
				in.mu.Unlock()
			}
			return classify(err)
		case "reopen":
			return in.reopen()
		}
		panic("bad op " + c.op)
	}
	switch c.op {
	case "put":
		return classify(in.wc.Put(oi.addr, oi.obj, oi.data))
	case "del":
		return classify(in.wc.Delete(oi.addr))
	case "get":
		obj, err := in.wc.Get(oi.addr)
		if err != nil {
			return classify(err)
		}
		if !bytes.Equal(obj.Marshal(), oi.data) {
			return "corrupt"
		}
		return "ok"
	case "flush":
		return classify(in.wc.Flush(false))
	case "setmode":
		err := in.wc.SetMode(modeOf(c.m))
		if err == nil {
			in.mu.Lock()
			in.curMod = c.m
			in.mu.Unlock()
		}
		return classify(err)
	case "reopen":
		return in.reopen()
	}
	panic("bad op " + c.op)
}

// begin logs the call start; launch starts the goroutine executing it (lazily, at the first hidden
// step of the call in the script, so the position of the first real step is under control).
func (in *inst) begin(p int, op string, a int, m string) *call {
	c := &call{p: p, op: op, a: a, m: m}
	in.mu.Lock()
	in.calls[p] = c
	in.logLocked(kit.M{"e": "cs", "p": p, "op": op, "a": a, "m": m})
	in.change++
	in.mu.Unlock()
	return c
}

func (in *inst) launch(c *call) {
	in.mu.Lock()
	if c.started {
		in.mu.Unlock()
		return
	}
	c.started = true
	in.mu.Unlock()
	ready := make(chan struct{})
	go func() {
		g := gid()
		in.mu.Lock()
		in.gidProc[g] = c.p
		in.mu.Unlock()
		close(ready)
		res := in.exec(c)
		in.mu.Lock()
		delete(in.gidProc, g)
		c.res = res
		c.done = true
		delete(in.calls, c.p)
		in.logLocked(kit.M{"e": "ce", "p": c.p, "res": res})
		in.change++
		in.cond.Broadcast()
		in.mu.Unlock()
	}()
	<-ready
}

// waitProc waits until call c is parked at a gate or has returned.
func (in *inst) waitProc(c *call, d time.Duration) bool {
	return in.waitFor(func() bool {
		if c.done {
			return true
		}
		for _, pk := range in.parked {
			if in.gidProc[pk.gid] == c.p {
				return true
			}
		}
		return false
	}, d)
}

// ---------------------------------------------------------------------------------- observation

func sortedKeys(m map[int]bool) []int {
	out := make([]int, 0, len(m))
	for k := range m {
		out = append(out, k)
	}
	sort.Ints(out)
	return out
}

// listTree lists the addresses stored in an FSTree directory (abstract ids; -a if bytes differ; 0 for
// an unknown address).
func (in *inst) listTree(path string) []int {
	t := fstree.New(fstree.WithPath(path), fstree.WithDepth(1))
	kit.Must(t.Open(true))
	set := map[int]bool{}
	err := t.Iterate(func(addr oid.Address, data []byte) error {
		a := in.byAddr[addr]
		if a != 0 && !bytes.Equal(data, in.objs[a].data) {
			a = -a
		}
		set[a] = true
		return nil
	}, func(oid.Address, error) error { set[0] = true; return nil })
	kit.Must(err)
	return sortedKeys(set)
}

// quiescent waits until no client call is running, the scheduler is parked at the round gate and
// every batch handed to a worker has been completed.
func (in *inst) quiescent(d time.Duration) bool {
	return in.waitFor(func() bool {
		if len(in.calls) != 0 || in.sent != in.done {
			return false
		}
		for _, pk := range in.parked {
			if pk.kind == "round" {
				return true
			}
		}
		return false
	}, d)
}

func (in *inst) observe(extra kit.M) kit.M {
	st := writecache.VerifStateOf(in.wc)
	cm := map[int]bool{}
	for addr := range st.Sizes {
		cm[in.byAddr[addr]] = true
	}
	infl := map[int]bool{}
	for _, addr := range st.InFlight {
		infl[in.byAddr[addr]] = true
	}
	csize := -1
	if st.Size%unit == 0 {
		csize = int(st.Size / unit)
	}
	// per-entry sizes must be the real sizes
	for addr, sz := range st.Sizes {
		if a := in.byAddr[addr]; a == 0 || sz != uint64(a*unit) {
			csize = -2
		}
	}
	ev := kit.M{"e": "obs", "files": in.listTree(in.wcPath), "cmap": sortedKeys(cm), "csize": csize,
		"blob": in.listTree(filepath.Join(in.dir, "blob")), "inflight": sortedKeys(infl), "errq": st.ErrPending,
		"mode": in.curMod, "meta": []int{}, "metaskip": false, "live": false}
	if in.p.Level == "shard" {
		ms := map[int]bool{}
		if in.curMod != "deg" {
			for a, oi := range in.objs {
				ok, err := in.sh.Exists(oi.addr, true)
				if err != nil {
					ms[0] = true
				} else if ok {
					ms[a] = true
				}
			}
			ev["meta"] = sortedKeys(ms)
		} else {
			ev["metaskip"] = true
		}
	}
	for k, v := range extra {
		ev[k] = v
	}
	in.emit(ev)
	return ev
}

// roundOnce releases the scheduler from the round gate (waiting for it to arrive first).
func (in *inst) roundOnce(d time.Duration) bool {
	ok := in.waitFor(func() bool {
		for _, pk := range in.parked {
			if pk.kind == "round" {
				return true
			}
		}
		return false
	}, d)
	if !ok {
		return false
	}
	return in.release(func(pk *park) bool { return pk.kind == "round" }, decision{})
}

// finish: end of a behaviour. Free-run until quiescent, observe; then the bounded liveness phase:
// wait until no error token is pending, observe, run LiveK fault-free scheduler rounds, observe.
func (in *inst) finish() error {
	in.mu.Lock()
	in.steer = false
	in.holdRound = true
	in.failRate = 0
	// everything parked except the scheduler continues
	var keep []*park
	for _, pk := range in.parked {
		if pk.kind == "round" {
			keep = append(keep, pk)
		} else {
			pk.ch <- decision{}
		}
	}
	in.parked = keep
	in.change++
	in.cond.Broadcast()
	var pending []*call
	for _, c := range in.calls {
		if !c.started {
			pending = append(pending, c)
		}
	}
	in.mu.Unlock()
	for _, c := range pending {
		in.launch(c)
	}
	if !in.quiescent(30 * time.Second) {
		return fmt.Errorf("no quiescence: %s", in.debug())
	}
	ev := in.observe(nil)
	if in.curMod != "rw" {
		return nil
	}
	for i := 0; ev["errq"].(bool); i++ {
		if i == 4 {
			return fmt.Errorf("error token never consumed: %s", in.debug())
		}
		if !in.roundOnce(15*time.Second) || !in.quiescent(30*time.Second) {
			return fmt.Errorf("no quiescence while draining the error token: %s", in.debug())
		}
		ev = in.observe(nil)
	}
	for range in.p.LiveK {
		if !in.roundOnce(15*time.Second) || !in.quiescent(30*time.Second) {
			return fmt.Errorf("no quiescence in the liveness phase: %s", in.debug())
		}
	}
	in.observe(kit.M{"live": true})
	return nil
}

func (in *inst) debug() string {
	in.mu.Lock()
	defer in.mu.Unlock()
	s := fmt.Sprintf("calls=%d sent=%d done=%d parked=[", len(in.calls), in.sent, in.done)
	for _, pk := range in.parked {
		s += fmt.Sprintf("%s%v/p%d ", pk.kind, pk.addrs, in.gidProc[pk.gid])
	}
	return s + "]"
}
