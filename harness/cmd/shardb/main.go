// Command shardb is the conformance harness of family B (write-cache / shard dump):
//
//	shardb run <params.json> <scripts.ndjson> <trace.ndjson> <index.json> [parallel]
//	    M->C: steers a REAL write-cache (params.level = cache) or Shard with write-cache (level = shard)
//	    through TLC-generated behaviours of spec/WriteCacheGen.tla and logs what the real code did
//	    (validated afterwards against spec/TraceWriteCache.tla).
//	shardb stress <params.json> <n> <ops> <trace.ndjson> <index.json> [parallel]
//	    C->M: n free-running concurrent behaviours (goroutines, random ops, random storage failures).
//	shardb dump ...   see dump.go (C46)
package main

import (
	"encoding/json"
	"fmt"
	"os"
	"path/filepath"
	"strconv"
	"sync"

	"verifharness/internal/kit"
)

type result struct {
	Idx       int    `json:"idx"`
	Start     int    `json:"start"` // 1-based index of the reset record in the trace file
	End       int    `json:"end"`
	SteerMiss int    `json:"steer_miss"`
	Timeouts  int    `json:"timeouts"`
	Err       string `json:"err,omitempty"`
}

func readParams(path string) params {
	var p params
	d, err := os.ReadFile(path)
	kit.Must(err)
	kit.Must(json.Unmarshal(d, &p))
	if p.LiveK == 0 {
		p.LiveK = 2
	}
	return p
}

// runAll runs n behaviours with bounded parallelism and writes the concatenated trace + index.
func runAll(p params, n, par int, out, index string, body func(in *inst, i int) error, tweak ...func(p *params, i int)) {
	installHooks()
	root, err := os.MkdirTemp("", "shardb")
	kit.Must(err)
	defer os.RemoveAll(root)
	evs := make([][]kit.M, n)
	res := make([]result, n)
	sem := make(chan struct{}, par)
	var wg sync.WaitGroup
	for i := range n {
		wg.Add(1)
		sem <- struct{}{}
		go func() {
			defer wg.Done()
			defer func() { <-sem }()
			pi := p
			for _, f := range tweak {
				f(&pi, i)
			}
			in := newInst(pi, filepath.Join(root, strconv.Itoa(i)), int64(i))
			err := body(in, i)
			in.shutdown()
			evs[i] = in.events
			res[i] = result{Idx: i, SteerMiss: in.steerMiss, Timeouts: in.timeouts}
			if err != nil {
				res[i].Err = err.Error()
			}
		}()
	}
	wg.Wait()
	w := kit.NewW(out)
	for i := range n {
		res[i].Start = w.N + 1
		w.Emit(kit.M{"e": "reset"})
		for _, ev := range evs[i] {
			w.Emit(ev)
		}
		res[i].End = w.N
	}
	w.Close()
	d, _ := json.Marshal(res)
	kit.Must(os.WriteFile(index, d, 0o644))
}

func main() {
	if len(os.Args) < 2 {
		fmt.Fprintln(os.Stderr, "usage: shardb run|stress|dump ...")
		os.Exit(2)
	}
	switch os.Args[1] {
	case "run":
		p := readParams(os.Args[2])
		scripts := kit.ReadNDJSON[script](os.Args[3])
		par := 32
		if len(os.Args) > 6 {
			par, _ = strconv.Atoi(os.Args[6])
		}
		runAll(p, len(scripts), par, os.Args[4], os.Args[5], func(in *inst, i int) error {
			return in.runScript(scripts[i])
		}, func(p *params, i int) {
			if scripts[i].NW > 0 {
				p.NW = scripts[i].NW
			}
		})
	case "stress":
		p := readParams(os.Args[2])
		n, _ := strconv.Atoi(os.Args[3])
		ops, _ := strconv.Atoi(os.Args[4])
		par := 32
		if len(os.Args) > 7 {
			par, _ = strconv.Atoi(os.Args[7])
		}
		runAll(p, n, par, os.Args[5], os.Args[6], func(in *inst, i int) error {
			return in.stress(ops, int64(i))
		})
	case "dump":
		dumpMain(os.Args[2:])
	default:
		fmt.Fprintln(os.Stderr, "unknown command")
		os.Exit(2)
	}
}
