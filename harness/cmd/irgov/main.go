// Command irgov is the conformance harness of family "irgov" (C36, C39, C47): it runs the REAL
// decision functions of neofs-node on enumerated / generated inputs and writes one record per input;
// TLC validates every record against the spec function and the property predicate.
//
//	irgov c36 enum <minCur> <nRandom> <out>    governance.newAlphabetList / updateInnerRing
//	irgov c36replay <in.json> <out.ndjson>     one stored record input
//	irgov c39 <out.ndjson>                     precision.Fixed8Converter
//	irgov c39replay <in.json> <out.ndjson>
//	irgov c47 <out.ndjson>                     container discard rule through engine / shard / policer
//	irgov c47replay <in.json> <out.ndjson>
package main

import (
	"fmt"
	"os"
)

func main() {
	if len(os.Args) < 2 {
		usage()
	}
	fn, ok := commands[os.Args[1]]
	if !ok {
		usage()
	}
	fn(os.Args[2:])
}

var commands = map[string]func([]string){}

func usage() {
	fmt.Fprintln(os.Stderr, "usage: irgov <c36|c36replay|c39|c39replay|c47|c47replay> ...")
	os.Exit(2)
}
