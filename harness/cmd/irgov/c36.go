package main

import (
	"crypto/sha256"
	"encoding/binary"
	"encoding/json"
	"math/bits"
	"os"
	"sort"
	"strconv"

	"github.com/nspcc-dev/neo-go/pkg/crypto/keys"
	"github.com/nspcc-dev/neofs-node/pkg/innerring/processors/governance"
	"verifharness/internal/kit"
)

func init() {
	commands["c36"] = c36
	commands["c36replay"] = c36replay
}

const c36NKeys = 8 // = NKeys in spec/AlphabetList*.cfg

// c36In is one input of processAlphabetSync's pure part; keys are 1..8, integer order = key order.
type c36In struct {
	Cur  []int `json:"cur"`  // FS chain committee as fetched (any order)
	Main []int `json:"main"` // main chain alphabet as fetched (any order)
	IR   []int `json:"ir"`   // inner ring list as fetched (any order)
}

type c36Rec struct {
	c36In
	Err      bool  `json:"err"`      // any of the two functions returned an error
	Proposed bool  `json:"proposed"` // newAlphabetList returned a non-nil list
	Alpha    []int `json:"alpha"`    // the new alphabet
	IROut    []int `json:"ir_out"`   // updateInnerRing(ir, cur, alpha) (only if proposed)
}

type c36Keys struct {
	pub keys.PublicKeys // sorted
	idx map[string]int
}

// newC36Keys makes 8 real secp256r1 keys (deterministic in the seed) and sorts them the way the code
// does (sort.Sort(keys.PublicKeys)), so that key number i is the i-th smallest key.
func newC36Keys() *c36Keys {
	k := &c36Keys{idx: map[string]int{}}
	for i := 0; len(k.pub) < c36NKeys; i++ {
		var b [16]byte
		binary.LittleEndian.PutUint64(b[:], uint64(kit.Seed()))
		binary.LittleEndian.PutUint64(b[8:], uint64(i))
		h := sha256.Sum256(b[:])
		p, err := keys.NewPrivateKeyFromBytes(h[:])
		if err != nil {
			continue
		}
		k.pub = append(k.pub, p.PublicKey())
	}
	sort.Sort(k.pub)
	for i, p := range k.pub {
		k.idx[string(p.Bytes())] = i + 1
	}
	return k
}

func (k *c36Keys) list(ids []int) keys.PublicKeys {
	res := make(keys.PublicKeys, 0, len(ids))
	for _, i := range ids {
		// a fresh copy per use: the functions must compare keys by value, not by pointer
		c := *k.pub[i-1]
		res = append(res, &c)
	}
	return res
}

func (k *c36Keys) ids(l keys.PublicKeys) []int {
	res := make([]int, 0, len(l))
	for _, p := range l {
		i, ok := k.idx[string(p.Bytes())]
		if !ok {
			i = 0 // a key outside the universe: rejected by the spec
		}
		res = append(res, i)
	}
	return res
}

// run mirrors the pure part of (*Processor).processAlphabetSync: newAlphabetList sorts its arguments in
// place, and the sorted fsChain slice is then passed as `before` to updateInnerRing.
func (k *c36Keys) run(in c36In) c36Rec {
	rec := c36Rec{c36In: in, Alpha: []int{}, IROut: []int{}}
	fsChain, mainnet, ir := k.list(in.Cur), k.list(in.Main), k.list(in.IR)
	alpha, err := governance.VerifNewAlphabetList(fsChain, mainnet)
	if err != nil {
		rec.Err = true
		return rec
	}
	if alpha == nil {
		return rec
	}
	rec.Proposed = true
	rec.Alpha = k.ids(alpha)
	irOut, err := governance.VerifUpdateInnerRing(ir, fsChain, alpha)
	if err != nil {
		rec.Err = true
		return rec
	}
	rec.IROut = k.ids(irOut)
	return rec
}

func setBits(m uint) []int {
	var r []int
	for i := 0; i < c36NKeys; i++ {
		if m&(1<<i) != 0 {
			r = append(r, i+1)
		}
	}
	return r
}

// c36 enum <minCur> <nRandom> <out>: every input of the universe stated by C36 (8 keys, |cur| 1..7,
// every main list with |main| >= |cur|, ir = cur + up to 2 other keys) whose |cur| >= minCur, followed
// by nRandom seeded random inputs of the whole universe. minCur = 1 is the complete universe
// (573 790 inputs). List orders are shuffled with the seed (the code sorts cur/main itself; the order
// of the inner ring list is free).
func c36(args []string) {
	k := newC36Keys()
	r := kit.Rand(36)
	minCur, err := strconv.Atoi(args[1])
	kit.Must(err)
	nRandom, err := strconv.Atoi(args[2])
	kit.Must(err)
	shuffle := func(in c36In) c36In {
		for _, l := range [][]int{in.Cur, in.Main, in.IR} {
			r.Shuffle(len(l), func(i, j int) { l[i], l[j] = l[j], l[i] })
		}
		return in
	}
	mk := func(cur, main, ext uint) c36In {
		return shuffle(c36In{Cur: setBits(cur), Main: setBits(main), IR: append(setBits(cur), setBits(ext)...)})
	}
	const all = uint(1)<<c36NKeys - 1
	w := kit.NewW(args[3])
	for cur := uint(1); cur <= all; cur++ {
		n := bits.OnesCount(cur)
		if n > 7 || n < minCur {
			continue
		}
		for main := uint(0); main <= all; main++ {
			if bits.OnesCount(main) < n {
				continue
			}
			for ext := uint(0); ext <= all; ext++ {
				if ext&cur != 0 || bits.OnesCount(ext) > 2 {
					continue
				}
				w.Emit(k.run(mk(cur, main, ext)))
			}
		}
	}
	for n := 0; n < nRandom; {
		cur, main, ext := uint(r.Intn(int(all))+1), uint(r.Intn(int(all)+1)), uint(r.Intn(int(all)+1))
		ext &^= cur
		if bits.OnesCount(cur) > 7 || bits.OnesCount(main) < bits.OnesCount(cur) || bits.OnesCount(ext) > 2 {
			continue
		}
		w.Emit(k.run(mk(cur, main, ext)))
		n++
	}
	w.Close()
}

func c36replay(args []string) {
	var in c36In
	d, err := os.ReadFile(args[0])
	kit.Must(err)
	kit.Must(json.Unmarshal(d, &in))
	w := kit.NewW(args[1])
	w.Emit(newC36Keys().run(in))
	w.Close()
}
