package main

import (
	"encoding/json"
	"math"
	"os"
	"strconv"

	"github.com/nspcc-dev/neofs-node/pkg/util/precision"
	"verifharness/internal/kit"
)

func init() {
	commands["c39"] = c39
	commands["c39replay"] = c39replay
}

// c39Rec is one evaluation of the real Fixed8Converter for target precision P and amount N.
type c39Rec struct {
	P  uint32 `json:"p"`
	N  int64  `json:"n"`
	TB int64  `json:"tb"` // ToBalancePrecision(n)
	TF int64  `json:"tf"` // ToFixed8(n)
	RT int64  `json:"rt"` // ToFixed8(ToBalancePrecision(n))
}

func c39run(p uint32, n int64) c39Rec {
	c := precision.NewConverter(p)
	tb := c.ToBalancePrecision(n)
	return c39Rec{P: p, N: n, TB: tb, TF: c.ToFixed8(n), RT: c.ToFixed8(tb)}
}

// c39 <boundaryPerPrecision> <randomPerPrecision> <out>: for every target precision 0..18 the first
// `boundary` values of a priority-ordered boundary list (range ends 2^53, int64 ends, first amounts
// whose product leaves int64, in-range amounts whose product crosses 2^53 and needs more than 53 bits,
// negative non-multiples of the factor, powers of ten around the factor) and `random` seeded values
// (rotating: product crossing 2^53 / inside the supported range [0, 2^53) / anywhere in int64 / negative).
func c39(args []string) {
	nb, err := strconv.Atoi(args[0])
	kit.Must(err)
	nr, err := strconv.Atoi(args[1])
	kit.Must(err)
	w := kit.NewW(args[2])
	r := kit.Rand(39)
	const two53 = int64(1) << 53
	for p := uint32(0); p <= 18; p++ {
		e := int(p) - 8
		if e < 0 {
			e = -e
		}
		f := int64(1)
		for i := 0; i < e; i++ {
			f *= 10
		}
		firstWrap := math.MaxInt64/f + 1 // smallest n with n*f > MaxInt64
		// in-range amounts whose product n*f lies between 2^53 and 2^63 and is NOT representable in a
		// float64 mantissa (n*5^e >= 2^53, odd): exact integer arithmetic is required for them
		pow5 := int64(1)
		for i := 0; i < e; i++ {
			pow5 *= 5
		}
		odd53 := (two53/pow5 + 7) | 1
		hi := min(two53, firstWrap) // exclusive upper end of "in range and no int64 overflow"
		var cross []int64
		if e > 0 && odd53 < hi {
			cross = []int64{odd53, (odd53 + (hi-odd53)/2) | 1, (hi - 3) | 1}
		}
		negNonMult := -(7*f + 3) // negative and not a multiple of the factor: floor vs truncation differ
		b := []int64{two53 - 1, 0, f + 1, firstWrap, firstWrap - 1, -1, negNonMult}
		b = append(b, cross...)
		b = append(b, math.MaxInt64, math.MinInt64,
			1, f-1, f, two53, two53-2, -f-1, -f, math.MinInt64+1, 123456789012345, 99999999,
			two53/2+7, -two53+1, -(f/2 + 1), 476050998169135, 58409700650)
		if f > 1 {
			// first n whose product passes 2^64 (wraps around to small positive values again)
			b = append(b, int64(math.MaxUint64/uint64(f))+1)
		}
		seen := map[int64]bool{}
		cnt := 0
		for _, n := range b {
			if cnt == nb {
				break
			}
			if seen[n] {
				continue
			}
			seen[n] = true
			w.Emit(c39run(p, n))
			cnt++
		}
		for i := 0; i < nr; i++ {
			var n int64
			switch {
			case i%4 == 0 && len(cross) > 0: // in range, product crosses 2^53 without leaving int64
				n = (cross[0] + r.Int63n(hi-cross[0])) | 1
				if n >= hi {
					n = cross[0]
				}
			case i%4 == 3: // negative, most likely not a multiple of the factor
				n = -r.Int63n(two53) - 1
			case i%2 == 0:
				n = r.Int63n(two53)
			default:
				n = int64(r.Uint64())
			}
			w.Emit(c39run(p, n))
		}
	}
	w.Close()
}

func c39replay(args []string) {
	var in struct {
		P uint32 `json:"p"`
		N int64  `json:"n"`
	}
	d, err := os.ReadFile(args[0])
	kit.Must(err)
	kit.Must(json.Unmarshal(d, &in))
	w := kit.NewW(args[1])
	w.Emit(c39run(in.P, in.N))
	w.Close()
}
