package main

import (
	"context"
	"crypto/sha256"
	"encoding/json"
	"errors"
	"fmt"
	"os"
	"path/filepath"
	"strconv"
	"time"

	"github.com/nspcc-dev/bbolt"
	objectcore "github.com/nspcc-dev/neofs-node/pkg/core/object"
	"github.com/nspcc-dev/neofs-node/pkg/local_object_storage/blobstor/fstree"
	"github.com/nspcc-dev/neofs-node/pkg/local_object_storage/engine"
	meta "github.com/nspcc-dev/neofs-node/pkg/local_object_storage/metabase"
	"github.com/nspcc-dev/neofs-node/pkg/local_object_storage/shard"
	"github.com/nspcc-dev/neofs-node/pkg/services/object/placement"
	"github.com/nspcc-dev/neofs-node/pkg/services/policer"
	"github.com/nspcc-dev/neofs-sdk-go/checksum"
	apistatus "github.com/nspcc-dev/neofs-sdk-go/client/status"
	"github.com/nspcc-dev/neofs-sdk-go/container"
	cid "github.com/nspcc-dev/neofs-sdk-go/container/id"
	neofscryptotest "github.com/nspcc-dev/neofs-sdk-go/crypto/test"
	"github.com/nspcc-dev/neofs-sdk-go/netmap"
	"github.com/nspcc-dev/neofs-sdk-go/object"
	oid "github.com/nspcc-dev/neofs-sdk-go/object/id"
	usertest "github.com/nspcc-dev/neofs-sdk-go/user/test"
	"go.uber.org/zap"
	"verifharness/internal/kit"
)

func init() {
	commands["c47"] = c47
	commands["c47replay"] = c47replay
}

// c47In is one abstract input of the container discard rule (spec/ContainerGC.tla).
type c47In struct {
	Path   string   `json:"path"`    // engine | shard | policer
	Epochs []uint64 `json:"epochs"`  // processed epochs, in order (shard path: one handler call each)
	Unpaid int64    `json:"unpaid"`  // ContainerPayments.UnpaidSince answer
	PayOn  bool     `json:"pay_on"`  // !ContainerPayments.PaymentsDisabled()
	Src    string   `json:"src"`     // container source answer: found | notFound | transient
	PayErr bool     `json:"pay_err"` // UnpaidSince returns an error
}

type c47Rec struct {
	c47In
	Variant   string `json:"variant"`   // concrete error value used for Src (not part of the abstract input)
	Discarded bool   `json:"discarded"` // the container's object is no longer available on the node
}

// ---- fakes -----------------------------------------------------------------------------------------

type c47Case struct {
	in      c47In
	variant int
	obj     *object.Object
}

type c47World struct {
	payOn bool
	epoch uint64
	byCnr map[cid.ID]*c47Case
	cases []*c47Case
	cnr   container.Container
	nm    netmap.NetMap
	local []byte
}

// shard.ContainerPayments
func (w *c47World) PaymentsDisabled() bool { return !w.payOn }
func (w *c47World) UnpaidSince(c cid.ID) (int64, error) {
	cs, ok := w.byCnr[c]
	if !ok {
		return -1, nil
	}
	if cs.in.PayErr {
		// as cmd/neofs-node paymentChecker does on RPC failure
		return 0, fmt.Errorf("FS chain RPC call: %w", errors.New("connection lost"))
	}
	return cs.in.Unpaid, nil
}

var c47NotFoundVariants = []string{"apistatus.ContainerNotFound{}", "apistatus.ErrContainerNotFound", "wrapped %w ErrContainerNotFound"}
var c47TransientVariants = []string{"errors.New", "context.DeadlineExceeded wrapped", "apistatus.ObjectNotFound{}"}

// containercore.Source
func (w *c47World) Get(c cid.ID) (container.Container, error) {
	cs, ok := w.byCnr[c]
	if !ok {
		return container.Container{}, errors.New("unknown container in harness")
	}
	switch cs.in.Src {
	case "found":
		return w.cnr, nil
	case "notFound":
		switch cs.variant % 3 {
		case 0:
			return container.Container{}, apistatus.ContainerNotFound{}
		case 1:
			return container.Container{}, apistatus.ErrContainerNotFound
		default:
			return container.Container{}, fmt.Errorf("get container from FS chain: %w", apistatus.ErrContainerNotFound)
		}
	default:
		switch cs.variant % 3 {
		case 0:
			return container.Container{}, errors.New("FS chain RPC: connection lost")
		case 1:
			return container.Container{}, fmt.Errorf("FS chain RPC: %w", context.DeadlineExceeded)
		default:
			return container.Container{}, apistatus.ObjectNotFound{} // a status error of another kind
		}
	}
}

func (cs *c47Case) variantName() string {
	switch cs.in.Src {
	case "notFound":
		return c47NotFoundVariants[cs.variant%3]
	case "transient":
		return c47TransientVariants[cs.variant%3]
	}
	return "container"
}

// netmapcore.Source
func (w *c47World) GetNetMapByEpoch(uint64) (*netmap.NetMap, error) { nm := w.nm; return &nm, nil }
func (w *c47World) Epoch() (uint64, error)                          { return w.epoch, nil }
func (w *c47World) NetMap() (*netmap.NetMap, error)                 { nm := w.nm; return &nm, nil }

// meta.EpochState
func (w *c47World) CurrentEpoch() uint64 { return w.epoch }

// policer.Network = the real placement service (container source + network map -> nodes) + local key
type c47Net struct {
	*placement.Service
	w *c47World
}

func (n c47Net) IsLocalNodeInNetmap() bool          { return true }
func (n c47Net) IsLocalNodePublicKey(b []byte) bool { return string(b) == string(n.w.local) }

func newC47World(payOn bool, epoch uint64, ins []c47In) *c47World {
	w := &c47World{payOn: payOn, epoch: epoch, byCnr: map[cid.ID]*c47Case{}}
	w.local = []byte("local-node-public-key-0000000000000")
	var node netmap.NodeInfo
	node.SetPublicKey(w.local)
	node.SetNetworkEndpoints("/ip4/127.0.0.1/tcp/8080")
	node.SetOnline()
	w.nm.SetNodes([]netmap.NodeInfo{node})
	w.nm.SetEpoch(epoch)
	var pol netmap.PlacementPolicy
	kit.Must(pol.DecodeString("REP 1"))
	w.cnr.Init()
	w.cnr.SetOwner(usertest.ID())
	w.cnr.SetPlacementPolicy(pol)
	owner := usertest.ID()
	for i, in := range ins {
		var c cid.ID
		h := sha256.Sum256([]byte(fmt.Sprintf("cnr-%d-%d-%v", i, epoch, payOn)))
		copy(c[:], h[:])
		data := []byte(fmt.Sprintf("payload of object %d", i))
		obj := object.New(c, owner)
		var id oid.ID
		h2 := sha256.Sum256(append([]byte("obj"), h[:]...))
		copy(id[:], h2[:])
		obj.SetID(id)
		obj.SetPayload(data)
		obj.SetPayloadSize(uint64(len(data)))
		obj.SetPayloadChecksum(checksum.NewSHA256(sha256.Sum256(data)))
		cs := &c47Case{in: in, variant: i, obj: obj}
		w.byCnr[c] = cs
		w.cases = append(w.cases, cs)
	}
	return w
}

func (w *c47World) shardOpts(dir string, n int) []shard.Option {
	return []shard.Option{
		shard.WithLogger(zap.NewNop()),
		shard.WithBlobstor(fstree.New(fstree.WithPath(filepath.Join(dir, "fstree"+strconv.Itoa(n))), fstree.WithDepth(1), fstree.WithNoSync(true))),
		shard.WithMetaBaseOptions(
			meta.WithPath(filepath.Join(dir, "meta"+strconv.Itoa(n))),
			meta.WithPermissions(0o700),
			meta.WithEpochState(w),
			meta.WithMaxBatchDelay(time.Microsecond),
			meta.WithLogger(zap.NewNop()),
			meta.WithBoltDBOptions(&bbolt.Options{NoSync: true, NoFreelistSync: true, Timeout: time.Second}),
		),
		shard.WithContainerPayments(w),
		shard.WithGCRemoverSleepInterval(100 * time.Hour),
		shard.WithExpiredObjectsCallback(func([]oid.Address) {}),
	}
}

func gone(err error, what string) bool {
	if err == nil {
		return false
	}
	if errors.Is(err, apistatus.ErrObjectNotFound) || errors.Is(err, apistatus.ErrObjectAlreadyRemoved) {
		return true
	}
	kit.Must(fmt.Errorf("%s: unexpected error: %w", what, err))
	return false
}

// ---- the three paths -------------------------------------------------------------------------------

// shard path: a real shard; one setEpochEventHandler call per epoch of the history.
func c47Shard(payOn bool, epochs []uint64, ins []c47In, emit func(c47Rec)) {
	dir, err := os.MkdirTemp("", "c47s")
	kit.Must(err)
	defer os.RemoveAll(dir)
	w := newC47World(payOn, epochs[0], ins)
	sh := shard.New(w.shardOpts(dir, 0)...)
	kit.Must(sh.Open())
	kit.Must(sh.Init())
	defer sh.Close()
	for _, cs := range w.cases {
		kit.Must(sh.Put(cs.obj, nil))
		_, err := sh.Get(cs.obj.Address(), false)
		kit.Must(err)
	}
	for _, e := range epochs {
		w.epoch = e
		sh.VerifHandleEpoch(e)
	}
	for _, cs := range w.cases {
		_, err := sh.Get(cs.obj.Address(), false)
		emit(c47Rec{c47In: cs.in, Variant: cs.variantName(), Discarded: gone(err, "shard get")})
	}
}

func c47Engine(w *c47World, dir string, withSource bool) *engine.StorageEngine {
	opts := []engine.Option{engine.WithLogger(zap.NewNop())}
	if withSource {
		opts = append(opts, engine.WithContainersSource(w))
	}
	e := engine.New(opts...)
	for n := 0; n < 2; n++ {
		_, err := e.AddShard(w.shardOpts(dir, n)...)
		kit.Must(err)
	}
	for _, cs := range w.cases {
		kit.Must(e.Put(context.Background(), cs.obj, nil))
		_, err := e.Get(context.Background(), cs.obj.Address())
		kit.Must(err)
	}
	return e
}

// engine path: a real engine (2 shards) holding the objects runs its start-up Init
// (deleteNotFoundContainers) with the fake container source.
func c47EnginePath(payOn bool, epochs []uint64, ins []c47In, emit func(c47Rec)) {
	dir, err := os.MkdirTemp("", "c47e")
	kit.Must(err)
	defer os.RemoveAll(dir)
	w := newC47World(payOn, epochs[len(epochs)-1], ins)
	e := c47Engine(w, dir, true)
	defer e.Close()
	kit.Must(e.Init())
	for _, cs := range w.cases {
		_, err := e.Get(context.Background(), cs.obj.Address())
		emit(c47Rec{c47In: cs.in, Variant: cs.variantName(), Discarded: gone(err, "engine get")})
	}
}

// policer path: a real Policer over a real engine; its Network is the real placement service fed by
// the fake container source (so the "container not found" error reaches processObject wrapped exactly
// as in the node) and a one-node network map in which the local node is the only container node.
func c47PolicerPath(payOn bool, epochs []uint64, ins []c47In, emit func(c47Rec)) {
	dir, err := os.MkdirTemp("", "c47p")
	kit.Must(err)
	defer os.RemoveAll(dir)
	w := newC47World(payOn, epochs[len(epochs)-1], ins)
	e := c47Engine(w, dir, false)
	defer e.Close()
	kit.Must(e.Init())
	plc, err := placement.New(w, w)
	kit.Must(err)
	p := policer.New(neofscryptotest.Signer(),
		policer.WithLogger(zap.NewNop()),
		policer.WithLocalStorage(e),
		policer.WithNetwork(c47Net{Service: plc, w: w}),
	)
	for _, cs := range w.cases {
		p.VerifC47ProcessObject(context.Background(), objectcore.AddressWithAttributes{
			Address:    cs.obj.Address(),
			Type:       object.TypeRegular,
			Attributes: []string{"", "", ""},
		})
	}
	for _, cs := range w.cases {
		_, err := e.Get(context.Background(), cs.obj.Address())
		emit(c47Rec{c47In: cs.in, Variant: cs.variantName(), Discarded: gone(err, "engine get after policer")})
	}
}

var c47Paths = map[string]func(bool, []uint64, []c47In, func(c47Rec)){
	"shard": c47Shard, "engine": c47EnginePath, "policer": c47PolicerPath,
}

// all (unpaid, src, payErr) combinations for one (path, history, payOn): 14*3*2 = 84 containers
func c47Combos(path string, epochs []uint64, payOn bool) []c47In {
	var ins []c47In
	for unpaid := int64(-1); unpaid <= 12; unpaid++ {
		for _, src := range []string{"found", "notFound", "transient"} {
			for _, payErr := range []bool{false, true} {
				ins = append(ins, c47In{Path: path, Epochs: epochs, Unpaid: unpaid, PayOn: payOn, Src: src, PayErr: payErr})
			}
		}
	}
	return ins
}

// c47 <nHistories> <out>: every combination of the property's universe (epoch 0..10, unpaid -1..12,
// payments on/off, source found/notFound/transient, payment error yes/no) through each of the three
// paths (5544 records), then nHistories seeded random epoch histories (2..3 epoch events in any
// order, delayed events included) x all other combinations through the shard path.
func c47(args []string) {
	nh, err := strconv.Atoi(args[0])
	kit.Must(err)
	w := kit.NewW(args[1])
	emit := func(r c47Rec) { w.Emit(r) }
	for _, path := range []string{"shard", "engine", "policer"} {
		for e := uint64(0); e <= 10; e++ {
			for _, payOn := range []bool{false, true} {
				c47Paths[path](payOn, []uint64{e}, c47Combos(path, []uint64{e}, payOn), emit)
			}
		}
	}
	r := kit.Rand(47)
	for i := 0; i < nh; i++ {
		h := make([]uint64, 2+r.Intn(2))
		for j := range h {
			h[j] = uint64(r.Intn(11))
		}
		c47Shard(true, h, c47Combos("shard", h, true), emit)
	}
	w.Close()
}

func c47replay(args []string) {
	var in c47In
	d, err := os.ReadFile(args[0])
	kit.Must(err)
	kit.Must(json.Unmarshal(d, &in))
	f, ok := c47Paths[in.Path]
	if !ok || len(in.Epochs) == 0 {
		kit.Must(errors.New("bad replay input"))
	}
	w := kit.NewW(args[1])
	f(in.PayOn, in.Epochs, []c47In{in}, func(r c47Rec) { w.Emit(r) })
	w.Close()
}
