package main

import (
	"context"
	"crypto/ecdsa"
	"crypto/tls"
	"crypto/x509"
	"errors"
	"math/rand"
	"sync"
	"time"

	"github.com/nspcc-dev/neo-go/pkg/core/block"
	"github.com/nspcc-dev/neo-go/pkg/core/transaction"
	"github.com/nspcc-dev/neo-go/pkg/crypto/keys"
	"github.com/nspcc-dev/neo-go/pkg/neorpc/result"
	"github.com/nspcc-dev/neo-go/pkg/smartcontract/trigger"
	"github.com/nspcc-dev/neo-go/pkg/util"
	"github.com/nspcc-dev/neo-go/pkg/vm/stackitem"
	"github.com/nspcc-dev/neofs-node/pkg/network/peerauth"
	apistatus "github.com/nspcc-dev/neofs-sdk-go/client/status"
	"github.com/nspcc-dev/neofs-sdk-go/container"
	cid "github.com/nspcc-dev/neofs-sdk-go/container/id"
	neofscrypto "github.com/nspcc-dev/neofs-sdk-go/crypto"
	neofsecdsa "github.com/nspcc-dev/neofs-sdk-go/crypto/ecdsa"
	"github.com/nspcc-dev/neofs-sdk-go/eacl"
	"github.com/nspcc-dev/neofs-sdk-go/netmap"
	oid "github.com/nspcc-dev/neofs-sdk-go/object/id"
	"github.com/nspcc-dev/neofs-sdk-go/user"
	"google.golang.org/grpc/credentials"
	"google.golang.org/grpc/peer"
)

// ---------------------------------------------------------------- identities

// ident is one party with a real P-256 key: all three ECDSA signers, its binary key and user ID.
type ident struct {
	priv ecdsa.PrivateKey
	pub  []byte
	id   user.ID
}

func newIdent() *ident {
	p, err := keys.NewPrivateKey()
	must(err)
	pk := p.PrivateKey
	return &ident{
		priv: pk,
		pub:  neofscrypto.PublicKeyBytes((*neofsecdsa.PublicKey)(&pk.PublicKey)),
		id:   user.NewFromECDSAPublicKey(pk.PublicKey),
	}
}

// scheme: 0 ECDSA_SHA512, 1 RFC6979, 2 WalletConnect.
func (x *ident) signer(scheme int) user.Signer {
	switch scheme {
	case 1:
		return user.NewAutoIDSignerRFC6979(x.priv)
	case 2:
		return user.NewSigner(neofsecdsa.SignerWalletConnect(x.priv), x.id)
	default:
		return user.NewAutoIDSigner(x.priv)
	}
}

func (x *ident) peerCtx() context.Context {
	cert := &x509.Certificate{PublicKey: &x.priv.PublicKey}
	info, err := peerauth.NewAuthInfo(credentials.TLSInfo{State: tls.ConnectionState{PeerCertificates: []*x509.Certificate{cert}}})
	must(err)
	return peer.NewContext(context.Background(), &peer.Peer{AuthInfo: info})
}

func randCID(r *rand.Rand) cid.ID {
	var c cid.ID
	for {
		r.Read(c[:])
		if !c.IsZero() {
			return c
		}
	}
}

func randOID(r *rand.Rand) oid.ID {
	var o oid.ID
	for {
		r.Read(o[:])
		if !o.IsZero() {
			return o
		}
	}
}

func must(err error) {
	if err != nil {
		panic(err)
	}
}

func pick[T any](r *rand.Rand, xs ...T) T { return xs[r.Intn(len(xs))] }

type n3Witness struct {
	ok        bool
	acc       util.Uint160 // hash of the verification script
	checkData bool         // the witness is good for dataHash only
	dataHash  [32]byte
	// how a refusal (ok = FALSE) looks on the chain: "" HALT with FALSE; "fault": FAULT state with a truthy
	// item left on the stack (e.g. invocation script PUSHT ABORT); "two": HALT with two truthy items;
	// "none": HALT with an empty stack; "int0": HALT with integer 0
	bad string
}

// n3BadModes are the refusal shapes of the fake chain.
var n3BadModes = []string{"", "fault", "two", "none", "int0"}

// ---------------------------------------------------------------- fakes of the service dependencies

// env is the mutable world seen by the real acl/v2.Service and acl.Checker.
type env struct {
	mu sync.Mutex

	epoch   uint64
	now     time.Time
	cnrs    map[cid.ID]container.Container
	eacls   map[cid.ID]eacl.Table
	irKeys  [][]byte
	cnrKeys map[string]bool // binary public keys of "container nodes"
	srvIn   bool
	nns     map[string]map[util.Uint160]bool

	// N3 witnesses known to the fake chain: key = invocation script || verification script
	n3ok    map[string]n3Witness
	n3calls int
}

func newEnv() *env {
	return &env{cnrs: map[cid.ID]container.Container{}, eacls: map[cid.ID]eacl.Table{}, cnrKeys: map[string]bool{},
		nns: map[string]map[util.Uint160]bool{}, n3ok: map[string]n3Witness{}, epoch: 100, now: time.Unix(1_700_000_000, 0)}
}

// container source
func (e *env) Get(id cid.ID) (container.Container, error) {
	c, ok := e.cnrs[id]
	if !ok {
		return container.Container{}, apistatus.ErrContainerNotFound
	}
	return c, nil
}

// eACL source
func (e *env) GetEACL(id cid.ID) (eacl.Table, error) {
	t, ok := e.eacls[id]
	if !ok {
		return eacl.Table{}, apistatus.ErrEACLNotFound
	}
	return t, nil
}

// IR fetcher
func (e *env) InnerRingKeys() [][]byte { return e.irKeys }

// time provider
func (e *env) Now() time.Time { return e.now }

// FSChain
type fsChain struct{ e *env }

func (f fsChain) InContainerInLastTwoEpochs(_ cid.ID, pub []byte) (bool, error) {
	return f.e.cnrKeys[string(pub)], nil
}

func (f fsChain) HasUserInNNS(name string, addr util.Uint160) (bool, error) {
	return f.e.nns[name][addr], nil
}

// InvokeContainedScript answers "does this witness verify" from a table filled by the generator:
// the fake chain knows which (invocation, verification) script pairs are good. The script of the
// fake transaction is invocation||verification.
func (f fsChain) InvokeContainedScript(tx *transaction.Transaction, _ *block.Header, _ *trigger.Type, _ *bool) (*result.Invoke, error) {
	f.e.n3calls++
	w := f.e.n3ok[string(tx.Script)]
	// like the real chain: the witness must verify AND belong to the signer account of the fake transaction
	ok := w.ok && len(tx.Signers) == 1 && tx.Signers[0].Account == w.acc
	if w.checkData && tx.Hash() != util.Uint256(w.dataHash) {
		ok = false // a witness signs one message
	}
	if ok {
		return &result.Invoke{State: "HALT", Stack: []stackitem.Item{stackitem.NewBool(true)}}, nil
	}
	switch w.bad {
	case "fault":
		return &result.Invoke{State: "FAULT", FaultException: "ABORT is executed", Stack: []stackitem.Item{stackitem.NewBool(true)}}, nil
	case "two":
		return &result.Invoke{State: "HALT", Stack: []stackitem.Item{stackitem.NewBool(true), stackitem.NewBool(true)}}, nil
	case "none":
		return &result.Invoke{State: "HALT", Stack: []stackitem.Item{}}, nil
	case "int0":
		return &result.Invoke{State: "HALT", Stack: []stackitem.Item{stackitem.Make(0)}}, nil
	}
	return &result.Invoke{State: "HALT", Stack: []stackitem.Item{stackitem.NewBool(false)}}, nil
}

// Netmapper
type netmapper struct{ e *env }

func (n netmapper) GetNetMapByEpoch(uint64) (*netmap.NetMap, error) {
	return nil, errors.New("unimplemented")
}
func (n netmapper) NetMap() (*netmap.NetMap, error)              { return nil, errors.New("unimplemented") }
func (n netmapper) Epoch() (uint64, error)                       { return n.e.epoch, nil }
func (n netmapper) ServerInContainer(cid.ID) (bool, error)       { return n.e.srvIn, nil }
func (n netmapper) GetEpochBlock(epoch uint64) (uint32, error)   { return uint32(epoch) * 10, nil }
func (n netmapper) GetEpochBlockByTime(t uint32) (uint32, error) { return 7, nil }
