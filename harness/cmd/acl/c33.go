package main

// C33 - request signature chains are accepted only if every layer verifies; exemption only for the
// one-hop request from an authenticated peer.
//
// Real GetRequests are signed by 1..3 hops with real keys (all ECDSA schemes, N3 witnesses through a
// fake chain) exactly like neofscrypto.SignRequestWithBuffer does for a forwarding node, under the
// legacy (< 2.25: origin signatures) and the new (>= 2.25) protocol, then manipulated:
//   - scripts of the manipulation catalogue of spec/SigChain.tla (seeded random, and TLC-generated
//     behaviours carrying the model's verdict after every step),
//   - one bit flipped at every byte offset of every signed part (body, each meta header, each inner
//     verification header),
//   - TTL / peer authentication / missing header matrix for the exemption.
// Verdicts come from internal/crypto VerifyRequestSignatures / ...WithContext / ...N3.
// Concrete -> abstract (trusted, mechanical): a signature slot is "ok" iff the signature object in it
// was produced (provenance table keyed by the signature value) with the same key and scheme over
// exactly the bytes the slot covers now; "missing" iff nil; otherwise "bad".

import (
	"bytes"
	"context"
	"crypto/sha256"
	"fmt"
	"math/rand"

	"github.com/nspcc-dev/neo-go/pkg/crypto/hash"
	"github.com/nspcc-dev/neofs-node/pkg/util/verifexport"
	neofscrypto "github.com/nspcc-dev/neofs-sdk-go/crypto"
	protoobject "github.com/nspcc-dev/neofs-sdk-go/proto/object"
	"github.com/nspcc-dev/neofs-sdk-go/proto/refs"
	protosession "github.com/nspcc-dev/neofs-sdk-go/proto/session"
	"google.golang.org/grpc/credentials"
	"google.golang.org/grpc/peer"
	"google.golang.org/protobuf/proto"
	"verifharness/internal/kit"
)

type layerFlags struct {
	Meta   string `json:"meta"`
	Origin string `json:"origin"`
	Body   string `json:"body"`
}

type c33In struct {
	Entry   string       `json:"entry"`
	Ver     string       `json:"ver"`
	MetaNil bool         `json:"metaNil"`
	Ttl     int          `json:"ttl"`
	Trusted bool         `json:"trusted"`
	NMeta   int          `json:"nMeta"`
	Layers  []layerFlags `json:"layers"`
	Model   string       `json:"model"` // none | accept | reject : verdict of the structural TLA+ model for this step
}

type c33Out struct {
	Ok bool `json:"ok"`
}

type c33Rec struct {
	In   c33In  `json:"in"`
	Out  c33Out `json:"out"`
	Desc kit.M  `json:"desc"`
	Idx  int    `json:"idx"`
}

type sigProv struct {
	key    []byte
	scheme refs.SignatureScheme
	data   []byte
}

type c33Gen struct {
	e    *env
	r    *rand.Rand
	out  *kit.W
	idx  int
	prov map[string]sigProv
	only map[int]bool
	// untrusted requests: 0 = random, 1 = no peer in the context, 2 = peer without peerauth.AuthInfo
	peerMode int
}

// recSigner records the provenance of every signature it makes.
type recSigner struct {
	neofscrypto.Signer
	g *c33Gen
}

func (s recSigner) Sign(data []byte) ([]byte, error) {
	sig, err := s.Signer.Sign(data)
	if err == nil {
		s.g.prov[string(sig)] = sigProv{key: neofscrypto.PublicKeyBytes(s.Public()), scheme: refs.SignatureScheme(s.Scheme()), data: bytes.Clone(data)}
	}
	return sig, err
}

// n3Signer produces fake N3 witnesses known to the fake chain (good for exactly the signed data).
type n3Signer struct {
	g     *c33Gen
	verif []byte
	ok    bool
	bad   string // shape of the chain's refusal (n3BadModes)
}

type n3Pub []byte

func (p n3Pub) MaxEncodedSize() int              { return len(p) }
func (p n3Pub) Encode(b []byte) int              { return copy(b, p) }
func (p n3Pub) Decode([]byte) error              { return nil }
func (p n3Pub) Verify(_, _ []byte) bool          { return false }
func (s n3Signer) Scheme() neofscrypto.Scheme    { return neofscrypto.N3 }
func (s n3Signer) Public() neofscrypto.PublicKey { return n3Pub(s.verif) }
func (s n3Signer) Sign(data []byte) ([]byte, error) {
	invoc := make([]byte, 24)
	s.g.r.Read(invoc)
	h := sha256.Sum256(data)
	s.g.e.n3ok[string(invoc)+string(s.verif)] = n3Witness{ok: s.ok, acc: hash.Hash160(s.verif), checkData: true, dataHash: h, bad: s.bad}
	s.g.prov[string(invoc)] = sigProv{key: bytes.Clone(s.verif), scheme: refs.SignatureScheme_N3, data: bytes.Clone(data)}
	return invoc, nil
}

func (g *c33Gen) signer(n3 bool) neofscrypto.Signer {
	if n3 {
		v := make([]byte, 30)
		g.r.Read(v)
		return n3Signer{g: g, verif: v, ok: true}
	}
	return recSigner{Signer: newIdent().signer(g.r.Intn(3)), g: g}
}

// ------------------------------------------------------------------------------------ requests

type vh = protosession.RequestVerificationHeader
type mh = protosession.RequestMetaHeader

func verOf(legacy bool, r *rand.Rand) *refs.Version {
	if legacy {
		switch r.Intn(3) {
		case 0:
			return nil
		case 1:
			return &refs.Version{Major: 2, Minor: uint32(r.Intn(25))}
		default:
			return &refs.Version{Major: uint32(r.Intn(2)), Minor: uint32(r.Intn(40))}
		}
	}
	if r.Intn(2) == 0 {
		return &refs.Version{Major: 2, Minor: uint32(25 + r.Intn(10))}
	}
	return &refs.Version{Major: 3 + uint32(r.Intn(2)), Minor: uint32(r.Intn(5))}
}

// honest builds a request signed by n hops.
func (g *c33Gen) honest(n int, legacy bool, n3 bool) *protoobject.GetRequest {
	c, o := randCID(g.r), randOID(g.r)
	req := &protoobject.GetRequest{
		Body:       &protoobject.GetRequest_Body{Address: &refs.Address{ContainerId: c.ProtoMessage(), ObjectId: o.ProtoMessage()}},
		MetaHeader: &mh{Version: verOf(legacy, g.r), Ttl: uint32(n + 1), Epoch: 5},
	}
	var err error
	req.VerifyHeader, err = neofscrypto.SignRequestWithBuffer(g.signer(n3 && g.r.Intn(2) == 0), req, nil)
	must(err)
	for range n - 1 {
		g.resign(req, n3 && g.r.Intn(2) == 0)
	}
	return req
}

// resign is what a forwarding node does: wrap the meta header, sign, attach.
func (g *c33Gen) resign(req *protoobject.GetRequest, n3 bool) {
	old := req.MetaHeader
	nm := &mh{Origin: old, Epoch: 6}
	if old != nil {
		nm.Version = old.Version
		if old.Ttl > 0 {
			nm.Ttl = old.Ttl - 1
		}
	}
	req.MetaHeader = nm
	var err error
	req.VerifyHeader, err = neofscrypto.SignRequestWithBuffer(g.signer(n3), req, nil)
	must(err)
}

func layersOf(req *protoobject.GetRequest) []*vh {
	var out []*vh
	for v := req.VerifyHeader; v != nil; v = v.Origin {
		out = append(out, v)
	}
	return out
}

func metasOf(req *protoobject.GetRequest) []*mh {
	var out []*mh
	for m := req.MetaHeader; m != nil; m = m.Origin {
		out = append(out, m)
	}
	return out
}

func legacyVer(m *mh) bool { // mirrors neofscrypto.needsOriginSig
	return m == nil || m.Version == nil || m.Version.Major < 2 || (m.Version.Major == 2 && m.Version.Minor < 25)
}

func (g *c33Gen) flag(sig *refs.Signature, data []byte, entry string) string {
	if sig == nil {
		return "missing"
	}
	if sig.Scheme == refs.SignatureScheme_N3 && entry != "n3" {
		return "bad" // N3 witnesses are only understood by the N3-aware entry point
	}
	p, ok := g.prov[string(sig.Sign)]
	if ok && p.scheme == sig.Scheme && bytes.Equal(p.key, sig.Key) && bytes.Equal(p.data, data) {
		return "ok"
	}
	return "bad"
}

func (g *c33Gen) abstract(req *protoobject.GetRequest, entry string, trusted bool) c33In {
	in := c33In{Entry: entry, Trusted: trusted, Model: "none", Layers: []layerFlags{}}
	m := req.MetaHeader
	in.MetaNil = m == nil
	in.Ttl = int(m.GetTtl())
	if in.Ttl > 2 {
		in.Ttl = 2 // only "= 1 or not" matters; keeps the abstract domain small
	}
	in.Ver = "new"
	if legacyVer(m) {
		in.Ver = "legacy"
	}
	in.NMeta = len(metasOf(req))
	if in.NMeta == 0 {
		in.NMeta = 1
	}
	body := stable(req.Body)
	for v := req.VerifyHeader; v != nil; v, m = v.Origin, m.GetOrigin() {
		in.Layers = append(in.Layers, layerFlags{
			Meta:   g.flag(v.MetaSignature, stable(m), entry),
			Origin: g.flag(v.OriginSignature, stable(v.Origin), entry),
			Body:   g.flag(v.BodySignature, body, entry),
		})
	}
	return in
}

func (g *c33Gen) verify(req *protoobject.GetRequest, entry string, trusted bool) (bool, string) {
	ctx := context.Background()
	if trusted {
		ctx = newIdent().peerCtx()
	} else if g.peerMode == 2 || (g.peerMode == 0 && g.r.Intn(2) == 0) {
		// a peer is known, but it was not authenticated by the TLS handshake (plain TLS info)
		ctx = peer.NewContext(ctx, &peer.Peer{AuthInfo: credentials.TLSInfo{}})
	}
	var err error
	switch entry {
	case "plain":
		err = verifexport.VerifyRequestSignatures(req)
	case "ctx":
		err = verifexport.VerifyRequestSignaturesWithContext(ctx, req)
	case "n3":
		err = verifexport.VerifyRequestSignaturesN3(ctx, req, fsChain{g.e})
	}
	if err != nil {
		return false, err.Error()
	}
	return true, ""
}

func (g *c33Gen) emit(req *protoobject.GetRequest, entry string, trusted bool, model string, desc kit.M) {
	in := g.abstract(req, entry, trusted)
	in.Model = model
	ok, errs := g.verify(req, entry, trusted)
	desc["err"] = errs
	desc["layers"] = len(layersOf(req))
	if g.only == nil || g.only[g.idx] {
		g.out.Emit(c33Rec{In: in, Out: c33Out{Ok: ok}, Desc: desc, Idx: g.idx})
	}
	g.idx++
}

// ------------------------------------------------------------------------------------ manipulations

type sigOp struct {
	Op  string `json:"op"`
	K   int    `json:"k"`
	J   int    `json:"j"`
	F   string `json:"f"`
	G   string `json:"g"`
	Acc *bool  `json:"acc,omitempty"` // TLC-generated scripts: the model's verdict after this step
	Ver string `json:"ver,omitempty"`
	N   int    `json:"n,omitempty"`
}

func slot(v *vh, f string) **refs.Signature {
	switch f {
	case "m":
		return &v.MetaSignature
	case "o":
		return &v.OriginSignature
	default:
		return &v.BodySignature
	}
}

func cloneSig(s *refs.Signature) *refs.Signature {
	if s == nil {
		return nil
	}
	return &refs.Signature{Key: bytes.Clone(s.Key), Sign: bytes.Clone(s.Sign), Scheme: s.Scheme}
}

// apply executes one manipulation of the catalogue; returns false if it is not applicable.
func (g *c33Gen) apply(req *protoobject.GetRequest, op sigOp) (bool, string) {
	ls, ms := layersOf(req), metasOf(req)
	n := len(ls)
	switch op.Op {
	case "FlipBody":
		id := req.Body.Address.ObjectId.Value
		id[g.r.Intn(len(id)-1)+1]++ // never returns to an earlier value within a script
		return true, "body object ID changed"
	case "FlipMeta":
		if op.K > len(ms) {
			return false, ""
		}
		ms[op.K-1].Epoch += 10
		return true, fmt.Sprintf("meta header %d epoch changed", op.K)
	case "BreakSig":
		if op.K > n || *slot(ls[op.K-1], op.F) == nil {
			return false, ""
		}
		s := cloneSig(*slot(ls[op.K-1], op.F))
		how := ""
		switch g.r.Intn(6) {
		case 0:
			if len(s.Sign) > 0 {
				s.Sign[g.r.Intn(len(s.Sign))] ^= 1 << g.r.Intn(8)
			}
			how = "signature value bit flipped"
		case 1:
			s.Key = newIdent().pub
			how = "key replaced by another valid key"
		case 2:
			if len(s.Key) > 1 {
				s.Key[1+g.r.Intn(len(s.Key)-1)] ^= 1 << g.r.Intn(8)
			}
			how = "key bit flipped"
		case 3:
			s.Scheme = (s.Scheme + 1 + refs.SignatureScheme(g.r.Intn(2))) % 3
			if s.Scheme == (*slot(ls[op.K-1], op.F)).Scheme {
				s.Scheme = (s.Scheme + 1) % 3
			}
			how = "scheme relabelled to another ECDSA scheme"
		case 4:
			s.Scheme = refs.SignatureScheme(4 + g.r.Intn(50))
			how = "unsupported scheme number"
		default:
			if s.Scheme == refs.SignatureScheme_N3 {
				s.Scheme = refs.SignatureScheme_ECDSA_SHA512
			} else {
				s.Scheme = refs.SignatureScheme_N3
			}
			how = "scheme relabelled ECDSA<->N3"
		}
		*slot(ls[op.K-1], op.F) = s
		return true, fmt.Sprintf("layer %d %s signature: %s", op.K, op.F, how)
	case "RemoveSig":
		if op.K > n || *slot(ls[op.K-1], op.F) == nil {
			return false, ""
		}
		*slot(ls[op.K-1], op.F) = nil
		return true, fmt.Sprintf("layer %d %s signature removed", op.K, op.F)
	case "DropLayer":
		if op.K > n {
			return false, ""
		}
		if op.K == 1 {
			req.VerifyHeader = ls[0].Origin
		} else {
			ls[op.K-2].Origin = ls[op.K-1].Origin
		}
		return true, fmt.Sprintf("verification layer %d dropped", op.K)
	case "DropMeta":
		if op.K > len(ms) || len(ms) <= 1 {
			return false, ""
		}
		if op.K == 1 {
			req.MetaHeader = ms[0].Origin
		} else {
			ms[op.K-2].Origin = ms[op.K-1].Origin
		}
		return true, fmt.Sprintf("meta layer %d dropped", op.K)
	case "SwapLayers":
		if !(op.K < op.J && op.J <= n) {
			return false, ""
		}
		a, b := ls[op.K-1], ls[op.J-1]
		a.MetaSignature, b.MetaSignature = b.MetaSignature, a.MetaSignature
		a.OriginSignature, b.OriginSignature = b.OriginSignature, a.OriginSignature
		a.BodySignature, b.BodySignature = b.BodySignature, a.BodySignature
		return true, fmt.Sprintf("verification layers %d and %d swapped", op.K, op.J)
	case "CopySig":
		if op.K > n || op.J > n || (op.K == op.J && op.F == op.G) {
			return false, ""
		}
		*slot(ls[op.J-1], op.G) = cloneSig(*slot(ls[op.K-1], op.F))
		return true, fmt.Sprintf("layer %d %s signature := layer %d %s signature", op.J, op.G, op.K, op.F)
	case "SwapSigs":
		if op.K > n || op.F == op.G {
			return false, ""
		}
		p, q := slot(ls[op.K-1], op.F), slot(ls[op.K-1], op.G)
		*p, *q = *q, *p
		return true, fmt.Sprintf("layer %d %s and %s signatures swapped", op.K, op.F, op.G)
	case "Resign":
		if n >= 3 || len(ms) >= 3 {
			return false, ""
		}
		g.resign(req, false)
		return true, "honest re-signing by one more hop"
	}
	panic("unknown op " + op.Op)
}

var fieldsMOB = []string{"m", "o", "b"}

func (g *c33Gen) randOp() sigOp {
	r := g.r
	op := sigOp{K: 1 + r.Intn(3), J: 1 + r.Intn(3), F: pick(r, fieldsMOB...), G: pick(r, fieldsMOB...)}
	op.Op = pick(r, "FlipBody", "FlipMeta", "BreakSig", "BreakSig", "RemoveSig", "DropLayer", "DropMeta", "SwapLayers", "CopySig", "CopySig", "SwapSigs", "Resign")
	return op
}

// ------------------------------------------------------------------------------------ generators

func (g *c33Gen) genExemption() {
	for _, entry := range []string{"plain", "ctx", "n3"} {
		for _, legacy := range []bool{true, false} {
			for _, metaNil := range []bool{false, true} {
				for ttl := uint32(0); ttl <= 3; ttl++ {
					for _, trusted := range []bool{false, true} {
						for _, signed := range []bool{false, true} {
							if metaNil && (ttl != 0 || !legacy) {
								continue
							}
							req := g.honest(1, legacy, false)
							req.MetaHeader.Ttl = ttl
							if metaNil {
								req.MetaHeader = nil
							}
							req.VerifyHeader = nil
							how := "no verification header"
							if signed {
								// header present: verified even for a trusted one-hop peer
								var err error
								s := g.signer(false)
								if g.r.Intn(2) == 0 {
									req.VerifyHeader, err = neofscrypto.SignRequestWithBuffer(s, req, nil)
									must(err)
									how = "correctly signed"
								} else {
									req.VerifyHeader, err = neofscrypto.SignRequestWithBuffer(s, req, nil)
									must(err)
									req.Body.Address.ObjectId.Value[3] ^= 1
									how = "signed, body changed afterwards"
								}
							}
							g.peerMode = 1
							if !trusted && !signed {
								g.emit(proto.Clone(req).(*protoobject.GetRequest), entry, trusted, "none", kit.M{"how": "exemption matrix: " + how + ", peer not authenticated"})
								g.peerMode = 2
							}
							g.emit(req, entry, trusted, "none", kit.M{"how": "exemption matrix: " + how})
							g.peerMode = 0
						}
					}
				}
			}
		}
	}
}

func (g *c33Gen) genHonest() {
	for _, entry := range []string{"plain", "ctx", "n3"} {
		for n := 1; n <= 3; n++ {
			for _, legacy := range []bool{true, false} {
				for range 4 {
					g.emit(g.honest(n, legacy, entry == "n3"), entry, g.r.Intn(2) == 0, "none", kit.M{"how": "honest chain"})
				}
				// N3 witnesses offered to an entry point that does not understand them
				if entry != "n3" {
					g.emit(g.honest(n, legacy, true), entry, false, "none", kit.M{"how": "honest chain with N3 witnesses, non-N3 entry"})
				} else {
					// a witness the chain refuses, in every shape a refusal can take (HALT/FALSE, FAULT with a
					// truthy stack item, wrong stack size, non-boolean zero)
					for _, mode := range n3BadModes {
						req := g.honest(n, legacy, false)
						v := make([]byte, 30)
						g.r.Read(v)
						g.resignWith(req, n3Signer{g: g, verif: v, ok: false, bad: mode})
						g.emitRefusedN3(req, entry, mode)
					}
				}
			}
		}
	}
}

func (g *c33Gen) resignWith(req *protoobject.GetRequest, s neofscrypto.Signer) {
	// replace the outermost layer by one signed by s
	ls := layersOf(req)
	req.VerifyHeader = ls[0].Origin
	var err error
	req.VerifyHeader, err = neofscrypto.SignRequestWithBuffer(s, req, nil)
	must(err)
}

func (g *c33Gen) emitRefusedN3(req *protoobject.GetRequest, entry string, mode string) {
	// the chain says "false" for this witness: provenance says made-over-these-bytes, but it is not a
	// valid signature; drop its provenance so that the slot is classified "bad"
	for _, v := range layersOf(req)[:1] {
		for _, f := range fieldsMOB {
			if s := *slot(v, f); s != nil && s.Scheme == refs.SignatureScheme_N3 {
				delete(g.prov, string(s.Sign))
			}
		}
	}
	g.emit(req, entry, false, "none", kit.M{"how": "N3 witness refused by the chain", "chain_answer": mode})
}

func (g *c33Gen) genScripts(num int) {
	for range num {
		entry := pick(g.r, "plain", "plain", "ctx", "n3")
		legacy := g.r.Intn(3) != 0
		n := 1 + g.r.Intn(3)
		req := g.honest(n, legacy, entry == "n3" && g.r.Intn(3) == 0)
		trusted := g.r.Intn(4) == 0
		var hist []string
		for range 1 + g.r.Intn(3) {
			var how string
			var ok bool
			for !ok {
				ok, how = g.apply(req, g.randOp())
			}
			hist = append(hist, how)
			g.emit(req, entry, trusted, "none", kit.M{"how": "script", "n0": n, "steps": append([]string{}, hist...)})
		}
	}
}

// genFlips flips one bit at every byte offset of every signed part of honest chains.
func (g *c33Gen) genFlips() {
	for n := 1; n <= 3; n++ {
		for _, legacy := range []bool{true, false} {
			mk := func() *protoobject.GetRequest { return g.honest(n, legacy, false) }
			base := mk()
			// part -1: body; parts 0..n-1: meta header k (with nested origins); n..: inner verification header below layer k
			type part struct {
				name string
				get  func(*protoobject.GetRequest) []byte
				set  func(*protoobject.GetRequest, []byte) bool
			}
			parts := []part{{"body", func(r *protoobject.GetRequest) []byte { return stable(r.Body) },
				func(r *protoobject.GetRequest, b []byte) bool {
					var x protoobject.GetRequest_Body
					if proto.Unmarshal(b, &x) != nil {
						return false
					}
					r.Body = &x
					return true
				}}}
			for k := range n {
				parts = append(parts, part{fmt.Sprintf("meta header %d", k+1),
					func(r *protoobject.GetRequest) []byte { return stable(metasOf(r)[k]) },
					func(r *protoobject.GetRequest, b []byte) bool {
						var x mh
						if proto.Unmarshal(b, &x) != nil {
							return false
						}
						if k == 0 {
							r.MetaHeader = &x
						} else {
							metasOf(r)[k-1].Origin = &x
						}
						return true
					}})
			}
			for k := 0; k+1 < n; k++ {
				parts = append(parts, part{fmt.Sprintf("verification header below layer %d", k+1),
					func(r *protoobject.GetRequest) []byte { return stable(layersOf(r)[k].Origin) },
					func(r *protoobject.GetRequest, b []byte) bool {
						var x vh
						if proto.Unmarshal(b, &x) != nil {
							return false
						}
						layersOf(r)[k].Origin = &x
						return true
					}})
			}
			for _, p := range parts {
				orig := p.get(base)
				for off := range orig {
					bits := []int{g.r.Intn(8)}
					if kit.Thorough() {
						bits = []int{0, 3, 7}
					}
					for _, bit := range bits {
						req := proto.Clone(base).(*protoobject.GetRequest)
						mut := bytes.Clone(orig)
						mut[off] ^= 1 << bit
						if !p.set(req, mut) || bytes.Equal(p.get(req), orig) {
							continue
						}
						g.emit(req, "plain", false, "none", kit.M{"how": fmt.Sprintf("bit %d of byte %d/%d of %s flipped", bit, off, len(orig), p.name), "n0": n})
					}
				}
			}
		}
	}
}

// runModelScripts executes TLC-generated behaviours: [ {op:Init,ver,n}, {op..., acc}, ... ].
func (g *c33Gen) runModelScripts(path string) {
	type beh struct {
		Steps []sigOp `json:"steps"`
	}
	for bi, b := range kit.ReadNDJSON[beh](path) {
		if len(b.Steps) == 0 || b.Steps[0].Op != "Init" {
			panic("bad model script")
		}
		req := g.honest(b.Steps[0].N, b.Steps[0].Ver == "legacy", false)
		var hist []string
		for _, op := range b.Steps[1:] {
			ok, how := g.apply(req, op)
			if !ok {
				panic(fmt.Sprintf("model script %d: step %+v not applicable on the concrete request", bi, op))
			}
			hist = append(hist, how)
			model := "reject"
			if op.Acc != nil && *op.Acc {
				model = "accept"
			}
			g.emit(req, "plain", false, model, kit.M{"how": "model script", "script": bi, "n0": b.Steps[0].N, "steps": append([]string{}, hist...)})
		}
	}
}

func genC33(outPath string, scripts string, only map[int]bool) {
	g := &c33Gen{e: newEnv(), r: kit.Rand(33), out: kit.NewW(outPath), prov: map[string]sigProv{}, only: only}
	defer g.out.Close()
	g.genExemption()
	g.genHonest()
	n := 1200
	if kit.Thorough() {
		n = 12000
	}
	g.genScripts(n)
	g.genFlips()
	if scripts != "" {
		g.runModelScripts(scripts)
	}
	fmt.Println("records", g.idx)
}
