package main

// C28 - object access decision = basic ACL + sticky bit + eACL + bearer rules.
//
// The generator walks the abstract input space of spec/ACL.tla (operation variant x classification
// flags x the four basic-ACL bits of the operation x FINAL x STICKY) systematically and draws the
// remaining components (bearer state, container/bearer eACL tables, credentials mode, ...) at random.
// For every abstract input it BUILDS a concrete world realising it (real keys, a real container with a
// real basic ACL word, real eACL tables, a real signed bearer token, a real signed request, real
// session tokens) and runs the real pipeline of the object server (token verification ->
// Service.*RequestToInfo -> Checker.CheckBasicACL -> StickyBitCheck -> CheckEACL), composed exactly
// as pkg/services/object/server.go composes it. The record is {in: abstract input, out: verdict}.

import (
	"context"
	"errors"
	"fmt"
	"math/rand"
	"os"
	"path/filepath"
	"time"

	"github.com/google/uuid"
	"github.com/nspcc-dev/neofs-node/pkg/local_object_storage/blobstor/fstree"
	"github.com/nspcc-dev/neofs-node/pkg/local_object_storage/engine"
	meta "github.com/nspcc-dev/neofs-node/pkg/local_object_storage/metabase"
	"github.com/nspcc-dev/neofs-node/pkg/local_object_storage/shard"
	aclchk "github.com/nspcc-dev/neofs-node/pkg/services/object/acl"
	aclsvc "github.com/nspcc-dev/neofs-node/pkg/services/object/acl/v2"
	"github.com/nspcc-dev/neofs-node/pkg/services/object/common"
	"github.com/nspcc-dev/neofs-sdk-go/bearer"
	"github.com/nspcc-dev/neofs-sdk-go/checksum"
	"github.com/nspcc-dev/neofs-sdk-go/container"
	"github.com/nspcc-dev/neofs-sdk-go/container/acl"
	cid "github.com/nspcc-dev/neofs-sdk-go/container/id"
	neofscrypto "github.com/nspcc-dev/neofs-sdk-go/crypto"
	neofsecdsa "github.com/nspcc-dev/neofs-sdk-go/crypto/ecdsa"
	"github.com/nspcc-dev/neofs-sdk-go/eacl"
	"github.com/nspcc-dev/neofs-sdk-go/object"
	oid "github.com/nspcc-dev/neofs-sdk-go/object/id"
	protoobject "github.com/nspcc-dev/neofs-sdk-go/proto/object"
	"github.com/nspcc-dev/neofs-sdk-go/proto/refs"
	protosession "github.com/nspcc-dev/neofs-sdk-go/proto/session"
	"github.com/nspcc-dev/neofs-sdk-go/session"
	sessionv2 "github.com/nspcc-dev/neofs-sdk-go/session/v2"
	"github.com/nspcc-dev/neofs-sdk-go/user"
	"github.com/nspcc-dev/neofs-sdk-go/version"
	"verifharness/internal/kit"
)

var opNames = []string{"get", "head", "put", "delete", "search", "range", "hash"}
var opACL = map[string]acl.Op{"get": acl.OpObjectGet, "head": acl.OpObjectHead, "put": acl.OpObjectPut,
	"delete": acl.OpObjectDelete, "search": acl.OpObjectSearch, "range": acl.OpObjectRange, "hash": acl.OpObjectHash}
var opEACL = map[string]eacl.Operation{"get": eacl.OperationGet, "head": eacl.OperationHead, "put": eacl.OperationPut,
	"delete": eacl.OperationDelete, "search": eacl.OperationSearch, "range": eacl.OperationRange, "hash": eacl.OperationRangeHash}
var opVerbV1 = map[string]session.ObjectVerb{"get": session.VerbObjectGet, "head": session.VerbObjectHead, "put": session.VerbObjectPut,
	"delete": session.VerbObjectDelete, "search": session.VerbObjectSearch, "range": session.VerbObjectRange, "hash": session.VerbObjectRange}
var opVerbV2 = map[string]sessionv2.Verb{"get": sessionv2.VerbObjectGet, "head": sessionv2.VerbObjectHead, "put": sessionv2.VerbObjectPut,
	"delete": sessionv2.VerbObjectDelete, "search": sessionv2.VerbObjectSearch, "range": sessionv2.VerbObjectRange, "hash": sessionv2.VerbObjectRange}

type aclBits struct {
	O bool `json:"o"` // owner
	C bool `json:"c"` // container nodes
	T bool `json:"t"` // others
	B bool `json:"b"` // bearer rules allowed
}

type recAbs struct {
	Act string `json:"act"` // allow | deny
	Opm bool   `json:"opm"` // record operation = request operation
	Tgt bool   `json:"tgt"` // some target of the record matches the requester
	Flt string `json:"flt"` // match | nomatch | nohdr
}

type tabAbs struct {
	Present bool     `json:"present"`
	Recs    []recAbs `json:"recs"`
}

type bearerAbs struct {
	Present     bool     `json:"present"`
	Valid       bool     `json:"valid"`       // correctly signed and within lifetime (C30 details it)
	IssuerOwner bool     `json:"issuerOwner"` // issued by the container owner
	Cnr         string   `json:"cnr"`         // unset | same | other
	Usr         string   `json:"usr"`         // unset | same | other
	Recs        []recAbs `json:"recs"`
}

type c28In struct {
	Op         string             `json:"op"`
	Tomb       bool               `json:"tomb"`
	Ttl1       bool               `json:"ttl1"`
	Split      bool               `json:"split"`
	SrvIn      bool               `json:"srvIn"`
	IsOwner    bool               `json:"isOwner"`
	InIR       bool               `json:"inIR"`
	InCnr      bool               `json:"inCnr"`
	ACL        map[string]aclBits `json:"acl"`
	Fin        bool               `json:"fin"`
	Sticky     bool               `json:"sticky"`
	OwnerMatch bool               `json:"ownerMatch"`
	Bearer     bearerAbs          `json:"bearer"`
	Ctab       tabAbs             `json:"ctab"`
	Cred       string             `json:"cred"` // sig | v1 | v2 | peer : how the requester identity is established
}

type c28Out struct {
	V string `json:"v"` // allow | deny | skip
}

type c28Rec struct {
	In     c28In  `json:"in"`
	Out    c28Out `json:"out"`
	Desc   kit.M  `json:"desc"`
	Idx    int    `json:"idx"`
	Stored bool   `json:"stored"` // get/head: the addressed object is in the local storage
	Hist   int    `json:"hist"`   // 0: single request; 1 / 2: first / second step of a bearer-expiry history
	Ridx   int    `json:"ridx"`   // index the realisation generator was seeded with
}

// ---------------------------------------------------------------- world

type c28World struct {
	e       *env
	svc     aclsvc.Service
	reset   func()
	chk     *aclchk.Checker
	eng     *engine.StorageEngine
	stored  map[cid.ID]*object.Object // one stored object per "stored" container
	storCnr []cid.ID
	dir     string
}

type epochSt struct{}

func (epochSt) CurrentEpoch() uint64 { return 100 }

type payStub struct{}

func (payStub) PaymentsDisabled() bool            { return true }
func (payStub) UnpaidSince(cid.ID) (int64, error) { return -1, nil }

type nilHeaderSource struct{}

func (nilHeaderSource) Head(context.Context, oid.Address) (*object.Object, error) {
	return nil, errors.New("no remote header source in harness")
}

func newC28World(r *rand.Rand) *c28World {
	w := &c28World{e: newEnv(), stored: map[cid.ID]*object.Object{}}
	w.svc, w.reset = aclsvc.NewVerif(fsChain{w.e}, 64,
		aclsvc.WithContainerSource(w.e), aclsvc.WithNetmapper(netmapper{w.e}), aclsvc.WithIRFetcher(w.e), aclsvc.WithTimeProvider(w.e))

	dir, err := os.MkdirTemp("", "acl-engine-")
	must(err)
	w.dir = dir
	w.eng = engine.New()
	_, err = w.eng.AddShard(
		shard.WithBlobstor(fstree.New(fstree.WithPath(filepath.Join(dir, "fstree")), fstree.WithDepth(1))),
		shard.WithMetaBaseOptions(meta.WithPath(filepath.Join(dir, "meta")), meta.WithPermissions(0700), meta.WithEpochState(epochSt{}),
			meta.WithMaxBatchDelay(time.Microsecond)),
		shard.WithContainerPayments(payStub{}),
	)
	must(err)
	must(w.eng.Init())

	w.chk = aclchk.NewChecker(new(aclchk.CheckerPrm).SetEACLSource(w.e).SetValidator(eacl.NewValidator()).
		SetLocalStorage(w.eng).SetHeaderSource(nilHeaderSource{}))

	// a few containers holding one stored object each (Get/Head eACL header lookup goes to the local engine)
	for range 4 {
		c := randCID(r)
		o := object.New(c, newIdent().id)
		o.SetID(randOID(r))
		o.SetPayload([]byte{1, 2, 3, 4, 5})
		o.SetPayloadSize(5)
		o.SetPayloadChecksum(checksum.NewSHA256([32]byte{1}))
		o.SetCreationEpoch(7)
		ver := version.Current()
		o.SetVersion(&ver)
		o.SetAttributes(object.NewAttribute("Color", "red"), object.NewAttribute("Num", "10"))
		must(w.eng.Put(context.Background(), o, nil))
		w.stored[c] = o
		w.storCnr = append(w.storCnr, c)
	}
	return w
}

func (w *c28World) close() {
	_ = w.eng.Close()
	_ = os.RemoveAll(w.dir)
}

// ---------------------------------------------------------------- realisation of one abstract input

type c28Case struct {
	in   c28In
	desc kit.M

	sender   *ident // the identity the requester is classified by
	owner    *ident // container owner
	cnr      cid.ID
	obj      oid.ID
	effOp    string
	objOwner user.ID
}

func roleOf(in c28In) string {
	switch {
	case in.IsOwner:
		return "owner"
	case in.InIR:
		return "ir"
	case in.InCnr:
		return "container"
	}
	return "others"
}

func effOpOf(in c28In) string {
	if in.Op == "put" && in.Tomb {
		if roleOf(in) == "container" && in.Ttl1 {
			return "put"
		}
		return "delete"
	}
	return in.Op
}

func basicWord(r *rand.Rand, in c28In) uint32 {
	w := r.Uint32() & 0xC0000000 // noise in the two unused bits
	for i, n := range opNames {
		b := in.ACL[n]
		if b.B {
			w |= 1 << (4*i + 0)
		}
		if b.T {
			w |= 1 << (4*i + 1)
		}
		if b.C {
			w |= 1 << (4*i + 2)
		}
		if b.O {
			w |= 1 << (4*i + 3)
		}
	}
	if in.Fin {
		w |= 1 << 28
	}
	if in.Sticky {
		w |= 1 << 29
	}
	return w
}

// header availability class of the request for HeaderFromObject filters
//
//	full   : complete object header (put: from the request; get/head: object found in local storage)
//	addr   : container ID and object ID only (delete, range, hash-as-range)
//	none   : no object headers, complete (search)
//	incompl: address headers but INCOMPLETE -> any object filter gives "nohdr" (get/head, object not stored)
func hdrClass(op string, stored bool) string {
	switch op {
	case "put":
		return "full"
	case "get", "head":
		if stored {
			return "full"
		}
		return "incompl"
	case "search":
		return "none"
	}
	return "addr"
}

// buildFilters realises the filter flag of a record. Request X-headers of every request are
// {"xk1":"v1", "xnum":"10"}; a stored / put object has attributes Color=red, Num=10, payload size 5.
func (c *c28Case) buildFilters(r *rand.Rand, flt string, hc string, otherCnr cid.ID) ([]eacl.Filter, string) {
	reqMatch := []func() (eacl.Filter, string){
		func() (eacl.Filter, string) {
			return eacl.NewRequestHeaderFilter("xk1", eacl.MatchStringEqual, "v1"), "req xk1==v1"
		},
		func() (eacl.Filter, string) {
			return eacl.NewRequestHeaderFilter("xk1", eacl.MatchStringNotEqual, "zzz"), "req xk1!=zzz"
		},
		func() (eacl.Filter, string) {
			return eacl.NewRequestHeaderFilter("xnum", eacl.MatchNumGT, "5"), "req xnum>5"
		},
		func() (eacl.Filter, string) {
			return eacl.NewRequestHeaderFilter("xnum", eacl.MatchNumGE, "10"), "req xnum>=10"
		},
		func() (eacl.Filter, string) {
			return eacl.NewRequestHeaderFilter("xnum", eacl.MatchNumLT, "11"), "req xnum<11"
		},
		func() (eacl.Filter, string) {
			return eacl.NewRequestHeaderFilter("xnum", eacl.MatchNumLE, "10"), "req xnum<=10"
		},
		func() (eacl.Filter, string) {
			return eacl.NewRequestHeaderFilter("absent", eacl.MatchNotPresent, ""), "req absent NOT_PRESENT"
		},
	}
	reqNo := []func() (eacl.Filter, string){
		func() (eacl.Filter, string) {
			return eacl.NewRequestHeaderFilter("xk1", eacl.MatchStringEqual, "v2"), "req xk1==v2"
		},
		func() (eacl.Filter, string) {
			return eacl.NewRequestHeaderFilter("xk1", eacl.MatchStringNotEqual, "v1"), "req xk1!=v1"
		},
		func() (eacl.Filter, string) {
			return eacl.NewRequestHeaderFilter("nokey", eacl.MatchStringEqual, "v1"), "req nokey==v1"
		},
		func() (eacl.Filter, string) {
			return eacl.NewRequestHeaderFilter("xnum", eacl.MatchNumGT, "10"), "req xnum>10"
		},
		func() (eacl.Filter, string) {
			return eacl.NewRequestHeaderFilter("xnum", eacl.MatchNumLT, "10"), "req xnum<10"
		},
		func() (eacl.Filter, string) {
			return eacl.NewRequestHeaderFilter("xnum", eacl.MatchNumLE, "abc"), "req xnum<=abc (non-numeric filter)"
		},
		func() (eacl.Filter, string) {
			return eacl.NewRequestHeaderFilter("xk1", eacl.MatchNumGE, "1"), "req xk1>=1 (non-numeric header)"
		},
		func() (eacl.Filter, string) {
			return eacl.NewRequestHeaderFilter("xk1", eacl.MatchNotPresent, ""), "req xk1 NOT_PRESENT"
		},
	}
	var objMatch, objNo []func() (eacl.Filter, string)
	cnrF := func() (eacl.Filter, string) { return eacl.NewFilterObjectsFromContainer(c.cnr), "obj cid==cnr" }
	cnrNo := func() (eacl.Filter, string) { return eacl.NewFilterObjectsFromContainer(otherCnr), "obj cid==other" }
	oidF := func() (eacl.Filter, string) { return eacl.NewFilterObjectWithID(c.obj), "obj oid==obj" }
	switch hc {
	case "addr":
		objMatch = append(objMatch, cnrF, oidF)
		objNo = append(objNo, cnrNo,
			func() (eacl.Filter, string) {
				return eacl.NewObjectPropertyFilter("Color", eacl.MatchStringEqual, "red"), "obj Color==red (no attrs in address headers)"
			})
	case "full":
		objMatch = append(objMatch, cnrF,
			func() (eacl.Filter, string) {
				return eacl.NewObjectPropertyFilter("Color", eacl.MatchStringEqual, "red"), "obj Color==red"
			},
			func() (eacl.Filter, string) {
				return eacl.NewObjectPropertyFilter("Num", eacl.MatchNumGE, "10"), "obj Num>=10"
			},
			func() (eacl.Filter, string) {
				return eacl.NewFilterObjectPayloadSizeIs(eacl.MatchNumLE, 5), "obj size<=5"
			},
			func() (eacl.Filter, string) {
				return eacl.NewFilterObjectOwnerEquals(c.objOwner), "obj owner==objOwner"
			},
			func() (eacl.Filter, string) {
				return eacl.NewObjectPropertyFilter("Absent", eacl.MatchNotPresent, ""), "obj Absent NOT_PRESENT"
			})
		if !c.obj.IsZero() {
			objMatch = append(objMatch, oidF)
		}
		objNo = append(objNo, cnrNo,
			func() (eacl.Filter, string) {
				return eacl.NewObjectPropertyFilter("Color", eacl.MatchStringEqual, "blue"), "obj Color==blue"
			},
			func() (eacl.Filter, string) {
				return eacl.NewObjectPropertyFilter("Num", eacl.MatchNumLT, "10"), "obj Num<10"
			},
			func() (eacl.Filter, string) {
				return eacl.NewFilterObjectPayloadSizeIs(eacl.MatchNumGT, 5), "obj size>5"
			},
			func() (eacl.Filter, string) {
				return eacl.NewFilterObjectOwnerEquals(newIdent().id), "obj owner==stranger"
			},
			func() (eacl.Filter, string) {
				return eacl.NewObjectPropertyFilter("Color", eacl.MatchNotPresent, ""), "obj Color NOT_PRESENT"
			})
	case "none":
		objMatch = append(objMatch,
			func() (eacl.Filter, string) {
				return eacl.NewObjectPropertyFilter("Color", eacl.MatchNotPresent, ""), "obj Color NOT_PRESENT (search: no object headers)"
			})
		objNo = append(objNo, cnrF, // search requests expose no object headers at all, even the container ID
			func() (eacl.Filter, string) {
				return eacl.NewObjectPropertyFilter("Color", eacl.MatchStringEqual, "red"), "obj Color==red"
			})
	}
	var fs []eacl.Filter
	var ds []string
	add := func(f func() (eacl.Filter, string)) {
		x, d := f()
		fs = append(fs, x)
		ds = append(ds, d)
	}
	switch flt {
	case "match":
		pool := append(append([]func() (eacl.Filter, string){}, reqMatch...), objMatch...)
		for range r.Intn(3) { // 0..2 filters, all matching
			add(pool[r.Intn(len(pool))])
		}
	case "nomatch":
		no := append(append([]func() (eacl.Filter, string){}, reqNo...), objNo...)
		ok := append(append([]func() (eacl.Filter, string){}, reqMatch...), objMatch...)
		switch r.Intn(3) {
		case 0:
			add(no[r.Intn(len(no))])
		case 1:
			add(ok[r.Intn(len(ok))])
			add(no[r.Intn(len(no))])
		default:
			add(no[r.Intn(len(no))])
			add(ok[r.Intn(len(ok))])
		}
	case "nohdr":
		if hc != "incompl" {
			panic("nohdr is realisable for get/head of a non-stored object only")
		}
		// any object filter; request filters before/after it (matching or not) do not change the class
		any := []func() (eacl.Filter, string){cnrF, cnrNo, oidF}
		if r.Intn(2) == 0 {
			add(pick(r, append(reqMatch, reqNo...)...))
		}
		add(any[r.Intn(len(any))])
		if r.Intn(2) == 0 {
			add(pick(r, append(reqMatch, reqNo...)...))
		}
	}
	return fs, fmt.Sprint(ds)
}

// buildTargets realises the target flag of a record for the requester (key, account, eACL role).
func (c *c28Case) buildTargets(r *rand.Rand, tgt bool, sysRole bool) ([]eacl.Target, string) {
	myRole, otherRole := eacl.RoleOthers, eacl.RoleUser
	if roleOf(c.in) == "owner" {
		myRole, otherRole = eacl.RoleUser, eacl.RoleOthers
	}
	stranger := newIdent()
	keyT := func(role eacl.Role, ks ...[]byte) eacl.Target {
		t := eacl.NewTargetByRole(role)
		t.SetRawSubjects(ks)
		return t
	}
	if tgt {
		n := 5
		k := r.Intn(n)
		if sysRole { // system requesters have no eACL role: only key/account targets could match them
			k = 1 + r.Intn(2)
		}
		switch k {
		case 0:
			return []eacl.Target{eacl.NewTargetByRole(myRole)}, "role=mine"
		case 1:
			return []eacl.Target{keyT(eacl.RoleUnspecified, stranger.pub, c.sender.pub)}, "keys∋sender"
		case 2:
			return []eacl.Target{eacl.NewTargetByAccounts([]user.ID{stranger.id, c.sender.id})}, "accounts∋sender"
		case 3:
			return []eacl.Target{eacl.NewTargetByRole(otherRole), eacl.NewTargetByRole(eacl.RoleSystem), eacl.NewTargetByRole(myRole)}, "roles other,system,mine"
		default:
			return []eacl.Target{keyT(otherRole, c.sender.pub)}, "role=other+keys∋sender"
		}
	}
	switch r.Intn(6) {
	case 0:
		return []eacl.Target{eacl.NewTargetByRole(otherRole)}, "role=other"
	case 1:
		return []eacl.Target{eacl.NewTargetByRole(eacl.RoleSystem)}, "role=system(ignored)"
	case 2:
		return []eacl.Target{keyT(myRole, stranger.pub)}, "role=mine+keys∌sender (keys disable role match)"
	case 3:
		return []eacl.Target{eacl.NewTargetByAccounts([]user.ID{stranger.id})}, "accounts∌sender"
	case 4:
		t := eacl.NewTargetByRole(myRole)
		t.SetRawSubjects([][]byte{stranger.id[:]})
		return []eacl.Target{t}, "role=mine+accounts∌sender (accounts disable role match)"
	default:
		return nil, "no targets"
	}
}

func (c *c28Case) buildTable(r *rand.Rand, recs []recAbs, hc string, otherCnr cid.ID) (eacl.Table, []string) {
	sys := roleOf(c.in) == "ir" || roleOf(c.in) == "container"
	var rs []eacl.Record
	var ds []string
	for _, ra := range recs {
		op := opEACL[c.effOp]
		if !ra.Opm {
			for {
				op = eacl.Operation(r.Intn(8)) // includes OperationUnspecified
				if op != opEACL[c.effOp] {
					break
				}
			}
		}
		ts, td := c.buildTargets(r, ra.Tgt, sys)
		fs, fd := c.buildFilters(r, ra.Flt, hc, otherCnr)
		act := eacl.ActionAllow
		if ra.Act == "deny" {
			act = eacl.ActionDeny
		}
		rs = append(rs, eacl.ConstructRecord(act, op, ts, fs...))
		ds = append(ds, fmt.Sprintf("%s op=%v tgt[%s] flt%s", ra.Act, op, td, fd))
	}
	return eacl.ConstructTable(rs), ds
}

func xhdrs() []*protosession.XHeader {
	return []*protosession.XHeader{{Key: "xk1", Value: "v1"}, {Key: "xnum", Value: "10"}}
}

// run builds the world of the case and executes the real pipeline.
// c28Step is one executed request of a realised case.
type c28Step struct {
	in   c28In
	out  c28Out
	desc kit.M
}

func (w *c28World) run(r *rand.Rand, in c28In, stored bool) (c28Out, kit.M) {
	st := w.runSteps(r, in, stored, false)
	return st[0].out, st[0].desc
}

// runSteps realises the case and executes the request. With hist (the case carries a valid bearer token)
// the node then goes through new-epoch events until the token's exp has passed - exactly what
// cmd/neofs-node does on such an event: the epoch source moves and the token check caches are reset
// through Service.ResetTokenCheckCache / ObjectSessionsCache.ResetCache - and the SAME request with the
// SAME token bytes is executed again: its abstract input is the first one with bearer.valid = FALSE.
func (w *c28World) runSteps(r *rand.Rand, in c28In, stored bool, hist bool) []c28Step {
	c := &c28Case{in: in, desc: kit.M{}}
	e := w.e
	c.sender = newIdent()
	c.owner = c.sender
	if !in.IsOwner {
		c.owner = newIdent()
	}
	c.effOp = effOpOf(in)
	role := roleOf(in)

	// container
	if stored {
		c.cnr = w.storCnr[r.Intn(len(w.storCnr))]
		c.obj = w.stored[c.cnr].GetID()
	} else {
		c.cnr = randCID(r)
		c.obj = randOID(r)
	}
	otherCnr := randCID(r)
	var cnr container.Container
	cnr.SetOwner(c.owner.id)
	word := basicWord(r, in)
	var b acl.Basic
	b.FromBits(word)
	cnr.SetBasicACL(b)
	e.cnrs = map[cid.ID]container.Container{c.cnr: cnr}
	c.desc["basicACL"] = fmt.Sprintf("0x%08X", word)

	// classification environment
	e.irKeys = [][]byte{newIdent().pub}
	if in.InIR {
		e.irKeys = append(e.irKeys, c.sender.pub)
	}
	e.cnrKeys = map[string]bool{}
	if in.InCnr {
		e.cnrKeys[string(c.sender.pub)] = true
	}
	e.srvIn = in.SrvIn

	// object owner of a put
	c.objOwner = c.sender.id
	if !in.OwnerMatch {
		c.objOwner = newIdent().id
	}
	if stored && in.Op != "put" {
		c.objOwner = w.stored[c.cnr].Owner()
	}

	hc := hdrClass(in.Op, stored)

	// container eACL
	e.eacls = map[cid.ID]eacl.Table{}
	if in.Ctab.Present {
		t, ds := c.buildTable(r, in.Ctab.Recs, hc, otherCnr)
		t.SetCID(c.cnr)
		e.eacls[c.cnr] = t
		c.desc["ctab"] = ds
	}

	// meta header
	mh := &protosession.RequestMetaHeader{Ttl: 2, XHeaders: xhdrs()}
	if in.Ttl1 {
		mh.Ttl = 1
	}
	if r.Intn(2) == 0 {
		mh.Version = &refs.Version{Major: 2, Minor: uint32(12 + r.Intn(16))}
	}

	// bearer
	if in.Bearer.Present {
		var bt bearer.Token
		t, ds := c.buildTable(r, in.Bearer.Recs, hc, otherCnr)
		switch in.Bearer.Cnr {
		case "same":
			t.SetCID(c.cnr)
		case "other":
			t.SetCID(otherCnr)
		}
		bt.SetEACLTable(t)
		switch in.Bearer.Usr {
		case "same":
			bt.ForUser(c.sender.id)
		case "other":
			bt.ForUser(newIdent().id)
		}
		bt.SetIat(e.epoch - 1)
		bt.SetNbf(e.epoch - 1)
		bt.SetExp(e.epoch + 1)
		how := "valid"
		if !in.Bearer.Valid && r.Intn(2) == 0 {
			bt.SetExp(e.epoch - 1)
			how = "expired"
		}
		issuer := c.owner
		if !in.Bearer.IssuerOwner {
			issuer = newIdent()
		}
		must(bt.Sign(issuer.signer(r.Intn(3))))
		m := bt.ProtoMessage()
		if !in.Bearer.Valid && how == "valid" {
			m.Body.Lifetime.Exp++ // signed field changed after signing
			how = "signature broken (exp changed after signing)"
		}
		mh.BearerToken = m
		c.desc["bearer"] = kit.M{"how": how, "table": ds}
	}

	// credentials
	gw := newIdent()
	reqSigner := c.sender
	ctx := context.Background()
	switch in.Cred {
	case "v1":
		var st session.Object
		st.SetID(uuid.New())
		st.SetAuthKey((*neofsecdsa.PublicKey)(&gw.priv.PublicKey))
		st.BindContainer(c.cnr)
		verb := opVerbV1[in.Op]
		if in.Op == "put" && in.Tomb {
			verb = session.VerbObjectDelete
		}
		st.ForVerb(verb)
		st.SetIat(e.epoch)
		st.SetNbf(e.epoch)
		st.SetExp(e.epoch + 10)
		must(st.Sign(c.sender.signer(r.Intn(3))))
		mh.SessionToken = st.ProtoMessage()
		reqSigner = gw
	case "v2":
		var st sessionv2.Token
		st.SetVersion(sessionv2.TokenCurrentVersion)
		must(st.SetSubjects([]sessionv2.Target{sessionv2.NewTargetUser(gw.id)}))
		verb := opVerbV2[in.Op]
		if in.Op == "put" && in.Tomb {
			verb = sessionv2.VerbObjectDelete
		}
		cx, err := sessionv2.NewContext(c.cnr, []sessionv2.Verb{verb})
		must(err)
		must(st.SetContexts([]sessionv2.Context{cx}))
		st.SetIat(e.now.Add(-time.Minute))
		st.SetNbf(e.now.Add(-time.Minute))
		st.SetExp(e.now.Add(time.Minute))
		must(st.Sign(c.sender.signer(r.Intn(3))))
		mh.SessionTokenV2 = st.ProtoMessage()
		reqSigner = gw
	case "peer":
		ctx = c.sender.peerCtx()
		reqSigner = nil
	}

	// request
	addr := &refs.Address{ContainerId: c.cnr.ProtoMessage(), ObjectId: c.obj.ProtoMessage()}
	var tokens common.RequestTokens
	out := func(v string, stage string) (c28Out, kit.M) {
		d := kit.M{}
		for k, x := range c.desc {
			d[k] = x
		}
		d["stage"] = stage
		d["role"] = role
		d["effOp"] = c.effOp
		d["hdr"] = hc
		return c28Out{V: v}, d
	}
	w.reset()

	exec := func() (c28Out, kit.M) {
		tokens = common.RequestTokens{}
		var err error
		// --- token verification, as Server._handleRequestMetaHeader does
		verbV1, verbV2 := opVerbV1[in.Op], opVerbV2[in.Op]
		if in.Op == "put" && in.Tomb {
			verbV1, verbV2 = session.VerbObjectDelete, sessionv2.VerbObjectDelete
		}
		reqObj := c.obj
		if in.Op == "search" {
			reqObj = oid.ID{}
		}
		if mh.SessionTokenV2 != nil {
			t, err := w.svc.VerifySessionTokenMessage(mh.SessionTokenV2, verbV2, c.cnr)
			if err != nil {
				panic(fmt.Sprintf("harness: valid V2 session token rejected: %v", err))
			}
			tokens.Session = &t
		} else if mh.SessionToken != nil {
			t, err := w.svc.VerifySessionV1TokenMessage(mh.SessionToken, verbV1, c.cnr, reqObj)
			if err != nil {
				panic(fmt.Sprintf("harness: valid V1 session token rejected: %v", err))
			}
			tokens.SessionV1 = &t
		}
		if mh.BearerToken != nil {
			t, err := w.svc.VerifyBearerTokenMessage(mh.BearerToken)
			if err != nil {
				return out("deny", "bearer token verification: "+err.Error())
			}
			tokens.Bearer = &t
		}

		var info aclsvc.RequestInfo
		var msg any
		switch in.Op {
		case "get":
			req := &protoobject.GetRequest{Body: &protoobject.GetRequest_Body{Address: addr}, MetaHeader: mh}
			if reqSigner != nil {
				req.VerifyHeader, err = neofscrypto.SignRequestWithBuffer(reqSigner.signer(r.Intn(3)), req, nil)
				must(err)
			}
			info, err = w.svc.GetRequestToInfo(ctx, req, c.cnr, tokens)
			msg = req
		case "head":
			req := &protoobject.HeadRequest{Body: &protoobject.HeadRequest_Body{Address: addr}, MetaHeader: mh}
			if reqSigner != nil {
				req.VerifyHeader, err = neofscrypto.SignRequestWithBuffer(reqSigner.signer(r.Intn(3)), req, nil)
				must(err)
			}
			info, err = w.svc.HeadRequestToInfo(ctx, req, c.cnr, tokens)
			msg = req
		case "delete":
			req := &protoobject.DeleteRequest{Body: &protoobject.DeleteRequest_Body{Address: addr}, MetaHeader: mh}
			if reqSigner != nil {
				req.VerifyHeader, err = neofscrypto.SignRequestWithBuffer(reqSigner.signer(r.Intn(3)), req, nil)
				must(err)
			}
			info, err = w.svc.DeleteRequestToInfo(ctx, req, c.cnr, tokens)
			msg = req
		case "range", "hash":
			req := &protoobject.GetRangeRequest{Body: &protoobject.GetRangeRequest_Body{Address: addr, Range: &protoobject.Range{Length: 1}}, MetaHeader: mh}
			if reqSigner != nil {
				req.VerifyHeader, err = neofscrypto.SignRequestWithBuffer(reqSigner.signer(r.Intn(3)), req, nil)
				must(err)
			}
			info, err = w.svc.RangeRequestToInfo(ctx, req, c.cnr, tokens)
			if in.Op == "hash" && err == nil {
				// GetRangeHash is no longer served by the object server; the checkers still know the
				// operation, so it is driven directly: request info of a range request, operation replaced.
				info.Operation = acl.OpObjectHash
			}
			msg = req
		case "search":
			req := &protoobject.SearchV2Request{Body: &protoobject.SearchV2Request_Body{ContainerId: c.cnr.ProtoMessage()}, MetaHeader: mh}
			if reqSigner != nil {
				req.VerifyHeader, err = neofscrypto.SignRequestWithBuffer(reqSigner.signer(r.Intn(3)), req, nil)
				must(err)
			}
			info, err = w.svc.SearchV2RequestToInfo(ctx, req, c.cnr, tokens)
			msg = req
		case "put":
			ver := version.Current()
			hdr := &protoobject.Header{
				Version:       ver.ProtoMessage(),
				ContainerId:   c.cnr.ProtoMessage(),
				OwnerId:       c.objOwner.ProtoMessage(),
				PayloadLength: 5,
				CreationEpoch: 7,
				Attributes:    []*protoobject.Header_Attribute{{Key: "Color", Value: "red"}, {Key: "Num", Value: "10"}},
			}
			if in.Tomb {
				hdr.ObjectType = protoobject.ObjectType_TOMBSTONE
			}
			if in.Split {
				sid := uuid.New()
				hdr.Split = &protoobject.Header_Split{SplitId: sid[:]}
			}
			init := &protoobject.PutRequest_Body_Init{ObjectId: c.obj.ProtoMessage(), Header: hdr}
			req := &protoobject.PutRequest{Body: &protoobject.PutRequest_Body{ObjectPart: &protoobject.PutRequest_Body_Init_{Init: init}}, MetaHeader: mh}
			if reqSigner != nil {
				req.VerifyHeader, err = neofscrypto.SignRequestWithBuffer(reqSigner.signer(r.Intn(3)), req, nil)
				must(err)
			}
			op := acl.OpObjectPut
			if in.Tomb {
				op = acl.OpObjectDelete
			}
			var objOwner user.ID
			info, objOwner, err = w.svc.PutRequestToInfo(ctx, req, init, c.cnr, op, tokens)
			if err != nil {
				if errors.Is(err, aclsvc.ErrSkipRequest) {
					return out("skip", "PutRequestToInfo: skip")
				}
				return out("deny", "PutRequestToInfo: "+err.Error())
			}
			if !w.chk.CheckBasicACL(info) {
				return out("deny", "basic ACL")
			}
			if !w.chk.StickyBitCheck(info, objOwner) {
				return out("deny", "sticky bit")
			}
			msg = req
		default:
			panic("op " + in.Op)
		}
		if in.Op != "put" {
			if err != nil {
				return out("deny", "RequestToInfo: "+err.Error())
			}
			if !w.chk.CheckBasicACL(info) {
				return out("deny", "basic ACL")
			}
		}
		eobj := c.obj
		if in.Op == "search" {
			eobj = oid.ID{}
		}
		err = w.chk.CheckEACL(ctx, msg, c.cnr, eobj, info)
		if err != nil && !errors.Is(err, aclsvc.ErrNotMatched) {
			return out("deny", "eACL: "+err.Error())
		}
		if err != nil {
			return out("allow", "eACL not matched -> basic ACL")
		}
		return out("allow", "served")
	}

	o1, d1 := exec()
	steps := []c28Step{{in: in, out: o1, desc: d1}}
	if hist {
		if !in.Bearer.Present || !in.Bearer.Valid {
			panic("history class needs a valid bearer token")
		}
		n := 2 + r.Intn(2) // bearer exp = epoch+1: after n >= 2 new-epoch events it has expired
		for range n {
			e.epoch++
			w.reset() // the node's new-epoch handlers: real ResetTokenCheckCache + sessions cache reset
		}
		in2 := in
		in2.Bearer.Valid = false
		o2, d2 := exec()
		d2["history"] = fmt.Sprintf("same request and bearer token bytes again after %d new-epoch events (epoch now past exp); first verdict %s", n, o1.V)
		steps = append(steps, c28Step{in: in2, out: o2, desc: d2})
	}
	return steps
}

// ---------------------------------------------------------------- generator of abstract inputs

func randRecs(r *rand.Rand, maxN int, nohdrOK bool) []recAbs {
	n := r.Intn(maxN + 1)
	rs := make([]recAbs, 0, n)
	for range n {
		ra := recAbs{Act: pick(r, "allow", "deny"), Opm: r.Intn(4) != 0, Tgt: r.Intn(4) != 0}
		k := r.Intn(10)
		switch {
		case k < 5:
			ra.Flt = "match"
		case k < 8 || !nohdrOK:
			ra.Flt = "nomatch"
		default:
			ra.Flt = "nohdr"
		}
		rs = append(rs, ra)
	}
	return rs
}

func genC28(outPath string) {
	r := kit.Rand(28)
	w := newC28World(r)
	defer w.close()
	out := kit.NewW(outPath)
	defer out.Close()

	draws := 1
	if kit.Thorough() {
		draws = 6
	}
	type variant struct {
		op                       string
		tomb, ttl1, split, srvIn bool
	}
	var variants []variant
	for _, op := range opNames {
		if op != "put" {
			variants = append(variants, variant{op: op})
		}
	}
	for _, tomb := range []bool{false, true} {
		for _, ttl1 := range []bool{false, true} {
			variants = append(variants, variant{op: "put", tomb: tomb, ttl1: ttl1, srvIn: true})
		}
	}
	idx, nValid := 0, 0
	emit := func(in c28In, stored bool) {
		// the realisation of an abstract input draws from its own generator, so that a single
		// record can be re-realised by `c28replay`
		// Every third case carrying a valid bearer token becomes a two-step history (token expires by
		// new-epoch events between the steps).
		hist := in.Bearer.Present && in.Bearer.Valid && nValid%3 == 0
		if in.Bearer.Present && in.Bearer.Valid {
			nValid++
		}
		ridx := idx
		for k, st := range w.runSteps(kit.Rand(int64(2800000+ridx)), in, stored, hist) {
			h := 0
			if hist {
				h = k + 1
			}
			out.Emit(c28Rec{In: st.in, Out: st.out, Desc: st.desc, Idx: idx, Stored: stored, Hist: h, Ridx: ridx})
			idx++
		}
	}
	for _, v := range variants {
		for flags := range 8 {
			isOwner, inIR, inCnr := flags&1 != 0, flags&2 != 0, flags&4 != 0
			for bits := range 16 {
				for fs := range 4 {
					in0 := c28In{Op: v.op, Tomb: v.tomb, Ttl1: v.ttl1, Split: v.split, SrvIn: v.srvIn,
						IsOwner: isOwner, InIR: inIR, InCnr: inCnr, Fin: fs&1 != 0, Sticky: fs&2 != 0}
					eff := effOpOf(in0)
					role := roleOf(in0)
					// does the case reach the eACL stage for some completion? then draw more
					n := draws
					if !in0.Fin && (role == "owner" || role == "others") {
						n = draws * 2
					}
					for range n {
						in := in0
						in.ACL = map[string]aclBits{}
						for _, name := range opNames {
							x := r.Intn(16)
							in.ACL[name] = aclBits{O: x&8 != 0, C: x&4 != 0, T: x&2 != 0, B: x&1 != 0}
						}
						in.ACL[eff] = aclBits{O: bits&8 != 0, C: bits&4 != 0, T: bits&2 != 0, B: bits&1 != 0}
						in.OwnerMatch = r.Intn(2) == 0
						in.Cred = pick(r, "sig", "sig", "v1", "v2", "peer")
						if v.op == "put" {
							switch r.Intn(8) {
							case 0:
								in.Split, in.SrvIn = true, false // -> skip
							case 1:
								in.Split, in.SrvIn = true, true
							case 2:
								in.Split, in.SrvIn = false, false
							}
						}
						if in.Cred == "peer" {
							if v.op == "put" && !v.ttl1 {
								in.Cred = "sig"
							} else {
								in.Ttl1 = true
							}
						} else if v.op != "put" {
							in.Ttl1 = r.Intn(2) == 0
						}
						stored := (v.op == "get" || v.op == "head") && r.Intn(2) == 0
						nohdrOK := (v.op == "get" || v.op == "head") && !stored
						in.Ctab = tabAbs{Present: r.Intn(5) != 0, Recs: []recAbs{}}
						if in.Ctab.Present {
							in.Ctab.Recs = randRecs(r, 3, nohdrOK)
						}
						in.Bearer = bearerAbs{Cnr: "unset", Usr: "unset", Recs: []recAbs{}}
						if r.Intn(2) == 0 {
							bb := bearerAbs{Present: true, Valid: true, IssuerOwner: true, Recs: randRecs(r, 3, nohdrOK)}
							bb.Cnr = pick(r, "unset", "same", "same")
							bb.Usr = pick(r, "unset", "same", "same")
							switch r.Intn(8) { // one defect at most of the time, sometimes several
							case 0:
								bb.Valid = false
							case 1:
								bb.IssuerOwner = false
							case 2:
								bb.Cnr = "other"
							case 3:
								bb.Usr = "other"
							case 4:
								bb.IssuerOwner, bb.Cnr, bb.Usr = r.Intn(2) == 0, pick(r, "unset", "same", "other"), pick(r, "unset", "same", "other")
							}
							in.Bearer = bb
						}
						emit(in, stored)
					}
				}
			}
		}
	}
	fmt.Println("records", idx)
}

// replayC28 re-realises the abstract inputs of the given records (fresh keys, same realisation
// choices) and runs the real pipeline again.
func replayC28(inPath, outPath string) {
	recs := kit.ReadNDJSON[c28Rec](inPath)
	w := newC28World(kit.Rand(28))
	defer w.close()
	out := kit.NewW(outPath)
	defer out.Close()
	for _, rc := range recs {
		in := rc.In
		if rc.Hist == 2 {
			in.Bearer.Valid = true // the history starts with the token still valid
		}
		steps := w.runSteps(kit.Rand(int64(2800000+rc.Ridx)), in, rc.Stored, rc.Hist != 0)
		st := steps[0]
		if rc.Hist == 2 {
			st = steps[1]
		}
		out.Emit(c28Rec{In: st.in, Out: st.out, Desc: st.desc, Idx: rc.Idx, Stored: rc.Stored, Hist: rc.Hist, Ridx: rc.Ridx})
	}
}
